---------------------------- MODULE Trace_Preview ----------------------------
(* Trace validation for FzfPreview (C20): sessions of the real interactive fzf under tmux with preview commands that  *)
(* log their own invocation and print MULTI-LINE outputs that name the item on every line.  Every pv.* hook event      *)
(* (projected by lib/preview.py, one NDJSON record per event) must be an enabled step of the previewer protocol of    *)
(* spec/FzfPreview.tla; the rows of the preview window are a STATE VARIABLE (`scr`) that follows printPreview exactly  *)
(* as FzfPreview states it (DisplayFull: every row replaced by the window of the lines from the scroll offset;         *)
(* DisplayAppend: the `unchanged` optimisation repaints the first row only); at quiescence the observations made       *)
(* OUTSIDE fzf - the command's own log, the process table, EVERY ROW of the captured preview window - must be what the *)
(* specification says for the terminal's final state; after the end of the session no preview process may be left.     *)
(*                                                                                                                    *)
(* Events (field ev):                                                                                                 *)
(*   begin   sid texts tmpls kinds talls H W wrap follow tag   new session (state reset); item texts; templates tag -> field  *)
(*                                        codes; what the command does by item index mod Len(kinds) (kind "mute"       *)
(*                                        prints nothing) and how many lines it prints at once by item index mod       *)
(*                                        Len(talls); rows / columns of the preview window; wrap mode                  *)
(*   reload  texts sync rev               Terminal.UpdateList took over the list of a NEW INPUT GENERATION (after       *)
(*                                        reload(CMD) / reload-sync(CMD): first term.list hook event with another major  *)
(*                                        revision): from here on item index i is the line texts[i + 1]                  *)
(*   enq     q item nitems tag during     terminal announces a request (hook BEFORE the try-send and the Set); during  *)
(*                                        = the action being executed, "" when the render loop announces it            *)
(*   sig     immediately sent             outcome of the non-blocking send on killChan (cancel / kill)                 *)
(*   pick    version q item nitems        previewer took a request from the one-slot box (logged after the take)       *)
(*   cstart  version pid                  command started                                                              *)
(*   kill    version immediately          watcher received from killChan                                               *)
(*   ctxdone version                      watcher left through ctx.Done (no kill)                                      *)
(*   cexit   version status               command reaped (EOF on its pipe + Wait + both helper goroutines done)        *)
(*   disp    version nlines head          render loop took a preview result over (and painted it if the window is      *)
(*                                        there); head = first line split at "|" (last field: the line number)         *)
(*   scroll  act                          preview-up / -down / -page-up / -page-down / -half-page-* / -top / -bottom   *)
(*   tp                                   toggle-preview executed          tw    toggle-preview-wrap executed          *)
(*   cpw     hidden H W                   change-preview-window executed: (hidden) = the window goes away and - unlike     *)
(*                                        toggle-preview - t.previewer.lines are KEPT; any other window spec (only sent    *)
(*                                        while the window is hidden that way) = the window is back, H rows x W columns    *)
(*   idle    ms                           the driver saw no previewer event (but repeated displays) for ms >= 1000 ms and   *)
(*                                        POSTed nothing meanwhile (ASSUMPTION: a watcher goroutine started before that      *)
(*                                        has reached its select by then)                                                    *)
(*   quiet   cur q sel visible tag rows nlo procs overlaps log   driver observed quiescence (GET /, /proc, LOG, the     *)
(*                                        H rows of the preview window cut from the captured screen; nlo = number of   *)
(*                                        lines of the last result that is certainly on the screen)                    *)
(*   exit    how status survivors overlaps    fzf has exited (abort / accept / SIGTERM); process groups of preview     *)
(*                                        commands still alive (neither zombie nor with SIGKILL pending)               *)
(* THE LIST IS A FUNCTION OF THE INPUT GENERATION (FzfPreview: gen, LineAt): `gens` holds the item texts of every     *)
(* generation so far, a request belongs to the generation on display when it was announced, and the quiescence         *)
(* condition is stated on the LINE under the cursor - the content the present generation has at that index - not on    *)
(* the index: after a reload the same index is another line, and the command that ran last must be the one for it.     *)
(* Deviations of FzfPreview (findings F6, F18, F24) are accepted only as named steps; a session that reaches its end   *)
(* only with their help is reported with the finding's signature, any other discrepancy is a plain rejection.          *)
(*                                                                                                                    *)
(* Field codes of a template (what the command prints, one field per placeholder): n {n}, s {}, q {q}, pn {+n} joined  *)
(* by ",", pf the lines of {+f} each followed by ",", f the content of {f}.  Line i of the output is the identity      *)
(* line (tag and fields joined by "|") followed by "|i".                                                               *)
EXTENDS Integers, Sequences, FiniteSets, TLC, Json, IOUtils, FzfPreviewTree

CONSTANT DelayedSetsVersion      \* reqPreviewDelayed assigns t.previewer.version (finding F24); <- TreeDelayedSetsVersion of FzfPreviewTree

TraceLog == ndJsonDeserialize(IOEnv.TRACE)
None == [none |-> TRUE]

VARIABLES l, sid, gens, tmpls, kinds, talls, H, W,
          issued,       \* announced requests not yet taken (or overwritten), oldest first
          expectSig,    \* an enq whose try-send has not been logged yet
          reqs,         \* reqs[v] = request taken as version v
          cur,          \* the command in flight: [v, pid, started, exited, kills, ctx] or None
          nsent, nkill, \* successful try-sends / receipts logged
          lastDisp,     \* last display: [v, nlines] or None
          idents,       \* idents[v] = identity line of the output of version v ("" until a line of it was seen)
          vis, wrap,    \* the preview window is there; its wrap mode
          follow, fol,  \* --preview-window follow; t.previewer.following: "disabled" | "paused" | "enabled"
          pver, plv, pn, poff,  \* t.previewer: version; the version whose lines it holds (0: none) and how many; scroll offset
          pd,           \* t.previewed: [ver, n, off, filled] + cv: the version whose lines the rows below the first were painted from
          scr,          \* the H rows of the preview window (without the spinner / scroll indicator drawn over the first one)
          started,      \* commands started so far: [pid, v]
          pvSeq,        \* sequence number of the last event logged by the previewer goroutine itself (pick, cstart, cexit)
          quitSig,      \* outcome of the kill try-send of the exit path as far as logged: none | sent | dropped
          dev, phase    \* phase: run | exited
vars == <<l, sid, gens, tmpls, kinds, talls, H, W, issued, expectSig, reqs, cur, nsent, nkill, lastDisp, idents, vis, wrap, follow, fol, pver, plv, pn, poff,
          pd, scr, started, pvSeq, quitSig, dev, phase>>
geomVars == <<H, W>>
sessVars == <<sid, gens, tmpls, kinds, talls, geomVars, follow>>
winVars == <<idents, vis, wrap, fol, pver, plv, pn, poff, pd, scr>>

NoPd == [ver |-> 0, n |-> 0, off |-> 0, filled |-> FALSE, cv |-> 0]
Init == /\ l = 1 /\ sid = -1 /\ gens = <<>> /\ tmpls = <<>> /\ kinds = <<>> /\ talls = <<>> /\ H = 0 /\ W = 0
        /\ issued = <<>> /\ expectSig = FALSE /\ reqs = <<>> /\ cur = None
        /\ nsent = 0 /\ nkill = 0 /\ lastDisp = None /\ idents = <<>> /\ vis = TRUE /\ wrap = FALSE /\ follow = FALSE /\ fol = "disabled" /\ pver = 0 /\ plv = 0 /\ pn = 0 /\ poff = 0
        /\ pd = NoPd /\ scr = <<>>
        /\ started = <<>> /\ pvSeq = 0 /\ quitSig = "none" /\ dev = {} /\ phase = "run"

Ev == TraceLog[l]
(* resumableState: Force(flag); Set(flag) has no effect while following is disabled *)
Forced(flag) == IF flag THEN "enabled" ELSE "disabled"
FolSet(f, flag) == IF f = "disabled" THEN f ELSE IF flag THEN "enabled" ELSE "paused"
Is(name) == l <= Len(TraceLog) /\ Ev.ev = name /\ l' = l + 1

TBegin == /\ Is("begin")
          /\ sid' = Ev.sid /\ gens' = <<Ev.texts>> /\ tmpls' = Ev.tmpls /\ kinds' = Ev.kinds /\ talls' = Ev.talls /\ H' = Ev.H /\ W' = Ev.W
          /\ issued' = <<>> /\ expectSig' = FALSE /\ reqs' = <<>> /\ cur' = None /\ nsent' = 0 /\ nkill' = 0 /\ lastDisp' = None
          /\ idents' = <<>> /\ vis' = TRUE /\ wrap' = Ev.wrap /\ follow' = Ev.follow /\ fol' = Forced(Ev.follow) /\ pver' = 0 /\ plv' = 0 /\ pn' = 0 /\ poff' = 0
          /\ pd' = NoPd /\ scr' = [r \in 1..Ev.H |-> ""]
          /\ started' = <<>> /\ pvSeq' = 0 /\ quitSig' = "none" /\ dev' = {} /\ phase' = "run"

-------------------------------------------------------------------------------
(* what the placeholders of a template evaluate to - documented semantics of {n} {} {q} {+n} {+f} {f} (man fzf)   *)
NoItem(i) == i < 0
KindOf(i) == kinds[((IF NoItem(i) THEN 0 ELSE i) % Len(kinds)) + 1]
Mute(i) == KindOf(i) = "mute"                                    \* the command for this line prints nothing
(* the number of lines the command prints at once, and in the end *)
HeadN(i) == IF Mute(i) THEN 0 ELSE talls[((IF NoItem(i) THEN 0 ELSE i) % Len(talls)) + 1]
NLinesOK(i, n) == CASE KindOf(i) = "ticking" -> n >= HeadN(i)                      \* one more line every 250 ms, for ever
                    [] KindOf(i) = "incrlong" -> n \in HeadN(i)..(HeadN(i) + 2)     \* two more lines, then it hangs
                    [] KindOf(i) = "incr" -> n = HeadN(i) + 3                       \* three more lines, then it ends
                    [] OTHER -> n = HeadN(i)
NStr(i) == IF NoItem(i) THEN "" ELSE ToString(i)
Gen == Len(gens) - 1                                             \* the input generation on display (0: the initial input)
TextOf(g, i) == IF NoItem(i) THEN "" ELSE IF i + 1 > Len(gens[g + 1]) THEN "?no such line?" ELSE gens[g + 1][i + 1]
Plus(st) == IF st.sel = <<>> THEN <<st.item>> ELSE st.sel        \* {+}: the selection, or the current line if there is none
RECURSIVE JoinN(_)
JoinN(s) == IF s = <<>> THEN "" ELSE IF Len(s) = 1 THEN NStr(s[1]) ELSE NStr(s[1]) \o "," \o JoinN(Tail(s))
RECURSIVE JoinF(_, _)
JoinF(g, s) == IF s = <<>> THEN "" ELSE TextOf(g, s[1]) \o "," \o JoinF(g, Tail(s))
(* st: terminal state [gen, item, q, sel] - the line is TextOf(st.gen, st.item) *)
Field(code, st) == CASE code = "n" -> NStr(st.item) [] code = "s" -> TextOf(st.gen, st.item) [] code = "q" -> st.q
                     [] code = "pn" -> JoinN(Plus(st)) [] code = "pf" -> JoinF(st.gen, Plus(st)) [] code = "f" -> TextOf(st.gen, st.item)
Codes(tag) == tmpls[tag]
HasCode(tag, c) == \E k \in 1..Len(Codes(tag)) : Codes(tag)[k] = c
(* the identity line a command prints (and logs) for terminal state st: the tag, then one field per placeholder *)
Expected(tag, st) == <<tag>> \o [k \in 1..Len(Codes(tag)) |-> Field(Codes(tag)[k], st)]
RECURSIVE JoinBar(_)
JoinBar(s) == IF s = <<>> THEN "" ELSE IF Len(s) = 1 THEN s[1] ELSE s[1] \o "|" \o JoinBar(Tail(s))
(* what can be said about the output of an intermediate command from the request alone: the fields that depend on  *)
(* the focused line and the query only                                                                              *)
AgreesWithRequest(vals, r) ==
    /\ Len(vals) = Len(Codes(r.tag)) + 1 /\ vals[1] = r.tag
    /\ \A k \in 1..Len(Codes(r.tag)) :
          LET c == Codes(r.tag)[k] IN
          /\ (c \in {"n", "s", "f"} => vals[k + 1] = Field(c, [gen |-> r.gen, item |-> r.item, q |-> r.q, sel |-> <<>>]))
          /\ (c = "q" => vals[k + 1] = r.q)

-------------------------------------------------------------------------------
(* The rows of the window (renderPreviewText on tui.LightWindow; texts are plain ASCII, one cell per character).    *)
Min(a, b) == IF a < b THEN a ELSE b
Max(a, b) == IF a > b THEN a ELSE b
Spaces == "                                                                                                                                                                                                        "
Pad(s, w) == IF Len(s) >= w THEN SubSeq(s, 1, w) ELSE s \o SubSeq(Spaces, 1, w - Len(s))       \* exactly w cells
(* line i of the output whose identity line is id *)
LineOf(id, i) == id \o "|" \o ToString(i)
(* the rows one line takes: without wrap it is cut at the right edge; with wrap the first row holds W cells, every   *)
(* further row starts with the wrap sign ("> " under --no-unicode) and holds W - 2 more                               *)
RECURSIVE Cont(_, _)
Cont(s, w) == IF Len(s) <= w - 2 THEN <<"> " \o s>> ELSE <<"> " \o SubSeq(s, 1, w - 2)>> \o Cont(SubSeq(s, w - 1, Len(s)), w)
Chunks(s, w, wr) == IF Len(s) <= w THEN <<s>> ELSE IF ~wr THEN <<SubSeq(s, 1, w)>> ELSE <<SubSeq(s, 1, w)>> \o Cont(SubSeq(s, w + 1, Len(s)), w)
(* the rows the lines off+1 .. n take, as far as the window needs them (one more than fits tells that it is full) *)
RECURSIVE Collect(_, _, _, _, _, _, _)
Collect(id, i, n, acc, h, w, wr) == IF Len(acc) >= h \/ i > n THEN acc ELSE Collect(id, i + 1, n, acc \o Chunks(LineOf(id, i), w, wr), h, w, wr)
(* DisplayFull: every row of the window; rows beyond the output are empty.  filled: the lines reach the last row *)
FullRows(id, n, off, h, w, wr) == LET c == Collect(id, off + 1, n, <<>>, h, w, wr) IN [r \in 1..h |-> IF r <= Len(c) THEN c[r] ELSE ""]
Fills(id, n, off, h, w, wr) == Len(Collect(id, off + 1, n, <<>>, h, w, wr)) >= h
(* DisplayAppend: the first row is cleared and the first line is drawn again (a wrapped line runs on into the next   *)
(* rows: they are overwritten from the left, the last of them is not cleared behind the text)                        *)
Over(new, old) == IF Len(new) >= Len(old) THEN new ELSE new \o SubSeq(old, Len(new) + 1, Len(old))
FirstRows(rows, id, n, off, h, w, wr) ==
    IF off >= n THEN [rows EXCEPT ![1] = ""]
    ELSE LET c == Chunks(LineOf(id, off + 1), w, wr)
             k == Min(Len(c), h)
         IN [r \in 1..h |-> IF r > k THEN rows[r] ELSE IF r = 1 \/ r < k THEN c[r] ELSE Over(c[r], rows[r])]
IdOf(v) == IF v = 0 THEN "" ELSE idents[v]
(* printPreview with t.previewer.version = pv and the first n lines of the output of version lv at offset off *)
UnchangedFor(pv, n, off) == (pd.filled \/ n = pd.n) /\ pv = pd.ver /\ off = pd.off
PaintScr(ids, pv, lv, n, off) ==
    LET id == IF lv = 0 THEN "" ELSE ids[lv] IN
    IF UnchangedFor(pv, n, off) THEN FirstRows(scr, id, n, off, H, W, wrap) ELSE FullRows(id, n, off, H, W, wrap)
PaintPd(ids, pv, lv, n, off) ==
    LET id == IF lv = 0 THEN "" ELSE ids[lv] IN
    IF UnchangedFor(pv, n, off) THEN [pd EXCEPT !.n = n]
    ELSE [ver |-> pv, n |-> n, off |-> off, filled |-> Fills(id, n, off, H, W, wrap), cv |-> lv]
(* the optimisation taken for lines of another command than the one the rows were painted from: deviation StaleRows *)
PaintDev(pv, lv, n, off) == IF UnchangedFor(pv, n, off) /\ pd.cv # lv /\ H > 1 THEN {"StaleRows"} ELSE {}

-------------------------------------------------------------------------------
Req(e) == [q |-> e.q, item |-> e.item, nitems |-> e.nitems]
SameReq(r, e) == r.q = e.q /\ r.item = e.item /\ r.nitems = e.nitems
InFlight == cur # None /\ ~cur.exited

(* refreshPreview / toggle-preview: the announcement precedes the try-send, which precedes the Set.  All of them    *)
(* happen under t.mutex, so request k is overwritten in the one-slot box before request k+2 is announced: while a    *)
(* command is in flight (the previewer will not look into the box before it is reaped) only the last two matter.     *)
TEnq == /\ Is("enq") /\ phase = "run" /\ ~expectSig
        /\ LET a == Append(issued, [q |-> Ev.q, item |-> Ev.item, nitems |-> Ev.nitems, tag |-> Ev.tag, seq |-> Ev.seq, during |-> Ev.during,
                                    gen |-> Gen])
           IN issued' = IF InFlight /\ Len(a) > 2 THEN SubSeq(a, Len(a) - 1, Len(a)) ELSE a
        /\ expectSig' = TRUE
        /\ UNCHANGED <<sessVars, reqs, cur, nsent, nkill, lastDisp, winVars, started, pvSeq, quitSig, dev, phase>>

(* the try-send: taken (a watcher was in its select) or dropped.  A drop while a command is in flight is where the  *)
(* deviations LostCancel / LostKillAtExit of FzfPreview can have happened: both readings are tried, the deviation    *)
(* counts only if no deviation-free reading of the whole session is accepted.                                        *)
TSig == /\ Is("sig") /\ phase = "run"
        /\ expectSig' = FALSE
        /\ quitSig' = (IF Ev.immediately THEN (IF Ev.sent THEN "sent" ELSE "dropped") ELSE quitSig)
        /\ (Ev.immediately => quitSig = "none")                 \* killPreview is called once
        /\ IF Ev.sent
           THEN nsent' = nsent + 1 /\ UNCHANGED dev
           ELSE /\ UNCHANGED nsent
                /\ \/ UNCHANGED dev
                   \/ /\ InFlight /\ (Ev.immediately \/ cur.kills = 0)     \* a command is being started / runs unsignalled
                      /\ ~(cur.watching /\ cur.kills = 0)                    \* ... and its watcher may still be on its way to the select
                      /\ dev' = dev \cup {IF Ev.immediately THEN "LostKillAtExit" ELSE "LostCancel"}
        /\ UNCHANGED <<sessVars, issued, reqs, cur, nkill, lastDisp, winVars, started, pvSeq, phase>>

(* Long after the start of a command (TIdle) its watcher sits in its select - and stays there until it has received  *)
(* a signal or the PROCESS is gone (cmd.Wait has returned), whether or not the command's output has ended: a command  *)
(* that closed its stdout / stderr and keeps running (kind `closed`) is as cancellable as any other.  A try-send       *)
(* dropped in that state is therefore no LostCancel / LostKillAtExit (both are about the short windows around the     *)
(* start and the previewCancelWait delay): the harmless reading (the process just ended by itself, its reaping is    *)
(* not logged yet) remains, and the quiescence condition decides.                                                      *)
TIdle == /\ Is("idle") /\ phase = "run" /\ Ev.ms >= 1000
         /\ cur' = IF cur # None /\ cur.started THEN [cur EXCEPT !.watching = TRUE] ELSE cur
         /\ UNCHANGED <<sessVars, issued, expectSig, reqs, nsent, nkill, lastDisp, winVars, started, pvSeq, quitSig, dev, phase>>

(* the previewer is sequential: it takes the next request only after the previous command was reaped; it takes one  *)
(* of the announced requests, never one older than what it took before; versions count up by one.  Taking a request *)
(* that is already superseded by a later announcement is where LostCancel can have happened as well.                 *)
Free == IF cur = None THEN TRUE ELSE (cur.exited \/ ~cur.started)                \* (a command that failed to start has no exit)
TPick == /\ Is("pick") /\ phase = "run" /\ Free
         /\ Ev.version = Len(reqs) + 1
         /\ \E i \in 1..Len(issued) :
              /\ SameReq(issued[i], Ev)
              /\ (i + 2 <= Len(issued) => issued[i + 2].seq > pvSeq)     \* else it was overwritten before the previewer looked
              /\ reqs' = Append(reqs, issued[i])
              /\ issued' = SubSeq(issued, i + 1, Len(issued))
              /\ \/ UNCHANGED dev
                 \/ i < Len(issued) /\ dev' = dev \cup {"LostCancel"}
         /\ cur' = IF Ev.item = -1 THEN None          \* no current line and nothing forces an update: blank preview, no command
                   ELSE [v |-> Ev.version, pid |-> 0, started |-> FALSE, exited |-> FALSE, kills |-> 0, kimm |-> FALSE, ctx |-> FALSE, watching |-> FALSE]
         /\ pvSeq' = Ev.seq
         /\ idents' = Append(idents, "")
         /\ UNCHANGED <<sessVars, expectSig, nsent, nkill, lastDisp, vis, wrap, fol, pver, plv, pn, poff, pd, scr, started, quitSig, phase>>

TStart == /\ Is("cstart") /\ phase = "run" /\ InFlight /\ ~cur.started /\ cur.v = Ev.version
          /\ cur' = [cur EXCEPT !.started = TRUE, !.pid = Ev.pid]
          /\ started' = Append(started, [pid |-> Ev.pid, v |-> Ev.version])
          /\ pvSeq' = Ev.seq
          /\ UNCHANGED <<sessVars, issued, expectSig, reqs, nsent, nkill, lastDisp, winVars, quitSig, dev, phase>>

(* the watcher leaves its select after one receipt *)
TKill == /\ Is("kill") /\ phase = "run" /\ InFlight /\ cur.started /\ cur.v = Ev.version /\ cur.kills = 0 /\ ~cur.ctx
         /\ cur' = [cur EXCEPT !.kills = 1, !.kimm = Ev.immediately] /\ nkill' = nkill + 1
         /\ UNCHANGED <<sessVars, issued, expectSig, reqs, nsent, lastDisp, winVars, started, pvSeq, quitSig, dev, phase>>
(* cancel() comes after killPreview() on the exit path: a watcher can see ctx.Done only after the kill was attempted *)
TCtx == /\ Is("ctxdone") /\ phase = "run" /\ InFlight /\ cur.started /\ cur.v = Ev.version /\ cur.kills = 0 /\ ~cur.ctx
        /\ quitSig # "none"
        /\ cur' = [cur EXCEPT !.ctx = TRUE]
        /\ UNCHANGED <<sessVars, issued, expectSig, reqs, nsent, nkill, lastDisp, winVars, started, pvSeq, quitSig, dev, phase>>
(* nobody but the watcher kills the command: without a receipt it ends by itself, with status 0 *)
TCExit == /\ Is("cexit") /\ phase = "run" /\ InFlight /\ cur.started /\ cur.v = Ev.version
          /\ (cur.kills = 0 => Ev.status = 0)
          /\ cur' = [cur EXCEPT !.exited = TRUE]
          /\ pvSeq' = Ev.seq
          /\ UNCHANGED <<sessVars, issued, expectSig, reqs, nsent, nkill, lastDisp, winVars, started, quitSig, dev, phase>>

(* Results arrive in version order and are output of a command that was really started for that version; the       *)
(* fields that depend on the focused line and the query are those of the request taken as that version.  The FIRST  *)
(* result of a command resets the scroll offset (LostOffsetReset of FzfPreview: it was overwritten in the one-slot  *)
(* box by a later result of the same command before the render loop saw it).  Then printPreview.                    *)
Front(s) == SubSeq(s, 1, Len(s) - 1)
TDisp == /\ Is("disp") /\ phase = "run"
         /\ Ev.version \in 1..Len(reqs)
         /\ (lastDisp # None => Ev.version >= lastDisp.v)
         /\ (Ev.nlines > 0 => Ev.head[Len(Ev.head)] = "1" /\ AgreesWithRequest(Front(Ev.head), reqs[Ev.version]))
         /\ lastDisp' = [v |-> Ev.version, nlines |-> Ev.nlines]
         /\ LET v == Ev.version
                ids == IF Ev.nlines > 0 THEN [idents EXCEPT ![v] = JoinBar(Front(Ev.head))] ELSE idents
                first == lastDisp = None \/ lastDisp.v # v
            IN /\ (Ev.nlines > 0 /\ idents[v] # "" => idents[v] = JoinBar(Front(Ev.head)))          \* one command, one identity
               /\ idents' = ids /\ pver' = v /\ plv' = (IF Ev.nlines > 0 THEN v ELSE 0) /\ pn' = Ev.nlines
               (* --preview-window follow (man fzf: "automatically scroll to the bottom").  CODE-DERIVED: a result of    *)
               (* another version than t.previewer.version forces `following` back to the option and, when enabled,    *)
               (* restarts the offset from 0; then, with a window and following enabled, EVERY result moves the offset *)
               (* to Max(offset, lines - rows): the last H lines; all of an output shorter than the window from 0.     *)
               /\ \E newver \in {pver # v} \cup (IF DelayedSetsVersion THEN {first} ELSE {}) :
                    LET f == IF newver THEN Forced(follow) ELSE fol
                        base == IF newver /\ f = "enabled" THEN 0 ELSE poff
                    IN /\ fol' = f
                       /\ \E off \in (IF vis /\ f = "enabled" THEN {Max(base, Ev.nlines - H)} ELSE {IF first THEN 0 ELSE base, base}) :
                            /\ poff' = off
                            /\ LET lost == IF first /\ off # 0 /\ ~(vis /\ f = "enabled") THEN {"LostOffsetReset"} ELSE {} IN
                               IF vis THEN /\ scr' = PaintScr(ids, v, plv', Ev.nlines, off) /\ pd' = PaintPd(ids, v, plv', Ev.nlines, off)
                                           /\ dev' = dev \cup PaintDev(v, plv', Ev.nlines, off) \cup lost
                                      ELSE /\ UNCHANGED <<scr, pd>>
                                           /\ dev' = dev \cup lost
         /\ UNCHANGED <<sessVars, issued, expectSig, reqs, cur, nsent, nkill, vis, wrap, started, pvSeq, quitSig, phase>>

(* reqPreviewDelayed is not logged: once a command has been started, t.previewer.version may have become its version *)
(* at any later moment (previewDelayed after the start, if the watcher still sat in its select).  It matters when     *)
(* printPreview runs on the lines the previewer still holds: both readings are tried.                                 *)
VersionsNow == {pver} \cup (IF DelayedSetsVersion /\ cur # None /\ cur.started /\ cur.v > pver THEN {cur.v} ELSE {})
Repaint(pv) == /\ pver' = pv
               /\ scr' = PaintScr(idents, pv, plv, pn, poff') /\ pd' = PaintPd(idents, pv, plv, pn, poff')
               /\ dev' = dev \cup PaintDev(pv, plv, pn, poff')
(* preview-up / -down / ...: scrollPreviewTo (no effect unless t.previewer.scrollable), then reqPreviewRefresh.        *)
(* CODE-DERIVED: scrollable is set whenever more lines than rows are held or the offset is not 0, reset by            *)
(* "Loading ..", and ALSO set when the same lines are displayed a second time (renderPreviewText leaves its loop at   *)
(* the first line with lines remaining) - so only the first condition, with no command started since, is relied on.   *)
Constrain(x, lo, hi) == Max(Min(x, hi), lo)
Target(act) == CASE act = "preview-down" -> poff + 1 [] act = "preview-up" -> poff - 1
                 [] act = "preview-page-down" -> poff + H [] act = "preview-page-up" -> poff - H
                 [] act = "preview-half-page-down" -> poff + (H \div 2) [] act = "preview-half-page-up" -> poff - (H \div 2)
                 [] act = "preview-top" -> 0 [] act = "preview-bottom" -> pn - H
SurelyScrollable == (pn > H \/ poff > 0) /\ (cur = None \/ ~cur.started \/ (lastDisp # None /\ lastDisp.v = cur.v))
TScroll == /\ Is("scroll") /\ phase = "run"
           /\ LET new == Constrain(Target(Ev.act), 0, pn - 1) IN
              \/ /\ (~vis \/ ~SurelyScrollable \/ new = poff)                  \* no window / not scrollable / already there
                 /\ UNCHANGED <<pver, poff, pd, scr, dev, fol>>
              \/ /\ vis /\ new # poff /\ poff' = new
                 /\ fol' = FolSet(fol, new >= pn - H)          \* scrolled away from the end: following pauses; back to it: resumes
                 /\ \E pv \in VersionsNow : Repaint(pv)
           /\ UNCHANGED <<sessVars, issued, expectSig, reqs, cur, nsent, nkill, lastDisp, idents, vis, wrap, plv, pn, started, pvSeq, quitSig, phase>>
(* toggle-preview-wrap: t.previewed.version = 0, reqPreviewRefresh (the guard in printPreview uses pd, so it is     *)
(* updated first)                                                                                                    *)
TWrap == /\ Is("tw") /\ phase = "run"
         /\ IF vis
            THEN /\ wrap' = ~wrap /\ poff' = poff
                 /\ \E pv \in VersionsNow :
                      /\ pver' = pv
                      /\ scr' = FullRows(IdOf(plv), pn, poff, H, W, ~wrap)
                      /\ pd' = [ver |-> pv, n |-> pn, off |-> poff, filled |-> Fills(IdOf(plv), pn, poff, H, W, ~wrap), cv |-> plv]
                 /\ UNCHANGED dev
            ELSE UNCHANGED <<wrap, pver, poff, pd, scr, dev>>
         /\ UNCHANGED <<sessVars, issued, expectSig, reqs, cur, nsent, nkill, lastDisp, idents, vis, fol, plv, pn, started, pvSeq, quitSig, phase>>
(* toggle-preview: the windows are laid out again (empty window, t.previewed.version = 0); hiding drops the lines *)
TToggle == /\ Is("tp") /\ phase = "run"
           /\ vis' = ~vis /\ scr' = [r \in 1..H |-> ""] /\ pd' = [pd EXCEPT !.ver = 0]
           /\ IF vis THEN plv' = 0 /\ pn' = 0 ELSE UNCHANGED <<plv, pn>>
           /\ UNCHANGED <<sessVars, issued, expectSig, reqs, cur, nsent, nkill, lastDisp, idents, wrap, fol, pver, poff, started, pvSeq, quitSig, dev, phase>>

(* change-preview-window: the SECOND way of hiding.  (hidden): the window goes away, the running command is cancelled *)
(* (the try-send is logged as `sig`), t.previewer.lines are KEPT; any other spec while hidden that way: the window is  *)
(* back (laid out again: H x W as given, empty, t.previewed.version = 0) and - THE RULE - the preview is restarted    *)
(* for the line under the cursor NOW: the action announces a request (`enq` follows), whatever lines are still held;   *)
(* the quiescence condition then demands the command for the present state.  CODE-DERIVED: every change-preview-window *)
(* forces `following` back to the option - and the WRAP MODE: the action rebuilds t.previewOpts from the options the   *)
(* finder was started with (t.initialPreviewOpts) before it applies its argument, so what toggle-preview-wrap had       *)
(* switched is gone (Ev.wrap0 = the session's --preview-window wrap setting; none of the layouts mentions wrap).        *)
TCpw == /\ Is("cpw") /\ phase = "run"
        /\ IF Ev.hidden
           THEN /\ vis /\ vis' = FALSE /\ UNCHANGED geomVars /\ scr' = [r \in 1..H |-> ""]
           ELSE /\ ~vis /\ vis' = TRUE /\ H' = Ev.H /\ W' = Ev.W /\ scr' = [r \in 1..Ev.H |-> ""]
        /\ pd' = [pd EXCEPT !.ver = 0] /\ fol' = Forced(follow)
        /\ wrap' = (IF "wrap0" \in DOMAIN Ev THEN Ev.wrap0 ELSE wrap)        \* (traces recorded before the field existed: as before)
        /\ UNCHANGED <<sid, gens, tmpls, kinds, talls, follow, issued, expectSig, reqs, cur, nsent, nkill, lastDisp, idents, pver, plv, pn, poff, started,
                       pvSeq, quitSig, dev, phase>>

(* Terminal.UpdateList with a revision that is not compatible with the one on display: the items are replaced.  What *)
(* follows from it for the preview (t.version++, reqList, refreshPreview) shows as the `enq` the render loop logs -     *)
(* or does not log: the quiescence condition decides                                                                   *)
TReload == /\ Is("reload") /\ phase = "run"
           /\ gens' = Append(gens, Ev.texts)
           /\ UNCHANGED <<sid, tmpls, kinds, talls, geomVars, follow, issued, expectSig, reqs, cur, nsent, nkill, lastDisp, winVars, started, pvSeq, quitSig, dev, phase>>

-------------------------------------------------------------------------------
(* Quiescence.  e.procs = process groups of preview commands alive in the process table; e.log = the records the    *)
(* commands appended to the session's LOG themselves; e.overlaps = commands that found the session's lock held by   *)
(* another live command when they started; e.rows = the H rows of the preview window on the captured screen.         *)
(* every record in the commands' own log comes from a command fzf started, for the request it had taken, in order *)
LogOK(e) == /\ \A k \in 1..Len(e.log) : \E j \in 1..Len(started) :
                  started[j].pid = e.log[k].pid /\ AgreesWithRequest(e.log[k].vals, reqs[started[j].v])
            /\ \A k \in 1..(Len(e.log) - 1) : \E i, j \in 1..Len(started) :
                  i < j /\ started[i].pid = e.log[k].pid /\ started[j].pid = e.log[k + 1].pid
(* at most one command alive at any time - also when a deviation fired *)
OneAlive(e) == /\ e.overlaps = 0
               /\ Len(e.procs) <= 1
               /\ \A k \in 1..Len(e.procs) : InFlight /\ cur.started /\ e.procs[k] = cur.pid
(* WHAT THE TERMINAL SHOWS IS WHAT printPreview PAINTED: every row below the first is the row of `scr`; the first   *)
(* row is the row of `scr` with - CODE-DERIVED - the spinner of a running command and / or the scroll indicator      *)
(* "offset+1/lines" drawn over its right end (renderPreviewSpinner; the indicator is there whenever the output is   *)
(* taller than the window or scrolled).  While a command still produces output the screen may be one result behind:  *)
(* e.nlo..pn lines.                                                                                                   *)
Spins == {"-", "\\", "|", "/"}
FirstRowOK(row, base, n) ==
    LET info == ToString(poff + 1) \o "/" \o ToString(n)
        must == (n > H \/ poff > 0) /\ pd.ver # 0          \* (pd.ver = 0: the window was laid out again and nothing painted since)
        With(ov) == row = Pad(base, W - Len(ov)) \o ov
    IN \/ ~must /\ row = base
       \/ With(info)
       \/ InFlight /\ \E s \in Spins : (~must /\ With(s)) \/ With(s \o " " \o info)
RowsShow(e, rows, n) == /\ FirstRowOK(e.rows[1], rows[1], n)
                        /\ \A r \in 2..H : e.rows[r] = rows[r]
ScreenMatches(e) ==
    /\ Len(e.rows) = H
    /\ \/ RowsShow(e, scr, pn)
       \/ InFlight /\ \E n \in e.nlo..(pn - 1) : RowsShow(e, FullRows(IdOf(plv), n, poff, H, W, wrap), n)
FinalState(e) == [gen |-> Gen, item |-> e.cur, q |-> e.q, sel |-> e.sel]
LastReq == reqs[Len(reqs)]
SameLine(r, r2) == SameReq(r, r2) /\ r.tag = r2.tag /\ TextOf(r.gen, r.item) = TextOf(r2.gen, r2.item)
NItemsOf(e) == IF e.sel = <<>> THEN 2 ELSE Len(e.sel) + 1
(* the request is the one for the LINE under the cursor: the same content (and the same index: {n}) *)
Right(r, e) == /\ r.tag = e.tag
               /\ r.item = e.cur \/ (NoItem(r.item) /\ NoItem(e.cur))
               /\ TextOf(r.gen, r.item) = TextOf(Gen, e.cur)
               /\ (HasCode(e.tag, "q") => r.q = e.q)
               /\ (HasCode(e.tag, "pn") \/ HasCode(e.tag, "pf") \/ HasCode(e.tag, "q") => r.nitems = NItemsOf(e))
(* CODE-DERIVED (comment in buildPlusList): without a line under the cursor the preview is still run if the template *)
(* contains {q}, or contains {+} and something is selected; otherwise the window is blanked and no command is run       *)
Blank(e) == NoItem(e.cur) /\ ~HasCode(e.tag, "q") /\ ~((HasCode(e.tag, "pn") \/ HasCode(e.tag, "pf")) /\ e.sel # <<>>)
AllBlank == \A r \in 1..H : scr[r] = ""
(* THE PROPERTY, row by row: the window holds the lines of the output of the command for the final state from the   *)
(* scroll offset on, rows beyond the output are empty, and the offset lies inside the output                         *)
ShowsOutput(id, n) == /\ scr = FullRows(id, n, poff, H, W, wrap)
                      /\ poff < n \/ (n = 0 /\ poff = 0)
Served(e) ==
    /\ ~expectSig /\ nkill <= nsent
    /\ reqs # <<>> /\ Right(LastReq, e)
    /\ \A k \in 1..Len(issued) : SameLine(issued[k], LastReq)                                   \* nothing different is waiting
    /\ IF Blank(e)
       THEN (* no line under the cursor, nothing to preview: no command, blank window *)
            /\ cur = None /\ e.procs = <<>> /\ lastDisp # None /\ lastDisp.v = Len(reqs) /\ lastDisp.nlines = 0
       ELSE /\ cur # None /\ cur.v = Len(reqs) /\ cur.started /\ cur.kills = 0
            /\ (cur.exited => e.procs = <<>>)
            /\ lastDisp # None /\ lastDisp.v = Len(reqs)
            /\ (~NoItem(e.cur) =>
                  /\ NLinesOK(e.cur, lastDisp.nlines)                            \* as many lines as the command prints
                  /\ (lastDisp.nlines > 0 => idents[Len(reqs)] = JoinBar(Expected(e.tag, FinalState(e))))   \* what fzf took over
                  /\ e.log # <<>> /\ e.log[Len(e.log)].pid = cur.pid             \* what the command itself logged
                  /\ e.log[Len(e.log)].vals = Expected(e.tag, FinalState(e)))
    /\ pver = Len(reqs) /\ pn = lastDisp.nlines /\ (pn > 0 => plv = Len(reqs))
(* follow (documented: the window scrolls to the bottom of the output): while following is on, the end of the output is in view *)
Follows == fol = "enabled" => poff >= pn - H
CaughtUp(e) == Served(e) /\ ShowsOutput(IdOf(plv), pn) /\ Follows
(* exactly what the deviation StaleRows of FzfPreview leads to: everything is served, the first row is right, rows   *)
(* below it still hold what an earlier paint left there                                                              *)
StaleRowsShown(e) == "StaleRows" \in dev /\ Served(e) /\ ~ShowsOutput(IdOf(plv), pn)
                     /\ scr[1] = FullRows(IdOf(plv), pn, poff, H, W, wrap)[1]
(* exactly what the deviation StaleAfterShow of FzfPreview leads to: the request taken last was announced by a       *)
(* toggle-preview / show-preview action, it was served flawlessly - but it is not the one for the final state and   *)
(* the render loop announced nothing after it                                                                        *)
StaleAfterShowBy(e, acts) ==
    /\ ~expectSig /\ nkill <= nsent
    /\ reqs # <<>> /\ LastReq.during \in acts /\ LastReq.tag = e.tag /\ ~Right(LastReq, e)
    /\ \A k \in 1..Len(issued) : SameLine(issued[k], LastReq)
    /\ cur # None /\ cur.v = Len(reqs) /\ cur.started /\ cur.kills = 0
    /\ (cur.exited => e.procs = <<>>)
    /\ lastDisp # None /\ lastDisp.v = Len(reqs) /\ lastDisp.nlines > 0 /\ plv = Len(reqs) /\ ShowsOutput(IdOf(plv), pn)
    /\ e.log # <<>> /\ e.log[Len(e.log)].pid = cur.pid /\ JoinBar(e.log[Len(e.log)].vals) = IdOf(plv)
StaleAfterShow(e) == StaleAfterShowBy(e, {"toggle-preview", "show-preview"})
(* the same through change-preview-window(SPEC) from hidden: it announces from the action and does not bump t.version  *)
(* (deviation StaleAfterShowKeep of FzfPreview, counterexample MC_Preview_dev_showkeep.cfg; reproduced on the real binary  *)
(* with change-preview-window(hidden), then up+change-preview-window(right)+down in one chain)                           *)
StaleAfterShowKeep(e) == StaleAfterShowBy(e, {"change-preview-window"})
(* exactly what a lost cancel leads to, and nothing else: the command taken last is still in flight and was never   *)
(* signalled, while the right request - the one announced last - waits in the box                                    *)
StuckByLostCancel(e) ==
    /\ "LostCancel" \in dev
    /\ ~expectSig /\ nkill <= nsent
    /\ InFlight /\ cur.kills = 0 /\ cur.v = Len(reqs)
    /\ issued # <<>> /\ Right(issued[Len(issued)], e)
TQuiet == /\ Is("quiet") /\ phase = "run"
          /\ OneAlive(Ev) /\ LogOK(Ev)
          /\ Ev.visible = vis
          /\ (vis => ScreenMatches(Ev))
          /\ \/ (~vis \/ CaughtUp(Ev) \/ StuckByLostCancel(Ev) \/ StaleRowsShown(Ev)) /\ UNCHANGED dev
             \/ vis /\ StaleAfterShow(Ev) /\ dev' = dev \cup {"StaleAfterShow"}
             \/ vis /\ StaleAfterShowKeep(Ev) /\ dev' = dev \cup {"StaleAfterShowKeep"}
          /\ UNCHANGED <<sessVars, issued, expectSig, reqs, cur, nsent, nkill, lastDisp, winVars, started, pvSeq, quitSig, phase>>

(* End of the session: none survives.  A survivor is explained only by a kill that was dropped (LostKillAtExit), or  *)
(* one that was never attempted / taken by the watcher but not carried out before the process was gone                *)
(* (ExitBeforeKill).  The pv.kill hook sits BEFORE util.KillCommand: an IMMEDIATE kill (only killPreview() on the     *)
(* exit path sends those) may be logged and still not carried out when the process image disappears.  A logged        *)
(* delayed-cancel kill of a superseded command (fzf not exiting) followed by a surviving group is NOT explained.      *)
TExit == /\ Is("exit") /\ phase = "run"
         /\ \/ Ev.survivors = <<>> /\ UNCHANGED dev
            \/ /\ Ev.survivors # <<>> /\ InFlight /\ cur.started /\ Ev.survivors = <<cur.pid>> /\ Ev.overlaps = 0
               /\ \/ quitSig = "dropped" /\ "LostKillAtExit" \in dev /\ UNCHANGED dev
                  \/ quitSig # "dropped" /\ (cur.kills = 0 \/ cur.kimm \/ quitSig = "none") /\ dev' = dev \cup {"ExitBeforeKill"}
            \* (the pv.start hook comes AFTER cmd.Start: the kill was dropped while the command was being started, and the
            \* process image disappeared between the start and its log line - the survivor is that command)
            \/ /\ Len(Ev.survivors) = 1 /\ InFlight /\ ~cur.started /\ Ev.overlaps = 0
               /\ quitSig = "dropped" /\ "LostKillAtExit" \in dev /\ UNCHANGED dev
         /\ phase' = "exited"
         /\ UNCHANGED <<sessVars, issued, expectSig, reqs, cur, nsent, nkill, lastDisp, winVars, started, pvSeq, quitSig>>

Next == TBegin \/ TReload \/ TIdle \/ TCpw \/ TEnq \/ TSig \/ TPick \/ TStart \/ TKill \/ TCtx \/ TCExit \/ TDisp \/ TScroll \/ TWrap \/ TToggle \/ TQuiet \/ TExit
Spec == Init /\ [][Next]_vars

(* reported per session when its end is reached: with or without the help of a deviation action *)
DevSeen == phase = "exited" => PrintT(<<"END", sid, IF dev = {} THEN 0 ELSE 1, dev>>)
=============================================================================
