---------------------------- MODULE Trace_Preview ----------------------------
(* Trace validation for FzfPreview (C20): sessions of the real interactive fzf under tmux with preview commands that  *)
(* log their own invocation.  Every pv.* hook event (projected by lib/preview.py, one NDJSON record per event) must   *)
(* be an enabled step of the previewer protocol of spec/FzfPreview.tla; at quiescence the observations made OUTSIDE   *)
(* fzf - the command's own log, the process table, the captured preview window - must be what the specification says  *)
(* for the terminal's final state; after the end of the session no preview process may be left.                       *)
(*                                                                                                                    *)
(* Events (field ev):                                                                                                 *)
(*   begin   sid texts tmpls kinds tag    new session (state reset); item texts; templates tag -> field codes; what    *)
(*                                        the command does by item index mod Len(kinds) (kind "mute" prints nothing)   *)
(*   enq     q item nitems tag during     terminal announces a request (hook BEFORE the try-send and the Set); during  *)
(*                                        = the action being executed, "" when the render loop announces it            *)
(*   sig     immediately sent             outcome of the non-blocking send on killChan (cancel / kill)                 *)
(*   pick    version q item nitems        previewer took a request from the one-slot box (logged after the take)       *)
(*   cstart  version pid                  command started                                                              *)
(*   kill    version immediately          watcher received from killChan                                               *)
(*   ctxdone version                      watcher left through ctx.Done (no kill)                                      *)
(*   cexit   version status               command reaped (EOF on its pipe + Wait + both helper goroutines done)        *)
(*   disp    version nlines head          render loop put a preview result into the window; head = first line split    *)
(*   quiet   cur q sel visible tag pane procs overlaps log      driver observed quiescence (GET /, /proc, LOG, screen) *)
(*   exit    how status survivors overlaps    fzf has exited (abort / accept / SIGTERM); process groups of preview     *)
(*                                        commands still alive (neither zombie nor with SIGKILL pending)               *)
(* Deviations of FzfPreview (findings F6, F18) are accepted only as named steps; a session that reaches its end only   *)
(* with their help is reported with the finding's signature, any other discrepancy is a plain rejection.               *)
(*                                                                                                                    *)
(* Field codes of a template (what the command prints, one field per placeholder): n {n}, s {}, q {q}, pn {+n} joined  *)
(* by ",", pf the lines of {+f} each followed by ",", f the content of {f}.                                            *)
EXTENDS Integers, Sequences, FiniteSets, TLC, Json, IOUtils

TraceLog == ndJsonDeserialize(IOEnv.TRACE)
None == [none |-> TRUE]

VARIABLES l, sid, texts, tmpls, kinds,
          issued,       \* announced requests not yet taken (or overwritten), oldest first
          expectSig,    \* an enq whose try-send has not been logged yet
          reqs,         \* reqs[v] = request taken as version v
          cur,          \* the command in flight: [v, pid, started, exited, kills, ctx] or None
          nsent, nkill, \* successful try-sends / receipts logged
          lastDisp,     \* last display: [v, nlines, head] or None
          started,      \* commands started so far: [pid, v]
          pvSeq,        \* sequence number of the last event logged by the previewer goroutine itself (pick, cstart, cexit)
          quitSig,      \* outcome of the kill try-send of the exit path as far as logged: none | sent | dropped
          dev, phase    \* phase: run | exited
vars == <<l, sid, texts, tmpls, kinds, issued, expectSig, reqs, cur, nsent, nkill, lastDisp, started, pvSeq, quitSig, dev, phase>>

Init == /\ l = 1 /\ sid = -1 /\ texts = <<>> /\ tmpls = <<>> /\ kinds = <<>> /\ issued = <<>> /\ expectSig = FALSE /\ reqs = <<>> /\ cur = None
        /\ nsent = 0 /\ nkill = 0 /\ lastDisp = None /\ started = <<>> /\ pvSeq = 0 /\ quitSig = "none" /\ dev = {} /\ phase = "run"

Ev == TraceLog[l]
Is(name) == l <= Len(TraceLog) /\ Ev.ev = name /\ l' = l + 1

TBegin == /\ Is("begin")
          /\ sid' = Ev.sid /\ texts' = Ev.texts /\ tmpls' = Ev.tmpls /\ kinds' = Ev.kinds
          /\ issued' = <<>> /\ expectSig' = FALSE /\ reqs' = <<>> /\ cur' = None /\ nsent' = 0 /\ nkill' = 0 /\ lastDisp' = None
          /\ started' = <<>> /\ pvSeq' = 0 /\ quitSig' = "none" /\ dev' = {} /\ phase' = "run"

-------------------------------------------------------------------------------
(* what the placeholders of a template evaluate to - documented semantics of {n} {} {q} {+n} {+f} {f} (man fzf)   *)
NoItem(i) == i < 0
Mute(i) == kinds[((IF NoItem(i) THEN 0 ELSE i) % Len(kinds)) + 1] = "mute"      \* the command for this line prints nothing
NStr(i) == IF NoItem(i) THEN "" ELSE ToString(i)
TextOf(i) == IF NoItem(i) THEN "" ELSE texts[i + 1]
Plus(st) == IF st.sel = <<>> THEN <<st.item>> ELSE st.sel        \* {+}: the selection, or the current line if there is none
RECURSIVE JoinN(_)
JoinN(s) == IF s = <<>> THEN "" ELSE IF Len(s) = 1 THEN NStr(s[1]) ELSE NStr(s[1]) \o "," \o JoinN(Tail(s))
RECURSIVE JoinF(_)
JoinF(s) == IF s = <<>> THEN "" ELSE TextOf(s[1]) \o "," \o JoinF(Tail(s))
Field(code, st) == CASE code = "n" -> NStr(st.item) [] code = "s" -> TextOf(st.item) [] code = "q" -> st.q
                     [] code = "pn" -> JoinN(Plus(st)) [] code = "pf" -> JoinF(Plus(st)) [] code = "f" -> TextOf(st.item)
Codes(tag) == tmpls[tag]
HasCode(tag, c) == \E k \in 1..Len(Codes(tag)) : Codes(tag)[k] = c
(* the line a command prints (and logs) for terminal state st: the tag, then one field per placeholder *)
Expected(tag, st) == <<tag>> \o [k \in 1..Len(Codes(tag)) |-> Field(Codes(tag)[k], st)]
(* what can be said about the output of an intermediate command from the request alone: the fields that depend on  *)
(* the focused line and the query only                                                                              *)
AgreesWithRequest(vals, r) ==
    /\ Len(vals) = Len(Codes(r.tag)) + 1 /\ vals[1] = r.tag
    /\ \A k \in 1..Len(Codes(r.tag)) :
          LET c == Codes(r.tag)[k] IN
          /\ (c \in {"n", "s", "f"} => vals[k + 1] = Field(c, [item |-> r.item, q |-> r.q, sel |-> <<>>]))
          /\ (c = "q" => vals[k + 1] = r.q)

-------------------------------------------------------------------------------
Req(e) == [q |-> e.q, item |-> e.item, nitems |-> e.nitems]
SameReq(r, e) == r.q = e.q /\ r.item = e.item /\ r.nitems = e.nitems
InFlight == cur # None /\ ~cur.exited

(* refreshPreview / toggle-preview: the announcement precedes the try-send, which precedes the Set.  All of them    *)
(* happen under t.mutex, so request k is overwritten in the one-slot box before request k+2 is announced: while a    *)
(* command is in flight (the previewer will not look into the box before it is reaped) only the last two matter.     *)
TEnq == /\ Is("enq") /\ phase = "run" /\ ~expectSig
        /\ LET a == Append(issued, [q |-> Ev.q, item |-> Ev.item, nitems |-> Ev.nitems, tag |-> Ev.tag, seq |-> Ev.seq, during |-> Ev.during])
           IN issued' = IF InFlight /\ Len(a) > 2 THEN SubSeq(a, Len(a) - 1, Len(a)) ELSE a
        /\ expectSig' = TRUE
        /\ UNCHANGED <<sid, texts, tmpls, kinds, reqs, cur, nsent, nkill, lastDisp, started, pvSeq, quitSig, dev, phase>>

(* the try-send: taken (a watcher was in its select) or dropped.  A drop while a command is in flight is where the  *)
(* deviations LostCancel / LostKillAtExit of FzfPreview can have happened: both readings are tried, the deviation    *)
(* counts only if no deviation-free reading of the whole session is accepted.                                        *)
TSig == /\ Is("sig") /\ phase = "run"
        /\ expectSig' = FALSE
        /\ quitSig' = (IF Ev.immediately THEN (IF Ev.sent THEN "sent" ELSE "dropped") ELSE quitSig)
        /\ (Ev.immediately => quitSig = "none")                 \* killPreview is called once
        /\ IF Ev.sent
           THEN nsent' = nsent + 1 /\ UNCHANGED dev
           ELSE /\ UNCHANGED nsent
                /\ \/ UNCHANGED dev
                   \/ /\ InFlight /\ (Ev.immediately \/ cur.kills = 0)     \* a command is being started / runs unsignalled
                      /\ dev' = dev \cup {IF Ev.immediately THEN "LostKillAtExit" ELSE "LostCancel"}
        /\ UNCHANGED <<sid, texts, tmpls, kinds, issued, reqs, cur, nkill, lastDisp, started, pvSeq, phase>>

(* the previewer is sequential: it takes the next request only after the previous command was reaped; it takes one  *)
(* of the announced requests, never one older than what it took before; versions count up by one.  Taking a request *)
(* that is already superseded by a later announcement is where LostCancel can have happened as well.                 *)
Free == IF cur = None THEN TRUE ELSE (cur.exited \/ ~cur.started)                \* (a command that failed to start has no exit)
TPick == /\ Is("pick") /\ phase = "run" /\ Free
         /\ Ev.version = Len(reqs) + 1
         /\ \E i \in 1..Len(issued) :
              /\ SameReq(issued[i], Ev)
              /\ (i + 2 <= Len(issued) => issued[i + 2].seq > pvSeq)     \* else it was overwritten before the previewer looked
              /\ reqs' = Append(reqs, issued[i])
              /\ issued' = SubSeq(issued, i + 1, Len(issued))
              /\ \/ UNCHANGED dev
                 \/ i < Len(issued) /\ dev' = dev \cup {"LostCancel"}
         /\ cur' = IF Ev.item = -1 THEN None          \* no current line and nothing forces an update: blank preview, no command
                   ELSE [v |-> Ev.version, pid |-> 0, started |-> FALSE, exited |-> FALSE, kills |-> 0, kimm |-> FALSE, ctx |-> FALSE]
         /\ pvSeq' = Ev.seq
         /\ UNCHANGED <<sid, texts, tmpls, kinds, expectSig, nsent, nkill, lastDisp, started, quitSig, phase>>

TStart == /\ Is("cstart") /\ phase = "run" /\ InFlight /\ ~cur.started /\ cur.v = Ev.version
          /\ cur' = [cur EXCEPT !.started = TRUE, !.pid = Ev.pid]
          /\ started' = Append(started, [pid |-> Ev.pid, v |-> Ev.version])
          /\ pvSeq' = Ev.seq
          /\ UNCHANGED <<sid, texts, tmpls, kinds, issued, expectSig, reqs, nsent, nkill, lastDisp, quitSig, dev, phase>>

(* the watcher leaves its select after one receipt *)
TKill == /\ Is("kill") /\ phase = "run" /\ InFlight /\ cur.started /\ cur.v = Ev.version /\ cur.kills = 0 /\ ~cur.ctx
         /\ cur' = [cur EXCEPT !.kills = 1, !.kimm = Ev.immediately] /\ nkill' = nkill + 1
         /\ UNCHANGED <<sid, texts, tmpls, kinds, issued, expectSig, reqs, nsent, lastDisp, started, pvSeq, quitSig, dev, phase>>
(* cancel() comes after killPreview() on the exit path: a watcher can see ctx.Done only after the kill was attempted *)
TCtx == /\ Is("ctxdone") /\ phase = "run" /\ InFlight /\ cur.started /\ cur.v = Ev.version /\ cur.kills = 0 /\ ~cur.ctx
        /\ quitSig # "none"
        /\ cur' = [cur EXCEPT !.ctx = TRUE]
        /\ UNCHANGED <<sid, texts, tmpls, kinds, issued, expectSig, reqs, nsent, nkill, lastDisp, started, pvSeq, quitSig, dev, phase>>
(* nobody but the watcher kills the command: without a receipt it ends by itself, with status 0 *)
TCExit == /\ Is("cexit") /\ phase = "run" /\ InFlight /\ cur.started /\ cur.v = Ev.version
          /\ (cur.kills = 0 => Ev.status = 0)
          /\ cur' = [cur EXCEPT !.exited = TRUE]
          /\ pvSeq' = Ev.seq
          /\ UNCHANGED <<sid, texts, tmpls, kinds, issued, expectSig, reqs, nsent, nkill, lastDisp, started, quitSig, dev, phase>>

(* displays arrive in version order and show output of a command that was really started for that version; the      *)
(* fields that depend on the focused line and the query are those of the request taken as that version               *)
TDisp == /\ Is("disp") /\ phase = "run"
         /\ Ev.version \in 1..Len(reqs)
         /\ (lastDisp # None => Ev.version >= lastDisp.v)
         /\ (Ev.nlines > 0 => AgreesWithRequest(Ev.head, reqs[Ev.version]))
         /\ lastDisp' = [v |-> Ev.version, nlines |-> Ev.nlines, head |-> Ev.head]
         /\ UNCHANGED <<sid, texts, tmpls, kinds, issued, expectSig, reqs, cur, nsent, nkill, started, pvSeq, quitSig, dev, phase>>

-------------------------------------------------------------------------------
(* Quiescence.  e.procs = process groups of preview commands alive in the process table; e.log = the records the    *)
(* commands appended to the session's LOG themselves; e.overlaps = commands that found the session's lock held by   *)
(* another live command when they started; e.pane = first line of the captured preview window, split.                *)
(* every record in the commands' own log comes from a command fzf started, for the request it had taken, in order *)
LogOK(e) == /\ \A k \in 1..Len(e.log) : \E j \in 1..Len(started) :
                  started[j].pid = e.log[k].pid /\ AgreesWithRequest(e.log[k].vals, reqs[started[j].v])
            /\ \A k \in 1..(Len(e.log) - 1) : \E i, j \in 1..Len(started) :
                  i < j /\ started[i].pid = e.log[k].pid /\ started[j].pid = e.log[k + 1].pid
(* at most one command alive at any time - also when a deviation fired *)
OneAlive(e) == /\ e.overlaps = 0
               /\ Len(e.procs) <= 1
               /\ \A k \in 1..Len(e.procs) : InFlight /\ cur.started /\ e.procs[k] = cur.pid
FinalState(e) == [item |-> e.cur, q |-> e.q, sel |-> e.sel]
LastReq == reqs[Len(reqs)]
NItemsOf(e) == IF e.sel = <<>> THEN 2 ELSE Len(e.sel) + 1
Right(r, e) == /\ r.tag = e.tag
               /\ r.item = e.cur \/ (NoItem(r.item) /\ NoItem(e.cur))
               /\ (HasCode(e.tag, "q") => r.q = e.q)
               /\ (HasCode(e.tag, "pn") \/ HasCode(e.tag, "pf") \/ HasCode(e.tag, "q") => r.nitems = NItemsOf(e))
(* CODE-DERIVED (comment in buildPlusList): without a line under the cursor the preview is still run if the template *)
(* contains {q}, or contains {+} and something is selected; otherwise the window is blanked and no command is run       *)
Blank(e) == NoItem(e.cur) /\ ~HasCode(e.tag, "q") /\ ~((HasCode(e.tag, "pn") \/ HasCode(e.tag, "pf")) /\ e.sel # <<>>)
CaughtUp(e) ==
    /\ ~expectSig /\ nkill <= nsent
    /\ reqs # <<>> /\ Right(LastReq, e)
    /\ \A k \in 1..Len(issued) : SameReq(issued[k], LastReq) /\ issued[k].tag = LastReq.tag     \* nothing different is waiting
    /\ IF Blank(e)
       THEN (* no line under the cursor, nothing to preview: no command, blank window *)
            /\ cur = None /\ e.procs = <<>> /\ lastDisp # None /\ lastDisp.v = Len(reqs) /\ lastDisp.nlines = 0 /\ e.pane = <<>>
       ELSE /\ cur # None /\ cur.v = Len(reqs) /\ cur.started /\ cur.kills = 0
            /\ (cur.exited => e.procs = <<>>)
            /\ lastDisp # None /\ lastDisp.v = Len(reqs)
            /\ IF Mute(e.cur)
               THEN lastDisp.nlines = 0 /\ e.pane = <<>>                         \* the right command printed nothing: empty window
               ELSE /\ lastDisp.nlines > 0
                    /\ (~NoItem(e.cur) =>
                          /\ lastDisp.head = Expected(e.tag, FinalState(e))      \* what fzf put into the window
                          /\ e.pane = Expected(e.tag, FinalState(e)))            \* what the terminal shows
            /\ (~NoItem(e.cur) =>
                  /\ e.log # <<>> /\ e.log[Len(e.log)].pid = cur.pid             \* what the command itself logged
                  /\ e.log[Len(e.log)].vals = Expected(e.tag, FinalState(e)))
(* exactly what the deviation StaleAfterShow of FzfPreview leads to: the request taken last was announced by a       *)
(* toggle-preview / show-preview action, it was served flawlessly - but it is not the one for the final state and   *)
(* the render loop announced nothing after it                                                                        *)
StaleAfterShow(e) ==
    /\ ~expectSig /\ nkill <= nsent
    /\ reqs # <<>> /\ LastReq.during \in {"toggle-preview", "show-preview"} /\ LastReq.tag = e.tag /\ ~Right(LastReq, e)
    /\ \A k \in 1..Len(issued) : SameReq(issued[k], LastReq) /\ issued[k].tag = LastReq.tag
    /\ cur # None /\ cur.v = Len(reqs) /\ cur.started /\ cur.kills = 0
    /\ (cur.exited => e.procs = <<>>)
    /\ lastDisp # None /\ lastDisp.v = Len(reqs) /\ lastDisp.nlines > 0 /\ e.pane = lastDisp.head
    /\ e.log # <<>> /\ e.log[Len(e.log)].pid = cur.pid /\ e.log[Len(e.log)].vals = lastDisp.head
(* exactly what a lost cancel leads to, and nothing else: the command taken last is still in flight and was never   *)
(* signalled, while the right request - the one announced last - waits in the box                                    *)
StuckByLostCancel(e) ==
    /\ "LostCancel" \in dev
    /\ ~expectSig /\ nkill <= nsent
    /\ InFlight /\ cur.kills = 0 /\ cur.v = Len(reqs)
    /\ issued # <<>> /\ Right(issued[Len(issued)], e)
    /\ (lastDisp # None /\ lastDisp.nlines > 0 => e.pane = lastDisp.head)
TQuiet == /\ Is("quiet") /\ phase = "run"
          /\ OneAlive(Ev) /\ LogOK(Ev)
          /\ \/ (~Ev.visible \/ CaughtUp(Ev) \/ StuckByLostCancel(Ev)) /\ UNCHANGED dev
             \/ Ev.visible /\ StaleAfterShow(Ev) /\ dev' = dev \cup {"StaleAfterShow"}
          /\ UNCHANGED <<sid, texts, tmpls, kinds, issued, expectSig, reqs, cur, nsent, nkill, lastDisp, started, pvSeq, quitSig, phase>>

(* End of the session: none survives.  A survivor is explained only by a kill that was dropped (LostKillAtExit), or  *)
(* one that was never attempted / taken by the watcher but not carried out before the process was gone                *)
(* (ExitBeforeKill).  The pv.kill hook sits BEFORE util.KillCommand: an IMMEDIATE kill (only killPreview() on the     *)
(* exit path sends those) may be logged and still not carried out when the process image disappears.  A logged        *)
(* delayed-cancel kill of a superseded command (fzf not exiting) followed by a surviving group is NOT explained.      *)
TExit == /\ Is("exit") /\ phase = "run"
         /\ \/ Ev.survivors = <<>> /\ UNCHANGED dev
            \/ /\ Ev.survivors # <<>> /\ InFlight /\ cur.started /\ Ev.survivors = <<cur.pid>> /\ Ev.overlaps = 0
               /\ \/ quitSig = "dropped" /\ "LostKillAtExit" \in dev /\ UNCHANGED dev
                  \/ quitSig # "dropped" /\ (cur.kills = 0 \/ cur.kimm \/ quitSig = "none") /\ dev' = dev \cup {"ExitBeforeKill"}
         /\ phase' = "exited"
         /\ UNCHANGED <<sid, texts, tmpls, kinds, issued, expectSig, reqs, cur, nsent, nkill, lastDisp, started, pvSeq, quitSig>>

Next == TBegin \/ TEnq \/ TSig \/ TPick \/ TStart \/ TKill \/ TCtx \/ TCExit \/ TDisp \/ TQuiet \/ TExit
Spec == Init /\ [][Next]_vars

(* reported per session when its end is reached: with or without the help of a deviation action *)
DevSeen == phase = "exited" => PrintT(<<"END", sid, IF dev = {} THEN 0 ELSE 1, dev>>)
=============================================================================
