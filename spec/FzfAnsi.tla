------------------------------- MODULE FzfAnsi -------------------------------
(* --ansi: which part of an input line is text, and which colour / attributes / hyperlink every character of that  *)
(* text carries (src/ansi.go: nextAnsiEscapeSequence, extractColor, interpretCode; per-line carry in src/core.go).  *)
(*                                                                                                                   *)
(* A line is a sequence of SYMBOLS (TLC strings are atomic).  A symbol names one character:                         *)
(*   controls   ESC BS SO SI BEL LF          (0x1b 0x08 0x0e 0x0f 0x07 0x0a)                                         *)
(*   printable  digits "0".."9", letters, punctuation; BSL is the backslash (0x20..0x7e = [[:print:]])               *)
(*   "e~"       e-acute: one character, two bytes, not printable ASCII, not a line feed                              *)
(*                                                                                                                   *)
(* Part A (documented): Strip = repeated leftmost-first matching of the regular expression that the hand-written    *)
(* scanner replaced (doc comment of nextAnsiEscapeSequence):                                                        *)
(*    ESC [[()] [0-9;:?]* [a-zA-Z@]  |  ESC ] [0-9]+ [;:] [[:print:]]+ (ESC \ | BEL)  |  ESC .  |  [SO SI]  |  . BS  *)
(* written as scanner automata that take one step per symbol.                                                        *)
(* Part B (documented): an ECMA-48 SGR interpreter + OSC 8 hyperlink state, independent of the code's parser.        *)
(* CODE-DERIVED corners are marked; named deviations (findings) are switched on by labels in the `dv` argument:      *)
(*    "Osc8BareEsc"     accepted corner: ESC ] 8 ; ; ESC (no backslash) is matched as one sequence (ansiState.ToString *)
(*                      emits it; DESIGN Appendix D)                                                                  *)
(*    "StAsCsi"         deviation: the scanner also treats ESC \ as a control-sequence introducer                     *)
(*    "SkipEmptyParam"  deviation: an empty SGR parameter next to non-empty ones is skipped instead of meaning 0      *)
(*    "OpenSpanAtEol"   deviation: when a line ends with a sequence that leaves the state as it was, the characters   *)
(*                      written since the last change of state lose their colour (the open span is never extended)    *)
EXTENDS Integers, Sequences, FiniteSets, TLC

ESC == "ESC"   BS == "BS"   SO == "SO"   SI == "SI"   BEL == "BEL"   LF == "LF"   BSL == "BSL"

Digits       == {"0", "1", "2", "3", "4", "5", "6", "7", "8", "9"}
AsciiLetters == {"a", "m", "K", "B", "H", "J", "l", "c", "M"}          \* the members of [a-zA-Z] in the vocabulary
Puncts       == {"[", "]", "(", ")", BSL, ";", ":", "?", "=", "@", "/", " "}
Printable    == Digits \cup AsciiLetters \cup Puncts                   \* [[:print:]]
NonAscii     == {"e~"}
Controls     == {ESC, BS, SO, SI, BEL, LF}
Sym          == Printable \cup NonAscii \cup Controls
Stripping    == {ESC, BS, SO, SI}                                      \* a line without these has nothing to strip

DigitVal(c) == CASE c = "0" -> 0 [] c = "1" -> 1 [] c = "2" -> 2 [] c = "3" -> 3 [] c = "4" -> 4
                 [] c = "5" -> 5 [] c = "6" -> 6 [] c = "7" -> 7 [] c = "8" -> 8 [] c = "9" -> 9

Corners == {"Osc8BareEsc"}
(* the deviations and their combinations, singles first (a record is attributed to the first set that explains it) *)
DevSets == << {"StAsCsi"}, {"SkipEmptyParam"}, {"OpenSpanAtEol"}, {"StAsCsi", "OpenSpanAtEol"},
              {"SkipEmptyParam", "OpenSpanAtEol"}, {"StAsCsi", "SkipEmptyParam"},
              {"StAsCsi", "SkipEmptyParam", "OpenSpanAtEol"} >>
DevNames == << "StAsCsi", "SkipEmptyParam", "OpenSpanAtEol", "StAsCsi+OpenSpanAtEol", "SkipEmptyParam+OpenSpanAtEol",
               "StAsCsi+SkipEmptyParam", "StAsCsi+SkipEmptyParam+OpenSpanAtEol" >>

-------------------------------------------------------------------------------
(* Part A - the scanner.  Each alternative of the regular expression is an automaton; Delta is its transition      *)
(* function, "ACC" accepts with the current symbol as the last one of the match, "REJ" rejects.                     *)
CsiParamSyms == Digits \cup {";", ":", "?"}
CsiFinalSyms == AsciiLetters \cup {"@"}
CsiIntro(dv) == {"[", "(", ")"} \cup (IF "StAsCsi" \in dv THEN {BSL} ELSE {})

Delta(A, q, c) ==
  CASE A = "csi" ->                                       \* after ESC + introducer:  [0-9;:?]* [a-zA-Z@]
         (IF c \in CsiParamSyms THEN "par" ELSE IF c \in CsiFinalSyms THEN "ACC" ELSE "REJ")
    [] A = "osc" ->                                       \* after ESC ]:  [0-9]+ [;:] [[:print:]]+ (ESC \ | BEL)
         (CASE q = "num0" -> (IF c \in Digits THEN "num" ELSE "REJ")
            [] q = "num"  -> (IF c \in Digits THEN "num" ELSE IF c \in {";", ":"} THEN "pay0" ELSE "REJ")
            [] q = "pay0" -> (IF c \in Printable THEN "pay" ELSE "REJ")
            [] q = "pay"  -> (IF c \in Printable THEN "pay" ELSE IF c = BEL THEN "ACC" ELSE IF c = ESC THEN "st" ELSE "REJ")
            [] q = "st"   -> (IF c = BSL THEN "ACC" ELSE "REJ"))

RECURSIVE Run(_, _, _, _)
(* index of the last symbol of the match, 0 if the automaton rejects or the line ends first *)
Run(A, q, s, i) == IF i > Len(s) THEN 0
                   ELSE LET q2 == Delta(A, q, s[i]) IN
                        IF q2 = "ACC" THEN i ELSE IF q2 = "REJ" THEN 0 ELSE Run(A, q2, s, i + 1)

Bare8 == <<ESC, "]", "8", ";", ";", ESC>>
At(s, p, c) == p <= Len(s) /\ s[p] = c

CsiEnd(s, p, dv) == IF At(s, p, ESC) /\ p + 1 <= Len(s) /\ s[p + 1] \in CsiIntro(dv) THEN Run("csi", "par", s, p + 2) ELSE 0
OscEnd(s, p, dv) == IF ~(At(s, p, ESC) /\ At(s, p + 1, "]")) THEN 0
                    ELSE LET e == Run("osc", "num0", s, p + 2) IN
                         IF e > 0 THEN e
                         ELSE IF "Osc8BareEsc" \in dv /\ p + 5 <= Len(s) /\ SubSeq(s, p, p + 5) = Bare8    \* CODE-DERIVED
                                 /\ ~At(s, p + 6, BSL) THEN p + 5
                         ELSE 0
Esc2End(s, p)  == IF At(s, p, ESC) /\ p + 1 <= Len(s) /\ s[p + 1] # LF THEN p + 1 ELSE 0      \* ESC .
ShiftEnd(s, p) == IF p <= Len(s) /\ s[p] \in {SO, SI} THEN p ELSE 0
StruckEnd(s, p) == IF p + 1 <= Len(s) /\ s[p] # LF /\ s[p + 1] = BS THEN p + 1 ELSE 0          \* . BS

(* leftmost-first: the alternatives are tried in the order of the regular expression *)
MatchEnd(s, p, dv) == LET a == CsiEnd(s, p, dv) IN IF a > 0 THEN a ELSE
                      LET b == OscEnd(s, p, dv) IN IF b > 0 THEN b ELSE
                      LET c == Esc2End(s, p)    IN IF c > 0 THEN c ELSE
                      LET d == ShiftEnd(s, p)   IN IF d > 0 THEN d ELSE StruckEnd(s, p)

RECURSIVE StripFrom(_, _, _)
StripFrom(s, p, dv) == IF p > Len(s) THEN <<>>
                       ELSE LET e == MatchEnd(s, p, dv) IN
                            IF e > 0 THEN StripFrom(s, e + 1, dv) ELSE <<s[p]>> \o StripFrom(s, p + 1, dv)
StripD(s, dv) == StripFrom(s, 1, dv)
Strip(s) == StripD(s, {})                 \* the documented function

-------------------------------------------------------------------------------
(* Part B - what a terminal attaches to each character.                                                             *)
(* Colour: <<>> default, <<n>> palette entry n (0..255; 30-37/90-97 are entries 0-7/8-15), <<r, g, b>> direct.       *)
(* Attributes: the renditions fzf can represent.                                                                      *)
AttrOrder == <<"bold", "dim", "italic", "underline", "blink", "reverse", "strike">>
NoUrl == <<>>
Default == [fg |-> <<>>, bg |-> <<>>, at |-> {}, url |-> NoUrl, lbg |-> <<>>]

(* ECMA-48 8.3.117 SGR, one parameter outside a 38/48 group *)
Sgr1(st, n) ==
  CASE n = 0 -> [st EXCEPT !.fg = <<>>, !.bg = <<>>, !.at = {}]
    [] n = 1 -> [st EXCEPT !.at = @ \cup {"bold"}]
    [] n = 2 -> [st EXCEPT !.at = @ \cup {"dim"}]
    [] n = 3 -> [st EXCEPT !.at = @ \cup {"italic"}]
    [] n = 4 -> [st EXCEPT !.at = @ \cup {"underline"}]
    [] n = 5 -> [st EXCEPT !.at = @ \cup {"blink"}]
    [] n = 7 -> [st EXCEPT !.at = @ \cup {"reverse"}]
    [] n = 9 -> [st EXCEPT !.at = @ \cup {"strike"}]
    [] n = 22 -> [st EXCEPT !.at = @ \ {"bold", "dim"}]
    [] n = 23 -> [st EXCEPT !.at = @ \ {"italic"}]
    [] n = 24 -> [st EXCEPT !.at = @ \ {"underline"}]
    [] n = 25 -> [st EXCEPT !.at = @ \ {"blink"}]
    [] n = 27 -> [st EXCEPT !.at = @ \ {"reverse"}]
    [] n = 29 -> [st EXCEPT !.at = @ \ {"strike"}]
    [] n \in 30..37 -> [st EXCEPT !.fg = <<n - 30>>]
    [] n = 39 -> [st EXCEPT !.fg = <<>>]
    [] n \in 40..47 -> [st EXCEPT !.bg = <<n - 40>>]
    [] n = 49 -> [st EXCEPT !.bg = <<>>]
    [] n \in 90..97 -> [st EXCEPT !.fg = <<n - 90 + 8>>]
    [] n \in 100..107 -> [st EXCEPT !.bg = <<n - 100 + 8>>]
    [] OTHER -> st
(* renditions with no counterpart in fzf's attribute model (conceal/reveal, primary font, overline): projected away *)
Unrepresented == {8, 28, 10, 53, 55}
KnownCodes == {0, 1, 2, 3, 4, 5, 7, 9, 22, 23, 24, 25, 27, 29, 39, 49} \cup (30..37) \cup (40..47) \cup (90..97) \cup (100..107)

Byte(n) == n \in 0..255
SetCol(st, which, col) == IF which = 38 THEN [st EXCEPT !.fg = col] ELSE [st EXCEPT !.bg = col]
From(ps, i) == SubSeq(ps, i, Len(ps))

(* a parameter list is a sequence of numbers, -1 standing for an empty parameter *)
RECURSIVE WfParams(_)
WfParams(ps) ==
  IF ps = <<>> THEN TRUE
  ELSE IF ps[1] \in {38, 48}
       THEN \/ Len(ps) >= 3 /\ ps[2] = 5 /\ Byte(ps[3]) /\ WfParams(From(ps, 4))
            \/ Len(ps) >= 5 /\ ps[2] = 2 /\ Byte(ps[3]) /\ Byte(ps[4]) /\ Byte(ps[5]) /\ WfParams(From(ps, 6))
       ELSE ps[1] \in KnownCodes \cup Unrepresented \cup {-1} /\ WfParams(Tail(ps))

RECURSIVE SgrRun(_, _)
SgrRun(st, ps) ==
  IF ps = <<>> THEN st
  ELSE IF ps[1] \in {38, 48}
       THEN IF ps[2] = 5 THEN SgrRun(SetCol(st, ps[1], <<ps[3]>>), From(ps, 4))
                         ELSE SgrRun(SetCol(st, ps[1], <<ps[3], ps[4], ps[5]>>), From(ps, 6))
       ELSE SgrRun(Sgr1(st, IF ps[1] = -1 THEN 0 ELSE ps[1]), Tail(ps))      \* an empty parameter is the default, 0
NonEmpty(ps) == LET f == SelectSeq(ps, LAMBDA n : n # -1) IN IF f = <<>> THEN <<0>> ELSE f
Sgr(st, ps, dv) == SgrRun(st, IF "SkipEmptyParam" \in dv THEN NonEmpty(ps) ELSE ps)

(* ---- reading the parameters of ESC [ body m ---- *)
RECURSIVE Split(_, _, _)
Split(s, sep, cur) == IF s = <<>> THEN <<cur>>
                      ELSE IF Head(s) = sep THEN <<cur>> \o Split(Tail(s), sep, <<>>)
                      ELSE Split(Tail(s), sep, Append(cur, Head(s)))
RECURSIVE NumAcc(_, _)
NumAcc(ds, acc) == IF ds = <<>> THEN acc ELSE NumAcc(Tail(ds), acc * 10 + DigitVal(Head(ds)))
Num(ds) == IF ds = <<>> THEN -1 ELSE NumAcc(ds, 0)
Has(s, c) == \E i \in 1..Len(s) : s[i] = c
Nums(fields) == [i \in 1..Len(fields) |-> Num(fields[i])]

(* the colon form carries one colour: 38:5:n, 38:2:r:g:b, 38:2::r:g:b (likewise 48) *)
ColonGroup(f) == IF Len(f) = 6 /\ f[2] = 2 /\ f[3] = -1 THEN <<f[1], 2, f[4], f[5], f[6]>> ELSE f
WfColon(f) == /\ Len(f) \in {3, 5, 6} /\ f[1] \in {38, 48}
              /\ LET g == ColonGroup(f) IN /\ Len(g) = 3 => g[2] = 5
                                           /\ Len(g) = 5 => g[2] = 2
                                           /\ Len(g) \in {3, 5} /\ WfParams(g)
(* <<well-formed, parameter list>> *)
SgrParams(body) ==
  IF Has(body, "?") THEN <<FALSE, <<>>>>
  ELSE IF Has(body, ":")
       THEN IF Has(body, ";") THEN <<FALSE, <<>>>>                  \* mixed forms: outside the well-formed grammar
            ELSE LET f == Nums(Split(body, ":", <<>>)) IN IF WfColon(f) THEN <<TRUE, ColonGroup(f)>> ELSE <<FALSE, <<>>>>
       ELSE LET ps == Nums(Split(body, ";", <<>>)) IN <<WfParams(ps), ps>>

(* ---- tokens ---- *)
IsSgrTok(t) == Len(t) >= 3 /\ t[1] = ESC /\ t[2] = "[" /\ t[Len(t)] = "m"
IsOscTok(t) == Len(t) >= 6 /\ t[1] = ESC /\ t[2] = "]"
RECURSIVE RunStop(_, _, _)
RunStop(s, i, S) == IF i <= Len(s) /\ s[i] \in S THEN RunStop(s, i + 1, S) ELSE i
(* number, separator and payload of an OSC token *)
OscParts(t) == LET q == RunStop(t, 3, Digits)
                   z == IF t[Len(t)] = BSL THEN Len(t) - 2 ELSE Len(t) - 1
               IN [num |-> SubSeq(t, 3, q - 1), sep |-> t[q], pay |-> SubSeq(t, q + 1, z)]
RECURSIVE IndexOf(_, _, _)
IndexOf(s, c, i) == IF i > Len(s) THEN 0 ELSE IF s[i] = c THEN i ELSE IndexOf(s, c, i + 1)

(* <<well-formed, state after the token>>; for a token outside the well-formed grammar the state is unspecified *)
Interp(st, t, dv) ==
  IF IsSgrTok(t)
  THEN LET r == SgrParams(SubSeq(t, 3, Len(t) - 1)) IN IF r[1] THEN <<TRUE, Sgr(st, r[2], dv)>> ELSE <<FALSE, st>>
  ELSE IF IsOscTok(t) /\ t = Bare8 THEN <<TRUE, st>>                                             \* CODE-DERIVED: no effect
  ELSE IF IsOscTok(t)
  THEN LET o == OscParts(t) IN
       IF Num(o.num) # 8 THEN <<TRUE, st>>
       ELSE IF o.num # <<"8">> \/ o.sep # ";" THEN <<FALSE, st>>
       ELSE LET k == IndexOf(o.pay, ";", 1) IN
            IF k = 0 THEN <<FALSE, st>>
            ELSE LET params == SubSeq(o.pay, 1, k - 1)
                     uri == SubSeq(o.pay, k + 1, Len(o.pay)) IN
                 IF uri = <<>> THEN (IF params = <<>> THEN <<TRUE, [st EXCEPT !.url = NoUrl]>> ELSE <<FALSE, st>>)
                 ELSE <<TRUE, [st EXCEPT !.url = <<params, uri>>]>>
  ELSE IF Len(t) >= 2 /\ t[Len(t) - 1] = "0" /\ t[Len(t)] = "K"
  THEN <<TRUE, [st EXCEPT !.lbg = st.bg]>>          \* CODE-DERIVED: erase-to-end-of-line "0K" remembers the background
  ELSE <<TRUE, st>>

AttrSeq(S) == SelectSeq(AttrOrder, LAMBDA a : a \in S)
Vis(st)   == [fg |-> st.fg, bg |-> st.bg, at |-> AttrSeq(st.at), url |-> st.url]          \* what one character shows
Whole(st) == [fg |-> st.fg, bg |-> st.bg, at |-> AttrSeq(st.at), url |-> st.url, lbg |-> st.lbg]

(* the characters of the text are kept as runs: k consecutive characters written in state st *)
Push(runs, st) == IF runs # <<>> /\ runs[Len(runs)].st = st THEN [runs EXCEPT ![Len(runs)].k = @ + 1]
                  ELSE Append(runs, [k |-> 1, st |-> st])

(* deviation OpenSpanAtEol: the last k characters (all in the last run) are shown in the default rendition *)
DropColour(runs, k) == LET n == Len(runs) IN
                       IF runs[n].k = k THEN [runs EXCEPT ![n].st = Default]
                       ELSE SubSeq(runs, 1, n - 1) \o <<[k |-> runs[n].k - k, st |-> runs[n].st], [k |-> k, st |-> Default]>>
(* CODE-DERIVED, only used by that deviation: what the code counts as a change of state - a different state, or any *)
(* OSC 8 that opens a hyperlink (a fresh link object even for the same URI)                                           *)
OpensLink(t, r) == r[1] /\ IsOscTok(t) /\ t # Bare8 /\ r[2].url # NoUrl /\ Num(OscParts(t).num) = 8

RECURSIVE Walk(_, _, _, _, _)
(* acc = [text, runs, wf, since, tok]: since = characters written since the state last changed, tok = the last      *)
(* thing consumed was a sequence; the result adds the state at the end of the line                                  *)
Walk(s, p, st, dv, acc) ==
  IF p > Len(s)
  THEN [text |-> acc.text, wf |-> acc.wf, final |-> st,
        runs |-> IF "OpenSpanAtEol" \in dv /\ acc.tok /\ acc.since > 0 /\ st # Default
                 THEN DropColour(acc.runs, acc.since) ELSE acc.runs]
  ELSE LET e == MatchEnd(s, p, dv) IN
       IF e = 0 THEN Walk(s, p + 1, st, dv, [acc EXCEPT !.text = Append(@, s[p]), !.runs = Push(@, st),
                                                        !.since = @ + 1, !.tok = FALSE])
       ELSE LET t == SubSeq(s, p, e)
                r == Interp(st, t, dv) IN
            Walk(s, e + 1, r[2], dv, [acc EXCEPT !.wf = @ /\ r[1], !.tok = TRUE,
                                                 !.since = IF r[2] # st \/ OpensLink(t, r) THEN 0 ELSE @])

(* Colour(s, carry): text, runs of characters with their state, well-formedness, state carried to the next line *)
ColourD(s, carry, dv) == Walk(s, 1, carry, dv, [text |-> <<>>, runs |-> <<>>, wf |-> TRUE, since |-> 0, tok |-> FALSE])
Colour(s, carry) == ColourD(s, carry, {})

(* per-character attributes, run-length encoded: <<count, what each of these characters shows>>, maximal runs *)
RECURSIVE AttrRuns(_, _, _)
AttrRuns(runs, i, out) ==
  IF i > Len(runs) THEN out
  ELSE LET v == Vis(runs[i].st) IN
       IF out # <<>> /\ out[Len(out)][2] = v THEN AttrRuns(runs, i + 1, [out EXCEPT ![Len(out)] = <<@[1] + runs[i].k, v>>])
       ELSE AttrRuns(runs, i + 1, Append(out, <<runs[i].k, v>>))
Attrs(runs) == AttrRuns(runs, 1, <<>>)
RECURSIVE AttrAt(_, _)
AttrAt(ar, k) == IF k <= ar[1][1] THEN ar[1][2] ELSE AttrAt(Tail(ar), k - ar[1][1])      \* k-th character, 1-based

(* a stream of lines; wf is cumulative: once a line leaves the grammar the colours of later lines are unspecified *)
RECURSIVE LinesFrom(_, _, _, _, _)
LinesFrom(ls, i, carry, wf, dv) ==
  IF i > Len(ls) THEN <<>>
  ELSE LET c == ColourD(ls[i], carry, dv)
           ok == wf /\ c.wf IN
       <<[text |-> c.text, wf |-> ok, attrs |-> IF ok THEN Attrs(c.runs) ELSE <<>>,
          final |-> IF ok THEN Whole(c.final) ELSE Whole(Default)]>> \o LinesFrom(ls, i + 1, c.final, ok, dv)
Predict(ls, dv) == LinesFrom(ls, 1, Default, TRUE, dv)

-------------------------------------------------------------------------------
(* colour spans: the runs written in a non-default state; 0-based half-open [b, e) *)
RECURSIVE SpansFrom(_, _, _)
SpansFrom(runs, i, pos) ==
  IF i > Len(runs) THEN <<>>
  ELSE (IF runs[i].st = Default THEN <<>> ELSE <<[b |-> pos, e |-> pos + runs[i].k, c |-> Whole(runs[i].st)]>>)
       \o SpansFrom(runs, i + 1, pos + runs[i].k)
Spans(runs) == SpansFrom(runs, 1, 0)
RECURSIVE RunLen(_)
RunLen(runs) == IF runs = <<>> THEN 0 ELSE runs[1].k + RunLen(Tail(runs))

(* within a text of n characters, ordered, non-overlapping (empty spans allowed) *)
WellFormedSpans(sp, n) == /\ \A i \in 1..Len(sp) : 0 <= sp[i].b /\ sp[i].b <= sp[i].e /\ sp[i].e <= n
                          /\ \A i \in 1..Len(sp) - 1 : sp[i].e <= sp[i + 1].b

-------------------------------------------------------------------------------
(* properties of the design, checked by TLC over all short lines (MC_Ansi) *)
RECURSIVE IsSubseq(_, _)
IsSubseq(a, b) == IF a = <<>> THEN TRUE ELSE IF b = <<>> THEN FALSE
                  ELSE IF Head(a) = Head(b) THEN IsSubseq(Tail(a), Tail(b)) ELSE IsSubseq(a, Tail(b))
Contains(s, w) == \E i \in 1..(Len(s) - Len(w) + 1) : SubSeq(s, i, i + Len(w) - 1) = w

FixedPoint(s)    == (\A i \in 1..Len(s) : s[i] \notin Stripping) => Strip(s) = s
OnlyRemoves(s)   == IsSubseq(Strip(s), s)
CornerIsLocal(s) == ~Contains(s, Bare8) => StripD(s, Corners) = Strip(s)
ColourShape(s, carry) == LET c == Colour(s, carry) IN
                         /\ c.text = Strip(s) /\ RunLen(c.runs) = Len(c.text)
                         /\ WellFormedSpans(Spans(c.runs), Len(c.text))
(* nothing to interpret => every character shows the carried state and the state is carried on *)
CarryThrough(s, carry) == (\A i \in 1..Len(s) : s[i] \notin Stripping) =>
                          LET c == Colour(s, carry) IN
                          c.final = carry /\ c.runs = (IF s = <<>> THEN <<>> ELSE <<[k |-> Len(s), st |-> carry]>>)
================================================================================
