------------------------------- MODULE FzfAnsi -------------------------------
(* --ansi: which part of an input line is text, and which colour / attributes / hyperlink every character of that  *)
(* text carries (src/ansi.go: nextAnsiEscapeSequence, extractColor, interpretCode; per-line carry in src/core.go).  *)
(*                                                                                                                   *)
(* A line is a sequence of SYMBOLS (TLC strings are atomic).  A symbol names one character:                         *)
(*   controls   ESC BS SO SI BEL LF          (0x1b 0x08 0x0e 0x0f 0x07 0x0a)                                         *)
(*   printable  digits "0".."9", letters, punctuation; BSL is the backslash (0x20..0x7e = [[:print:]])               *)
(*   "e~"       e-acute: one character, two bytes, not printable ASCII, not a line feed                              *)
(*                                                                                                                   *)
(* Part A (documented): Strip = repeated leftmost-first matching of the regular expression that the hand-written    *)
(* scanner replaced (doc comment of nextAnsiEscapeSequence):                                                        *)
(*    ESC [[()] [0-9;:?]* [a-zA-Z@]  |  ESC ] [0-9]+ [;:] [[:print:]]+ (ESC \ | BEL)  |  ESC .  |  [SO SI]  |  . BS  *)
(* written as scanner automata that take one step per symbol.                                                        *)
(* Part B (documented): an ECMA-48 SGR interpreter (parameters separated by ';', sub-parameters by ':' as in ITU     *)
(* T.416 / xterm for the colours 38, 48 and - de facto - 58) + OSC 8 hyperlink state, independent of the code's parser. *)
(* Part C: the lines as items of the list, without and with --with-nth N.. : the colour state is carried from the end  *)
(* of what is shown for one line to the start of the next, whichever way the items are built.                          *)
(* CODE-DERIVED corners are marked; named deviations (findings) are switched on by labels in the `dv` argument:      *)
(*    "Osc8BareEsc"     accepted corner: ESC ] 8 ; ; ESC (no backslash) is matched as one sequence (ansiState.ToString *)
(*                      emits it; DESIGN Appendix D)                                                                  *)
(*    "StAsCsi"         deviation: the scanner also treats ESC \ as a control-sequence introducer                     *)
(*    "SkipEmptyParam"  deviation: an empty SGR parameter next to non-empty ones is skipped instead of meaning 0      *)
(*    "OpenSpanAtEol"   deviation: when a line ends with a sequence that leaves the state as it was, the characters   *)
(*                      written since the last change of state lose their colour (the open span is never extended)    *)
(*    "MixedSep"        deviation: inside one SGR sequence ';' is looked for first and ':' only when no ';' is left,   *)
(*                      so a colon group followed by further parameters (38:5:100;1) is not read as numbers and lost  *)
(*    "Sgr58"           deviation: 58 (underline colour) is not known as the introducer of a colour, its arguments     *)
(*                      (5;n / 2;r;g;b) are read as stand-alone codes                                                  *)
(*    "CarryLag"        deviation (Part C, items built under --with-nth): a line of two or more fields starts in the   *)
(*                      state the line BEFORE the previous one ended in                                                *)
EXTENDS Integers, Sequences, FiniteSets, TLC

ESC == "ESC"   BS == "BS"   SO == "SO"   SI == "SI"   BEL == "BEL"   LF == "LF"   BSL == "BSL"

Digits       == {"0", "1", "2", "3", "4", "5", "6", "7", "8", "9"}
AsciiLetters == {"a", "m", "K", "B", "H", "J", "l", "c", "M"}          \* the members of [a-zA-Z] in the vocabulary
Puncts       == {"[", "]", "(", ")", BSL, ";", ":", "?", "=", "@", "/", " "}
Printable    == Digits \cup AsciiLetters \cup Puncts                   \* [[:print:]]
NonAscii     == {"e~"}
Controls     == {ESC, BS, SO, SI, BEL, LF}
Sym          == Printable \cup NonAscii \cup Controls
Stripping    == {ESC, BS, SO, SI}                                      \* a line without these has nothing to strip

DigitVal(c) == CASE c = "0" -> 0 [] c = "1" -> 1 [] c = "2" -> 2 [] c = "3" -> 3 [] c = "4" -> 4
                 [] c = "5" -> 5 [] c = "6" -> 6 [] c = "7" -> 7 [] c = "8" -> 8 [] c = "9" -> 9

Corners == {"Osc8BareEsc"}
(* the deviations of Parts A/B and their combinations, fewest members first (a record is attributed to the first   *)
(* set that explains it); a combination is named by its members in the order of DevAll, joined with "+"             *)
DevAll == <<"StAsCsi", "SkipEmptyParam", "OpenSpanAtEol", "MixedSep", "Sgr58">>
Pow2(n) == CASE n = 0 -> 1 [] n = 1 -> 2 [] n = 2 -> 4 [] n = 3 -> 8 [] n = 4 -> 16 [] n = 5 -> 32
Members(k) == SelectSeq([i \in 1..Len(DevAll) |-> i], LAMBDA i : (k \div Pow2(i - 1)) % 2 = 1)
RECURSIVE JoinPlus(_)
JoinPlus(ix) == IF Len(ix) = 1 THEN DevAll[ix[1]] ELSE DevAll[ix[1]] \o "+" \o JoinPlus(Tail(ix))
DevOrder == SortSeq([k \in 1..(Pow2(Len(DevAll)) - 1) |-> k],
                    LAMBDA a, b : Len(Members(a)) < Len(Members(b)) \/ (Len(Members(a)) = Len(Members(b)) /\ a < b))
DevSets  == [j \in 1..Len(DevOrder) |-> {DevAll[i] : i \in {Members(DevOrder[j])[x] : x \in 1..Len(Members(DevOrder[j]))}}]
DevNames == [j \in 1..Len(DevOrder) |-> JoinPlus(Members(DevOrder[j]))]

-------------------------------------------------------------------------------
(* Part A - the scanner.  Each alternative of the regular expression is an automaton; Delta is its transition      *)
(* function, "ACC" accepts with the current symbol as the last one of the match, "REJ" rejects.                     *)
CsiParamSyms == Digits \cup {";", ":", "?"}
CsiFinalSyms == AsciiLetters \cup {"@"}
CsiIntro(dv) == {"[", "(", ")"} \cup (IF "StAsCsi" \in dv THEN {BSL} ELSE {})

Delta(A, q, c) ==
  CASE A = "csi" ->                                       \* after ESC + introducer:  [0-9;:?]* [a-zA-Z@]
         (IF c \in CsiParamSyms THEN "par" ELSE IF c \in CsiFinalSyms THEN "ACC" ELSE "REJ")
    [] A = "osc" ->                                       \* after ESC ]:  [0-9]+ [;:] [[:print:]]+ (ESC \ | BEL)
         (CASE q = "num0" -> (IF c \in Digits THEN "num" ELSE "REJ")
            [] q = "num"  -> (IF c \in Digits THEN "num" ELSE IF c \in {";", ":"} THEN "pay0" ELSE "REJ")
            [] q = "pay0" -> (IF c \in Printable THEN "pay" ELSE "REJ")
            [] q = "pay"  -> (IF c \in Printable THEN "pay" ELSE IF c = BEL THEN "ACC" ELSE IF c = ESC THEN "st" ELSE "REJ")
            [] q = "st"   -> (IF c = BSL THEN "ACC" ELSE "REJ"))

RECURSIVE Run(_, _, _, _)
(* index of the last symbol of the match, 0 if the automaton rejects or the line ends first *)
Run(A, q, s, i) == IF i > Len(s) THEN 0
                   ELSE LET q2 == Delta(A, q, s[i]) IN
                        IF q2 = "ACC" THEN i ELSE IF q2 = "REJ" THEN 0 ELSE Run(A, q2, s, i + 1)

Bare8 == <<ESC, "]", "8", ";", ";", ESC>>
At(s, p, c) == p <= Len(s) /\ s[p] = c

CsiEnd(s, p, dv) == IF At(s, p, ESC) /\ p + 1 <= Len(s) /\ s[p + 1] \in CsiIntro(dv) THEN Run("csi", "par", s, p + 2) ELSE 0
OscEnd(s, p, dv) == IF ~(At(s, p, ESC) /\ At(s, p + 1, "]")) THEN 0
                    ELSE LET e == Run("osc", "num0", s, p + 2) IN
                         IF e > 0 THEN e
                         ELSE IF "Osc8BareEsc" \in dv /\ p + 5 <= Len(s) /\ SubSeq(s, p, p + 5) = Bare8    \* CODE-DERIVED
                                 /\ ~At(s, p + 6, BSL) THEN p + 5
                         ELSE 0
Esc2End(s, p)  == IF At(s, p, ESC) /\ p + 1 <= Len(s) /\ s[p + 1] # LF THEN p + 1 ELSE 0      \* ESC .
ShiftEnd(s, p) == IF p <= Len(s) /\ s[p] \in {SO, SI} THEN p ELSE 0
StruckEnd(s, p) == IF p + 1 <= Len(s) /\ s[p] # LF /\ s[p + 1] = BS THEN p + 1 ELSE 0          \* . BS

(* leftmost-first: the alternatives are tried in the order of the regular expression *)
MatchEnd(s, p, dv) == LET a == CsiEnd(s, p, dv) IN IF a > 0 THEN a ELSE
                      LET b == OscEnd(s, p, dv) IN IF b > 0 THEN b ELSE
                      LET c == Esc2End(s, p)    IN IF c > 0 THEN c ELSE
                      LET d == ShiftEnd(s, p)   IN IF d > 0 THEN d ELSE StruckEnd(s, p)

RECURSIVE StripFrom(_, _, _)
StripFrom(s, p, dv) == IF p > Len(s) THEN <<>>
                       ELSE LET e == MatchEnd(s, p, dv) IN
                            IF e > 0 THEN StripFrom(s, e + 1, dv) ELSE <<s[p]>> \o StripFrom(s, p + 1, dv)
StripD(s, dv) == StripFrom(s, 1, dv)
Strip(s) == StripD(s, {})                 \* the documented function

-------------------------------------------------------------------------------
(* Part B - what a terminal attaches to each character.                                                             *)
(* Colour: <<>> default, <<n>> palette entry n (0..255; 30-37/90-97 are entries 0-7/8-15), <<r, g, b>> direct.       *)
(* Attributes: the renditions fzf can represent.                                                                      *)
AttrOrder == <<"bold", "dim", "italic", "underline", "blink", "reverse", "strike">>
NoUrl == <<>>
Default == [fg |-> <<>>, bg |-> <<>>, at |-> {}, url |-> NoUrl, lbg |-> <<>>]

(* ECMA-48 8.3.117 SGR, one parameter outside a 38/48 group *)
Sgr1(st, n) ==
  CASE n = 0 -> [st EXCEPT !.fg = <<>>, !.bg = <<>>, !.at = {}]
    [] n = 1 -> [st EXCEPT !.at = @ \cup {"bold"}]
    [] n = 2 -> [st EXCEPT !.at = @ \cup {"dim"}]
    [] n = 3 -> [st EXCEPT !.at = @ \cup {"italic"}]
    [] n = 4 -> [st EXCEPT !.at = @ \cup {"underline"}]
    [] n = 5 -> [st EXCEPT !.at = @ \cup {"blink"}]
    [] n = 7 -> [st EXCEPT !.at = @ \cup {"reverse"}]
    [] n = 9 -> [st EXCEPT !.at = @ \cup {"strike"}]
    [] n = 22 -> [st EXCEPT !.at = @ \ {"bold", "dim"}]
    [] n = 23 -> [st EXCEPT !.at = @ \ {"italic"}]
    [] n = 24 -> [st EXCEPT !.at = @ \ {"underline"}]
    [] n = 25 -> [st EXCEPT !.at = @ \ {"blink"}]
    [] n = 27 -> [st EXCEPT !.at = @ \ {"reverse"}]
    [] n = 29 -> [st EXCEPT !.at = @ \ {"strike"}]
    [] n \in 30..37 -> [st EXCEPT !.fg = <<n - 30>>]
    [] n = 39 -> [st EXCEPT !.fg = <<>>]
    [] n \in 40..47 -> [st EXCEPT !.bg = <<n - 40>>]
    [] n = 49 -> [st EXCEPT !.bg = <<>>]
    [] n \in 90..97 -> [st EXCEPT !.fg = <<n - 90 + 8>>]
    [] n \in 100..107 -> [st EXCEPT !.bg = <<n - 100 + 8>>]
    [] OTHER -> st
(* Renditions with no counterpart in fzf's attribute model, projected away.  ECMA-48 8.3.117: 8/28 concealed /     *)
(* revealed, 10-20 fonts, 26/50 proportional spacing, 51-55 framed, encircled, overlined and their ends, 60-65        *)
(* ideogram markings; de-facto (kitty, VTE, mintty, iTerm2; "reserved" in ECMA-48): 59 default underline colour,      *)
(* 73-75 superscript / subscript.  Each is ONE parameter without arguments: it changes nothing that fzf shows and the *)
(* parameters after it keep their meaning.                                                                            *)
(* Not specified (outside the well-formed grammar, terminals disagree): 6 rapid blink, 21 (doubly underlined in       *)
(* ECMA-48 and xterm, bold off on others), 56/57, 66-72, 76-89, 98, 99, 108-...                                        *)
Unrepresented == {8, 28, 26, 50, 59} \cup (10..20) \cup (51..55) \cup (60..65) \cup (73..75)
KnownCodes == {0, 1, 2, 3, 4, 5, 7, 9, 22, 23, 24, 25, 27, 29, 39, 49} \cup (30..37) \cup (40..47) \cup (90..97) \cup (100..107)
(* the parameters that introduce a colour: ITU T.416 / xterm 38 foreground, 48 background; de-facto 58 underline      *)
(* colour, written exactly like the other two (58;5;n  58;2;r;g;b  58:5:n  58:2:r:g:b  58:2::r:g:b)                    *)
ColourOpen == {38, 48, 58}

Byte(n) == n \in 0..255
(* the colour of underlines has no counterpart in fzf's model: setting it changes nothing that fzf shows *)
SetCol(st, which, col) == CASE which = 38 -> [st EXCEPT !.fg = col] [] which = 48 -> [st EXCEPT !.bg = col] [] which = 58 -> st
From(ps, i) == SubSeq(ps, i, Len(ps))

(* The parameter string of an SGR sequence (ECMA-48 5.4.2) is a list of parameters separated by ';', each of which   *)
(* is a list of sub-parameters separated by ':'.  Here: a sequence of FIELDS, a field being the sequence of its       *)
(* numbers, -1 standing for an empty (sub-)parameter.  <<31>> is an ordinary parameter, <<38, 5, 100>> a colon group.  *)

(* the colon form carries one colour: 38:5:n, 38:2:r:g:b, 38:2::r:g:b (likewise 48, 58); the third form has the       *)
(* (empty) colour-space identifier of T.416                                                                            *)
ColonGroup(f) == IF Len(f) = 6 /\ f[2] = 2 /\ f[3] = -1 THEN <<f[1], 2, f[4], f[5], f[6]>> ELSE f
WfColon(f) == /\ Len(f) \in {3, 5, 6} /\ f[1] \in ColourOpen
              /\ LET g == ColonGroup(f) IN \/ Len(g) = 3 /\ g[2] = 5 /\ Byte(g[3])
                                           \/ Len(g) = 5 /\ g[2] = 2 /\ Byte(g[3]) /\ Byte(g[4]) /\ Byte(g[5])
GroupColour(g) == IF g[2] = 5 THEN <<g[3]>> ELSE <<g[3], g[4], g[5]>>
Plain(f) == Len(f) = 1
PlainByte(f) == Len(f) = 1 /\ Byte(f[1])

(* well-formed: colon groups are complete by themselves and may stand anywhere among the other parameters; in the     *)
(* legacy form 38/48/58 take their arguments from the following parameters, which then have no sub-parameters          *)
RECURSIVE WfFields(_)
WfFields(fs) ==
  IF fs = <<>> THEN TRUE
  ELSE IF ~Plain(fs[1]) THEN WfColon(fs[1]) /\ WfFields(Tail(fs))
  ELSE IF fs[1][1] \in ColourOpen
       THEN \/ Len(fs) >= 3 /\ fs[2] = <<5>> /\ PlainByte(fs[3]) /\ WfFields(From(fs, 4))
            \/ Len(fs) >= 5 /\ fs[2] = <<2>> /\ PlainByte(fs[3]) /\ PlainByte(fs[4]) /\ PlainByte(fs[5]) /\ WfFields(From(fs, 6))
       ELSE fs[1][1] \in KnownCodes \cup Unrepresented \cup {-1} /\ WfFields(Tail(fs))

RECURSIVE SgrRun(_, _)
SgrRun(st, fs) ==
  IF fs = <<>> THEN st
  ELSE IF ~Plain(fs[1]) THEN LET g == ColonGroup(fs[1]) IN SgrRun(SetCol(st, g[1], GroupColour(g)), Tail(fs))
  ELSE IF fs[1][1] \in ColourOpen
       THEN IF fs[2] = <<5>> THEN SgrRun(SetCol(st, fs[1][1], <<fs[3][1]>>), From(fs, 4))
                             ELSE SgrRun(SetCol(st, fs[1][1], <<fs[3][1], fs[4][1], fs[5][1]>>), From(fs, 6))
       ELSE SgrRun(Sgr1(st, IF fs[1][1] = -1 THEN 0 ELSE fs[1][1]), Tail(fs))      \* an empty parameter is the default, 0

(* ---- the deviations (CODE-DERIVED; they only serve to attribute a mismatch, never to accept one) ---- *)
NonEmpty(fs) == LET f == SelectSeq(fs, LAMBDA x : x # <<-1>>) IN IF f = <<>> THEN <<<<0>>>> ELSE f
(* MixedSep: a field with sub-parameters that is followed by another field is not a number and is passed over; the    *)
(* sub-parameters of the last field are read one after the other like parameters (an empty one is passed over)         *)
RECURSIVE AsParams(_)
AsParams(ns) == IF ns = <<>> THEN <<>> ELSE (IF Head(ns) = -1 THEN <<>> ELSE <<<<Head(ns)>>>>) \o AsParams(Tail(ns))
CodeSplit(fs) == LET n == Len(fs)
                     front == SelectSeq(SubSeq(fs, 1, n - 1), Plain) IN
                 IF Plain(fs[n]) THEN Append(front, fs[n]) ELSE front \o AsParams(fs[n])
(* Sgr58: the automaton of interpretCode over the numbers of all fields (sub-parameters read like parameters, empty   *)
(* ones passed over), in which only 38 and 48 introduce a colour.  q: 0 outside a colour, 1 after 38/48, 2 after      *)
(* 38;5, 10/11/12 after 38;2 / r / g; a colour left incomplete at the end becomes the default colour                   *)
RECURSIVE FlatAll(_)
FlatAll(fs) == IF fs = <<>> THEN <<>>
               ELSE (IF Plain(fs[1]) THEN fs[1] ELSE SelectSeq(fs[1], LAMBDA n : n # -1)) \o FlatAll(Tail(fs))
RECURSIVE CodeRun(_, _, _, _, _)
CodeRun(st, ps, q, w, col) ==
  IF ps = <<>> THEN (IF q > 0 THEN SetCol(st, w, <<>>) ELSE st)
  ELSE LET r == Tail(ps) IN
       IF ps[1] = -1 /\ q > 0 THEN CodeRun(st, r, q, w, col)
       ELSE LET m == IF ps[1] = -1 THEN 0 ELSE ps[1] IN
            CASE q = 0  -> (IF m \in {38, 48} THEN CodeRun(st, r, 1, m, <<>>) ELSE CodeRun(Sgr1(st, m), r, 0, w, col))
              [] q = 1  -> CodeRun(st, r, IF m = 2 THEN 10 ELSE IF m = 5 THEN 2 ELSE 0, w, col)
              [] q = 2  -> CodeRun(SetCol(st, w, <<m>>), r, 0, w, col)
              [] q = 10 -> CodeRun(st, r, 11, w, <<m>>)
              [] q = 11 -> CodeRun(st, r, 12, w, Append(col, m))
              [] q = 12 -> CodeRun(SetCol(st, w, Append(col, m)), r, 0, w, col)
Sgr(st, fs, dv) == LET f1 == IF "SkipEmptyParam" \in dv THEN NonEmpty(fs) ELSE fs
                       f2 == IF "MixedSep" \in dv THEN CodeSplit(f1) ELSE f1
                       \* an empty last parameter is made an explicit 0 before the automaton runs
                       f3 == IF f2[Len(f2)] = <<-1>> THEN [f2 EXCEPT ![Len(f2)] = <<0>>] ELSE f2 IN
                   IF "Sgr58" \in dv THEN CodeRun(st, FlatAll(f3), 0, 38, <<>>) ELSE SgrRun(st, f2)

(* ---- reading the parameters of ESC [ body m ---- *)
RECURSIVE Split(_, _, _)
Split(s, sep, cur) == IF s = <<>> THEN <<cur>>
                      ELSE IF Head(s) = sep THEN <<cur>> \o Split(Tail(s), sep, <<>>)
                      ELSE Split(Tail(s), sep, Append(cur, Head(s)))
RECURSIVE NumAcc(_, _)
NumAcc(ds, acc) == IF ds = <<>> THEN acc ELSE NumAcc(Tail(ds), acc * 10 + DigitVal(Head(ds)))
Num(ds) == IF ds = <<>> THEN -1 ELSE NumAcc(ds, 0)
Has(s, c) == \E i \in 1..Len(s) : s[i] = c
Nums(fields) == [i \in 1..Len(fields) |-> Num(fields[i])]

(* <<well-formed, fields>> *)
SgrParams(body) ==
  IF Has(body, "?") THEN <<FALSE, <<>>>>
  ELSE LET parts == Split(body, ";", <<>>)
           fs == [i \in 1..Len(parts) |-> Nums(Split(parts[i], ":", <<>>))] IN
       <<WfFields(fs), fs>>

(* ---- tokens ---- *)
IsSgrTok(t) == Len(t) >= 3 /\ t[1] = ESC /\ t[2] = "[" /\ t[Len(t)] = "m"
IsOscTok(t) == Len(t) >= 6 /\ t[1] = ESC /\ t[2] = "]"
RECURSIVE RunStop(_, _, _)
RunStop(s, i, S) == IF i <= Len(s) /\ s[i] \in S THEN RunStop(s, i + 1, S) ELSE i
(* number, separator and payload of an OSC token *)
OscParts(t) == LET q == RunStop(t, 3, Digits)
                   z == IF t[Len(t)] = BSL THEN Len(t) - 2 ELSE Len(t) - 1
               IN [num |-> SubSeq(t, 3, q - 1), sep |-> t[q], pay |-> SubSeq(t, q + 1, z)]
RECURSIVE IndexOf(_, _, _)
IndexOf(s, c, i) == IF i > Len(s) THEN 0 ELSE IF s[i] = c THEN i ELSE IndexOf(s, c, i + 1)

(* <<well-formed, state after the token>>; for a token outside the well-formed grammar the state is unspecified *)
Interp(st, t, dv) ==
  IF IsSgrTok(t)
  THEN LET r == SgrParams(SubSeq(t, 3, Len(t) - 1)) IN IF r[1] THEN <<TRUE, Sgr(st, r[2], dv)>> ELSE <<FALSE, st>>
  ELSE IF IsOscTok(t) /\ t = Bare8 THEN <<TRUE, st>>                                             \* CODE-DERIVED: no effect
  ELSE IF IsOscTok(t)
  THEN LET o == OscParts(t) IN
       IF Num(o.num) # 8 THEN <<TRUE, st>>
       ELSE IF o.num # <<"8">> \/ o.sep # ";" THEN <<FALSE, st>>
       ELSE LET k == IndexOf(o.pay, ";", 1) IN
            IF k = 0 THEN <<FALSE, st>>
            ELSE LET params == SubSeq(o.pay, 1, k - 1)
                     uri == SubSeq(o.pay, k + 1, Len(o.pay)) IN
                 IF uri = <<>> THEN (IF params = <<>> THEN <<TRUE, [st EXCEPT !.url = NoUrl]>> ELSE <<FALSE, st>>)
                 ELSE <<TRUE, [st EXCEPT !.url = <<params, uri>>]>>
  ELSE IF Len(t) >= 2 /\ t[Len(t) - 1] = "0" /\ t[Len(t)] = "K"
  THEN <<TRUE, [st EXCEPT !.lbg = st.bg]>>          \* CODE-DERIVED: erase-to-end-of-line "0K" remembers the background
  ELSE <<TRUE, st>>

AttrSeq(S) == SelectSeq(AttrOrder, LAMBDA a : a \in S)
Vis(st)   == [fg |-> st.fg, bg |-> st.bg, at |-> AttrSeq(st.at), url |-> st.url]          \* what one character shows
Whole(st) == [fg |-> st.fg, bg |-> st.bg, at |-> AttrSeq(st.at), url |-> st.url, lbg |-> st.lbg]

(* the characters of the text are kept as runs: k consecutive characters written in state st *)
Push(runs, st) == IF runs # <<>> /\ runs[Len(runs)].st = st THEN [runs EXCEPT ![Len(runs)].k = @ + 1]
                  ELSE Append(runs, [k |-> 1, st |-> st])

(* deviation OpenSpanAtEol: the last k characters (all in the last run) are shown in the default rendition *)
DropColour(runs, k) == LET n == Len(runs) IN
                       IF runs[n].k = k THEN [runs EXCEPT ![n].st = Default]
                       ELSE SubSeq(runs, 1, n - 1) \o <<[k |-> runs[n].k - k, st |-> runs[n].st], [k |-> k, st |-> Default]>>
(* CODE-DERIVED, only used by that deviation: what the code counts as a change of state - a different state, or any *)
(* OSC 8 that opens a hyperlink (a fresh link object even for the same URI)                                           *)
OpensLink(t, r) == r[1] /\ IsOscTok(t) /\ t # Bare8 /\ r[2].url # NoUrl /\ Num(OscParts(t).num) = 8

RECURSIVE Walk(_, _, _, _, _)
(* acc = [text, runs, wf, since, tok]: since = characters written since the state last changed, tok = the last      *)
(* thing consumed was a sequence; the result adds the state at the end of the line                                  *)
Walk(s, p, st, dv, acc) ==
  IF p > Len(s)
  THEN [text |-> acc.text, wf |-> acc.wf, final |-> st,
        runs |-> IF "OpenSpanAtEol" \in dv /\ acc.tok /\ acc.since > 0 /\ st # Default
                 THEN DropColour(acc.runs, acc.since) ELSE acc.runs]
  ELSE LET e == MatchEnd(s, p, dv) IN
       IF e = 0 THEN Walk(s, p + 1, st, dv, [acc EXCEPT !.text = Append(@, s[p]), !.runs = Push(@, st),
                                                        !.since = @ + 1, !.tok = FALSE])
       ELSE LET t == SubSeq(s, p, e)
                r == Interp(st, t, dv) IN
            Walk(s, e + 1, r[2], dv, [acc EXCEPT !.wf = @ /\ r[1], !.tok = TRUE,
                                                 !.since = IF r[2] # st \/ OpensLink(t, r) THEN 0 ELSE @])

(* Colour(s, carry): text, runs of characters with their state, well-formedness, state carried to the next line *)
ColourD(s, carry, dv) == Walk(s, 1, carry, dv, [text |-> <<>>, runs |-> <<>>, wf |-> TRUE, since |-> 0, tok |-> FALSE])
Colour(s, carry) == ColourD(s, carry, {})

(* per-character attributes, run-length encoded: <<count, what each of these characters shows>>, maximal runs *)
RECURSIVE AttrRuns(_, _, _)
AttrRuns(runs, i, out) ==
  IF i > Len(runs) THEN out
  ELSE LET v == Vis(runs[i].st) IN
       IF out # <<>> /\ out[Len(out)][2] = v THEN AttrRuns(runs, i + 1, [out EXCEPT ![Len(out)] = <<@[1] + runs[i].k, v>>])
       ELSE AttrRuns(runs, i + 1, Append(out, <<runs[i].k, v>>))
Attrs(runs) == AttrRuns(runs, 1, <<>>)
RECURSIVE AttrAt(_, _)
AttrAt(ar, k) == IF k <= ar[1][1] THEN ar[1][2] ELSE AttrAt(Tail(ar), k - ar[1][1])      \* k-th character, 1-based

(* a stream of lines; wf is cumulative: once a line leaves the grammar the colours of later lines are unspecified *)
RECURSIVE LinesFrom(_, _, _, _, _)
LinesFrom(ls, i, carry, wf, dv) ==
  IF i > Len(ls) THEN <<>>
  ELSE LET c == ColourD(ls[i], carry, dv)
           ok == wf /\ c.wf IN
       <<[text |-> c.text, wf |-> ok, attrs |-> IF ok THEN Attrs(c.runs) ELSE <<>>,
          final |-> IF ok THEN Whole(c.final) ELSE Whole(Default)]>> \o LinesFrom(ls, i + 1, c.final, ok, dv)
Predict(ls, dv) == LinesFrom(ls, 1, Default, TRUE, dv)

-------------------------------------------------------------------------------
(* Part C - the lines of the input as ITEMS of the list: what every character of an item shows on the screen.        *)
(* Without --with-nth an item is its line.  With --with-nth N.. an item is made of the fields N, N+1, ... of its line  *)
(* (documented: fields are AWK-style by default - a field is a run of non-blanks with the blanks that follow it, the   *)
(* blanks in front of the first field belong to no field).  Blanks at the end of an item are not observed.              *)
(* The rule for both ways of building items (C11: "state carried over from the previous line"): the input is ONE        *)
(* stream for the colour state -                                                                                        *)
(*   * within a line, every field starts in the state the field before it ended in, shown or not;                       *)
(*   * the first field of a line starts in the state in which the text shown for the previous line ended                *)
(*     (for N.. with at least N fields that is the end of the previous line).                                           *)
(* CODE-DERIVED: fields are cut on the raw line, before escape sequences are removed (C10's subject, FzfItems); the     *)
(* generators of the check only put sequences next to a non-blank, where this cannot be seen.                           *)
(* What the screen can show of a state (hyperlinks and the line background are not observed there):                     *)
Blank == {" "}
Screen(st) == [fg |-> st.fg, bg |-> st.bg, at |-> AttrSeq(st.at)]
RECURSIVE RunStopNot(_, _, _)
RunStopNot(s, i, S) == IF i <= Len(s) /\ s[i] \notin S THEN RunStopNot(s, i + 1, S) ELSE i
RECURSIVE AwkFrom(_, _)
AwkFrom(s, p) == IF p > Len(s) THEN <<>>
                 ELSE LET e == RunStop(s, RunStopNot(s, p, Blank), Blank) IN <<SubSeq(s, p, e - 1)>> \o AwkFrom(s, e)
AwkFields(s) == AwkFrom(s, RunStop(s, 1, Blank))

(* fields i.. of a line walked from state st; those from index `from` on are shown *)
RECURSIVE FieldWalk(_, _, _, _, _, _)
FieldWalk(fl, i, from, st, dv, acc) ==
  IF i > Len(fl) THEN acc
  ELSE LET c == ColourD(fl[i], st, dv) IN
       FieldWalk(fl, i + 1, from, c.final, dv,
                 IF i >= from THEN [text |-> acc.text \o c.text, runs |-> acc.runs \o c.runs, wf |-> acc.wf /\ c.wf, final |-> c.final]
                 ELSE [acc EXCEPT !.wf = @ /\ c.wf])
(* per-character rendition on the screen, run-length encoded, maximal runs; blanks at the end are not observed *)
RECURSIVE ScreenRuns(_, _, _)
ScreenRuns(runs, i, out) ==
  IF i > Len(runs) THEN out
  ELSE LET v == Screen(runs[i].st) IN
       IF out # <<>> /\ out[Len(out)][2] = v THEN ScreenRuns(runs, i + 1, [out EXCEPT ![Len(out)] = <<@[1] + runs[i].k, v>>])
       ELSE ScreenRuns(runs, i + 1, Append(out, <<runs[i].k, v>>))
RECURSIVE CutRuns(_, _)
CutRuns(runs, n) == IF n = 0 \/ runs = <<>> THEN <<>>                 \* the first n characters
                    ELSE IF runs[1].k >= n THEN <<[k |-> n, st |-> runs[1].st]>>
                    ELSE <<runs[1]>> \o CutRuns(Tail(runs), n - runs[1].k)
RECURSIVE TrimLen(_)
TrimLen(x) == IF x # <<>> /\ x[Len(x)] \in Blank THEN TrimLen(SubSeq(x, 1, Len(x) - 1)) ELSE Len(x)

(* from = 0: no --with-nth; from >= 1: --with-nth from..  (1.. and .. show every field)                                *)
(* carry: state at the end of the text shown for the previous line; lagged: the same one line earlier                  *)
RECURSIVE ItemsFrom(_, _, _, _, _, _, _)
ItemsFrom(ls, i, from, carry, lagged, wf, dv) ==
  IF i > Len(ls) THEN <<>>
  ELSE LET fl == IF from = 0 THEN <<ls[i]>> ELSE AwkFields(ls[i])
           start == IF "CarryLag" \in dv /\ from > 0 /\ Len(fl) > 1 THEN lagged ELSE carry   \* CODE-DERIVED deviation
           it == FieldWalk(fl, 1, IF from = 0 THEN 1 ELSE from, start, dv \ {"CarryLag"},
                           [text |-> <<>>, runs |-> <<>>, wf |-> TRUE, final |-> carry])
           n == TrimLen(it.text)
           ok == wf /\ it.wf IN
       <<[text |-> SubSeq(it.text, 1, n), wf |-> ok,
          attrs |-> IF ok THEN ScreenRuns(CutRuns(it.runs, n), 1, <<>>) ELSE <<>>]>>
       \o ItemsFrom(ls, i + 1, from, it.final, carry, ok, dv)
Items(ls, from, dv) == ItemsFrom(ls, 1, from, Default, Default, TRUE, dv)

-------------------------------------------------------------------------------
(* colour spans: the runs written in a non-default state; 0-based half-open [b, e) *)
RECURSIVE SpansFrom(_, _, _)
SpansFrom(runs, i, pos) ==
  IF i > Len(runs) THEN <<>>
  ELSE (IF runs[i].st = Default THEN <<>> ELSE <<[b |-> pos, e |-> pos + runs[i].k, c |-> Whole(runs[i].st)]>>)
       \o SpansFrom(runs, i + 1, pos + runs[i].k)
Spans(runs) == SpansFrom(runs, 1, 0)
RECURSIVE RunLen(_)
RunLen(runs) == IF runs = <<>> THEN 0 ELSE runs[1].k + RunLen(Tail(runs))

(* within a text of n characters, ordered, non-overlapping (empty spans allowed) *)
WellFormedSpans(sp, n) == /\ \A i \in 1..Len(sp) : 0 <= sp[i].b /\ sp[i].b <= sp[i].e /\ sp[i].e <= n
                          /\ \A i \in 1..Len(sp) - 1 : sp[i].e <= sp[i + 1].b

-------------------------------------------------------------------------------
(* properties of the design, checked by TLC over all short lines (MC_Ansi) *)
RECURSIVE IsSubseq(_, _)
IsSubseq(a, b) == IF a = <<>> THEN TRUE ELSE IF b = <<>> THEN FALSE
                  ELSE IF Head(a) = Head(b) THEN IsSubseq(Tail(a), Tail(b)) ELSE IsSubseq(a, Tail(b))
Contains(s, w) == \E i \in 1..(Len(s) - Len(w) + 1) : SubSeq(s, i, i + Len(w) - 1) = w

FixedPoint(s)    == (\A i \in 1..Len(s) : s[i] \notin Stripping) => Strip(s) = s
OnlyRemoves(s)   == IsSubseq(Strip(s), s)
CornerIsLocal(s) == ~Contains(s, Bare8) => StripD(s, Corners) = Strip(s)
ColourShape(s, carry) == LET c == Colour(s, carry) IN
                         /\ c.text = Strip(s) /\ RunLen(c.runs) = Len(c.text)
                         /\ WellFormedSpans(Spans(c.runs), Len(c.text))
(* nothing to interpret => every character shows the carried state and the state is carried on *)
CarryThrough(s, carry) == (\A i \in 1..Len(s) : s[i] \notin Stripping) =>
                          LET c == Colour(s, carry) IN
                          c.final = carry /\ c.runs = (IF s = <<>> THEN <<>> ELSE <<[k |-> Len(s), st |-> carry]>>)
================================================================================
