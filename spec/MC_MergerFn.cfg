CONSTANTS
  KeySpace <- MCKeys2
  MaxLines = 1
  MaxParts = 1
  AnyPartition = TRUE
  FnChunkSizes = {1, 2, 3, 4, 5, 7, 10}
  FnMaxChunks = 7
  FnMaxN = 400
  FnParts = {1, 2, 3, 4, 5, 7, 8, 16, 31, 32}
  GenProbes = 0
INIT FInit
NEXT FNext
INVARIANTS FnCorrect
CHECK_DEADLOCK FALSE
