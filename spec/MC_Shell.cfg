CONSTANTS
  Alphabet <- DataSyms
  MaxLen = 5
INIT Init
NEXT Next
INVARIANTS InvQuoteReadsBack InvQuoteInsideWord InvEscapeReadsBack InvFishReadsBack InvExecutorReadsBack InvTmuxReadsBack InvOneWordPerItem InvSameScheme EmitQuote
CHECK_DEADLOCK FALSE
