CONSTANTS
  Alpha <- AlphaRecT
  MaxLen = 5
  MaxRecs = 0
  Variants <- VarRecT
  Dev = "none"
INIT Init
NEXT Next
INVARIANTS InvContent InvRecord
CHECK_DEADLOCK FALSE
