CONSTANTS
  MaxUI = 3
  Kinds = {"finite"}
  ShowBumpsVersion = TRUE
  TemplateHasQ = FALSE
  H = 2
  LensKind = "mixed"
  WithReload = TRUE
  ReloadBumpsVersion = TRUE
  WithHideKeep = FALSE
  Follow = FALSE
  WithScroll = TRUE
  DelayedSetsVersion <- TreeDelayedSetsVersion
SPECIFICATION Spec
INVARIANTS TypeOK OneAlive ShownIsStarted Convergence ShowFixed ReloadFixed DelayedFixed RowsOfOneRequest ExitClean
CHECK_DEADLOCK FALSE
