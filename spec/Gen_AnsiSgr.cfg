CONSTANTS
  AlphaSeq <- AlphaFull
  Prefix <- PrefNone
  MaxLen <- EnvMaxLen
  Pres <- EnvPres
  Depth = 0
INIT SInit
NEXT SNext
INVARIANTS SEmit
CHECK_DEADLOCK FALSE
