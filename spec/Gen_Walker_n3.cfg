CONSTANTS
  Names <- MCNames3
  MaxNodes = 5
  AllowDangling = FALSE
  AllowCycles = TRUE
  CheckSkips = {1}
  FullUpTo = 0
  OnlyCyclic = FALSE
  MinNodes = 5
INIT Init
NEXT Next
INVARIANTS Emit
CHECK_DEADLOCK FALSE
