//go:build verif

package fzf

// C04 / C05 (process level): binds spec/FzfRank.tla and spec/FzfMerger.tla to the real code.
//   TestVerifKey       E  TLC-enumerated (text, offsets, score) -> real buildResult under several criteria lists
//   TestVerifMerger    E  TLC-simulated merger behaviours (runs, probe sequence) -> real NewMerger / Merger.Get
//   TestVerifMergerFn  E  pass-through index arithmetic -> real PassMerger.Get; partitioning -> real sliceChunks
//   TestVerifRankTable J  per distinct (vocabulary line, query, options): what the real matcher measured
//   TestVerifScan      J  real ChunkList.Snapshot + Matcher.scan with the partition count forced; emits positions
// Nothing here decides anything: expected values come from TLC, recorded values go to the TLC judge.

import (
	"encoding/json"
	"fmt"
	"os"
	"strings"
	"testing"

	"github.com/junegunn/fzf/src/algo"
	"github.com/junegunn/fzf/src/util"
)

var vmCritName = map[criterion]string{byScore: "score", byChunk: "chunk", byLength: "length", byBegin: "begin",
	byEnd: "end", byPathname: "pathname"}
var vmCritOf = func() map[string]criterion {
	m := map[string]criterion{}
	for k, v := range vmCritName {
		m[v] = k
	}
	return m
}()

func vmPoints(r Result) []int {
	return []int{int(r.points[3]), int(r.points[2]), int(r.points[1]), int(r.points[0])}
}

func vmItem(text string, index int32) *Item {
	item := &Item{text: util.ToChars([]byte(text))}
	item.text.Index = index
	return item
}

// ---------------------------------------------------------------------------------------------- Key
type vmKeyCase struct {
	Text  []string `json:"text"`
	Offs  [][2]int `json:"offs"`
	Score int      `json:"score"`
}

func TestVerifKey(t *testing.T) {
	var critNames [][]string
	if err := json.Unmarshal([]byte(os.Getenv("VERIF_CRITS")), &critNames); err != nil {
		t.Fatal("VERIF_CRITS: ", err)
	}
	crits := [][]criterion{}
	for _, l := range critNames {
		cl := []criterion{}
		for _, n := range l {
			cl = append(cl, vmCritOf[n])
		}
		crits = append(crits, cl)
	}
	saved := sortCriteria
	defer func() { sortCriteria = saved }()
	out := verifOpenOut(t)
	defer out.Close()
	verifReadCases(t, func(line []byte) error {
		var c vmKeyCase
		if err := json.Unmarshal(line, &c); err != nil {
			return err
		}
		text := verifText(c.Text)
		got := [][]int{}
		for _, cl := range crits {
			sortCriteria = cl
			item := vmItem(text, 0)
			offs := make([]Offset, len(c.Offs))
			for i, o := range c.Offs {
				offs[i] = Offset{int32(o[0]), int32(o[1])}
			}
			got = append(got, vmPoints(buildResult(item, offs, c.Score)))
		}
		out.Put(map[string]interface{}{"got": got})
		return nil
	})
}

// ---------------------------------------------------------------------------------------------- Merger
type vmItemJ struct {
	Key   []int `json:"key"`
	Index int   `json:"index"`
	// block refinement (vmMergerCase.Scale > 1): this item stands for K items with indices Base .. Base+K-1
	K    int `json:"k"`
	Base int `json:"base"`
}
type vmProbe struct {
	I      int `json:"i"`
	Exp    int `json:"exp"`
	Merged int `json:"merged"`
}
type vmMergerCase struct {
	Sorted bool        `json:"sorted"`
	Tac    bool        `json:"tac"`
	Lists  [][]vmItemJ `json:"lists"`
	Probes []vmProbe   `json:"probes"`
	// Scale > 1: block refinement of the behaviour - every item stands for K items (1 or Scale, chosen per item) with the
	// same key and consecutive indices Base .. Base+K-1, each run kept in rank order; probes are real indices
	Scale int `json:"scale"`
}

func TestVerifMerger(t *testing.T) {
	out := verifOpenOut(t)
	defer out.Close()
	verifReadCases(t, func(line []byte) error {
		var c vmMergerCase
		if err := json.Unmarshal(line, &c); err != nil {
			return err
		}
		res := map[string]interface{}{}
		func() {
			defer func() {
				if r := recover(); r != nil {
					res["panic"] = fmt.Sprint(r)
				}
			}()
			lists := make([][]Result, len(c.Lists))
			for p, l := range c.Lists {
				lists[p] = []Result{}
				for _, it := range l {
					k, base := 1, it.Index
					if c.Scale > 1 {
						k, base = it.K, it.Base
					}
					for j := 0; j < k; j++ {
						jj := j
						if c.Sorted && c.Tac {
							jj = k - 1 - j // a sorted run under --tac lists equal keys by decreasing index
						}
						r := Result{item: vmItem("", int32(base+jj))}
						r.points = [4]uint16{uint16(it.Key[3]), uint16(it.Key[2]), uint16(it.Key[1]), uint16(it.Key[0])}
						lists[p] = append(lists[p], r)
					}
				}
			}
			mg := NewMerger(nil, lists, c.Sorted, c.Tac, revision{}, 0)
			probes := []vmProbe{}
			for _, p := range c.Probes {
				r := mg.Get(p.I)
				ml := len(mg.merged)
				if c.Scale > 1 {
					ml = 0 // how far the merge has advanced is compared on the unscaled behaviours only
				}
				probes = append(probes, vmProbe{p.I, int(r.item.Index()), ml})
			}
			ranked := []int{}
			for i := 0; i < mg.Length(); i++ {
				r := mg.Get(i)
				ranked = append(ranked, int(r.item.Index()))
			}
			cursorsOK := true
			for p, cur := range mg.cursors {
				if cur > len(lists[p]) {
					cursorsOK = false
				}
			}
			res["got"] = map[string]interface{}{"probes": probes, "ranked": ranked, "cursors_in_range": cursorsOK}
		}()
		out.Put(res)
		return nil
	})
}

// ---------------------------------------------------------------------------------------------- pass-through, partition
type vmFnCase struct {
	Kind   string `json:"kind"`
	Counts []int  `json:"counts"`
	Tac    bool   `json:"tac"`
	N      int    `json:"n"`
	P      int    `json:"P"`
}

func TestVerifMergerFn(t *testing.T) {
	out := verifOpenOut(t)
	defer out.Close()
	const base = 7 // index of the first kept item (a --tail-trimmed list does not start at 0)
	verifReadCases(t, func(line []byte) error {
		var c vmFnCase
		if err := json.Unmarshal(line, &c); err != nil {
			return err
		}
		res := map[string]interface{}{}
		func() {
			defer func() {
				if r := recover(); r != nil {
					res["panic"] = fmt.Sprint(r)
				}
			}()
			switch c.Kind {
			case "pass":
				chunks := []*Chunk{}
				next := int32(base)
				for _, n := range c.Counts {
					ch := &Chunk{count: n}
					for i := 0; i < n; i++ {
						ch.items[i].text.Index = next
						next++
					}
					chunks = append(chunks, ch)
				}
				mg := PassMerger(&chunks, c.Tac, revision{})
				exp := []int{}
				for i := 0; i < mg.Length(); i++ {
					r := mg.Get(i)
					exp = append(exp, int(r.item.Index())-base+1)
				}
				res["got"] = map[string]interface{}{"count": mg.Length(), "counted": CountItems(chunks), "exp": exp}
			case "part":
				chunks := make([]*Chunk, c.N)
				where := map[*Chunk]int{}
				for i := range chunks {
					chunks[i] = &Chunk{}
					where[chunks[i]] = i
				}
				m := &Matcher{partitions: c.P}
				slices := m.sliceChunks(chunks)
				exp := [][]int{}
				prev := 0
				for _, s := range slices {
					if len(s) == 0 {
						exp = append(exp, []int{prev, prev})
						continue
					}
					start := where[s[0]]
					for j, ch := range s {
						if where[ch] != start+j {
							panic("slice is not a contiguous range of the chunk list")
						}
					}
					exp = append(exp, []int{start, start + len(s)})
					prev = start + len(s)
				}
				res["got"] = map[string]interface{}{"exp": exp}
			}
		}()
		out.Put(res)
		return nil
	})
}

// ---------------------------------------------------------------------------------------------- table / scan
type vmRunIn struct {
	Args     []string   `json:"args"`  // fzf options except -f QUERY
	Query    [][]string `json:"query"` // terms as symbol sequences
	Vocab    [][]string `json:"vocab"` // distinct lines as symbol sequences
	List     []int      `json:"list"`  // scan only: vocabulary ids (1-based)
	Parts    int        `json:"parts"` // scan only: forced partition count
	Tail     int        `json:"tail"`
	Tiebreak []string   `json:"tiebreak"` // echoed into the record (what --tiebreak said, or ["NONE"])
	Probes   []int      `json:"probes"`   // scan only: indices read before the sequential read (taken modulo the length)
}

type vmSetup struct {
	opts    *Options
	pattern *Pattern
	builder func([]rune) *Pattern
	cache   *ChunkCache
	withPos bool
	qstr    string
}

// what core.go Run does between option parsing and the first search, for filter mode
func vmSetupRun(in *vmRunIn) (*vmSetup, error) {
	terms := []string{}
	for _, term := range in.Query {
		terms = append(terms, verifText(term))
	}
	qstr := strings.Join(terms, " ")
	args := append(append([]string{}, in.Args...), "-f", qstr)
	opts, err := ParseOptions(false, args)
	if err != nil {
		return nil, err
	}
	algo.Init(opts.Scheme)
	sortCriteria = opts.Criteria
	forward := true
	withPos := false
	for idx := len(opts.Criteria) - 1; idx > 0; idx-- {
		switch opts.Criteria[idx] {
		case byChunk:
			withPos = true
		case byEnd:
			forward = false
		case byBegin:
			forward = true
		case byPathname:
			withPos = true
			forward = false
		}
	}
	cache := NewChunkCache()
	patternCache := make(map[string]*Pattern)
	builder := func(runes []rune) *Pattern {
		return BuildPattern(cache, patternCache, opts.Fuzzy, opts.FuzzyAlgo, opts.Extended, opts.Case, opts.Normalize,
			forward, withPos, false, opts.Nth, opts.Delimiter, revision{}, runes, map[int32]struct{}{})
	}
	return &vmSetup{opts, builder([]rune(qstr)), builder, cache, withPos, qstr}, nil
}

func (s *vmSetup) table(vocab [][]string) ([]map[string]interface{}, []string) {
	slab := util.MakeSlab(slab16Size, slab32Size)
	table := []map[string]interface{}{}
	lines := []string{}
	for _, syms := range vocab {
		text := verifText(syms)
		lines = append(lines, text)
		item := vmItem(text, 0)
		row := map[string]interface{}{"text": syms, "matched": false, "score": 0, "offs": [][]int{}, "points": []int{}}
		if res, offsets, _ := s.pattern.MatchItem(item, s.withPos, slab); res != nil {
			// the score is not part of the result: ask the same matcher entry point MatchItem uses
			item2 := vmItem(text, 0)
			var score int
			if s.pattern.extended {
				_, score, _ = s.pattern.extendedMatch(item2, s.withPos, slab)
			} else {
				_, score, _ = s.pattern.basicMatch(item2, s.withPos, slab)
			}
			offs := [][]int{}
			for _, o := range offsets {
				offs = append(offs, []int{int(o[0]), int(o[1])})
			}
			row["matched"], row["score"], row["offs"], row["points"] = true, score, offs, vmPoints(*res)
		}
		table = append(table, row)
	}
	return table, lines
}

func (s *vmSetup) criteria() []string {
	names := []string{}
	for _, c := range s.opts.Criteria {
		names = append(names, vmCritName[c])
	}
	return names
}

func TestVerifRankTable(t *testing.T) {
	saved := sortCriteria
	defer func() { sortCriteria = saved }()
	out := verifOpenOut(t)
	defer out.Close()
	verifReadCases(t, func(line []byte) error {
		var in vmRunIn
		if err := json.Unmarshal(line, &in); err != nil {
			return err
		}
		s, err := vmSetupRun(&in)
		if err != nil {
			out.Put(map[string]interface{}{"error": err.Error()})
			return nil
		}
		table, lines := s.table(in.Vocab)
		out.Put(map[string]interface{}{"table": table, "lines": lines, "criteria": s.criteria(), "querystr": s.qstr,
			"sort": s.opts.Sort > 0, "tac": s.opts.Tac, "scheme": s.opts.Scheme})
		return nil
	})
}

func TestVerifScan(t *testing.T) {
	saved := sortCriteria
	defer func() { sortCriteria = saved }()
	out := verifOpenOut(t)
	defer out.Close()
	verifReadCases(t, func(line []byte) error {
		var in vmRunIn
		if err := json.Unmarshal(line, &in); err != nil {
			return err
		}
		rec := map[string]interface{}{}
		func() {
			defer func() {
				if r := recover(); r != nil {
					rec["panic"] = fmt.Sprint(r)
				}
			}()
			s, err := vmSetupRun(&in)
			if err != nil {
				rec["error"] = err.Error()
				return
			}
			table, lines := s.table(in.Vocab)
			var itemIndex int32
			chunkList := NewChunkList(s.cache, func(item *Item, data []byte) bool {
				item.text = util.ToChars(data)
				item.text.Index = itemIndex
				itemIndex++
				return true
			})
			for _, v := range in.List {
				chunkList.Push([]byte(lines[v-1]))
			}
			snapshot, _, _ := chunkList.Snapshot(in.Tail)
			eventBox := util.NewEventBox()
			matcher := NewMatcher(s.cache, s.builder, s.opts.Sort > 0, s.opts.Tac, eventBox, revision{})
			matcher.partitions = in.Parts
			matcher.slab = make([]*util.Slab, in.Parts)
			merger, _ := matcher.scan(MatchRequest{chunks: snapshot, pattern: s.pattern})
			n := merger.Length()
			probes, probed := []int{}, []int{}
			for _, p := range in.Probes {
				if n > 0 {
					probes = append(probes, p)
					probed = append(probed, int(merger.Get(p%n).item.Index())+1)
				}
			}
			got := make([]int, 0, n)
			for i := 0; i < n; i++ {
				got = append(got, int(merger.Get(i).item.Index())+1)
			}
			rec["probes"], rec["probed"], rec["tiebreak"] = probes, probed, in.Tiebreak
			rec["kind"], rec["mode"] = "run", "pos"
			rec["query"], rec["sort"], rec["tac"], rec["scheme"] = in.Query, s.opts.Sort > 0, s.opts.Tac, s.opts.Scheme
			rec["criteria"], rec["tail"], rec["table"], rec["list"], rec["out"] = s.criteria(), in.Tail, table, in.List, got
			rec["parts"], rec["chunks"], rec["args"], rec["vocab"] = in.Parts, len(snapshot), in.Args, in.Vocab
		}()
		out.Put(rec)
		return nil
	})
}
