//go:build verif

package fzf

// C19: binds spec/FzfWalker.tla to the real directory walker.
//
// TestVerifWalker (E): every case is a tree TLC enumerated (MC_Walker.tla, Emit) plus the runs (walker options, skip
// list, roots) it is to be walked with.  The tree is materialised in a scratch directory, the process changes into
// it, and each run calls the real Reader.readFiles collecting what reaches the pusher; runs flagged `bin` are also
// executed with the real binary (stdin = a pty slave, so that core.go chooses the walker; -f '' --print0).  Only the
// observed multisets (sorted lists) are written; they are compared with TLC's prediction by the orchestrator.
//
// TestVerifWalkerRandom (J): builds larger random trees itself (seeded), walks them, and logs tree + options +
// output for Judge_Walker.tla.  It makes no judgement.
//
// Trees may contain link cycles (a link to its own directory, to an ancestor, to the working directory, directories
// that link to each other).  The specification says the walk of such a tree is finite and short; a walk that is not
// must not take the harness down with it.  Every walk therefore runs under a budget that the ORCHESTRATOR derives
// from the length of the list TLC predicts (cap, items) and a wall-clock limit: when either is exceeded the walk is
// stopped through the walker's own stop path (Reader.terminate for readFiles, SIGKILL for the binary) and the
// observation is reported as cut ("cap" / "deadline") together with the items seen so far.  The harness does not
// judge: a cut observation simply is not the list TLC predicted.

import (
	"bytes"
	"encoding/json"
	"fmt"
	"math/rand"
	"os"
	"os/exec"
	"path/filepath"
	"sort"
	"strings"
	"sync"
	"sync/atomic"
	"testing"
	"time"

	"github.com/junegunn/fzf/src/util"
	"golang.org/x/sys/unix"
)

type vwNode struct {
	Path   []string `json:"path"`
	Kind   string   `json:"kind"`
	Target []string `json:"target"`
}

type vwRun struct {
	File   bool     `json:"file"`
	Dir    bool     `json:"dir"`
	Follow bool     `json:"follow"`
	Hidden bool     `json:"hidden"`
	Skips  []string `json:"skips"`
	Roots  []string `json:"roots"`
	Bin    bool     `json:"bin"`
	Cap    int      `json:"cap"` // stop the walk after this many items (0: vwDefaultCap)
}

const vwDefaultCap = 100000
const vwKeepWhenCut = 300 // items kept of a cut observation (enough to see the laps)

// wall-clock limits: generous for walks that take well under a millisecond.  After the first walk that had to be
// stopped in this process the limit shrinks, so that a tree-wide runaway does not cost (runs x limit); every
// mismatch is re-run alone (fresh process, full limit) by the orchestrator before it counts.
var vwCuts int32

func vwDeadline() time.Duration {
	first, later := 20*time.Second, 500*time.Millisecond
	if v := os.Getenv("VERIF_WALK_DEADLINE_MS"); v != "" {
		var ms int
		fmt.Sscanf(v, "%d", &ms)
		if ms > 0 {
			first = time.Duration(ms) * time.Millisecond
		}
	}
	if atomic.LoadInt32(&vwCuts) > 0 {
		return later
	}
	return first
}

func (r vwRun) capItems() int {
	if r.Cap > 0 {
		return r.Cap
	}
	return vwDefaultCap
}

type vwCase struct {
	Nodes []vwNode `json:"nodes"`
	Runs  []vwRun  `json:"runs"`
}

const vwBaseName = "vw" // name of the walked directory; not a name any specification alphabet uses
const vwTmpToken = "TMP"

type vwEnv struct {
	t     *testing.T
	tmp   string // scratch parent (absolute, symlink-free)
	base  string // tmp/vw: the working directory of every walk
	home  string // directory to return to
	fzf   string // real binary, "" if not requested
	slave *os.File
}

func vwOpenPty() (*os.File, *os.File, error) {
	m, err := os.OpenFile("/dev/ptmx", os.O_RDWR|unix.O_NOCTTY, 0)
	if err != nil {
		return nil, nil, err
	}
	if err := unix.IoctlSetPointerInt(int(m.Fd()), unix.TIOCSPTLCK, 0); err != nil {
		return nil, nil, err
	}
	n, err := unix.IoctlGetInt(int(m.Fd()), unix.TIOCGPTN)
	if err != nil {
		return nil, nil, err
	}
	s, err := os.OpenFile(fmt.Sprintf("/dev/pts/%d", n), os.O_RDWR|unix.O_NOCTTY, 0)
	if err != nil {
		return nil, nil, err
	}
	return m, s, nil
}

func vwSetup(t *testing.T) *vwEnv {
	tmp, err := filepath.EvalSymlinks(t.TempDir())
	if err != nil {
		t.Fatal(err)
	}
	home, err := os.Getwd()
	if err != nil {
		t.Fatal(err)
	}
	e := &vwEnv{t: t, tmp: tmp, base: filepath.Join(tmp, vwBaseName), home: home, fzf: os.Getenv("VERIF_FZF")}
	if err := os.WriteFile(filepath.Join(tmp, "outside-file"), []byte("x"), 0600); err != nil {
		t.Fatal(err)
	}
	if e.fzf != "" {
		m, s, err := vwOpenPty()
		if err != nil {
			t.Fatalf("cannot open a pty: %v", err)
		}
		e.slave = s
		t.Cleanup(func() { s.Close(); m.Close() })
	}
	os.Unsetenv("FZF_DEFAULT_COMMAND")
	os.Unsetenv("FZF_DEFAULT_OPTS")
	os.Unsetenv("FZF_DEFAULT_OPTS_FILE")
	t.Cleanup(func() { os.Chdir(home) })
	return e
}

// materialise creates the tree below e.base and changes into it.
func (e *vwEnv) materialise(nodes []vwNode) error {
	os.Chdir(e.home)
	if err := os.RemoveAll(e.base); err != nil {
		return err
	}
	if err := os.Mkdir(e.base, 0700); err != nil {
		return err
	}
	order := make([]vwNode, len(nodes))
	copy(order, nodes)
	sort.SliceStable(order, func(i, j int) bool { return len(order[i].Path) < len(order[j].Path) })
	for _, n := range order {
		p := filepath.Join(append([]string{e.base}, n.Path...)...)
		var err error
		switch n.Kind {
		case "file":
			err = os.WriteFile(p, nil, 0600)
		case "dir":
			err = os.Mkdir(p, 0700)
		case "lfile":
			err = os.Symlink(filepath.Join(e.tmp, "outside-file"), p)
		case "lnone":
			err = os.Symlink(filepath.Join(e.tmp, "does-not-exist"), p)
		case "ldir":
			err = os.Symlink(filepath.Join(append([]string{e.base}, n.Target...)...), p)
		default:
			err = fmt.Errorf("unknown kind %q", n.Kind)
		}
		if err != nil {
			return err
		}
	}
	return os.Chdir(e.base)
}

func (e *vwEnv) cleanup() {
	os.Chdir(e.home)
	os.RemoveAll(e.base)
}

func (e *vwEnv) realRoots(roots []string) []string {
	out := make([]string, len(roots))
	for i, r := range roots {
		if r == vwTmpToken || strings.HasPrefix(r, vwTmpToken+"/") {
			r = e.base + r[len(vwTmpToken):]
		}
		out[i] = r
	}
	return out
}

func (e *vwEnv) normalise(items []string) []string {
	out := make([]string, len(items))
	for i, s := range items {
		if s == e.base || strings.HasPrefix(s, e.base+"/") {
			s = vwTmpToken + s[len(e.base):]
		}
		out[i] = s
	}
	sort.Strings(out)
	return out
}

// walkPkg runs the real readFiles and returns everything that reached the pusher, and "" / "cap" / "deadline".
func (e *vwEnv) walkPkg(r vwRun) ([]string, string) {
	var mu sync.Mutex
	got := []string{}
	cut := ""
	limit := r.capItems()
	var reader *Reader
	stop := func(why string) { // mu held
		if cut == "" {
			cut = why
			reader.terminate() // the walker's own way of stopping a walk (seen by the next callback)
		}
	}
	reader = NewReader(func(b []byte) bool {
		s := string(b) // copy: the walker hands out its own bytes
		mu.Lock()
		if cut == "" {
			got = append(got, s)
			if len(got) > limit {
				stop("cap")
			}
		}
		mu.Unlock()
		return true
	}, util.NewEventBox(), nil, false, false)
	skips := r.Skips
	if skips == nil {
		skips = []string{}
	}
	done := make(chan struct{})
	go func() {
		defer close(done)
		reader.readFiles(e.realRoots(r.Roots), walkerOpts{file: r.File, dir: r.Dir, follow: r.Follow, hidden: r.Hidden}, skips)
	}()
	timer := time.NewTimer(vwDeadline())
	defer timer.Stop()
	select {
	case <-done:
	case <-timer.C:
		mu.Lock()
		stop("deadline")
		mu.Unlock()
		select {
		case <-done:
		case <-time.After(120 * time.Second):
			e.t.Fatalf("readFiles did not return within 120 s after Reader.terminate()")
		}
	}
	<-done
	mu.Lock()
	defer mu.Unlock()
	if cut != "" {
		atomic.AddInt32(&vwCuts, 1)
		sort.Strings(got)
		if len(got) > vwKeepWhenCut {
			got = got[:vwKeepWhenCut]
		}
	}
	return e.normalise(got), cut
}

func vwOptString(r vwRun) string {
	parts := []string{}
	if r.File {
		parts = append(parts, "file")
	}
	if r.Dir {
		parts = append(parts, "dir")
	}
	if r.Follow {
		parts = append(parts, "follow")
	}
	if r.Hidden {
		parts = append(parts, "hidden")
	}
	return strings.Join(parts, ",")
}

// walkBin runs the real binary in filter mode with a tty on stdin; variant picks among equivalent spellings.
func (e *vwEnv) walkBin(r vwRun, variant int) ([]string, string, string) {
	args := []string{"-f", "", "--print0", "--walker=" + vwOptString(r)}
	roots := e.realRoots(r.Roots)
	defaultSkips := len(r.Skips) == 2 && r.Skips[0] == ".git" && r.Skips[1] == "node_modules" ||
		len(r.Skips) == 2 && r.Skips[1] == ".git" && r.Skips[0] == "node_modules"
	if !defaultSkips {
		args = append(args, "--walker-skip="+strings.Join(r.Skips, ","))
	}
	if !(len(roots) == 1 && roots[0] == "." && variant%2 == 0) {
		args = append(args, "--walker-root="+roots[0])
		args = append(args, roots[1:]...)
	}
	if variant%4 >= 2 {
		args = append(args, "+s") // the streaming filter path of core.go
	}
	cmd := exec.Command(e.fzf, args...)
	cmd.Dir = e.base
	cmd.Stdin = e.slave
	var stderr bytes.Buffer
	cmd.Stderr = &stderr
	pipe, err := cmd.StdoutPipe()
	if err != nil {
		return nil, "", err.Error()
	}
	if err := cmd.Start(); err != nil {
		return nil, "", err.Error()
	}
	// read the output under the item budget and the wall-clock limit; a process that exceeds either is killed
	type chunk struct {
		items []string
		cut   string
		tail  bool // output did not end with NUL
	}
	resc := make(chan chunk, 1)
	limit := r.capItems()
	go func() {
		var c chunk
		buf := make([]byte, 64*1024)
		var cur []byte
		for {
			n, rerr := pipe.Read(buf)
			for _, b := range buf[:n] {
				if b == 0 {
					c.items = append(c.items, string(cur))
					cur = cur[:0]
				} else {
					cur = append(cur, b)
				}
			}
			if len(c.items) > limit {
				c.cut = "cap"
				break
			}
			if rerr != nil {
				break
			}
		}
		c.tail = len(cur) > 0 && c.cut == ""
		resc <- c
	}()
	var c chunk
	timer := time.NewTimer(vwDeadline())
	defer timer.Stop()
	select {
	case c = <-resc:
		if c.cut != "" {
			cmd.Process.Kill()
		}
	case <-timer.C:
		cmd.Process.Kill()
		c = <-resc
		c.cut = "deadline"
	}
	err = cmd.Wait()
	if c.cut != "" {
		atomic.AddInt32(&vwCuts, 1)
		sort.Strings(c.items)
		if len(c.items) > vwKeepWhenCut {
			c.items = c.items[:vwKeepWhenCut]
		}
		return e.normalise(c.items), c.cut, ""
	}
	code := 0
	if err != nil {
		if ee, ok := err.(*exec.ExitError); ok {
			code = ee.ExitCode()
		} else {
			return nil, "", err.Error()
		}
	}
	if code != 0 && code != 1 {
		return nil, "", fmt.Sprintf("exit %d: %s", code, stderr.String())
	}
	if c.tail {
		return nil, "", "output not NUL-terminated"
	}
	if c.items == nil {
		c.items = []string{}
	}
	return e.normalise(c.items), "", ""
}

type vwGot struct {
	Pkg    [][]string `json:"pkg"`
	Bin    [][]string `json:"bin"`
	PkgCut []string   `json:"pkgcut"` // per run: "" | "cap" | "deadline" (the walk was stopped by the harness)
	BinCut []string   `json:"bincut"`
}

func TestVerifWalker(t *testing.T) {
	out := verifOpenOut(t)
	defer out.Close()
	e := vwSetup(t)
	id := 0
	verifReadCases(t, func(line []byte) error {
		var c vwCase
		if err := json.Unmarshal(line, &c); err != nil {
			return err
		}
		if err := e.materialise(c.Nodes); err != nil {
			return err
		}
		got := vwGot{Pkg: [][]string{}, Bin: [][]string{}, PkgCut: []string{}, BinCut: []string{}}
		errs := []string{}
		for i, r := range c.Runs {
			items, cut := e.walkPkg(r)
			got.Pkg = append(got.Pkg, items)
			got.PkgCut = append(got.PkgCut, cut)
			if r.Bin {
				if e.fzf == "" {
					return fmt.Errorf("run flagged bin but VERIF_FZF is not set")
				}
				items, cut, es := e.walkBin(r, id+i)
				if es != "" {
					errs = append(errs, es)
				}
				got.Bin = append(got.Bin, items)
				got.BinCut = append(got.BinCut, cut)
			}
		}
		e.cleanup()
		rec := map[string]interface{}{"id": id, "got": got}
		if len(errs) > 0 {
			rec["err"] = errs
		}
		out.Put(rec)
		id++
		return nil
	})
}

// ---------------------------------------------------------------------------------------------------------------
// J: random larger trees

// every name is listed in FzfWalker.tla KnownNames (the Judge rejects a record with an unknown name)
var vwVocab = []string{"a", "b", "c", "d", "e", "skip", "b c", "n\nl", "node_modules", "target", "build", "a.b", "-x", "x~",
	".h", ".g", ".git", "..x", ".a b"}

type vwPat struct {
	Comps    []string `json:"comps"`
	Anchored bool     `json:"anchored"`
}
type vwRoot struct {
	Arg   string   `json:"arg"`
	At    []string `json:"at"`
	Shown []string `json:"shown"`
}
type vwOpts struct {
	File   bool `json:"file"`
	Dir    bool `json:"dir"`
	Follow bool `json:"follow"`
	Hidden bool `json:"hidden"`
}
type vwRandIn struct {
	Seed     int64 `json:"seed"`
	MaxNodes int   `json:"maxnodes"`
	MaxDepth int   `json:"maxdepth"`
	Bin      bool  `json:"bin"`
	Cyc      bool  `json:"cyc"` // links may close cycles (own directory, ancestor, working directory, any directory)
	Cap      int   `json:"cap"` // item budget of the walk
}
type vwRecord struct {
	Seed  int64    `json:"seed"`
	Nodes []vwNode `json:"nodes"`
	O     vwOpts   `json:"o"`
	Skips []vwPat  `json:"skips"`
	Roots []vwRoot `json:"roots"`
	Via   string   `json:"via"`
	Out   []string `json:"out"`
	Cut   string   `json:"cut"` // "" | "cap" | "deadline": the walk was stopped by the harness, out is partial
	Cap   int      `json:"cap"`
	Err   string   `json:"err,omitempty"`
}

func vwKey(p []string) string { return strings.Join(p, "/") }

// vwRandomTree builds a random tree: nodes, and the list of real directories (root = empty path first).  Without cyc
// no link closes a cycle; with cyc a link to a directory points to its own directory, an ancestor (the working
// directory included) or any directory at all, so that cycles through several links arise too.
func vwRandomTree(rng *rand.Rand, maxNodes, maxDepth int, cyc bool) ([]vwNode, [][]string) {
	n := maxNodes/4 + rng.Intn(maxNodes-maxNodes/4+1)
	nodes := []vwNode{}
	dirs := [][]string{{}}
	used := map[string]bool{}
	children := map[string][]int{} // dir key -> node indices
	links := 0
	var reach func(d []string, seen map[string]bool)
	reach = func(d []string, seen map[string]bool) {
		k := vwKey(d)
		if seen[k] {
			return
		}
		seen[k] = true
		for _, i := range children[k] {
			switch nodes[i].Kind {
			case "dir":
				reach(nodes[i].Path, seen)
			case "ldir":
				reach(nodes[i].Target, seen)
			}
		}
	}
	for tries := 0; len(nodes) < n && tries < 20*n; tries++ {
		parent := dirs[rng.Intn(len(dirs))]
		if rng.Intn(3) == 0 { // favour depth
			parent = dirs[len(dirs)-1-rng.Intn((len(dirs)+2)/3)]
		}
		if len(parent) >= maxDepth {
			continue
		}
		name := vwVocab[rng.Intn(len(vwVocab))]
		path := append(append([]string{}, parent...), name)
		if used[vwKey(path)] {
			continue
		}
		kind := "file"
		var target []string
		switch w := rng.Intn(100); {
		case w < 38:
			kind = "file"
		case w < 75:
			kind = "dir"
		case w < 82:
			kind = "lfile"
		case w < 90:
			kind = "lnone"
		default:
			if cyc && links < 4 {
				switch rng.Intn(4) {
				case 0: // own directory
					target = append([]string{}, parent...)
				case 1: // an ancestor (possibly the working directory)
					target = append([]string{}, parent[:rng.Intn(len(parent)+1)]...)
				default: // any directory
					target = append([]string{}, dirs[rng.Intn(len(dirs))]...)
				}
				kind = "ldir"
				links++
			} else if links < 3 && len(dirs) > 1 {
				t := dirs[1+rng.Intn(len(dirs)-1)]
				seen := map[string]bool{}
				reach(t, seen)
				if !seen[vwKey(parent)] {
					kind, target = "ldir", t
					links++
				}
			}
		}
		if target == nil {
			target = []string{}
		}
		used[vwKey(path)] = true
		nodes = append(nodes, vwNode{Path: path, Kind: kind, Target: target})
		children[vwKey(parent)] = append(children[vwKey(parent)], len(nodes)-1)
		if kind == "dir" {
			dirs = append(dirs, path)
		}
	}
	return nodes, dirs
}

func vwRandomPats(rng *rand.Rand, nodes []vwNode) []vwPat {
	pats := []vwPat{}
	for k := rng.Intn(3); k > 0; k-- {
		var comps []string
		switch rng.Intn(4) {
		case 0: // any name
			comps = []string{vwVocab[rng.Intn(len(vwVocab))]}
		case 1: // the name of an entry
			p := nodes[rng.Intn(len(nodes))].Path
			comps = []string{p[len(p)-1]}
		default: // trailing components of an entry's path
			p := nodes[rng.Intn(len(nodes))].Path
			k := 1 + rng.Intn(len(p))
			if k > 3 {
				k = 3
			}
			comps = append([]string{}, p[len(p)-k:]...)
			if rng.Intn(6) == 0 { // near miss
				comps[0] = vwVocab[rng.Intn(len(vwVocab))]
			}
		}
		pats = append(pats, vwPat{Comps: comps, Anchored: rng.Intn(8) == 0})
	}
	return pats
}

func vwRandomRoots(rng *rand.Rand, dirs [][]string) []vwRoot {
	mk := func(at []string) vwRoot {
		rel := strings.Join(at, "/")
		shown := append([]string{}, at...)
		if rng.Intn(5) == 0 { // the same directory spelled through a child: CHILD/..
			var kids [][]string
			for _, d := range dirs {
				if len(d) == len(at)+1 && vwKey(d[:len(at)]) == vwKey(at) {
					kids = append(kids, d)
				}
			}
			if len(kids) > 0 {
				via := append(append([]string{}, kids[rng.Intn(len(kids))]...), "..")
				return vwRoot{Arg: strings.Join(via, "/"), At: at, Shown: via}
			}
		}
		if len(at) == 0 {
			switch rng.Intn(8) {
			case 0:
				return vwRoot{Arg: "./", At: []string{}, Shown: []string{}}
			case 1:
				return vwRoot{Arg: vwTmpToken, At: []string{}, Shown: []string{vwTmpToken}}
			}
			return vwRoot{Arg: ".", At: []string{}, Shown: []string{}}
		}
		switch rng.Intn(6) {
		case 0:
			return vwRoot{Arg: "./" + rel, At: at, Shown: shown}
		case 1:
			return vwRoot{Arg: rel + "/", At: at, Shown: shown}
		case 2:
			return vwRoot{Arg: vwTmpToken + "/" + rel, At: at, Shown: append([]string{vwTmpToken}, at...)}
		}
		return vwRoot{Arg: rel, At: at, Shown: shown}
	}
	if rng.Intn(10) < 7 || len(dirs) == 1 {
		return []vwRoot{mk([]string{})}
	}
	first := dirs[1+rng.Intn(len(dirs)-1)]
	roots := []vwRoot{mk(first)}
	if rng.Intn(3) == 0 {
		second := dirs[1+rng.Intn(len(dirs)-1)]
		a, b := vwKey(first)+"/", vwKey(second)+"/"
		if !strings.HasPrefix(a, b) && !strings.HasPrefix(b, a) { // disjoint roots only
			roots = append(roots, mk(second))
		}
	}
	return roots
}

func vwPatString(p vwPat) string {
	s := strings.Join(p.Comps, "/")
	if p.Anchored {
		s = "/" + s
	}
	return s
}

func TestVerifWalkerRandom(t *testing.T) {
	out := verifOpenOut(t)
	defer out.Close()
	e := vwSetup(t)
	verifReadCases(t, func(line []byte) error {
		var in vwRandIn
		if err := json.Unmarshal(line, &in); err != nil {
			return err
		}
		rng := rand.New(rand.NewSource(in.Seed))
		nodes, dirs := vwRandomTree(rng, in.MaxNodes, in.MaxDepth, in.Cyc)
		o := vwOpts{File: rng.Intn(7) > 0, Dir: rng.Intn(2) == 0, Follow: rng.Intn(2) == 0, Hidden: rng.Intn(3) > 0}
		if in.Cyc && rng.Intn(4) > 0 {
			o.Follow = true
		}
		if in.Bin && !o.File && !o.Dir {
			o.File = true
		}
		pats := vwRandomPats(rng, nodes)
		roots := vwRandomRoots(rng, dirs)
		run := vwRun{File: o.File, Dir: o.Dir, Follow: o.Follow, Hidden: o.Hidden, Skips: []string{}, Roots: []string{}, Cap: in.Cap}
		for _, p := range pats {
			run.Skips = append(run.Skips, vwPatString(p))
		}
		for _, r := range roots {
			run.Roots = append(run.Roots, r.Arg)
		}
		if err := e.materialise(nodes); err != nil {
			return err
		}
		rec := vwRecord{Seed: in.Seed, Nodes: nodes, O: o, Skips: pats, Roots: roots, Via: "pkg", Cap: run.capItems()}
		if in.Bin {
			rec.Via = "bin"
			rec.Out, rec.Cut, rec.Err = e.walkBin(run, 1+2*int(in.Seed%2))
			if rec.Out == nil {
				rec.Out = []string{}
			}
		} else {
			rec.Out, rec.Cut = e.walkPkg(run)
		}
		e.cleanup()
		out.Put(rec)
		return nil
	})
}
