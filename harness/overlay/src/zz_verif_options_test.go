//go:build verif

package fzf

// C17: replays FzfOptions / FzfBind cases (MC_Options.tla, MC_Bind.tla) on the real ParseOptions / parseKeymap and
// records what the real parser did with random inputs for Judge_Bind.  Only projections are computed here; every
// expected value comes from TLC.

import (
	"encoding/json"
	"fmt"
	"os"
	"path/filepath"
	"sort"
	"strings"
	"testing"

	"github.com/junegunn/fzf/src/tui"
	"github.com/junegunn/fzf/src/util"
)

// ---------------------------------------------------------------- projections

func voKeyName(e tui.Event) string {
	if n := e.KeyName(); n != "" {
		return n
	}
	return util.ToKebabCase(e.Type.String())
}

// keymap -> {key: [[type, arg], ...]}; an empty map is written as [] (what TLC's ToJson prints for the empty function)
func voKeymap(km map[tui.Event][]*action) (interface{}, string) {
	if len(km) == 0 {
		return []interface{}{}, ""
	}
	out := map[string]interface{}{}
	for ev, acts := range km {
		name := voKeyName(ev)
		if _, dup := out[name]; dup {
			return nil, "two events print as " + name
		}
		lst := [][]string{}
		for _, a := range acts {
			lst = append(lst, []string{a.t.Name(), a.a})
		}
		out[name] = lst
	}
	return out, ""
}

func voPanic(r interface{}) string {
	return fmt.Sprintf("panic: %v", r)
}

// ---------------------------------------------------------------- bind: E

type vbCase struct {
	Binds []string `json:"binds"`
}

func voParseBinds(binds []string) (res map[string]interface{}, panicked string) {
	defer func() {
		if r := recover(); r != nil {
			res, panicked = nil, voPanic(r)
		}
	}()
	km := map[tui.Event][]*action{}
	for _, b := range binds {
		if err := parseKeymap(km, b); err != nil {
			return map[string]interface{}{"err": true}, ""
		}
	}
	proj, perr := voKeymap(km)
	if perr != "" {
		return nil, perr
	}
	return map[string]interface{}{"err": false, "km": proj}, ""
}

func TestVerifBind(t *testing.T) {
	out := verifOpenOut(t)
	defer out.Close()
	id := 0
	verifReadCases(t, func(line []byte) error {
		var c vbCase
		if err := json.Unmarshal(line, &c); err != nil {
			return err
		}
		got, p := voParseBinds(c.Binds)
		rec := map[string]interface{}{"id": id, "got": got}
		if p != "" {
			rec["panic"] = p
		}
		out.Put(rec)
		id++
		return nil
	})
}

// ---------------------------------------------------------------- bind: J (records for Judge_Bind)

type vbInput struct {
	Atoms []string `json:"atoms"`
}

func TestVerifBindRecord(t *testing.T) {
	out := verifOpenOut(t)
	defer out.Close()
	verifReadCases(t, func(line []byte) error {
		var in vbInput
		if err := json.Unmarshal(line, &in); err != nil {
			return err
		}
		s := strings.Join(in.Atoms, "")
		rec := map[string]interface{}{"atoms": in.Atoms, "s": s, "err": false, "panic": false,
			"keys": []string{}, "acts": [][][]string{}}
		func() {
			defer func() {
				if r := recover(); r != nil {
					rec["panic"] = true
					rec["panicmsg"] = voPanic(r)
				}
			}()
			km := map[tui.Event][]*action{}
			if err := parseKeymap(km, s); err != nil {
				rec["err"] = true
				rec["msg"] = err.Error()
				return
			}
			keys := []string{}
			byName := map[string][][]string{}
			for ev, acts := range km {
				name := voKeyName(ev)
				lst := [][]string{}
				for _, a := range acts {
					lst = append(lst, []string{a.t.Name(), a.a})
				}
				keys = append(keys, name)
				byName[name] = lst
			}
			sort.Strings(keys)
			acts := [][][]string{}
			for _, k := range keys {
				acts = append(acts, byName[k])
			}
			rec["keys"] = keys
			rec["acts"] = acts
		}()
		out.Put(rec)
		return nil
	})
}

// ---------------------------------------------------------------- options: E

type voCase struct {
	File string   `json:"file"`
	Env  string   `json:"env"`
	Argv []string `json:"argv"`
}

var voCriteria = map[criterion]string{byScore: "score", byChunk: "chunk", byLength: "length", byBegin: "begin",
	byEnd: "end", byPathname: "pathname"}
var voBorder = map[tui.BorderShape]string{tui.BorderUndefined: "undefined", tui.BorderLine: "line", tui.BorderNone: "none",
	tui.BorderPhantom: "phantom", tui.BorderRounded: "rounded", tui.BorderSharp: "sharp", tui.BorderBold: "bold",
	tui.BorderBlock: "block", tui.BorderThinBlock: "thinblock", tui.BorderDouble: "double",
	tui.BorderHorizontal: "horizontal", tui.BorderVertical: "vertical", tui.BorderTop: "top", tui.BorderBottom: "bottom",
	tui.BorderLeft: "left", tui.BorderRight: "right"}
var voPos = map[windowPosition]string{posUp: "up", posDown: "down", posLeft: "left", posRight: "right", posCenter: "center"}
var voCase_ = map[Case]string{CaseSmart: "smart", CaseIgnore: "ignore", CaseRespect: "respect"}

func voProject(o *Options, tmp string) (map[string]interface{}, string) {
	unT := func(s string) string { return strings.ReplaceAll(s, tmp, "@T") }
	m := map[string]interface{}{}
	m["multi"] = o.Multi
	m["sort"] = o.Sort
	m["cycle"] = o.Cycle
	m["tac"] = o.Tac
	m["fuzzy"] = o.Fuzzy
	m["case"] = voCase_[o.Case]
	m["query"] = unT(o.Query)
	m["prompt"] = unT(o.Prompt)
	if o.Filter == nil {
		m["filter"] = "\\NIL"
	} else {
		m["filter"] = unT(*o.Filter)
	}
	switch {
	case o.Delimiter.str != nil:
		m["delimiter"] = "str:" + unT(*o.Delimiter.str)
	case o.Delimiter.regex != nil:
		m["delimiter"] = "re:" + unT(o.Delimiter.regex.String())
	default:
		m["delimiter"] = ""
	}
	crit := []string{}
	for _, c := range o.Criteria {
		crit = append(crit, voCriteria[c])
	}
	m["criteria"] = crit
	m["scheme"] = o.Scheme
	nth := [][]int{}
	for _, r := range o.Nth {
		nth = append(nth, []int{r.begin, r.end})
	}
	m["nth"] = nth
	if o.Height.size != float64(int(o.Height.size)) {
		return nil, "fractional height"
	}
	m["height"] = map[string]interface{}{"size": int(o.Height.size), "percent": o.Height.percent, "auto": o.Height.auto,
		"inverse": o.Height.inverse}
	m["border"] = voBorder[o.BorderShape]
	m["fg"] = int(o.Theme.Fg.Color)
	m["bg"] = int(o.Theme.Bg.Color)
	if o.Preview.size.size != float64(int(o.Preview.size.size)) {
		return nil, "fractional preview size"
	}
	m["pw"] = map[string]interface{}{"pos": voPos[o.Preview.position], "hidden": o.Preview.hidden,
		"size": int(o.Preview.size.size), "percent": o.Preview.size.percent}
	if len(o.Expect) == 0 {
		m["expect"] = []interface{}{}
	} else {
		ex := map[string]bool{}
		for ev := range o.Expect {
			ex[voKeyName(ev)] = true
		}
		if len(ex) != len(o.Expect) {
			return nil, "two expected events print alike"
		}
		m["expect"] = ex
	}
	km, perr := voKeymap(o.Keymap)
	if perr != "" {
		return nil, perr
	}
	m["keymap"] = km
	if o.History == nil {
		m["history"] = map[string]interface{}{"on": false, "path": "", "max": 0}
	} else {
		m["history"] = map[string]interface{}{"on": true, "path": unT(o.History.path), "max": o.History.maxSize}
	}
	m["walker"] = map[string]interface{}{"file": o.WalkerOpts.file, "dir": o.WalkerOpts.dir, "hidden": o.WalkerOpts.hidden,
		"follow": o.WalkerOpts.follow}
	m["tabstop"] = o.Tabstop
	if o.Pointer == nil {
		m["pointer"] = "\\NIL"
	} else {
		m["pointer"] = unT(*o.Pointer)
	}
	exit := ""
	n := 0
	for _, p := range []struct {
		on   bool
		name string
	}{{o.Help, "help"}, {o.Version, "version"}, {o.Bash, "bash"}, {o.Zsh, "zsh"}, {o.Fish, "fish"}, {o.Man, "man"}} {
		if p.on {
			exit = p.name
			n++
		}
	}
	if n > 1 {
		return nil, "several exiting options set"
	}
	m["exit"] = exit
	// --tmux geometry and the --tmux / --height arbitration exactly as Run() decides it (core.go: the popup is used
	// iff opts.Tmux != nil && opts.Tmux.index >= opts.Height.index, inside a tmux session)
	sz := func(s sizeSpec) (map[string]interface{}, bool) {
		return map[string]interface{}{"size": int(s.size), "percent": s.percent}, s.size == float64(int(s.size))
	}
	if o.Tmux == nil {
		z := map[string]interface{}{"size": 0, "percent": false}
		m["tmux"] = map[string]interface{}{"on": false, "pos": "", "w": z, "h": z, "border": false}
		m["popup"] = false
	} else {
		w, ok1 := sz(o.Tmux.width)
		h, ok2 := sz(o.Tmux.height)
		if !ok1 || !ok2 {
			return nil, "fractional tmux size"
		}
		m["tmux"] = map[string]interface{}{"on": true, "pos": voPos[o.Tmux.position], "w": w, "h": h, "border": o.Tmux.border}
		m["popup"] = o.Tmux.index >= o.Height.index
	}
	// --margin / --padding: the four sizeSpecs (top, right, bottom, left); a size is whole + tenths (percentages may
	// carry a fraction).  Label positions: column + bottom flag of each of the five labels.
	msz := func(sp [4]sizeSpec) ([]interface{}, bool) {
		out := []interface{}{}
		for _, s := range sp {
			t := s.size * 10
			if !(t >= 0 && t < 1e9) || t != float64(int(t)) {
				return nil, false
			}
			out = append(out, map[string]interface{}{"size": int(t) / 10, "frac": int(t) % 10, "percent": s.percent})
		}
		return out, true
	}
	var okm, okp bool
	if m["margin"], okm = msz(o.Margin); !okm {
		return nil, fmt.Sprintf("margin is not a multiple of 0.1: %v", o.Margin)
	}
	if m["padding"], okp = msz(o.Padding); !okp {
		return nil, fmt.Sprintf("padding is not a multiple of 0.1: %v", o.Padding)
	}
	lpos := func(l labelOpts) map[string]interface{} {
		return map[string]interface{}{"col": l.column, "bottom": l.bottom}
	}
	m["blpos"] = lpos(o.BorderLabel)
	m["llpos"] = lpos(o.ListLabel)
	m["ilpos"] = lpos(o.InputLabel)
	m["hlpos"] = lpos(o.HeaderLabel)
	m["plpos"] = lpos(o.PreviewLabel)
	return m, ""
}

func voRun(c voCase, tmp string) (got map[string]interface{}, panicked string) {
	defer func() {
		if r := recover(); r != nil {
			got, panicked = nil, voPanic(r)
		}
	}()
	inT := func(s string) string { return strings.ReplaceAll(s, "@T", tmp) }
	optsFile := filepath.Join(tmp, "fzfrc")
	os.Remove(optsFile)
	switch c.File {
	case "\\NONE":
		os.Unsetenv("FZF_DEFAULT_OPTS_FILE")
	case "\\MISSING":
		os.Setenv("FZF_DEFAULT_OPTS_FILE", filepath.Join(tmp, "no-such-file"))
	default:
		if err := os.WriteFile(optsFile, []byte(inT(c.File)), 0600); err != nil {
			panic(err)
		}
		os.Setenv("FZF_DEFAULT_OPTS_FILE", optsFile)
	}
	os.Setenv("FZF_DEFAULT_OPTS", inT(c.Env))
	argv := make([]string, len(c.Argv))
	for i, a := range c.Argv {
		argv[i] = inT(a)
	}
	opts, err := ParseOptions(true, argv)
	if err != nil {
		msg := err.Error()
		src := "argv"
		if strings.HasPrefix(msg, "$FZF_DEFAULT_OPTS_FILE: ") || strings.HasPrefix(msg, optsFile+": ") {
			src = "file"
		} else if strings.HasPrefix(msg, "$FZF_DEFAULT_OPTS: ") {
			src = "env"
		}
		if len(msg) == 0 {
			return nil, "error with an empty message"
		}
		return map[string]interface{}{"err": true, "src": src}, ""
	}
	cfg, perr := voProject(opts, tmp)
	if perr != "" {
		return nil, perr
	}
	return map[string]interface{}{"err": false, "cfg": cfg}, ""
}

func TestVerifOptions(t *testing.T) {
	out := verifOpenOut(t)
	defer out.Close()
	devnull, err := os.Open(os.DevNull)
	if err != nil {
		t.Fatal(err)
	}
	os.Stdin = devnull // the default scheme depends on whether stdin is a terminal
	os.Unsetenv("NO_COLOR")
	base := t.TempDir()
	cwd, _ := os.Getwd()
	defer os.Chdir(cwd)
	id := 0
	var tmp string
	verifReadCases(t, func(line []byte) error {
		var c voCase
		if err := json.Unmarshal(line, &c); err != nil {
			return err
		}
		if id%500 == 0 { // fresh scratch directory now and then: history files are created by the parser
			if tmp != "" {
				os.Chdir(base)
				os.RemoveAll(tmp)
			}
			tmp = filepath.Join(base, fmt.Sprintf("d%d", id))
			if err := os.MkdirAll(tmp, 0700); err != nil {
				return err
			}
			if err := os.Chdir(tmp); err != nil {
				return err
			}
		}
		got, p := voRun(c, tmp)
		rec := map[string]interface{}{"id": id, "got": got}
		if p != "" {
			rec["panic"] = p
		}
		out.Put(rec)
		id++
		return nil
	})
}
