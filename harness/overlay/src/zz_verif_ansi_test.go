//go:build verif

package fzf

// C11: replays lines chosen by TLC (MC_Ansi.tla) or by the random generators of lib/props/c11.py on the real
// extractColor, line after line with the state carried over exactly as core.go's ansiProcessor does
// (lineAnsiState = newState).  The record holds what the real code returned, translated into the vocabulary of
// spec/FzfAnsi.tla by the tables below (printed by TestVerifAnsiTable so that the judge sees them too):
//   text    the returned string as symbols
//   spans   the returned []ansiOffset: rune offsets [b,e) + the abstract state
//   attrs   what every character of the text shows, run-length encoded; taken from Result.colorOffsets (the real
//           merge that the renderer uses), not from a re-implementation
//   final   the state returned for the next line
// No expectation is computed here.

import (
	"encoding/json"
	"fmt"
	"reflect"
	"testing"
	"unicode/utf8"

	"github.com/junegunn/fzf/src/tui"
)

var vaSymBytes = map[string]string{
	"ESC": "\x1b", "BS": "\x08", "SO": "\x0e", "SI": "\x0f", "BEL": "\x07", "LF": "\n", "BSL": "\\", "e~": "é",
}

func vaBytes(syms []string) string {
	b := []byte{}
	for _, s := range syms {
		if v, ok := vaSymBytes[s]; ok {
			b = append(b, v...)
		} else if len(s) == 1 && s[0] >= 0x20 && s[0] <= 0x7e {
			b = append(b, s[0])
		} else {
			panic("unknown symbol " + s)
		}
	}
	return string(b)
}

var vaSymOf = func() map[rune]string {
	m := map[rune]string{}
	for k, v := range vaSymBytes {
		r, _ := utf8.DecodeRuneInString(v)
		m[r] = k
	}
	return m
}()

func vaSyms(s string) []string {
	out := []string{}
	for _, r := range s {
		if k, ok := vaSymOf[r]; ok {
			out = append(out, k)
		} else if r >= 0x20 && r <= 0x7e {
			out = append(out, string(r))
		} else {
			out = append(out, fmt.Sprintf("U+%04X", r))
		}
	}
	return out
}

// ---- abstraction tables: code representation -> vocabulary of FzfAnsi.tla
var vaAttrTable = []struct {
	Name string
	Bit  tui.Attr
}{
	{"bold", tui.Bold}, {"dim", tui.Dim}, {"italic", tui.Italic}, {"underline", tui.Underline},
	{"blink", tui.Blink}, {"reverse", tui.Reverse}, {"strike", tui.StrikeThrough},
}

const vaColourRule = "tui.Color -1 -> [] (default); 0..255 -> [n] (palette); (1<<24)|r<<16|g<<8|b -> [r,g,b]; anything else -> [-1, raw]"

func vaColour(c tui.Color) []int {
	switch {
	case c == -1:
		return []int{}
	case c >= 0 && c <= 255:
		return []int{int(c)}
	case c >= 1<<24 && c < 1<<25:
		return []int{int(c>>16) & 0xff, int(c>>8) & 0xff, int(c) & 0xff}
	}
	return []int{-1, int(c)}
}

func vaAttrs(a tui.Attr) []string {
	out := []string{}
	for _, e := range vaAttrTable {
		if a&e.Bit != 0 {
			out = append(out, e.Name)
			a &^= e.Bit
		}
	}
	if a != 0 {
		out = append(out, fmt.Sprintf("bits:%#x", int(a)))
	}
	return out
}

func vaURL(u *url) []interface{} {
	if u == nil {
		return []interface{}{}
	}
	return []interface{}{vaSyms(u.params), vaSyms(u.uri)}
}

type vaVis struct {
	Fg  []int         `json:"fg"`
	Bg  []int         `json:"bg"`
	At  []string      `json:"at"`
	URL []interface{} `json:"url"`
}
type vaWhole struct {
	Fg  []int         `json:"fg"`
	Bg  []int         `json:"bg"`
	At  []string      `json:"at"`
	URL []interface{} `json:"url"`
	Lbg []int         `json:"lbg"`
}
type vaSpan struct {
	B int32   `json:"b"`
	E int32   `json:"e"`
	C vaWhole `json:"c"`
}
type vaLine struct {
	Text  []string        `json:"text"`
	Wf    bool            `json:"wf"`
	Attrs [][]interface{} `json:"attrs"`
	Final vaWhole         `json:"final"`
}

func vaState(s *ansiState) vaWhole {
	if s == nil {
		return vaWhole{[]int{}, []int{}, []string{}, []interface{}{}, []int{}}
	}
	return vaWhole{vaColour(s.fg), vaColour(s.bg), vaAttrs(s.attr), vaURL(s.url), vaColour(s.lbg)}
}

var vaTheme = func() *tui.ColorTheme {
	th := *tui.Dark256
	th.Colored = true
	th.Fg = tui.ColorAttr{Color: -1, Attr: tui.AttrUndefined}
	th.Bg = tui.ColorAttr{Color: -1, Attr: tui.AttrUndefined}
	return &th
}()

// what each character shows according to the real span merge (Result.colorOffsets), run-length encoded
func vaRendered(nchars int, offsets *[]ansiOffset) [][]interface{} {
	res := Result{item: &Item{colors: offsets}}
	base := tui.NewColorPair(-1, -1, tui.AttrUndefined)
	cos := res.colorOffsets(nil, nil, vaTheme, base, base, tui.AttrUndefined, false)
	runs := [][]interface{}{}
	var last *vaVis
	for k := 0; k < nchars; k++ {
		v := vaVis{[]int{}, []int{}, []string{}, []interface{}{}}
		for _, co := range cos {
			if int(co.offset[0]) <= k && k < int(co.offset[1]) {
				v = vaVis{vaColour(co.color.Fg()), vaColour(co.color.Bg()), vaAttrs(co.color.Attr()), vaURL(co.url)}
			}
		}
		if last != nil && reflect.DeepEqual(*last, v) {
			runs[len(runs)-1][0] = runs[len(runs)-1][0].(int) + 1
		} else {
			vv := v
			last = &vv
			runs = append(runs, []interface{}{1, vv})
		}
	}
	return runs
}

type vaCase struct {
	Lines [][]string `json:"lines"`
	Exp   []struct {
		Wf bool `json:"wf"`
	} `json:"exp"`
}

func vaRunCase(c *vaCase) (got []vaLine, spans [][]vaSpan, panicked string) {
	got = []vaLine{}
	spans = [][]vaSpan{}
	defer func() {
		if r := recover(); r != nil {
			panicked = fmt.Sprint(r)
		}
	}()
	var lineAnsiState *ansiState // core.go: carried from line to line
	for i, syms := range c.Lines {
		str := vaBytes(syms)
		trimmed, offsets, newState := extractColor(str, lineAnsiState, nil)
		lineAnsiState = newState
		sp := []vaSpan{}
		if offsets != nil {
			for _, o := range *offsets {
				sp = append(sp, vaSpan{o.offset[0], o.offset[1], vaState(&o.color)})
			}
		}
		spans = append(spans, sp)
		wf := i >= len(c.Exp) || c.Exp[i].Wf // colours are only specified (and compared) inside the well-formed grammar
		ln := vaLine{Text: vaSyms(trimmed), Wf: wf, Attrs: [][]interface{}{}, Final: vaState(nil)}
		if wf {
			ln.Attrs = vaRendered(utf8.RuneCountInString(trimmed), offsets)
			ln.Final = vaState(newState)
		}
		got = append(got, ln)
	}
	return
}

func TestVerifAnsi(t *testing.T) {
	out := verifOpenOut(t)
	defer out.Close()
	verifReadCases(t, func(line []byte) error {
		var c vaCase
		if err := json.Unmarshal(line, &c); err != nil {
			return err
		}
		got, spans, p := vaRunCase(&c)
		rec := map[string]interface{}{"kind": "lines", "lines": c.Lines, "got": got, "spans": spans}
		if p != "" {
			rec["panic"] = p
		}
		out.Put(rec)
		return nil
	})
}

// The abstraction tables themselves, for the evidence file and for Judge_Ansi (kind = "table").
func TestVerifAnsiTable(t *testing.T) {
	out := verifOpenOut(t)
	defer out.Close()
	names := []string{}
	bits := []int{}
	for _, e := range vaAttrTable {
		names = append(names, e.Name)
		bits = append(bits, int(e.Bit))
	}
	syms := map[string][]int{}
	for k, v := range vaSymBytes {
		b := []int{}
		for _, x := range []byte(v) {
			b = append(b, int(x))
		}
		syms[k] = b
	}
	out.Put(map[string]interface{}{"kind": "table", "attr_names": names, "attr_bits": bits, "colour_rule": vaColourRule,
		"default_colour": int(tui.Color(-1)), "symbols": syms,
		"samples": [][]int{vaColour(-1), vaColour(0), vaColour(255), vaColour(1<<24 | 1<<16 | 2<<8 | 3)}})
}
