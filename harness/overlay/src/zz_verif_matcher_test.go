//go:build verif

package fzf

// C08/C13 E binding: matcher-level schedules from spec/Gen_Matcher.tla replayed on a real ChunkList + Matcher.
// The harness plays the coordinator; the scan.chunk gate (verifGateFn) holds every scan worker after each chunk so
// that a cancelling request can be placed after exactly k chunk completions.

import (
	"encoding/json"
	"fmt"
	"sync/atomic"
	"testing"
	"time"

	"github.com/junegunn/fzf/src/algo"
	"github.com/junegunn/fzf/src/util"
)

type vmPub struct {
	Q     string `json:"q"`
	Count int    `json:"count"`
	Ids   []int  `json:"ids"`
}
type vmStep struct {
	N int    `json:"n"`
	Q string `json:"q"`
}
type vmCase struct {
	Kind  string   `json:"kind"`
	N     int      `json:"n"`
	Parts int      `json:"parts"`
	Q1    string   `json:"q1"`
	K     int      `json:"k"`
	Q2    string   `json:"q2"`
	Steps []vmStep `json:"steps"`
}

func vmItemText(i int) string {
	s := ""
	if i%7 == 0 {
		s += "a"
	}
	if i%5 == 0 {
		s += "b"
	}
	return fmt.Sprintf("%s-%d", s, i)
}

func TestVerifMatcherSchedules(t *testing.T) {
	out := verifOpenOut(t)
	defer out.Close()
	arrive := make(chan struct{})
	release := make(chan struct{})
	var gatedFlag int32
	verifGateFn = func(name string, a int, b int) {
		if name == "scan.chunk" && atomic.LoadInt32(&gatedFlag) == 1 {
			arrive <- struct{}{}
			<-release
		}
	}
	defer func() { verifGateFn = nil }()
	id := 0
	verifReadCases(t, func(line []byte) error {
		var c vmCase
		if err := json.Unmarshal(line, &c); err != nil {
			return err
		}
		cache := NewChunkCache()
		var idx int32
		cl := NewChunkList(cache, func(item *Item, data []byte) bool {
			item.text = util.ToChars(data)
			item.text.Index = idx
			idx++
			return true
		})
		eventBox := util.NewEventBox()
		patternCache := make(map[string]*Pattern)
		pb := func(runes []rune) *Pattern {
			return BuildPattern(cache, patternCache, true, algo.FuzzyMatchV2, true, CaseSmart, false, true, false, true,
				[]Range{}, Delimiter{}, revision{}, runes, nil)
		}
		m := NewMatcher(cache, pb, false, false, eventBox, revision{})
		if c.Parts < m.partitions {
			m.partitions = c.Parts
		}
		go m.Loop()
		pushed := 0
		pushTo := func(n int) {
			for ; pushed < n; pushed++ {
				cl.Push([]byte(vmItemText(pushed)))
			}
		}
		got := []vmPub{}
		timedOut := false
		pubs := make(chan *Merger, 16)
		go func() { // forwards published mergers until EvtQuit
			for {
				var mg *Merger
				quit := false
				eventBox.Wait(func(events *util.Events) {
					if v, ok := (*events)[EvtSearchFin]; ok {
						mg = v.(*Merger)
					}
					if _, ok := (*events)[EvtQuit]; ok {
						quit = true
					}
					events.Clear()
				})
				if mg != nil {
					pubs <- mg
				}
				if quit {
					return
				}
			}
		}()
		awaitPub := func(d time.Duration) *Merger {
			select {
			case mg := <-pubs:
				return mg
			case <-time.After(d):
				return nil
			}
		}
		record := func(mg *Merger, count int) string {
			q := ""
			if mg.pattern != nil {
				q = mg.pattern.AsString()
			}
			ids := make([]int, mg.Length())
			for i := 0; i < mg.Length(); i++ {
				ids[i] = int(mg.Get(i).item.Index())
			}
			got = append(got, vmPub{q, count, ids})
			return q
		}
		if c.Kind == "seq" {
			for _, s := range c.Steps {
				pushTo(s.N)
				snap, cnt, _ := cl.Snapshot(0)
				m.Reset(snap, []rune(s.Q), true, true, false, revision{})
				mg := awaitPub(20 * time.Second)
				if mg == nil {
					timedOut = true
					break
				}
				record(mg, cnt)
			}
		} else {
			pushTo(c.N)
			snap, cnt, _ := cl.Snapshot(0)
			atomic.StoreInt32(&gatedFlag, 1)
			m.Reset(snap, []rune(c.Q1), false, true, false, revision{})
			for j := 1; j < c.K; j++ {
				<-arrive
				release <- struct{}{}
			}
			<-arrive // the k-th chunk has been matched; place the cancelling request before its completion is counted
			m.Reset(snap, []rune(c.Q2), true, true, false, revision{})
			release <- struct{}{}
			time.Sleep(2 * time.Millisecond)
			atomic.StoreInt32(&gatedFlag, 0)
			done := make(chan bool)
			go func() { // release whoever is still held or arrives late
				for {
					select {
					case <-arrive:
						release <- struct{}{}
					case <-done:
						return
					}
				}
			}()
			for len(got) < 2 {
				mg := awaitPub(20 * time.Second)
				if mg == nil {
					timedOut = true
					break
				}
				q := record(mg, cnt)
				if q == c.Q2 && c.Q1 != c.Q2 {
					break
				}
				if c.Q1 == c.Q2 { // one publish (first scan cancelled) or two: give a second one a moment
					if mg2 := awaitPub(50 * time.Millisecond); mg2 != nil {
						record(mg2, cnt)
					}
					break
				}
			}
			close(done)
		}
		eventBox.Set(EvtQuit, nil)
		m.Stop()
		out.Put(map[string]interface{}{"id": id, "got": got, "timeout": timedOut})
		id++
		return nil
	})
}

