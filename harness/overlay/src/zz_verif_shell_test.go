//go:build verif

package fzf

// C12: binds spec/FzfShell.tla to the real quoting / placeholder code and to the real shells.
//
//   TestVerifShellQuote   E: strings from MC_Shell (Gen_ShellQuote*.cfg) through Executor.QuoteEntry (POSIX and fish
//                         escaper) and escapeSingleQuote; the quoted forms are handed to every real shell
//                         and, for every cell of the ($SHELL, --with-shell) matrix of MC_Shell (VERIF_CELLS), through
//                         the executor NewExecutor builds under that cell; what the POSIX-evaluated cells quote is
//                         handed to the program their own ExecCommand starts
//   TestVerifShellCells   E: the matrix itself: the command prefix of every cell's ExecCommand
//   TestVerifShellLex     E: command lines the shell model calls inert (Gen_ShellLex*.cfg) handed to the real shells
//   TestVerifShellExpand  E: (template, terminal state) pairs from MC_ShellExpand through the real
//                         Terminal.buildPlusList + Terminal.replacePlaceholder, expansion handed to the real shells
//   TestVerifShellRecord  J: random long inputs through the same code, the expansion run by the real
//                         Executor.ExecCommand; one record per input for Judge_Shell
//                         (both under the --delimiter and print separator of the case / record; the temporary files of
//                         file placeholders are read before they are removed, their paths replaced by the FILE byte)
//   TestVerifShellTmux    J: the real fzf binary with --tmux, a stand-in `tmux` that keeps the generated script and runs
//                         it with the real sh from an environment without the caller's entries, and a stand-in child
//                         (this test binary, see init) that records argv and environment; environments with hostile NAMES
//   TestVerifShellEnv     E: one environment entry from MC_ShellEnv per `fzf --tmux` run: export part of the script,
//                         environment of the re-launched process, whether anything else ran
//
// Nothing here decides anything: the harness reports what the code and the shells produced; the expected values come
// from TLC (E) or the records are judged by TLC (J).

import (
	"bytes"
	"encoding/json"
	"fmt"
	"os"
	"os/exec"
	"path/filepath"
	"sort"
	"strconv"
	"strings"
	"sync"
	"testing"
	"time"

	"github.com/junegunn/fzf/src/util"
)

// ---------------------------------------------------------------- symbol table (same as spec/FzfShell.tla)

var vsTable = []struct {
	sym  string
	code byte
	b    byte
}{
	{"SQ", 'Q', '\''}, {"DQ", 'D', '"'}, {"BSL", 'B', '\\'}, {"DOL", 'S', '$'}, {"BT", 'T', '`'}, {"SP", '_', ' '},
	{"LF", 'N', '\n'}, {"STAR", 'X', '*'}, {"SEMI", 'C', ';'}, {"AMP", 'A', '&'}, {"PIPE", 'P', '|'}, {"LP", 'L', '('},
	{"LB", 'O', '{'}, {"RB", 'E', '}'}, {"BANG", 'G', '!'}, {"HASH", 'H', '#'}, {"TILDE", 'W', '~'},
	{"PLUS", '+', '+'}, {"MINUS", '-', '-'}, {"DOT", '.', '.'}, {"COLON", ':', ':'},
	{"a", 'a', 'a'}, {"q", 'q', 'q'}, {"n", 'n', 'n'}, {"s", 's', 's'}, {"r", 'r', 'r'}, {"f", 'f', 'f'},
	{"0", '0', '0'}, {"1", '1', '1'}, {"2", '2', '2'}, {"3", '3', '3'}, {"4", '4', '4'}, {"5", '5', '5'},
	{"6", '6', '6'}, {"7", '7', '7'}, {"8", '8', '8'}, {"9", '9', '9'},
	// environment entries and the word `export`
	{"US", 'u', '_'}, {"EQ", '=', '='}, {"e", 'e', 'e'}, {"x", 'x', 'x'}, {"p", 'p', 'p'}, {"o", 'o', 'o'}, {"t", 't', 't'},
	// NUL: the print separator of --print0 (file contents only); FILE: the byte the harness writes in place of the
	// path of a temporary file (no item, query or template of this alphabet contains it)
	{"NUL", 'Z', 0}, {"FILE", 'F', 'F'},
}

const vsFileByte = "F"

var vsCodeToByte, vsByteToCode [256]byte
var vsCodeKnown [256]bool
var vsSymToByte = map[string]byte{}
var vsByteToSym [256]string

func init() {
	for _, e := range vsTable {
		vsCodeToByte[e.code] = e.b
		vsCodeKnown[e.code] = true
		vsByteToCode[e.b] = e.code
		vsSymToByte[e.sym] = e.b
		vsByteToSym[e.b] = e.sym
	}
	vsDumpIfAsked()
}

// wire form TLC -> harness: one code character per symbol
func vsDecode(code string) string {
	out := make([]byte, len(code))
	for i := 0; i < len(code); i++ {
		if !vsCodeKnown[code[i]] {
			panic("unknown code character " + strconv.Quote(code[i:i+1]))
		}
		out[i] = vsCodeToByte[code[i]]
	}
	return string(out)
}

func vsEncode(s string) string {
	out := make([]byte, 0, len(s))
	for i := 0; i < len(s); i++ {
		if c := vsByteToCode[s[i]]; c != 0 {
			out = append(out, c)
		} else {
			out = append(out, []byte(fmt.Sprintf("?%02X", s[i]))...)
		}
	}
	return string(out)
}

func vsEncodeAll(ws []string) []string {
	out := make([]string, len(ws))
	for i, w := range ws {
		out[i] = vsEncode(w)
	}
	return out
}

// wire form harness <-> Judge: arrays of symbol names; a byte outside the table is "xHH", an argument that is an
// option name ("--query") is one symbol
func vsFromSyms(syms []string) string {
	var sb strings.Builder
	for _, s := range syms {
		if b, ok := vsSymToByte[s]; ok {
			sb.WriteByte(b)
		} else if len(s) == 3 && s[0] == 'x' {
			v, err := strconv.ParseUint(s[1:], 16, 8)
			if err != nil {
				panic("bad symbol " + s)
			}
			sb.WriteByte(byte(v))
		} else if strings.HasPrefix(s, "--") {
			sb.WriteString(s)
		} else {
			panic("bad symbol " + s)
		}
	}
	return sb.String()
}

func vsToSyms(s string) []string {
	out := make([]string, 0, len(s))
	for i := 0; i < len(s); i++ {
		if sym := vsByteToSym[s[i]]; sym != "" {
			out = append(out, sym)
		} else {
			out = append(out, fmt.Sprintf("x%02X", s[i]))
		}
	}
	return out
}

func vsArgToSyms(s string) []string {
	if strings.HasPrefix(s, "--") {
		return []string{s}
	}
	return vsToSyms(s)
}

func vsAllToSyms(ws []string) [][]string {
	out := make([][]string, len(ws))
	for i, w := range ws {
		out[i] = vsToSyms(w)
	}
	return out
}

// ---------------------------------------------------------------- real shells

type vsShell struct {
	Name string   `json:"name"`
	Argv []string `json:"argv"`
}

func vsShells(t *testing.T) []vsShell {
	var shells []vsShell
	if err := json.Unmarshal([]byte(os.Getenv("VERIF_SHELLS")), &shells); err != nil || len(shells) == 0 {
		t.Fatalf("VERIF_SHELLS: %v", err)
	}
	return shells
}

func vsPar() int {
	if n, err := strconv.Atoi(os.Getenv("VERIF_PAR")); err == nil && n > 0 {
		return n
	}
	return 8
}

// The wrapper every command line is given to: prints the number of arguments and each argument, NUL-terminated.
const vsWrapper = `w() { printf '%s\0' "$#" "$@"; }`

// vsRunScript runs one shell process over `w <id> <line>` for every line and returns the arguments the shell saw per
// line.  ok=false if the output is not exactly one well-formed record per line, in order, with clean exit and stderr.
func vsRunScript(sh vsShell, dir string, ids []int, lines []string) (res [][]string, ok bool, diag string) {
	var sb strings.Builder
	sb.WriteString(vsWrapper)
	sb.WriteByte('\n')
	for i, l := range lines {
		sb.WriteString("w ")
		sb.WriteString(strconv.Itoa(ids[i]))
		sb.WriteByte(' ')
		sb.WriteString(l)
		sb.WriteByte('\n')
	}
	f, err := os.CreateTemp(dir, "script-*")
	if err != nil {
		panic(err)
	}
	f.WriteString(sb.String())
	f.Close()
	defer os.Remove(f.Name())
	cmd := exec.Command(sh.Argv[0], append(append([]string{}, sh.Argv[1:]...), f.Name())...)
	cmd.Dir = dir
	cmd.Env = []string{"PATH=/nonexistent", "LC_ALL=C"}
	var stdout, stderr bytes.Buffer
	cmd.Stdout, cmd.Stderr = &stdout, &stderr
	done := make(chan error, 1)
	if err := cmd.Start(); err != nil {
		panic(err)
	}
	go func() { done <- cmd.Wait() }()
	select {
	case err = <-done:
	case <-time.After(120 * time.Second):
		cmd.Process.Kill()
		err = fmt.Errorf("timeout")
		<-done
	}
	// every field is NUL-terminated: the split ends with one empty element
	fields := strings.Split(stdout.String(), "\x00")
	last := len(fields) - 1
	res = make([][]string, len(lines))
	pos := 0
	structural := err == nil && stderr.Len() == 0 && fields[last] == ""
	for i := 0; structural && i < len(lines); i++ {
		if pos >= last {
			structural = false
			break
		}
		n, e := strconv.Atoi(fields[pos])
		if e != nil || n < 1 || pos+n >= last || fields[pos+1] != strconv.Itoa(ids[i]) {
			structural = false
			break
		}
		res[i] = append([]string{}, fields[pos+2:pos+1+n]...)
		pos += 1 + n
	}
	if pos != last {
		structural = false
	}
	if !structural {
		d := stderr.String()
		if len(d) > 200 {
			d = d[:200]
		}
		return nil, false, fmt.Sprintf("exit=%v stderr=%q", err, d)
	}
	return res, true, ""
}

// vsEvalLines hands every non-skipped line to the shell (many lines per process) and returns, per line, either the
// argument list the shell saw or an error marker.  A process whose output is not well-formed is bisected down to
// single lines so that one broken line cannot hide or spoil the others.
type vsEval struct {
	words []string
	err   string
}

func vsEvalLines(sh vsShell, dir string, lines []string, skip []bool) []vsEval {
	out := make([]vsEval, len(lines))
	var idx []int
	for i := range lines {
		if skip == nil || !skip[i] {
			idx = append(idx, i)
		}
	}
	const chunk = 4000
	type job struct{ lo, hi int }
	var failed []job
	var mu sync.Mutex
	var wg sync.WaitGroup
	jobs := make(chan job)
	run := func(j job) bool {
		ids := idx[j.lo:j.hi]
		ls := make([]string, len(ids))
		for k, id := range ids {
			ls[k] = lines[id]
		}
		res, ok, diag := vsRunScript(sh, dir, ids, ls)
		if !ok {
			if len(ids) == 1 {
				out[ids[0]] = vsEval{err: "shell did not produce one clean argument list: " + diag}
				return true
			}
			return false
		}
		for k, id := range ids {
			out[id] = vsEval{words: res[k]}
		}
		return true
	}
	for w := 0; w < vsPar(); w++ {
		wg.Add(1)
		go func() {
			defer wg.Done()
			for j := range jobs {
				if !run(j) {
					mu.Lock()
					failed = append(failed, j)
					mu.Unlock()
				}
			}
		}()
	}
	for lo := 0; lo < len(idx); lo += chunk {
		hi := lo + chunk
		if hi > len(idx) {
			hi = len(idx)
		}
		jobs <- job{lo, hi}
	}
	close(jobs)
	wg.Wait()
	// second phase, in case order, with a budget of extra shell processes
	for i := 0; i < len(failed); i++ {
		for k := i + 1; k < len(failed); k++ {
			if failed[k].lo < failed[i].lo {
				failed[i], failed[k] = failed[k], failed[i]
			}
		}
	}
	budget := 4000
	var bisect func(j job)
	bisect = func(j job) {
		if budget <= 0 {
			for _, id := range idx[j.lo:j.hi] {
				out[id] = vsEval{err: "not examined: too many malformed shell runs before this one"}
			}
			return
		}
		budget--
		if run(j) {
			return
		}
		mid := (j.lo + j.hi) / 2
		bisect(job{j.lo, mid})
		bisect(job{mid, j.hi})
	}
	for _, j := range failed {
		mid := (j.lo + j.hi) / 2
		bisect(job{j.lo, mid})
		bisect(job{mid, j.hi})
	}
	return out
}

func vsEvalJSON(e vsEval) interface{} {
	if e.err != "" {
		return "ERR: " + e.err
	}
	return vsEncodeAll(e.words)
}

// per shell: lines -> JSON-able result per line (nil where skipped)
func vsAllShells(t *testing.T, lines []string, skip []bool) []map[string]interface{} {
	dir := t.TempDir()
	out := make([]map[string]interface{}, len(lines))
	for i := range out {
		if skip == nil || !skip[i] {
			out[i] = map[string]interface{}{}
		}
	}
	for _, sh := range vsShells(t) {
		ev := vsEvalLines(sh, dir, lines, skip)
		for i := range lines {
			if out[i] != nil {
				out[i][sh.Name] = vsEvalJSON(ev[i])
			}
		}
	}
	return out
}

func vsExecutors() (posix *util.Executor, fish *util.Executor) {
	old, had := os.LookupEnv("SHELL")
	os.Setenv("SHELL", "/bin/sh")
	posix = util.NewExecutor("")
	os.Setenv("SHELL", "/usr/local/bin/fish")
	fish = util.NewExecutor("")
	if had {
		os.Setenv("SHELL", old)
	} else {
		os.Unsetenv("SHELL")
	}
	return
}

// ---------------------------------------------------------------- the ($SHELL, --with-shell) matrix

// One cell of MC_Shell's table, as TLC printed it.  Style / Ev are the specification's statements about the cell; the
// harness uses Ev only to know which cells it may hand to a real shell (fish is not installed).
type vsCell struct {
	Id    int      `json:"id"`
	Set   bool     `json:"set"`
	Shell string   `json:"shell"`
	Ws    string   `json:"ws"`
	Style string   `json:"style"`
	Ev    string   `json:"ev"`
	Argv  []string `json:"argv"`
}

type vsCellExec struct {
	cell  vsCell
	x     *util.Executor
	argv  []string // what the real ExecCommand puts before the command line
	key   string   // argv joined by blanks
	batch []string // argv of the same program reading a script file instead of -c COMMAND (nil: not possible)
}

// vsCellExecs builds, one after the other, the executor fzf would build under every cell: $SHELL set / unset in this
// process, --with-shell handed to NewExecutor.  The environment is restored afterwards.
func vsCellExecs(t *testing.T) []vsCellExec {
	path := os.Getenv("VERIF_CELLS")
	if path == "" {
		return nil
	}
	data, err := os.ReadFile(path)
	if err != nil {
		t.Fatal(err)
	}
	var cells []vsCell
	if err := json.Unmarshal(data, &cells); err != nil || len(cells) == 0 {
		t.Fatalf("VERIF_CELLS: %v", err)
	}
	old, had := os.LookupEnv("SHELL")
	out := make([]vsCellExec, len(cells))
	for i, c := range cells {
		if c.Set {
			os.Setenv("SHELL", c.Shell)
		} else {
			os.Unsetenv("SHELL")
		}
		x := util.NewExecutor(c.Ws)
		args := x.ExecCommand("X", false).Args
		argv := append([]string{}, args[:len(args)-1]...)
		ce := vsCellExec{cell: c, x: x, argv: argv, key: strings.Join(argv, " ")}
		if len(argv) >= 2 && argv[len(argv)-1] == "-c" {
			ce.batch = argv[:len(argv)-1]
		}
		out[i] = ce
	}
	if had {
		os.Setenv("SHELL", old)
	} else {
		os.Unsetenv("SHELL")
	}
	return out
}

func TestVerifShellCells(t *testing.T) {
	out := verifOpenOut(t)
	defer out.Close()
	cells := vsCellExecs(t)
	byId := map[int]vsCellExec{}
	for _, c := range cells {
		byId[c.cell.Id] = c
	}
	i := 0
	verifReadCases(t, func(line []byte) error {
		var c vsCell
		if err := json.Unmarshal(line, &c); err != nil {
			return err
		}
		ce, ok := byId[c.Id]
		if !ok {
			return fmt.Errorf("cell %d not in VERIF_CELLS", c.Id)
		}
		out.Put(map[string]interface{}{"id": i, "got": map[string]interface{}{"argv": ce.argv}})
		i++
		return nil
	})
}

// vsMatrixQuote: every string through the executor of every cell.  xs[i]: quoted form -> 0/1 mask of the cells that
// gave it; ev[i]: command prefix -> quoted form -> what the program started by that prefix read (cells the
// specification calls POSIX-evaluated only).
func vsMatrixQuote(t *testing.T, cells []vsCellExec, strs []string) (xs []map[string]string, ev []map[string]map[string]interface{}) {
	type ref struct {
		i   int
		out string
	}
	type keyJob struct {
		sh    vsShell
		ok    bool
		lines []string
		refs  []ref
	}
	jobs := map[string]*keyJob{}
	var order []string
	xs = make([]map[string]string, len(strs))
	ev = make([]map[string]map[string]interface{}, len(strs))
	for i, s := range strs {
		masks := map[string][]byte{}
		seen := map[string]bool{}
		ev[i] = map[string]map[string]interface{}{}
		for ci, c := range cells {
			o := c.x.QuoteEntry(s)
			m := masks[o]
			if m == nil {
				m = bytes.Repeat([]byte{'0'}, len(cells))
				masks[o] = m
			}
			m[ci] = '1'
			if c.cell.Ev != "posix" || seen[c.key+"\x00"+o] {
				continue
			}
			seen[c.key+"\x00"+o] = true
			j := jobs[c.key]
			if j == nil {
				j = &keyJob{sh: vsShell{Name: c.key, Argv: c.batch}, ok: c.batch != nil}
				jobs[c.key] = j
				order = append(order, c.key)
			}
			if ev[i][c.key] == nil {
				ev[i][c.key] = map[string]interface{}{}
			}
			j.lines = append(j.lines, o)
			j.refs = append(j.refs, ref{i, o})
		}
		xs[i] = map[string]string{}
		for o, m := range masks {
			xs[i][vsEncode(o)] = string(m)
		}
	}
	dir := t.TempDir()
	for _, k := range order {
		j := jobs[k]
		if !j.ok {
			for _, r := range j.refs {
				ev[r.i][k][vsEncode(r.out)] = "ERR: command prefix does not end in -c"
			}
			continue
		}
		res := vsEvalLines(j.sh, dir, j.lines, nil)
		for n, r := range j.refs {
			ev[r.i][k][vsEncode(r.out)] = vsEvalJSON(res[n])
		}
	}
	return
}

// ---------------------------------------------------------------- E: quoting

func TestVerifShellQuote(t *testing.T) {
	out := verifOpenOut(t)
	defer out.Close()
	posix, fish := vsExecutors()
	type qcase struct {
		S string `json:"s"`
	}
	cells := vsCellExecs(t)
	var ps, fs, es, lines, strs []string
	verifReadCases(t, func(line []byte) error {
		var c qcase
		if err := json.Unmarshal(line, &c); err != nil {
			return err
		}
		s := vsDecode(c.S)
		strs = append(strs, s)
		p, f, e := posix.QuoteEntry(s), fish.QuoteEntry(s), escapeSingleQuote(s)
		ps, fs, es = append(ps, p), append(fs, f), append(es, e)
		// MC_Shell!QuoteLine: both quoted forms as words of their own, and one glued between letters
		lines = append(lines, p+" "+e+" a"+p+"a")
		return nil
	})
	sh := vsAllShells(t, lines, nil)
	var xs []map[string]string
	var ev []map[string]map[string]interface{}
	if cells != nil {
		xs, ev = vsMatrixQuote(t, cells, strs)
	}
	for i := range lines {
		got := map[string]interface{}{"p": vsEncode(ps[i]), "f": vsEncode(fs[i]), "e": vsEncode(es[i]), "sh": sh[i]}
		if cells != nil {
			got["xs"], got["ev"] = xs[i], ev[i]
		}
		out.Put(map[string]interface{}{"id": i, "got": got})
	}
}

// ---------------------------------------------------------------- E: the shell model itself

func TestVerifShellLex(t *testing.T) {
	out := verifOpenOut(t)
	defer out.Close()
	type lcase struct {
		T string `json:"t"`
	}
	var lines []string
	verifReadCases(t, func(line []byte) error {
		var c lcase
		if err := json.Unmarshal(line, &c); err != nil {
			return err
		}
		lines = append(lines, vsDecode(c.T))
		return nil
	})
	sh := vsAllShells(t, lines, nil)
	for i := range lines {
		out.Put(map[string]interface{}{"id": i, "got": map[string]interface{}{"sh": sh[i]}})
	}
}

// ---------------------------------------------------------------- the terminal state a template is expanded in

type vsState struct {
	items []*Item
	cur   int   // 0 = no current line, else 1-based position
	sel   []int // 1-based positions in selection order
	query string
	fp    bool
	delim Delimiter // --delimiter (zero value: AWK style)
	sep   string    // print separator ("\n"; "\x00" under --print0)
}

// wire form of a --delimiter: kind awk / str / cls (a regular expression: one bracket expression over pat)
type vsDelim struct {
	Kind string `json:"kind"`
	Pat  string `json:"pat"`
}

// vsDelimiter builds the Delimiter the option parser builds (delimiterRegexp) from the --delimiter argument
func vsDelimArg(kind string, pat string) (string, bool) {
	switch kind {
	case "awk":
		return "", false
	case "str":
		return pat, true
	case "cls":
		return "[" + pat + "]", true
	}
	panic("delimiter kind " + kind)
}

func vsDelimiter(kind string, pat string) Delimiter {
	arg, given := vsDelimArg(kind, pat)
	if !given {
		return Delimiter{}
	}
	d := delimiterRegexp(arg)
	if (kind == "str") != (d.str != nil) || (kind == "cls") != (d.regex != nil) {
		panic("--delimiter " + strconv.Quote(arg) + " is not taken as a " + kind + " delimiter")
	}
	return d
}

func vsSep(name string) string {
	switch name {
	case "", "LF":
		return "\n"
	case "NUL":
		return "\x00"
	}
	panic("separator " + name)
}

// vsTerminal builds just enough of a Terminal for buildPlusList / replacePlaceholder: the list (merger + cursor) and
// the selection, made with the real selectItem / deselectItem so that the order comes from the real time stamps.
func vsTerminal(st vsState, executor *util.Executor) *Terminal {
	t := &Terminal{
		selected:     map[int32]selectedItem{},
		multi:        1 << 20,
		executor:     executor,
		printsep:     st.sep,
		delimiter:    st.delim,
		promptString: "> ",
		lastAction:   actStart,
	}
	if st.cur > 0 {
		results := make([]Result, len(st.items))
		for i, it := range st.items {
			results[i] = Result{item: it}
		}
		t.merger = NewMerger(nil, [][]Result{results}, false, false, revision{}, 0)
		t.cy = st.cur - 1
	} else {
		t.merger = EmptyMerger(revision{})
	}
	tick := func() {
		// selection order is the order of time.Now() values: make sure two consecutive selections differ
		t0 := time.Now()
		for !time.Now().After(t0) {
		}
	}
	// select everything in reverse and take it back: a line selected again later must move to the end
	if len(st.sel) > 0 {
		for i := len(st.items) - 1; i >= 0; i-- {
			t.selectItem(st.items[i])
			tick()
		}
		for _, it := range st.items {
			t.deselectItem(it)
		}
	}
	for _, k := range st.sel {
		t.selectItem(st.items[k-1])
		tick()
	}
	return t
}

func vsItem(text string, idx int) *Item {
	it := &Item{text: util.ToChars([]byte(text))}
	it.text.Index = int32(idx)
	return it
}

// what executeCommand does before it hands the command to the shell.  The temporary files of the expansion are read
// at the point where executeCommand would start the command (before removeFiles); in the command line the path of
// each file is replaced, in order, by the one byte that stands for "a temporary file" (FILE).
func vsExpand(st vsState, template string, executor *util.Executor) (bool, string, []string) {
	if st.sep == "" {
		st.sep = "\n"
	}
	t := vsTerminal(st, executor)
	valid, list := t.buildPlusList(template, st.fp)
	if !valid {
		return false, "", []string{}
	}
	cmd, files := t.replacePlaceholder(template, st.fp, st.query, list)
	contents := make([]string, len(files))
	from := 0
	for k, f := range files {
		data, err := os.ReadFile(f)
		if err != nil || f == "" {
			contents[k] = "!ERR-temporary-file-not-readable"
		} else {
			contents[k] = string(data)
		}
		if i := strings.Index(cmd[from:], f); f != "" && i >= 0 {
			cmd = cmd[:from+i] + vsFileByte + cmd[from+i+len(f):]
			from += i + len(vsFileByte)
		}
	}
	removeFiles(files)
	return true, cmd, contents
}

// ---------------------------------------------------------------- E: expansion

func TestVerifShellExpand(t *testing.T) {
	out := verifOpenOut(t)
	defer out.Close()
	posix, fish := vsExecutors()
	type ecase struct {
		T   string   `json:"t"`
		Its []string `json:"its"`
		Ix  []int    `json:"ix"`
		Cur int      `json:"cur"`
		Sel []int    `json:"sel"`
		Q   string   `json:"q"`
		Fp  bool     `json:"fp"`
		Ws  string   `json:"ws"`
		D   vsDelim  `json:"d"`
		Sep string   `json:"sep"`
	}
	type egot struct {
		valid bool
		x, xf string
		fs    []string
	}
	var gots []egot
	var lines []string
	var skip []bool
	verifReadCases(t, func(line []byte) error {
		var c ecase
		if err := json.Unmarshal(line, &c); err != nil {
			return err
		}
		kind := c.D.Kind
		if kind == "" {
			kind = "awk"
		}
		st := vsState{cur: c.Cur, sel: c.Sel, query: vsDecode(c.Q), fp: c.Fp, delim: vsDelimiter(kind, vsDecode(c.D.Pat)),
			sep: vsSep(c.Sep)}
		for i, s := range c.Its {
			st.items = append(st.items, vsItem(vsDecode(s), c.Ix[i]))
		}
		tmpl := vsDecode(c.T)
		valid, x, fs := vsExpand(st, tmpl, posix)
		_, xf, _ := vsExpand(st, tmpl, fish)
		gots = append(gots, egot{valid, x, xf, vsEncodeAll(fs)})
		lines = append(lines, x)
		// the driver only hands a command line to the shells if the specification calls it inert (ws = OK)
		skip = append(skip, c.Ws != "OK" || !valid)
		return nil
	})
	sh := vsAllShells(t, lines, skip)
	for i, g := range gots {
		var shv interface{}
		if sh[i] != nil {
			shv = sh[i]
		}
		out.Put(map[string]interface{}{"id": i, "got": map[string]interface{}{
			"valid": g.valid, "x": vsEncode(g.x), "xf": vsEncode(g.xf), "fs": g.fs, "sh": shv}})
	}
}

// ---------------------------------------------------------------- J: records of real executions

type vsRecIn struct {
	T     []string   `json:"t"`
	Items [][]string `json:"items"`
	Ix    []int      `json:"ix"`
	Cur   int        `json:"cur"`
	Sel   []int      `json:"sel"`
	Q     []string   `json:"q"`
	Fp    bool       `json:"fp"`
	Cells []int      `json:"cells"` // cells of the matrix (ids) this input is also expanded / run under
	D     struct {
		Kind string   `json:"kind"`
		Pat  []string `json:"pat"`
	} `json:"d"` // --delimiter
	Sep string `json:"sep"` // print separator: LF / NUL
}

// wire form of a cell for the judge: a path is the list of its elements, --with-shell the list of its words
func vsPathElems(p string) []string { return strings.Split(p, "/") }

func vsCellWire(c vsCell) (shell []string, ws [][]string) {
	shell = []string{}
	if c.Set {
		shell = vsPathElems(c.Shell)
	}
	ws = [][]string{}
	for _, w := range strings.Fields(c.Ws) {
		ws = append(ws, vsPathElems(w))
	}
	return
}

// the real way a command reaches the shell: Executor.ExecCommand; returns the arguments the wrapper saw
func vsExecWords(x *util.Executor, dir string, line string) [][]string {
	cmd := x.ExecCommand(vsWrapper+"; w "+line, false)
	cmd.Dir = dir
	cmd.Env = []string{"PATH=/nonexistent", "LC_ALL=C"}
	var stderr bytes.Buffer
	cmd.Stderr = &stderr
	o, err := cmd.Output()
	fields := strings.Split(string(o), "\x00")
	n, e := strconv.Atoi(fields[0])
	if err != nil || stderr.Len() > 0 || e != nil || len(fields) != n+2 || fields[n+1] != "" {
		return [][]string{{"!ERR-not-one-plain-command"}}
	}
	return vsAllToSyms(fields[1 : n+1])
}

func TestVerifShellRecord(t *testing.T) {
	out := verifOpenOut(t)
	defer out.Close()
	shells := vsShells(t)
	dir := t.TempDir()
	// the executors fzf would build for these shells: $SHELL for a bare path, --with-shell for one with flags
	cells := vsCellExecs(t)
	execs := make([]*util.Executor, len(shells))
	old := os.Getenv("SHELL")
	os.Setenv("SHELL", "/bin/sh")
	for i, sh := range shells {
		if len(sh.Argv) == 1 {
			os.Setenv("SHELL", sh.Argv[0])
			execs[i] = util.NewExecutor("")
		} else {
			execs[i] = util.NewExecutor(strings.Join(sh.Argv, " ") + " -c")
		}
	}
	os.Setenv("SHELL", old)
	var ins []vsRecIn
	verifReadCases(t, func(line []byte) error {
		var c vsRecIn
		if err := json.Unmarshal(line, &c); err != nil {
			return err
		}
		ins = append(ins, c)
		return nil
	})
	recs := make([]map[string]interface{}, len(ins))
	var wg sync.WaitGroup
	sem := make(chan struct{}, vsPar())
	for i := range ins {
		wg.Add(1)
		sem <- struct{}{}
		go func(i int) {
			defer wg.Done()
			defer func() { <-sem }()
			c := ins[i]
			if c.D.Kind == "" {
				c.D.Kind, c.D.Pat = "awk", []string{}
			}
			if c.Sep == "" {
				c.Sep = "LF"
			}
			st := vsState{cur: c.Cur, sel: c.Sel, query: vsFromSyms(c.Q), fp: c.Fp,
				delim: vsDelimiter(c.D.Kind, vsFromSyms(c.D.Pat)), sep: vsSep(c.Sep)}
			for k, s := range c.Items {
				st.items = append(st.items, vsItem(vsFromSyms(s), c.Ix[k]))
			}
			tmpl := vsFromSyms(c.T)
			valid, x, fs := vsExpand(st, tmpl, execs[0])
			argv := map[string]interface{}{}
			if valid {
				for k, sh := range shells {
					_, xk, _ := vsExpand(st, tmpl, execs[k])
					if xk != x {
						argv[sh.Name] = [][]string{{"!ERR-executors-differ"}}
						continue
					}
					argv[sh.Name] = vsExecWords(execs[k], dir, x)
				}
			}
			// the same input under cells of the ($SHELL, --with-shell) matrix: the executor built under that cell
			// expands, and - where the specification says a POSIX shell evaluates - its own ExecCommand runs the line
			runs := []map[string]interface{}{}
			if valid {
				for _, id := range c.Cells {
					ce := cells[id]
					shell, ws := vsCellWire(ce.cell)
					_, xc, _ := vsExpand(st, tmpl, ce.x)
					run := map[string]interface{}{"set": ce.cell.Set, "shell": shell, "ws": ws, "x": vsToSyms(xc),
						"ran": false, "argv": [][]string{}}
					if ce.cell.Ev == "posix" {
						run["ran"] = true
						run["argv"] = vsExecWords(ce.x, dir, xc)
					}
					runs = append(runs, run)
				}
			}
			recs[i] = map[string]interface{}{"kind": "expand", "t": c.T, "items": c.Items, "ix": c.Ix, "cur": c.Cur,
				"sel": c.Sel, "q": c.Q, "fp": c.Fp, "d": map[string]interface{}{"kind": c.D.Kind, "pat": c.D.Pat}, "sep": c.Sep,
				"valid": valid, "x": vsToSyms(x), "fs": vsAllToSyms(fs), "argv": argv, "runs": runs,
				"cells": append([]int{}, c.Cells...)}
		}(i)
	}
	wg.Wait()
	for _, r := range recs {
		out.Put(r)
	}
}

// ---------------------------------------------------------------- --tmux re-launch through the real binary (E and J)

// Stand-in for the re-launched fzf: when VERIF_C12_DUMP is set this binary only records how it was called.
func vsDumpIfAsked() {
	path := os.Getenv("VERIF_C12_DUMP")
	if path == "" {
		return
	}
	env := [][]string{}
	for _, kv := range os.Environ() {
		env = append(env, vsToSyms(kv))
	}
	argv := make([][]string, len(os.Args))
	for i, a := range os.Args {
		argv[i] = vsArgToSyms(a)
	}
	data, _ := json.Marshal(map[string]interface{}{"argv": argv, "env": env})
	if err := os.WriteFile(path, data, 0600); err != nil {
		os.Exit(3)
	}
	os.Exit(0)
}

type vsTmuxIn struct {
	Name []string   `json:"name"` // directory name the stand-in child lives in
	Args [][]string `json:"args"` // arguments after argv[0]
	Ents [][]string `json:"ents"` // environment entries fzf is started with: any text, with or without "="
}

// names the harness itself (or the shell that runs the script) puts into the environment of the re-launched process
var vsTmuxBaseline = map[string]bool{"PATH": true, "TMUX": true, "TMPDIR": true, "HOME": true, "VERIF_C12_DUMP": true,
	"VERIF_S0": true, "VERIF_S1": true, "PWD": true, "OLDPWD": true, "SHLVL": true, "_": true,
	"FZF_DEFAULT_COMMAND": true, "FZF_DEFAULT_OPTS": true, "FZF_DEFAULT_OPTS_FILE": true}

const vsSentinel0 = "export VERIF_S0='1'\n"
const vsSentinel1 = "export VERIF_S1='1'\n"

type vsTmuxRig struct {
	fzf, self, base, bin string
}

// The rig: a stand-in `tmux` that keeps a copy of the script it is given and runs `sh SCRIPT` the way a popup does -
// from an environment that has none of the caller's entries (a popup starts from the tmux server's environment; the
// script has to bring everything along) - and a stand-in command `a`, first in $PATH, that records being run.
func vsNewTmuxRig(t *testing.T) vsTmuxRig {
	fzf := os.Getenv("VERIF_FZF")
	self, err := os.Executable()
	if fzf == "" || err != nil {
		t.Fatal("VERIF_FZF / os.Executable")
	}
	base := t.TempDir()
	bin := filepath.Join(base, "bin")
	os.Mkdir(bin, 0700)
	tm := "#!/bin/sh\nshift $(($# - 2))\ncp \"$2\" \"$VERIF_C12_DUMP.script\"\n" +
		"exec /usr/bin/env -i PATH=\"$PATH\" VERIF_C12_DUMP=\"$VERIF_C12_DUMP\" \"$@\"\n"
	if err := os.WriteFile(filepath.Join(bin, "tmux"), []byte(tm), 0700); err != nil {
		t.Fatal(err)
	}
	a := "#!/bin/sh\nprintf '%s\\n' \"$*\" >> \"$VERIF_C12_DUMP.ran\"\n"
	if err := os.WriteFile(filepath.Join(bin, "a"), []byte(a), 0700); err != nil {
		t.Fatal(err)
	}
	return vsTmuxRig{fzf, self, base, bin}
}

// one `fzf --tmux` run of the real binary
func (rig vsTmuxRig) run(i int, c vsTmuxIn) map[string]interface{} {
	work := filepath.Join(rig.base, strconv.Itoa(i))
	tmp := filepath.Join(work, "tmp")
	ddir := filepath.Join(work, vsFromSyms(c.Name))
	if err := os.MkdirAll(tmp, 0700); err != nil {
		panic(err)
	}
	if err := os.MkdirAll(ddir, 0700); err != nil {
		panic(err)
	}
	child := filepath.Join(ddir, "dump")
	if err := os.Symlink(rig.self, child); err != nil {
		panic(err)
	}
	dump := filepath.Join(work, "dump.json")
	args := []string{child}
	for _, a := range c.Args {
		args = append(args, vsFromSyms(a))
	}
	cmd := exec.Command(rig.fzf)
	cmd.Args = args // argv[0] is what fzf re-launches
	cmd.Dir = work
	cmd.Env = []string{"PATH=" + rig.bin + ":/usr/bin:/bin", "TMUX=/tmp/verif,1,0", "TMUX_PANE=%1", "TMPDIR=" + tmp,
		"HOME=" + work, "VERIF_C12_DUMP=" + dump, "VERIF_S0=1"}
	ents := make([]string, len(c.Ents))
	for k, e := range c.Ents {
		ents[k] = vsFromSyms(e)
		cmd.Env = append(cmd.Env, ents[k])
	}
	cmd.Env = append(cmd.Env, "VERIF_S1=1")
	var stderr bytes.Buffer
	cmd.Stderr = &stderr
	done := make(chan error, 1)
	if err := cmd.Start(); err != nil {
		panic(err)
	}
	go func() { done <- cmd.Wait() }()
	var runErr error
	select {
	case runErr = <-done:
	case <-time.After(60 * time.Second):
		cmd.Process.Kill()
		<-done
		runErr = fmt.Errorf("timeout")
	}
	rec := map[string]interface{}{"kind": "tmux", "argv0": vsToSyms(child), "args": c.Args, "ents": c.Ents,
		"seen": [][]string{}, "seenenv": [][]string{}, "script": []string{"!NOSCRIPT"}, "ran": [][]string{}, "err": ""}
	// the part of the script between the exports of the two sentinels
	if data, err := os.ReadFile(dump + ".script"); err == nil {
		sc := string(data)
		rec["script"] = []string{"!NOSEGMENT"}
		if b := strings.Index(sc, vsSentinel0); b >= 0 {
			rest := sc[b+len(vsSentinel0):]
			if e := strings.Index(rest, vsSentinel1); e >= 0 {
				rec["script"] = vsToSyms(rest[:e])
			}
		}
	}
	if data, err := os.ReadFile(dump + ".ran"); err == nil {
		lines := strings.Split(strings.TrimSuffix(string(data), "\n"), "\n")
		rec["ran"] = vsAllToSyms(lines)
	}
	errs := []string{}
	if runErr != nil {
		errs = append(errs, fmt.Sprintf("fzf --tmux: %v", runErr))
	}
	if stderr.Len() > 0 {
		e := stderr.String()
		if len(e) > 300 {
			e = e[:300]
		}
		errs = append(errs, fmt.Sprintf("stderr=%q", e))
	}
	data, err := os.ReadFile(dump)
	if err != nil {
		errs = append(errs, "fzf was not re-launched")
	} else {
		var d struct {
			Argv [][]string `json:"argv"`
			Env  [][]string `json:"env"`
		}
		if err := json.Unmarshal(data, &d); err != nil {
			panic(err)
		}
		rec["seen"] = d.Argv
		// the entries that arrived verbatim, in the order they were given; then anything else that is not the rig's own
		have := map[string]bool{}
		for _, e := range d.Env {
			have[vsFromSyms(e)] = true
		}
		given := map[string]bool{}
		se := [][]string{}
		for k, e := range ents {
			given[e] = true
			if have[e] {
				se = append(se, c.Ents[k])
			}
		}
		extra := []string{}
		for e := range have {
			name := strings.SplitN(e, "=", 2)[0]
			if !given[e] && !vsTmuxBaseline[name] {
				extra = append(extra, e)
			}
		}
		sort.Strings(extra)
		for _, e := range extra {
			se = append(se, vsToSyms(e))
		}
		rec["seenenv"] = se
	}
	rec["err"] = strings.Join(errs, "; ")
	os.RemoveAll(work)
	return rec
}

func vsTmuxRunAll(t *testing.T, ins []vsTmuxIn) []map[string]interface{} {
	rig := vsNewTmuxRig(t)
	recs := make([]map[string]interface{}, len(ins))
	var wg sync.WaitGroup
	sem := make(chan struct{}, vsPar())
	for i := range ins {
		wg.Add(1)
		sem <- struct{}{}
		go func(i int) {
			defer wg.Done()
			defer func() { <-sem }()
			recs[i] = rig.run(i, ins[i])
		}(i)
	}
	wg.Wait()
	return recs
}

// J: random arguments and environments; one record per run for Judge_Shell
func TestVerifShellTmux(t *testing.T) {
	out := verifOpenOut(t)
	defer out.Close()
	var ins []vsTmuxIn
	verifReadCases(t, func(line []byte) error {
		var c vsTmuxIn
		if err := json.Unmarshal(line, &c); err != nil {
			return err
		}
		ins = append(ins, c)
		return nil
	})
	for _, r := range vsTmuxRunAll(t, ins) {
		out.Put(r)
	}
}

// E: one environment entry from MC_ShellEnv per run of the real binary: the export part of the script fzf wrote, the
// entries the re-launched process received from the real sh, whether anything else ran
func TestVerifShellEnv(t *testing.T) {
	out := verifOpenOut(t)
	defer out.Close()
	type ecase struct {
		Ent string `json:"ent"`
	}
	var ins []vsTmuxIn
	verifReadCases(t, func(line []byte) error {
		var c ecase
		if err := json.Unmarshal(line, &c); err != nil {
			return err
		}
		ins = append(ins, vsTmuxIn{Name: []string{"a"}, Args: [][]string{{"--tmux"}}, Ents: [][]string{vsToSyms(vsDecode(c.Ent))}})
		return nil
	})
	for i, r := range vsTmuxRunAll(t, ins) {
		script := "!NOSCRIPT"
		if sy, ok := r["script"].([]string); ok && (len(sy) == 0 || sy[0][0] != '!') {
			script = vsEncode(vsFromSyms(sy))
		} else if ok {
			script = sy[0]
		}
		vars := []string{}
		for _, e := range r["seenenv"].([][]string) {
			vars = append(vars, vsEncode(vsFromSyms(e)))
		}
		ran := []string{}
		for _, e := range r["ran"].([][]string) {
			ran = append(ran, vsEncode(vsFromSyms(e)))
		}
		out.Put(map[string]interface{}{"id": i, "got": map[string]interface{}{"script": script, "vars": vars, "ran": ran,
			"err": r["err"]}})
	}
}
