//go:build verif

package fzf

// C10: binds spec/FzfFields.tla to the real tokenizer / field index expressions.
//
// The harness only drives the real code and records what it returned; every expected value is computed by TLC
// (MC_Fields.tla exports, Judge_Fields.tla judgements).  The menu of expressions / queries / templates is defined
// in MC_Fields.tla and handed over as JSON (VERIF_MENU), so that it exists only once.
//
// Combo numbering (same formula as MC_Fields.tla):
//   c  = ((n-1)*|kinds| + (k-1))*|terms| + t                       n: nth menu entry, k: kind, t: term
//   wc = (((s-1)*|wnth| + (n-1))*|wkinds| + (k-1))*|wterms| + t    s: with-nth spec

import (
	"bytes"
	"encoding/json"
	"fmt"
	"os"
	"os/exec"
	"regexp"
	"sort"
	"strings"
	"sync"
	"testing"
	"unicode"
	"unicode/utf8"

	"github.com/junegunn/fzf/src/algo"
	"github.com/junegunn/fzf/src/util"
)

type vfDelim struct {
	Kind string `json:"kind"`
	Id   string `json:"id"`
}

type vfPart struct {
	K string          `json:"k"`
	V json.RawMessage `json:"v"`
}

type vfSpec struct {
	Plain bool       `json:"plain"`
	Nth   [][]string `json:"nth"`
	Parts []vfPart   `json:"parts"`
}

type vfMenu struct {
	Nth    [][][]string `json:"nth"`
	Kinds  []string     `json:"kinds"`
	Det    []bool       `json:"det"`
	Terms  [][]string   `json:"terms"`
	Specs  []vfSpec     `json:"specs"`
	Index  int          `json:"index"`
	WNth   [][][]string `json:"wnth"`
	WKinds []string     `json:"wkinds"`
	WTerms [][]string   `json:"wterms"`
	Ph     [][][]string `json:"ph"`
	Exprs  [][]string   `json:"exprs"`
	Chars  map[string]struct {
		Blank bool `json:"blank"`
		Space bool `json:"space"`
		Bytes int  `json:"bytes"`
		Width int  `json:"width"`
	} `json:"chars"`
}

// vfSyms is verifSyms for text that came out of the code under test: a character outside the symbol table (e.g. the
// halves of a multi-byte character that a field boundary went through) becomes a symbol no specification text
// contains, so the case is reported as a mismatch instead of killing the harness.
func vfSyms(s string) []string {
	out := []string{}
	for i, r := range s {
		if r == utf8.RuneError && s[i] != 0xEF { // a byte that is no UTF-8 sequence
			out = append(out, fmt.Sprintf("?byte-%02X", s[i]))
		} else if k, ok := verifSymOf[r]; ok {
			out = append(out, k)
		} else {
			out = append(out, fmt.Sprintf("?U+%04X", r))
		}
	}
	return out
}

// vfCheckChars: the symbols of the C10 alphabets denote the characters the specification says they are (which of
// them are TAB / SPACE, which are white space for unicode.IsSpace, how many bytes the UTF-8 encoding has, which are
// wide).  A disagreement is an error of the tables (spec/FzfChars.tla, harness/shared/chars.go), not of fzf.
func vfCheckChars(t *testing.T, menu *vfMenu) {
	if len(menu.Chars) == 0 {
		t.Fatal("menu without character table")
	}
	for sym, e := range menu.Chars {
		r, ok := verifSym[sym]
		if !ok {
			t.Fatalf("symbol %q missing in harness/shared/chars.go", sym)
		}
		if (r == '\t' || r == ' ') != e.Blank {
			t.Fatalf("symbol %q (%U): blank = %v in the specification", sym, r, e.Blank)
		}
		if unicode.IsSpace(r) != e.Space {
			t.Fatalf("symbol %q (%U): unicode.IsSpace = %v, specification %v", sym, r, !e.Space, e.Space)
		}
		if utf8.RuneLen(r) != e.Bytes {
			t.Fatalf("symbol %q (%U): %d bytes, specification %d", sym, r, utf8.RuneLen(r), e.Bytes)
		}
		if w := util.StringWidth(string(r)); (w == 2) != (e.Width == 2) {
			t.Fatalf("symbol %q (%U): width %d, specification %d", sym, r, w, e.Width)
		}
		if verifText(vfSyms(string(r))) != string(r) {
			t.Fatalf("symbol %q (%U) does not round-trip", sym, r)
		}
	}
}

type vfTok struct {
	T []string `json:"t"`
	P int      `json:"p"`
}

func vfLoadMenu(t *testing.T) *vfMenu {
	path := os.Getenv("VERIF_MENU")
	if path == "" {
		t.Fatal("VERIF_MENU not set")
	}
	b, err := os.ReadFile(path)
	if err != nil {
		t.Fatal(err)
	}
	var m vfMenu
	if err := json.Unmarshal(b, &m); err != nil {
		t.Fatal(err)
	}
	vfCheckChars(t, &m)
	return &m
}

// the non-ASCII delimiters of the menu (MC_Fields.tla U8Delims): the id names the symbols the pattern is made of
var vfU8Delims = map[string][]string{"e~": {"e~"}, "bxv": {"bxv"}, "e~bxv": {"e~", "bxv"}, "[e~bxv]": {"e~", "bxv"}}

// the command-line spelling of a menu delimiter ("" = none: regex forced in-package only)
func vfDelimArg(d vfDelim) (string, bool) {
	switch d.Kind {
	case "awk":
		return "", true
	case "str":
		if d.Id == "TAB" {
			return "\\t", true
		}
		if syms, ok := vfU8Delims[d.Id]; ok && d.Id[0] != '[' {
			return verifText(syms), true
		}
		return d.Id, true
	case "re":
		if d.Id == "[,:]" || d.Id == ",+" || d.Id == ",|, " || d.Id == "b*" {
			return d.Id, true
		}
		if syms, ok := vfU8Delims[d.Id]; ok && d.Id[0] == '[' {
			return "[" + verifText(syms) + "]", true
		}
	}
	return "", false
}

// the real Delimiter for a menu entry; goes through delimiterRegexp wherever the command line can express it
// and checks that fzf classifies the pattern the way the menu says (literal string vs regular expression)
func vfDelimiter(d vfDelim) (Delimiter, error) {
	if d.Kind == "awk" {
		return Delimiter{}, nil
	}
	if arg, ok := vfDelimArg(d); ok {
		del := delimiterRegexp(arg)
		if d.Kind == "str" && del.str == nil || d.Kind == "re" && del.regex == nil {
			return del, fmt.Errorf("delimiterRegexp(%q) is not of kind %s", arg, d.Kind)
		}
		if d.Kind == "str" && *del.str != strings.ReplaceAll(arg, "\\t", "\t") {
			return del, fmt.Errorf("delimiterRegexp(%q): literal %q", arg, *del.str)
		}
		return del, nil
	}
	pat := d.Id
	if pat == "TAB" {
		pat = "\t"
	}
	return Delimiter{regex: regexp.MustCompile(pat)}, nil
}

func vfExpr(chars []string) string { return strings.Join(chars, "") }

func vfNthArg(exprs [][]string) string {
	strs := make([]string, len(exprs))
	for i, e := range exprs {
		strs[i] = vfExpr(e)
	}
	return strings.Join(strs, ",")
}

func vfSpecArg(s vfSpec) string {
	if s.Plain {
		return vfNthArg(s.Nth)
	}
	var sb strings.Builder
	for _, p := range s.Parts {
		switch p.K {
		case "lit":
			var v []string
			if err := json.Unmarshal(p.V, &v); err != nil {
				panic(err)
			}
			sb.WriteString(verifText(v))
		case "nth":
			var v [][]string
			if err := json.Unmarshal(p.V, &v); err != nil {
				panic(err)
			}
			sb.WriteString("{" + vfNthArg(v) + "}")
		case "n":
			sb.WriteString("{n}")
		}
	}
	return sb.String()
}

func vfSpecHasIndex(s vfSpec) bool {
	for _, p := range s.Parts {
		if p.K == "n" {
			return true
		}
	}
	return false
}

// query text and search mode for a term kind
func vfQuery(kind string, term string) (query string, extended bool, fuzzy bool) {
	switch kind {
	case "exact":
		return "'" + term, true, true
	case "prefix":
		return "^" + term, true, true
	case "suffix":
		return term + "$", true, true
	case "fuzzy":
		return term, true, true
	case "xexact":
		return term, false, false
	}
	panic("unknown kind " + kind)
}

func vfQueryFlags(kind string) []string {
	if kind == "xexact" {
		return []string{"--no-extended", "--exact"}
	}
	return nil
}

func vfToks(tokens []Token) []vfTok {
	out := make([]vfTok, len(tokens))
	for i, tk := range tokens {
		out[i] = vfTok{vfSyms(tk.text.ToString()), int(tk.prefixLength)}
	}
	return out
}

// options through the real parser
func vfOptions(args ...string) (*Options, error) {
	opts := defaultOptions()
	index := 0
	if err := parseOptions(&index, opts, args); err != nil {
		return nil, err
	}
	return opts, nil
}

type vfMatcher struct {
	mu       sync.Mutex
	patterns map[string]*Pattern
	slab     *util.Slab
}

func vfNewMatcher() *vfMatcher {
	return &vfMatcher{patterns: map[string]*Pattern{}, slab: util.MakeSlab(slab16Size, slab32Size)}
}

// --nth through splitNth, query through BuildPattern; case-sensitive, no normalisation, forward, with positions
func (m *vfMatcher) pattern(d vfDelim, del Delimiter, nthArg string, kind string, term string) (*Pattern, error) {
	key := d.Kind + "\x00" + d.Id + "\x00" + nthArg + "\x00" + kind + "\x00" + term
	if p, ok := m.patterns[key]; ok {
		return p, nil
	}
	var nth []Range
	if nthArg != "" {
		var err error
		if nth, err = splitNth(nthArg); err != nil {
			return nil, err
		}
	}
	query, extended, fuzzy := vfQuery(kind, term)
	p := BuildPattern(NewChunkCache(), make(map[string]*Pattern), fuzzy, algo.FuzzyMatchV2, extended, CaseRespect,
		false, true, true, false, nth, del, revision{}, []rune(query), nil)
	m.patterns[key] = p
	return p, nil
}

// one fresh item per call: Item caches its --nth scopes
func (m *vfMatcher) match(p *Pattern, item *Item) (bool, int, int, []int) {
	item.transformed = nil
	res, offsets, pos := p.MatchItem(item, true, m.slab)
	if res == nil {
		return false, -1, -1, []int{}
	}
	ps := []int{}
	if pos != nil {
		ps = append(ps, *pos...)
		sort.Ints(ps)
	}
	if len(offsets) != 1 {
		return true, -2, -2, ps
	}
	return true, int(offsets[0][0]), int(offsets[0][1]), ps
}

func vfPlainItem(text string, index int) *Item {
	it := &Item{text: util.ToChars([]byte(text))}
	it.text.Index = int32(index)
	return it
}

// what core.go builds for an input line under --with-nth (transformer output, trailing white space dropped,
// original kept)
func vfWithNthItem(line string, del Delimiter, tr func([]Token, int32) string, index int) (*Item, string) {
	tokens := Tokenize(line, del)
	raw := tr(tokens, int32(index))
	it := &Item{text: util.ToChars([]byte(raw))}
	it.text.TrimTrailingWhitespaces()
	it.text.Index = int32(index)
	data := []byte(line)
	it.origText = &data
	return it, raw
}

func vfPlaceholder(template string, del Delimiter, query string, item *Item) string {
	out, _ := replacePlaceholder(replacePlaceholderParams{
		template:   template,
		stripAnsi:  false,
		delimiter:  del,
		printsep:   "\n",
		forcePlus:  false,
		query:      query,
		allItems:   []*Item{item, nil},
		lastAction: actIgnore,
		prompt:     "> ",
		executor:   util.NewExecutor("sh -c"),
	})
	return out
}

type vfLineCase struct {
	Line []string `json:"line"`
	D    vfDelim  `json:"d"`
}

type vfLineGot struct {
	Toks  []vfTok    `json:"toks"`
	Hits  [][]int    `json:"hits"`
	Raw   [][]string `json:"raw"`
	Shown [][]string `json:"shown"`
	Acc   [][]string `json:"acc"`
	WHits []int      `json:"whits"`
	Ph    [][]string `json:"ph"`
	Phs   [][]string `json:"phs"`
	Phq   [][]string `json:"phq"`
	QPh   [][]string `json:"qph"`
	QPhs  [][]string `json:"qphs"`
}

type vfSpecFns struct {
	arg    string
	with   func([]Token, int32) string
	accept func([]Token, int32) string
}

// TestVerifFieldsLine: one case = (line, delimiter); everything the menu asks about it.
// VERIF_TOKONLY=1: tokens only.
func TestVerifFieldsLine(t *testing.T) {
	menu := vfLoadMenu(t)
	out := verifOpenOut(t)
	defer out.Close()
	tokOnly := os.Getenv("VERIF_TOKONLY") == "1"
	m := vfNewMatcher()
	specFns := map[string][]vfSpecFns{}
	id := 0
	verifReadCases(t, func(raw []byte) error {
		var c vfLineCase
		if err := json.Unmarshal(raw, &c); err != nil {
			return err
		}
		del, err := vfDelimiter(c.D)
		if err != nil {
			return err
		}
		line := verifText(c.Line)
		got := vfLineGot{Hits: [][]int{}, Raw: [][]string{}, Shown: [][]string{}, Acc: [][]string{}, WHits: []int{},
			Ph: [][]string{}, Phs: [][]string{}, Phq: [][]string{}, QPh: [][]string{}, QPhs: [][]string{}}
		und := [][]int{}
		got.Toks = vfToks(Tokenize(line, del))
		if tokOnly {
			out.Put(map[string]interface{}{"id": id, "got": map[string]interface{}{"toks": got.Toks}})
			id++
			return nil
		}
		// --nth combos
		nK, nT := len(menu.Kinds), len(menu.Terms)
		for n, nth := range menu.Nth {
			nthArg := vfNthArg(nth)
			for k, kind := range menu.Kinds {
				for ti, term := range menu.Terms {
					p, err := m.pattern(c.D, del, nthArg, kind, verifText(term))
					if err != nil {
						return err
					}
					matched, s, e, pos := m.match(p, vfPlainItem(line, 0))
					if !matched {
						continue
					}
					combo := (n*nK+k)*nT + ti + 1
					if menu.Det[k] {
						got.Hits = append(got.Hits, []int{combo, s, e})
					} else {
						got.Hits = append(got.Hits, []int{combo, -1, -1})
						und = append(und, append([]int{combo, s, e}, pos...))
					}
				}
			}
		}
		// --with-nth / --accept-nth specs through the option parser
		key := c.D.Kind + "\x00" + c.D.Id
		fns, ok := specFns[key]
		if !ok {
			for _, sp := range menu.Specs {
				arg := vfSpecArg(sp)
				args := []string{"--with-nth=" + arg, "--accept-nth=" + arg}
				if darg, cli := vfDelimArg(c.D); cli && c.D.Kind != "awk" {
					args = append(args, "--delimiter="+darg)
				}
				opts, err := vfOptions(args...)
				if err != nil {
					return err
				}
				// a delimiter the command line cannot spell (forced regex): the parsed transformers take it as argument
				fns = append(fns, vfSpecFns{arg, opts.WithNth(del), opts.AcceptNth(del)})
			}
			specFns[key] = fns
		}
		items := make([]*Item, len(fns))
		for i, f := range fns {
			it, rawText := vfWithNthItem(line, del, f.with, menu.Index)
			items[i] = it
			got.Raw = append(got.Raw, vfSyms(rawText))
			got.Shown = append(got.Shown, vfSyms(it.text.ToString()))
			got.Acc = append(got.Acc, vfSyms(vfPlainItem(line, menu.Index).acceptNth(false, del, f.accept)))
		}
		nWN, nWK, nWT := len(menu.WNth), len(menu.WKinds), len(menu.WTerms)
		for s := range fns {
			for n, nth := range menu.WNth {
				nthArg := vfNthArg(nth)
				for k, kind := range menu.WKinds {
					for ti, term := range menu.WTerms {
						p, err := m.pattern(c.D, del, nthArg, kind, verifText(term))
						if err != nil {
							return err
						}
						if matched, _, _, _ := m.match(p, items[s]); matched {
							got.WHits = append(got.WHits, ((s*nWN+n)*nWK+k)*nWT+ti+1)
						}
					}
				}
			}
		}
		// placeholders
		item := vfPlainItem(line, 0)
		for _, nth := range menu.Ph {
			e := vfNthArg(nth)
			got.Ph = append(got.Ph, vfSyms(vfPlaceholder("{r"+e+"}", del, "", item)))
			got.Phs = append(got.Phs, vfSyms(vfPlaceholder("{rs"+e+"}", del, "", item)))
			got.Phq = append(got.Phq, vfSyms(vfPlaceholder("{"+e+"}", del, "", item)))
			got.QPh = append(got.QPh, vfSyms(vfPlaceholder("{q:"+e+"}", del, line, nil)))
			got.QPhs = append(got.QPhs, vfSyms(vfPlaceholder("{q:s"+e+"}", del, line, nil)))
		}
		out.Put(map[string]interface{}{"id": id, "got": got, "und": und})
		id++
		return nil
	})
}

// TestVerifFieldsSel: (line, delimiter) x every expression of the menu: ParseRange + Transform on the real tokens.
func TestVerifFieldsSel(t *testing.T) {
	menu := vfLoadMenu(t)
	out := verifOpenOut(t)
	defer out.Close()
	id := 0
	verifReadCases(t, func(raw []byte) error {
		var c vfLineCase
		if err := json.Unmarshal(raw, &c); err != nil {
			return err
		}
		del, err := vfDelimiter(c.D)
		if err != nil {
			return err
		}
		tokens := Tokenize(verifText(c.Line), del)
		sel := make([]interface{}, len(menu.Exprs))
		for i, e := range menu.Exprs {
			str := vfExpr(e)
			r, ok := ParseRange(&str)
			if !ok {
				sel[i] = []interface{}{0, []string{}, 0}
				continue
			}
			tr := Transform(tokens, []Range{r})
			text := tr[0].text.ToString()
			p := int(tr[0].prefixLength)
			if text == "" {
				p = 0 // the offset of an empty selection cannot be observed
			}
			sel[i] = []interface{}{1, vfSyms(text), p}
		}
		out.Put(map[string]interface{}{"id": id, "got": map[string]interface{}{"n": len(tokens), "sel": sel}})
		id++
		return nil
	})
}

// TestVerifFieldsParse: expression strings; accepted or not (ParseRange, splitNth, the {..} placeholder) and which
// of n = 0..4 fields are selected (fields are the one-character tokens "1".."4").
func TestVerifFieldsParse(t *testing.T) {
	out := verifOpenOut(t)
	defer out.Close()
	id := 0
	verifReadCases(t, func(raw []byte) error {
		var c struct {
			E []string `json:"e"`
		}
		if err := json.Unmarshal(raw, &c); err != nil {
			return err
		}
		str := vfExpr(c.E)
		r, ok := ParseRange(&str)
		_, err := splitNth(str)
		// the placeholder keeps an invalid expression verbatim (flags removed)
		okPh := vfPlaceholder("{r"+str+"}", Delimiter{}, "", vfPlainItem("x y", 0)) != "{"+str+"}"
		got := map[string]interface{}{"ok": ok, "oklist": err == nil, "okph": okPh, "sel": []interface{}{}}
		if ok {
			sel := []interface{}{}
			for n := 0; n <= 4; n++ {
				fields := []string{"1", "2", "3", "4"}[:n]
				tr := Transform(withPrefixLengths(fields, 0), []Range{r})
				idx := []int{}
				for _, ch := range tr[0].text.ToString() {
					idx = append(idx, int(ch-'0'))
				}
				sel = append(sel, idx)
			}
			got["sel"] = sel
		}
		out.Put(map[string]interface{}{"id": id, "got": got})
		id++
		return nil
	})
}

// TestVerifFieldsE2E: the real binary in filter mode.  VERIF_UNIVERSE = JSON list of lines (symbol sequences) fed on
// stdin; a case names delimiter / --nth list / term kind / term / optional --with-nth spec / streaming (+s);
// got = sorted ids of the printed lines.  Every printed line must be one of the input lines (with --with-nth the
// original line is printed); anything else is reported.
func TestVerifFieldsE2E(t *testing.T) {
	bin := os.Getenv("VERIF_FZF")
	if bin == "" {
		t.Fatal("VERIF_FZF not set")
	}
	ub, err := os.ReadFile(os.Getenv("VERIF_UNIVERSE"))
	if err != nil {
		t.Fatal(err)
	}
	var universe [][]string
	if err := json.Unmarshal(ub, &universe); err != nil {
		t.Fatal(err)
	}
	ids := map[string]int{}
	var input bytes.Buffer
	for i, l := range universe {
		s := verifText(l)
		ids[s] = i
		input.WriteString(s)
		input.WriteByte('\n')
	}
	type e2eCase struct {
		D      vfDelim    `json:"d"`
		Nth    [][]string `json:"nth"`
		Kind   string     `json:"kind"`
		Term   []string   `json:"term"`
		Spec   *vfSpec    `json:"spec"`
		Stream bool       `json:"stream"`
	}
	var cases []e2eCase
	verifReadCases(t, func(raw []byte) error {
		var c e2eCase
		if err := json.Unmarshal(raw, &c); err != nil {
			return err
		}
		cases = append(cases, c)
		return nil
	})
	results := make([]map[string]interface{}, len(cases))
	var wg sync.WaitGroup
	sem := make(chan struct{}, 8)
	for i := range cases {
		wg.Add(1)
		sem <- struct{}{}
		go func(i int) {
			defer wg.Done()
			defer func() { <-sem }()
			c := cases[i]
			query, _, _ := vfQuery(c.Kind, verifText(c.Term))
			args := []string{"+i", "--literal", "--filter=" + query}
			args = append(args, vfQueryFlags(c.Kind)...)
			darg, cli := vfDelimArg(c.D)
			if !cli {
				results[i] = map[string]interface{}{"id": i, "got": []int{}, "panic": "delimiter has no command-line form"}
				return
			}
			if c.D.Kind != "awk" {
				args = append(args, "--delimiter="+darg)
			}
			if len(c.Nth) > 0 {
				args = append(args, "--nth="+vfNthArg(c.Nth))
			}
			if c.Spec != nil {
				args = append(args, "--with-nth="+vfSpecArg(*c.Spec))
			}
			if c.Stream {
				args = append(args, "+s")
			}
			cmd := exec.Command(bin, args...)
			cmd.Stdin = bytes.NewReader(input.Bytes())
			var stdout, stderr bytes.Buffer
			cmd.Stdout, cmd.Stderr = &stdout, &stderr
			err := cmd.Run()
			code := 0
			if err != nil {
				if ee, ok := err.(*exec.ExitError); ok {
					code = ee.ExitCode()
				} else {
					code = -1
				}
			}
			got := []int{}
			foreign := []string{}
			text := stdout.String()
			if text != "" {
				for _, l := range strings.Split(strings.TrimSuffix(text, "\n"), "\n") {
					if id, ok := ids[l]; ok {
						got = append(got, id)
					} else {
						foreign = append(foreign, l)
					}
				}
			}
			sort.Ints(got)
			r := map[string]interface{}{"id": i, "got": got, "args": args}
			if len(foreign) > 0 {
				r["panic"] = fmt.Sprintf("printed text that is no input line: %q", foreign[:1])
			}
			if code != 0 && code != 1 {
				r["panic"] = fmt.Sprintf("exit %d: %s", code, stderr.String())
			}
			results[i] = r
		}(i)
	}
	wg.Wait()
	out := verifOpenOut(t)
	defer out.Close()
	for _, r := range results {
		out.Put(r)
	}
}

// TestVerifFieldsRecord (J): random inputs; records input + what the real code returned, judged by Judge_Fields.
func TestVerifFieldsRecord(t *testing.T) {
	out := verifOpenOut(t)
	defer out.Close()
	m := vfNewMatcher()
	verifReadCases(t, func(raw []byte) error {
		var c struct {
			Op    string     `json:"op"`
			Line  []string   `json:"line"`
			D     vfDelim    `json:"d"`
			E     []string   `json:"e"`
			Nth   [][]string `json:"nth"`
			Kind  string     `json:"kind"`
			Term  []string   `json:"term"`
			Spec  vfSpec     `json:"spec"`
			Index int        `json:"index"`
			Keep  bool       `json:"keep"`
		}
		if err := json.Unmarshal(raw, &c); err != nil {
			return err
		}
		var rec map[string]interface{}
		if err := json.Unmarshal(raw, &rec); err != nil {
			return err
		}
		del, err := vfDelimiter(c.D)
		if err != nil {
			return err
		}
		line := verifText(c.Line)
		switch c.Op {
		case "tok":
			rec["toks"] = vfToks(Tokenize(line, del))
		case "sel":
			str := vfExpr(c.E)
			r, ok := ParseRange(&str)
			rec["ok"], rec["t"], rec["p"] = ok, []string{}, 0
			if ok {
				tr := Transform(Tokenize(line, del), []Range{r})
				rec["t"], rec["p"] = vfSyms(tr[0].text.ToString()), int(tr[0].prefixLength)
			}
		case "match":
			p, err := m.pattern(c.D, del, vfNthArg(c.Nth), c.Kind, verifText(c.Term))
			if err != nil {
				return err
			}
			matched, s, e, pos := m.match(p, vfPlainItem(line, 0))
			rec["matched"], rec["s"], rec["e"], rec["pos"] = matched, s, e, pos
		case "wn":
			arg := vfSpecArg(c.Spec)
			args := []string{"--with-nth=" + arg, "--accept-nth=" + arg}
			opts, err := vfOptions(args...)
			if err != nil {
				return err
			}
			it, rawText := vfWithNthItem(line, del, opts.WithNth(del), c.Index)
			rec["raw"] = vfSyms(rawText)
			rec["shown"] = vfSyms(it.text.ToString())
			rec["acc"] = vfSyms(vfPlainItem(line, c.Index).acceptNth(false, del, opts.AcceptNth(del)))
		case "ph":
			flags := "r"
			if c.Keep {
				flags = "rs"
			}
			rec["out"] = vfSyms(vfPlaceholder("{"+flags+vfNthArg(c.Nth)+"}", del, "", vfPlainItem(line, 0)))
		default:
			return fmt.Errorf("unknown op %q", c.Op)
		}
		out.Put(rec)
		return nil
	})
}
