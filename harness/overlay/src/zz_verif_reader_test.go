//go:build verif

package fzf

// C06: binds FzfReader.tla / FzfChunkList.tla to the real Reader.feed and the real ChunkList.
//
//   TestVerifReaderFeed  (E)  behaviours exported by TLC (Gen_Reader.cfg, real 64K/128K constants): stream as record
//                             lengths, the exact read() sizes, the predicted len(p) of every call and the predicted
//                             items.  A scripted io.Reader returns exactly those sizes (never data together with an
//                             error).  The pushed slices are only LOOKED AT after feed() has returned, so that a
//                             recycled buffer shows.  Both delimiters.
//   TestVerifReaderRandom (J) random streams and random read sizes chosen here; what the real code did is recorded
//                             and judged by TLC (Judge_Feed.tla folds the spec's step function over the reads).
//   TestVerifChunkList   (E)  Push*/Snapshot(tail) behaviours exported by TLC (Gen_ChunkList.cfg, chunk size 100)
//                             replayed on the real ChunkList; every snapshot ever handed out is re-read after every
//                             step.
//
// readerBufferSize, readerSlabSize and chunkSize are Go constants: they cannot be scaled down for a test, which is
// why the exhaustive small-constant exploration exists on the model only and the real constants are used here.

import (
	"encoding/json"
	"fmt"
	"io"
	"math/rand"
	"strconv"
	"testing"

	"github.com/junegunn/fzf/src/util"
)

// content of record rid (1-based) at offset o; never 0 nor '\n'; the first byte identifies rid (rid < 245)
func vrByte(rid int, o int) byte {
	return byte(11 + (rid*37+o+(o/245)*101)%245)
}

func vrBuildStream(lens []int, unterm bool, delim byte) []byte {
	total := 0
	for _, l := range lens {
		total += l + 1
	}
	data := make([]byte, 0, total)
	for i, l := range lens {
		rid := i + 1
		for o := 0; o < l; o++ {
			data = append(data, vrByte(rid, o))
		}
		if !(unterm && i == len(lens)-1) {
			data = append(data, delim)
		}
	}
	return data
}

// identity of a pushed slice: [rid, len] if it is byte for byte a prefix of record rid's content, [0,0] if empty,
// [-1, len] otherwise
func vrIdent(b []byte) [2]int {
	if len(b) == 0 {
		return [2]int{0, 0}
	}
	rid := -1
	for r := 1; r < 245; r++ {
		if vrByte(r, 0) == b[0] {
			rid = r
			break
		}
	}
	if rid < 0 {
		return [2]int{-1, len(b)}
	}
	for o, c := range b {
		if c != vrByte(rid, o) {
			return [2]int{-1, len(b)}
		}
	}
	return [2]int{rid, len(b)}
}

// scripted source: the k-th call returns exactly reads[k] bytes (0 = end of input: (0, io.EOF))
type vrScript struct {
	data    []byte
	reads   []int
	k       int
	off     int
	scopes  []int
	anom    []string
	choose  func(s *vrScript, room int) int // random mode: decides the size of this read
	got     []int
	idleRun int
}

func (s *vrScript) note(f string, a ...interface{}) {
	if len(s.anom) < 5 {
		s.anom = append(s.anom, fmt.Sprintf(f, a...))
	}
}

func (s *vrScript) Read(p []byte) (int, error) {
	s.scopes = append(s.scopes, len(p))
	rem := len(s.data) - s.off
	n := 0
	if s.choose != nil {
		if rem > 0 {
			// now and then a read that brings nothing and reports no error (io.Reader allows it; feed retries):
			// recorded as -1, at most two in a row
			if s.idleRun < 2 && (len(s.scopes)*7+len(s.data))%11 == 3 {
				s.idleRun++
				s.got = append(s.got, -1)
				return 0, nil
			}
			s.idleRun = 0
			n = s.choose(s, util.Min(len(p), rem))
		}
	} else if s.k < len(s.reads) {
		n = s.reads[s.k]
		s.k++
		if n > len(p) || n > rem {
			s.note("call %d: script wants %d bytes, room %d, remaining %d", s.k, n, len(p), rem)
			n = util.Min(len(p), rem)
		}
		if n == 0 && rem > 0 {
			s.note("call %d: script ends the input with %d bytes remaining", s.k, rem)
		}
	} else {
		s.note("call %d beyond the script", len(s.scopes))
		n = util.Min(len(p), rem)
	}
	s.got = append(s.got, n)
	if n == 0 {
		return 0, io.EOF
	}
	copy(p, s.data[s.off:s.off+n])
	s.off += n
	return n, nil
}

type vrRun struct {
	Items  [][2]int `json:"items"`
	Scopes []int    `json:"scopes"`
	Anom   []string `json:"anom"`
}

func vrFeed(src *vrScript, delimNil bool) (run vrRun, panicked string) {
	slices := [][]byte{}
	defer func() {
		if r := recover(); r != nil {
			panicked = fmt.Sprint(r)
		}
	}()
	reader := NewReader(func(b []byte) bool {
		slices = append(slices, b) // the slice itself, no copy: this is what an item keeps
		return true
	}, util.NewEventBox(), nil, delimNil, false)
	reader.feed(src)
	// only now, with the whole stream consumed, look at the contents
	if src.off != len(src.data) {
		src.note("feed returned with %d of %d bytes consumed", src.off, len(src.data))
	}
	run.Items = make([][2]int, len(slices))
	for i, b := range slices {
		run.Items[i] = vrIdent(b)
	}
	run.Scopes = src.scopes
	run.Anom = src.anom
	if run.Anom == nil {
		run.Anom = []string{}
	}
	return
}

type vrCase struct {
	Lens   []int `json:"lens"`
	Unterm bool  `json:"unterm"`
	Reads  []int `json:"reads"`
}

func TestVerifReaderFeed(t *testing.T) {
	out := verifOpenOut(t)
	defer out.Close()
	id := 0
	verifReadCases(t, func(line []byte) error {
		var c vrCase
		if err := json.Unmarshal(line, &c); err != nil {
			return err
		}
		got := map[string]vrRun{}
		pan := ""
		for _, d := range []struct {
			name  string
			delim byte
		}{{"nl", '\n'}, {"nul", 0}} {
			src := &vrScript{data: vrBuildStream(c.Lens, c.Unterm, d.delim), reads: c.Reads}
			run, p := vrFeed(src, d.delim == 0)
			got[d.name] = run
			if p != "" {
				pan = p
			}
		}
		res := map[string]interface{}{"id": id, "got": got}
		if pan != "" {
			res["panic"] = pan
		}
		out.Put(res)
		id++
		return nil
	})
}

// ---------------------------------------------------------------------------------------------- J: random feeds

type vrIn struct {
	Seed int64 `json:"seed"`
	Nul  bool  `json:"nul"`
	Prof int   `json:"prof"`
}

func vrRandLen(r *rand.Rand, prof int) int {
	near := func(base int) int { return util.Max(0, base+r.Intn(5)-2) }
	x := r.Intn(100)
	switch {
	case x < 45:
		return r.Intn(12)
	case x < 60:
		return 12 + r.Intn(3000)
	case x < 75 && prof > 0:
		return near([]int{readerBufferSize, readerSlabSize, readerBufferSize * 3, readerSlabSize - readerBufferSize/2}[r.Intn(4)])
	case x < 82 && prof > 0:
		return r.Intn(3 * readerSlabSize)
	case x < 90:
		return 0
	default:
		return r.Intn(200)
	}
}

func TestVerifReaderRandom(t *testing.T) {
	out := verifOpenOut(t)
	defer out.Close()
	verifReadCases(t, func(line []byte) error {
		var in vrIn
		if err := json.Unmarshal(line, &in); err != nil {
			return err
		}
		r := rand.New(rand.NewSource(in.Seed))
		nrec := r.Intn(25)
		if in.Prof == 0 {
			nrec = r.Intn(60)
		}
		lens := make([]int, nrec)
		total := 0
		for i := range lens {
			lens[i] = vrRandLen(r, in.Prof)
			total += lens[i] + 1
			if total > 3*1024*1024 {
				lens = lens[:i+1]
				break
			}
		}
		unterm := r.Intn(3) == 0
		delim := byte('\n')
		if in.Nul {
			delim = 0
		}
		data := vrBuildStream(lens, unterm, delim)
		budget := 150 // calls with a deliberately small size
		src := &vrScript{data: data}
		src.choose = func(s *vrScript, room int) int {
			// distance to the next delimiter
			dd := -1
			for i := s.off; i < len(s.data) && i < s.off+room+2; i++ {
				if s.data[i] == delim {
					dd = i - s.off
					break
				}
			}
			n := room
			x := r.Intn(100)
			switch {
			case budget > 0 && x < 12:
				n = 1 + r.Intn(3)
			case budget > 0 && x < 20:
				n = 1 + r.Intn(100)
			case x < 45 && dd >= 0:
				n = dd + r.Intn(4) - 1
			case x < 55:
				n = room - r.Intn(3)
			case x < 70:
				n = 1 + r.Intn(room)
			}
			if n < room/2 {
				budget--
			}
			if n < 1 {
				n = 1
			}
			if n > room {
				n = room
			}
			return n
		}
		run, p := vrFeed(src, in.Nul)
		rec := map[string]interface{}{"seed": in.Seed, "nul": in.Nul, "prof": in.Prof, "lens": lens, "unterm": unterm,
			"reads": src.got, "scopes": run.Scopes, "items": run.Items, "anom": run.Anom, "panic": p}
		out.Put(rec)
		return nil
	})
}

// ---------------------------------------------------------------------------------------------- ChunkList

type vcStep struct {
	Act      string     `json:"act"`
	K        int        `json:"k"`
	Accepted int        `json:"accepted"`
	Count    int        `json:"count"`
	Changed  bool       `json:"changed"`
	Chunks   int        `json:"chunks"`
	Held     [][][3]int `json:"held"`
}
type vcCase struct {
	Header int      `json:"header"`
	Tail   int      `json:"tail"`
	Steps  []vcStep `json:"steps"`
}

// items of a snapshot as runs [first record, last record, first index]
func vcRuns(snap []*Chunk) [][3]int {
	runs := [][3]int{}
	for _, ch := range snap {
		for i := 0; i < ch.count; i++ {
			item := &ch.items[i]
			rec, err := strconv.Atoi(item.text.ToString())
			if err != nil {
				rec = -1
			}
			idx := int(item.Index())
			if n := len(runs); n > 0 && runs[n-1][1]+1 == rec && runs[n-1][2]+(rec-runs[n-1][0]) == idx {
				runs[n-1][1] = rec
			} else {
				runs = append(runs, [3]int{rec, rec, idx})
			}
		}
	}
	return runs
}

func TestVerifChunkList(t *testing.T) {
	out := verifOpenOut(t)
	defer out.Close()
	id := 0
	verifReadCases(t, func(line []byte) error {
		var c vcCase
		if err := json.Unmarshal(line, &c); err != nil {
			return err
		}
		header := []int{}
		idx := int32(0)
		cl := NewChunkList(NewChunkCache(), func(item *Item, data []byte) bool {
			if len(header) < c.Header {
				n, _ := strconv.Atoi(string(data))
				header = append(header, n)
				return false
			}
			item.text = util.ToChars(data)
			item.text.Index = idx
			idx++
			return true
		})
		next := 1
		held := [][]*Chunk{}
		got := []vcStep{}
		pan := ""
		func() {
			defer func() {
				if r := recover(); r != nil {
					pan = fmt.Sprint(r)
				}
			}()
			for _, s := range c.Steps {
				o := vcStep{Act: s.Act, K: s.K, Count: -1, Chunks: -1}
				switch s.Act {
				case "Push":
					for i := 0; i < s.K; i++ {
						if cl.Push([]byte(strconv.Itoa(next))) {
							o.Accepted++
						}
						next++
					}
				case "Snap":
					snap, count, changed := cl.Snapshot(c.Tail)
					held = append(held, snap)
					o.Count, o.Changed, o.Chunks = count, changed, len(snap)
				}
				o.Held = make([][][3]int, len(held))
				for i, h := range held {
					o.Held[i] = vcRuns(h)
				}
				got = append(got, o)
			}
		}()
		res := map[string]interface{}{"id": id, "got": map[string]interface{}{"steps": got, "hdr": header}}
		if pan != "" {
			res["panic"] = pan
		}
		out.Put(res)
		id++
		return nil
	})
}
