//go:build verif

package fzf

// C16: binds spec/FzfServer.tla to the real --listen server (src/server.go) and to the two real action-list parse
// paths (parseSingleActionList = POST body, parseKeymap / ParseOptions = --bind).
//
// A byte stream is a list of ATOMS (the spec's vocabulary): a literal string denotes its own bytes, "%x" names a
// byte or a long run (see vsNamed).  Nothing here decides anything: the functions drive the real code, project
// what it did into the observation record of the spec and write it out; TLC computed what is expected.

import (
	"bufio"
	"bytes"
	"encoding/json"
	"fmt"
	"io"
	"math/rand"
	"net"
	"net/http"
	"os"
	"strconv"
	"strings"
	"testing"
	"time"

	"github.com/junegunn/fzf/src/tui"
)

var vsNamed = map[string][]byte{
	"%r": []byte("\r"), "%n": []byte("\n"), "%t": []byte("\t"), "%0": {0}, "%h": {0xff},
	"%X": bytes.Repeat([]byte("x"), 60000), "%Y": bytes.Repeat([]byte("x"), 70000),
}

func vsAtomBytes(a string) []byte {
	if len(a) == 2 && a[0] == '%' {
		b, ok := vsNamed[a]
		if !ok {
			panic("unknown atom " + a)
		}
		return b
	}
	return []byte(a)
}

// vsEnc renders real bytes in the atom notation (inverse of concatenating vsAtomBytes).
func vsEnc(s string) string {
	var sb strings.Builder
	for i := 0; i < len(s); {
		c := s[i]
		if c == 'x' {
			j := i
			for j < len(s) && s[j] == 'x' {
				j++
			}
			if j-i >= 1000 {
				switch j - i {
				case 60000:
					sb.WriteString("%X")
				case 70000:
					sb.WriteString("%Y")
				default:
					fmt.Fprintf(&sb, "%%{x*%d}", j-i)
				}
				i = j
				continue
			}
		}
		switch {
		case c == '\r':
			sb.WriteString("%r")
		case c == '\n':
			sb.WriteString("%n")
		case c == '\t':
			sb.WriteString("%t")
		case c == 0:
			sb.WriteString("%0")
		case c == 0xff:
			sb.WriteString("%h")
		case c == '%' || c < 0x20 || c >= 0x7f:
			fmt.Fprintf(&sb, "%%{%02x}", c)
		default:
			sb.WriteByte(c)
		}
		i++
	}
	return sb.String()
}

const vsSecret = "S3CRET-STATE"

// ---------------------------------------------------------------- scripted connection
// Read hands out the scripted segments one per call (never data together with an error, never more than one
// segment per call, like a TCP socket whose peer wrote them apart); after the last one the peer has closed its
// write side (io.EOF).  Nothing sleeps: a server that wants more input than was sent is observed as `waits`.
type vsConn struct {
	segs        [][]byte
	i, off      int
	eofReads    int
	deadlineSet bool
	deadlineOK  bool
	noDeadline  int // reads issued without a read deadline in force
}

func (c *vsConn) Read(p []byte) (int, error) {
	if !c.deadlineSet {
		c.noDeadline++
	}
	for c.i < len(c.segs) && c.off >= len(c.segs[c.i]) {
		c.i++
		c.off = 0
	}
	if c.i >= len(c.segs) {
		c.eofReads++
		return 0, io.EOF
	}
	n := copy(p, c.segs[c.i][c.off:])
	c.off += n
	return n, nil
}
func (c *vsConn) Write(p []byte) (int, error) { return len(p), nil }
func (c *vsConn) Close() error                { return nil }
func (c *vsConn) LocalAddr() net.Addr         { return &net.TCPAddr{IP: net.IPv4(127, 0, 0, 1), Port: 1} }
func (c *vsConn) RemoteAddr() net.Addr        { return &net.TCPAddr{IP: net.IPv4(127, 0, 0, 1), Port: 2} }
func (c *vsConn) SetDeadline(t time.Time) error {
	return c.SetReadDeadline(t)
}
func (c *vsConn) SetReadDeadline(t time.Time) error {
	c.deadlineSet = !t.IsZero()
	d := time.Until(t)
	c.deadlineOK = c.deadlineSet && d > 0 && d <= 60*time.Second
	return nil
}
func (c *vsConn) SetWriteDeadline(t time.Time) error { return nil }

// ---------------------------------------------------------------- observation
type vsObs struct {
	St    int        `json:"st"`
	Dl    [][]string `json:"dl"`
	Rv    bool       `json:"rv"`
	Gets  [][]int    `json:"gets"`
	Waits bool       `json:"waits"`
	Wf    bool       `json:"wf"`
}

func vsActs(as []*action) [][]string {
	out := [][]string{}
	for _, a := range as {
		out = append(out, []string{a.t.Name(), vsEnc(a.a)})
	}
	return out
}

// vsParseResponse projects the raw answer: status code, and whether it is a well-formed HTTP/1.1 response
// (status line, header lines, blank line; a declared Content-Length equals the body length; without a declared
// length the body is empty) that Go's own HTTP client code parses to the same status and body.
func vsParseResponse(raw string) (status int, wf bool, body string) {
	head, rest, found := strings.Cut(raw, "\r\n\r\n")
	if !found {
		return 0, false, ""
	}
	lines := strings.Split(head, "\r\n")
	sl := strings.SplitN(lines[0], " ", 3)
	if len(sl) != 3 || sl[0] != "HTTP/1.1" || len(sl[1]) != 3 || sl[2] == "" {
		return 0, false, rest
	}
	st, err := strconv.Atoi(sl[1])
	if err != nil {
		return 0, false, rest
	}
	cl := -1
	ok := true
	for _, l := range lines[1:] {
		name, val, f := strings.Cut(l, ":")
		if !f || name == "" || strings.ContainsAny(name, " \t") {
			ok = false
			continue
		}
		if strings.EqualFold(name, "content-length") {
			n, err := strconv.Atoi(strings.TrimSpace(val))
			if err != nil || n < 0 || cl >= 0 {
				ok = false
			}
			cl = n
		}
	}
	if cl >= 0 && cl != len(rest) {
		ok = false
	}
	if cl < 0 && rest != "" {
		ok = false
	}
	// second opinion: the standard library's client-side parser
	resp, err := http.ReadResponse(bufio.NewReader(strings.NewReader(raw)), nil)
	if err != nil {
		ok = false
	} else {
		b, err := io.ReadAll(resp.Body)
		if err != nil || string(b) != rest || resp.StatusCode != st {
			ok = false
		}
	}
	return st, ok, rest
}

type vsEnvT struct {
	srv   *httpServer
	ch    chan []*action
	gets  [][]int
	busy  bool
	calls int
}

func vsNewEnv(key string, env string) *vsEnvT {
	e := &vsEnvT{}
	if env == "chanFull" {
		e.ch = make(chan []*action) // nobody receives: the UI loop is not taking server input
	} else {
		e.ch = make(chan []*action, 100) // as in NewTerminal
	}
	e.busy = env == "uiBusy"
	// constructed the way startHttpServer does
	e.srv = &httpServer{apiKey: []byte(key), actionChannel: e.ch, getHandler: func(p getParams) string {
		e.gets = append(e.gets, []int{p.limit, p.offset})
		if e.busy {
			return "" // dumpStatus could not take the UI lock in time
		}
		return fmt.Sprintf(`{"state":"%s","limit":%d,"offset":%d}`, vsSecret, p.limit, p.offset)
	}}
	return e
}

func (e *vsEnvT) drain() [][]string {
	out := [][]string{}
	for {
		select {
		case as := <-e.ch:
			out = append(out, vsActs(as)...)
		default:
			return out
		}
	}
}

type vsRun struct {
	obs   vsObs
	raw   string
	panic string
	nodl  int
	dlOK  bool
}

func vsCut(data []byte, lens []int) [][]byte {
	segs := [][]byte{}
	o := 0
	for _, n := range lens {
		segs = append(segs, data[o:o+n])
		o += n
	}
	return segs
}

// vsServeScripted runs the real handleHttpRequest once on a scripted connection.
func vsServeScripted(e *vsEnvT, segs [][]byte) (r vsRun) {
	conn := &vsConn{segs: segs}
	e.gets = nil
	func() {
		defer func() {
			if p := recover(); p != nil {
				r.panic = fmt.Sprint(p)
			}
		}()
		r.raw = e.srv.handleHttpRequest(conn)
	}()
	st, wf, body := vsParseResponse(r.raw)
	gets := e.gets
	if gets == nil {
		gets = [][]int{}
	}
	r.obs = vsObs{St: st, Dl: e.drain(), Rv: strings.Contains(body, vsSecret) || strings.Contains(r.raw, vsSecret),
		Gets: gets, Waits: conn.eofReads > 0, Wf: wf}
	r.nodl = conn.noDeadline
	r.dlOK = conn.deadlineOK
	return r
}

// vsServePipe: the same over net.Pipe (each Write is handed to the reader as it is, synchronously); the client
// closes its end after the last segment.  `waits` is not observable here.
func vsServePipe(e *vsEnvT, segs [][]byte) (r vsRun) {
	cl, sv := net.Pipe()
	e.gets = nil
	done := make(chan struct{})
	go func() {
		defer close(done)
		for _, s := range segs {
			if len(s) == 0 {
				continue
			}
			if _, err := cl.Write(s); err != nil {
				break // the server answered early and hung up
			}
		}
		cl.Close()
	}()
	func() {
		defer func() {
			if p := recover(); p != nil {
				r.panic = fmt.Sprint(p)
			}
		}()
		r.raw = e.srv.handleHttpRequest(sv)
	}()
	sv.Close()
	<-done
	st, wf, body := vsParseResponse(r.raw)
	gets := e.gets
	if gets == nil {
		gets = [][]int{}
	}
	r.obs = vsObs{St: st, Dl: e.drain(), Rv: strings.Contains(body, vsSecret), Gets: gets, Wf: wf}
	r.dlOK = true
	return r
}

// ---------------------------------------------------------------- E: request shapes x framings
type vsCase struct {
	Id   int      `json:"id"`
	Key  string   `json:"key"`
	Env  string   `json:"env"`
	Wire []string `json:"wire"`
	Fr   [][]int  `json:"fr"` // per framing: atoms per segment; atoms beyond the sum are never sent (early close)
}

func vsSegments(wire []string, fr []int) [][]byte {
	segs := [][]byte{}
	o := 0
	for _, n := range fr {
		var b []byte
		for _, a := range wire[o : o+n] {
			b = append(b, vsAtomBytes(a)...)
		}
		segs = append(segs, b)
		o += n
	}
	return segs
}

func TestVerifServerReplay(t *testing.T) {
	out := verifOpenOut(t)
	defer out.Close()
	mode := os.Getenv("VERIF_CONN")
	verifReadCases(t, func(line []byte) error {
		var c vsCase
		if err := json.Unmarshal(line, &c); err != nil {
			return err
		}
		e := vsNewEnv(c.Key, c.Env)
		distinct := []vsObs{}
		keys := map[string]int{}
		idx := make([]int, 0, len(c.Fr))
		panics := []string{}
		nodl := 0
		baddl := 0
		msgs := []string{}
		for _, fr := range c.Fr {
			segs := vsSegments(c.Wire, fr)
			var r vsRun
			if mode == "pipe" {
				r = vsServePipe(e, segs)
			} else {
				r = vsServeScripted(e, segs)
			}
			if r.panic != "" {
				panics = append(panics, r.panic)
			}
			nodl += r.nodl
			if !r.dlOK {
				baddl++
			}
			b, _ := json.Marshal(r.obs)
			k := string(b)
			j, ok := keys[k]
			if !ok {
				j = len(distinct)
				keys[k] = j
				distinct = append(distinct, r.obs)
				_, _, body := vsParseResponse(r.raw)
				if len(body) > 80 {
					body = body[:80]
				}
				msgs = append(msgs, strings.TrimSpace(body))
			}
			idx = append(idx, j)
		}
		rec := map[string]interface{}{"id": c.Id, "obs": distinct, "idx": idx, "msgs": msgs,
			"nodeadline": nodl, "baddeadline": baddl}
		if len(panics) > 0 {
			rec["panic"] = panics[0]
		}
		out.Put(rec)
		return nil
	})
}

// ---------------------------------------------------------------- E: sample over real TCP against startHttpServer
type vsTcpCase struct {
	Id   int      `json:"id"`
	Key  string   `json:"key"`
	Wire []string `json:"wire"`
	Fr   []int    `json:"fr"`
}

func vsDialSend(port int, segs [][]byte) (string, string) {
	conn, err := net.DialTimeout("tcp", fmt.Sprintf("127.0.0.1:%d", port), 5*time.Second)
	if err != nil {
		return "", "dial: " + err.Error()
	}
	defer conn.Close()
	tc := conn.(*net.TCPConn)
	tc.SetNoDelay(true)
	conn.SetDeadline(time.Now().Add(8 * time.Second)) // below the server's 10 s read deadline: never relied upon
	note := ""
	for _, s := range segs {
		if len(s) == 0 {
			continue
		}
		if _, err := conn.Write(s); err != nil {
			note = "write: " + err.Error() // server answered early and closed
			break
		}
	}
	tc.CloseWrite() // the client is done: the server never has to wait for its read deadline
	var buf bytes.Buffer
	_, err = io.Copy(&buf, conn)
	if err != nil && buf.Len() == 0 {
		return "", "read: " + err.Error()
	}
	return buf.String(), note
}

func TestVerifServerTCP(t *testing.T) {
	out := verifOpenOut(t)
	defer out.Close()
	// one real server per key, started by the real startHttpServer on an ephemeral loopback port
	type inst struct {
		e    *vsEnvT
		port int
		l    net.Listener
	}
	servers := map[string]*inst{}
	get := func(key string) (*inst, error) {
		if s, ok := servers[key]; ok {
			return s, nil
		}
		e := vsNewEnv(key, "ok")
		if key == "" {
			os.Unsetenv("FZF_API_KEY")
		} else {
			os.Setenv("FZF_API_KEY", key)
		}
		l, port, err := startHttpServer(listenAddress{"127.0.0.1", 0}, e.ch, e.srv.getHandler)
		os.Unsetenv("FZF_API_KEY")
		if err != nil {
			return nil, err
		}
		s := &inst{e, port, l}
		servers[key] = s
		return s, nil
	}
	defer func() {
		for _, s := range servers {
			s.l.Close()
		}
	}()
	verifReadCases(t, func(line []byte) error {
		var c vsTcpCase
		if err := json.Unmarshal(line, &c); err != nil {
			return err
		}
		s, err := get(c.Key)
		if err != nil {
			return err
		}
		s.e.gets = nil
		raw, note := vsDialSend(s.port, vsSegments(c.Wire, c.Fr))
		// the accept loop is sequential and has written the answer before closing: by the time the client saw EOF
		// the actions are on the channel
		st, wf, body := vsParseResponse(raw)
		gets := s.e.gets
		if gets == nil {
			gets = [][]int{}
		}
		o := vsObs{St: st, Dl: s.e.drain(), Rv: strings.Contains(body, vsSecret), Gets: gets, Wf: wf}
		out.Put(map[string]interface{}{"id": c.Id, "got": o, "note": note, "raw": vsEnc(raw[:vsMin(len(raw), 120)])})
		return nil
	})
}

// ---------------------------------------------------------------- E: listener start rule
type vsStartCase struct {
	Id   int    `json:"id"`
	Addr string `json:"addr"`
	Key  string `json:"key"`
}

func TestVerifServerStart(t *testing.T) {
	out := verifOpenOut(t)
	defer out.Close()
	verifReadCases(t, func(line []byte) error {
		var c vsStartCase
		if err := json.Unmarshal(line, &c); err != nil {
			return err
		}
		got := map[string]interface{}{"parsed": false, "host": "", "port": -1, "local": false, "started": false, "refused": false}
		addr, err := parseListenAddress(c.Addr)
		note := ""
		if err == nil {
			got["parsed"] = true
			got["host"] = addr.host
			got["port"] = addr.port
			got["local"] = addr.IsLocal()
			// "no key" is both an unset variable and a variable set to the empty string: both are tried and must agree
			// (started if either starts, refused only if both are refused)
			envs := []func(){func() { os.Setenv("FZF_API_KEY", c.Key) }}
			if c.Key == "" {
				envs = []func(){func() { os.Unsetenv("FZF_API_KEY") }, func() { os.Setenv("FZF_API_KEY", "") }}
			}
			refused := 0
			for _, setenv := range envs {
				setenv()
				ch := make(chan []*action, 1)
				// the port of the case is replaced by 0 so that the bind itself cannot collide
				l, _, serr := startHttpServer(listenAddress{addr.host, 0}, ch, func(getParams) string { return "" })
				os.Unsetenv("FZF_API_KEY")
				if serr == nil {
					got["started"] = true
					l.Close()
				} else if strings.Contains(serr.Error(), "FZF_API_KEY") {
					refused++
				} else {
					note = serr.Error()
				}
			}
			got["refused"] = refused == len(envs)
		}
		out.Put(map[string]interface{}{"id": c.Id, "got": got, "note": note})
		return nil
	})
}

// ---------------------------------------------------------------- E: action lists, POST parse vs --bind parse
type vsActCase struct {
	Id   int      `json:"id"`
	List []string `json:"list"` // atoms
}

type vsParse struct {
	Ok   bool       `json:"ok"`
	Acts [][]string `json:"acts"`
}

func vsParsePaths(list string) (post, bind, opt, bound vsParse, errs []string) {
	empty := func() vsParse { return vsParse{false, [][]string{}} }
	post, bind, opt, bound = empty(), empty(), empty(), empty()
	chord, err := parseKeyChordsImpl("f5", "key")
	if err != nil {
		panic(err)
	}
	key := firstKey(chord)
	// what the server does with a POST body
	if as, err := parseSingleActionList(list); err == nil {
		post = vsParse{true, vsActs(as)}
	} else {
		errs = append(errs, "post: "+err.Error())
	}
	// what --bind does with the same list on a key that has no binding yet
	m := make(map[tui.Event][]*action)
	if err := parseKeymap(m, "f5:"+list); err == nil {
		bind = vsParse{true, vsActs(m[key])}
	} else {
		errs = append(errs, "bind: "+err.Error())
	}
	// the whole option parser, and the key map the terminal is started with
	if opts, err := ParseOptions(false, []string{"--bind", "f5:" + list}); err == nil {
		opt = vsParse{true, vsActs(opts.Keymap[key])}
		if err := postProcessOptions(opts); err == nil {
			bound = vsParse{true, vsActs(opts.Keymap[key])}
		} else {
			errs = append(errs, "postprocess: "+err.Error())
		}
	} else {
		errs = append(errs, "opts: "+err.Error())
	}
	return
}

func TestVerifServerActions(t *testing.T) {
	out := verifOpenOut(t)
	defer out.Close()
	verifReadCases(t, func(line []byte) error {
		var c vsActCase
		if err := json.Unmarshal(line, &c); err != nil {
			return err
		}
		var b []byte
		for _, a := range c.List {
			b = append(b, vsAtomBytes(a)...)
		}
		rec := map[string]interface{}{"id": c.Id}
		func() {
			defer func() {
				if p := recover(); p != nil {
					rec["panic"] = fmt.Sprint(p)
				}
			}()
			post, bind, opt, bound, errs := vsParsePaths(string(b))
			rec["got"] = map[string]interface{}{"post": post, "bind": bind, "opts": opt, "bound": bound}
			rec["errs"] = errs
		}()
		out.Put(rec)
		return nil
	})
}

// which action types the terminal drops for a non-local listener without --listen-unsafe
func TestVerifServerExecFilter(t *testing.T) {
	out := verifOpenOut(t)
	defer out.Close()
	byName := map[string]actionType{}
	for i := 0; i < 400; i++ {
		n := actionType(i).String()
		if strings.HasPrefix(n, "act") {
			byName[actionType(i).Name()] = actionType(i)
		}
	}
	verifReadCases(t, func(line []byte) error {
		var c struct {
			Id   int    `json:"id"`
			Type string `json:"type"`
		}
		if err := json.Unmarshal(line, &c); err != nil {
			return err
		}
		at, ok := byName[c.Type]
		out.Put(map[string]interface{}{"id": c.Id, "got": map[string]interface{}{"known": ok, "exec": ok && processExecution(at)}})
		return nil
	})
}

// ---------------------------------------------------------------- J: random byte streams / random action lists
type vsRandIn struct {
	Kind string `json:"kind"` // "req" | "acts"
	Seed int64  `json:"seed"`
	Key  string `json:"key"`
}

var vsActionNames = []string{"up", "down", "accept", "abort", "toggle-down", "toggle-up", "top", "first", "last",
	"select-all", "deselect-all", "toggle-all", "toggle", "ignore", "bell", "cancel", "clear-query", "kill-line",
	"yank", "page-up", "page-down", "toggle-preview", "show-preview", "hide-preview", "toggle-sort", "close",
	"previous-history", "prev-history", "next-history", "unix-line-discard", "line-discard", "track", "toggle-search",
	"backward-delete-char/eof", "delete-char/eof", "change-multi", "put", "exclude", "nope", "UP", "Toggle-Down", ""}
var vsArgNames = []string{"change-query", "change-prompt", "reload", "reload-sync", "execute", "execute-silent",
	"execute-multi", "pos", "put", "preview", "print", "transform-query", "transform", "change-multi", "change-header",
	"change-preview", "transform-prompt", "become", "search", "change-nth", "change-ghost", "change-pointer",
	"transform-header-label", "change-border-label", "Change-Query", "RELOAD"}
var vsDelims = []string{"()", "[]", "{}", "<>", "~~", "!!", "@@", "##", "$$", "%%", "^^", "&&", "**", ";;", "//", "||"}
var vsArgChars = []string{"a", "b", " ", "+", ",", ":", "(", ")", "[", "]", "{", "}", "<", ">", "~", "!", "|", "/", "x", "1",
	"up", "reload", "\r\n", "\t", "\xc3\xa9", "%"}

func vsRandList(r *rand.Rand) string {
	n := 1 + r.Intn(4)
	parts := []string{}
	for i := 0; i < n; i++ {
		last := i == n-1
		if r.Intn(2) == 0 {
			parts = append(parts, vsActionNames[r.Intn(len(vsActionNames))])
			continue
		}
		name := vsArgNames[r.Intn(len(vsArgNames))]
		if last && r.Intn(4) == 0 {
			arg := ""
			for k := r.Intn(5); k > 0; k-- {
				arg += vsArgChars[r.Intn(len(vsArgChars))]
			}
			parts = append(parts, name+":"+arg)
			continue
		}
		d := vsDelims[r.Intn(len(vsDelims))]
		arg := ""
		for k := r.Intn(6); k > 0; k-- {
			c := vsArgChars[r.Intn(len(vsArgChars))]
			if strings.Contains(c, d[1:]) {
				continue // an argument cannot carry the closing character of its own notation
			}
			arg += c
		}
		parts = append(parts, name+d[:1]+arg+d[1:])
	}
	return strings.Join(parts, "+")
}

func vsValidRequest(r *rand.Rand, key string) []byte {
	body := vsRandList(r)
	if r.Intn(3) == 0 {
		body = []string{"up", "down+up", "change-query(abc)", "reload(seq 10)+up", "accept"}[r.Intn(5)]
	}
	var sb strings.Builder
	if r.Intn(4) == 0 {
		q := []string{"", "?limit=3", "?offset=1&limit=2", "?x=y"}[r.Intn(4)]
		sb.WriteString("GET /" + q + " HTTP/1.1\r\n")
	} else {
		sb.WriteString("POST / HTTP/1.1\r\n")
	}
	hs := []string{"Host: localhost:1234", "User-Agent: curl/8.0", "Accept: */*",
		fmt.Sprintf("Content-Length: %d", len(body)), "Content-Type: application/x-www-form-urlencoded"}
	if key != "" && r.Intn(3) != 0 {
		hs = append(hs, []string{"X-API-Key: ", "x-api-key:", "X-Api-Key:   "}[r.Intn(3)]+key)
	}
	r.Shuffle(len(hs), func(i, j int) { hs[i], hs[j] = hs[j], hs[i] })
	for _, h := range hs {
		sb.WriteString(h + "\r\n")
	}
	sb.WriteString("\r\n")
	sb.WriteString(body)
	return []byte(sb.String())
}

func vsMutate(r *rand.Rand, b []byte) []byte {
	b = append([]byte{}, b...)
	for k := r.Intn(4); k > 0 && len(b) > 0; k-- {
		p := r.Intn(len(b))
		switch r.Intn(7) {
		case 0:
			b[p] ^= byte(1 << uint(r.Intn(8)))
		case 1:
			b = append(b[:p], b[p+1:]...)
		case 2:
			ins := []string{"\r\n", "\n", "\r", ":", " ", "\x00", "\xff", "+", "Content-Length: 5\r\n", "X-API-Key: nope\r\n", "GET / HTTP/1.1\r\n", "\r\n\r\n"}[r.Intn(12)]
			b = append(b[:p], append([]byte(ins), b[p:]...)...)
		case 3:
			b = b[:p]
		case 4:
			q := p + r.Intn(len(b)-p)
			b = append(b[:q], append(append([]byte{}, b[p:q]...), b[q:]...)...)
		case 5:
			b[p] = byte(r.Intn(256))
		case 6:
			q := r.Intn(len(b))
			b[p], b[q] = b[q], b[p]
		}
	}
	return b
}

func TestVerifServerRandom(t *testing.T) {
	out := verifOpenOut(t)
	defer out.Close()
	envs := map[string]*vsEnvT{}
	verifReadCases(t, func(line []byte) error {
		var in vsRandIn
		if err := json.Unmarshal(line, &in); err != nil {
			return err
		}
		r := rand.New(rand.NewSource(in.Seed))
		if in.Kind == "acts" {
			list := vsRandList(r)
			rec := map[string]interface{}{"kind": "acts", "seed": in.Seed, "list": vsEnc(list), "panic": ""}
			func() {
				defer func() {
					if p := recover(); p != nil {
						rec["panic"] = fmt.Sprint(p)
						e := vsParse{false, [][]string{}}
						rec["post"], rec["bind"], rec["opts"], rec["bound"] = e, e, e, e
					}
				}()
				post, bind, opt, bound, _ := vsParsePaths(list)
				rec["post"], rec["bind"], rec["opts"], rec["bound"] = post, bind, opt, bound
			}()
			out.Put(rec)
			return nil
		}
		e := envs[in.Key]
		if e == nil {
			e = vsNewEnv(in.Key, "ok")
			envs[in.Key] = e
		}
		var data []byte
		switch r.Intn(10) {
		case 0: // pure noise
			data = make([]byte, r.Intn(200))
			r.Read(data)
		case 1: // a valid request, untouched
			data = vsValidRequest(r, in.Key)
		case 2: // two requests back to back
			data = append(vsValidRequest(r, in.Key), vsValidRequest(r, in.Key)...)
		default:
			data = vsMutate(r, vsValidRequest(r, in.Key))
		}
		lens := []int{}
		rest := len(data)
		for rest > 0 {
			n := 1 + r.Intn(rest)
			if r.Intn(3) == 0 {
				n = rest
			}
			lens = append(lens, n)
			rest -= n
		}
		run := vsServeScripted(e, vsCut(data, lens))
		head := []int{}
		for i := 0; i < len(data) && i < 12; i++ {
			head = append(head, int(data[i]))
		}
		out.Put(map[string]interface{}{"kind": "req", "seed": in.Seed, "key": in.Key, "n": len(data), "head": head,
			"haskey": in.Key != "" && bytes.Contains(data, []byte(in.Key)), "segs": lens,
			"st": run.obs.St, "dl": run.obs.Dl, "rv": run.obs.Rv, "ngets": len(run.obs.Gets), "wf": run.obs.Wf,
			"panic": run.panic, "nodeadline": run.nodl, "deadlineok": run.dlOK, "data": vsEnc(string(data[:vsMin(len(data), 400)]))})
		return nil
	})
}

func vsMin(a, b int) int {
	if a < b {
		return a
	}
	return b
}
