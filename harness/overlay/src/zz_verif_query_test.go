//go:build verif

package fzf

// C01: binds spec/FzfQuery.tla to the real query parser and matchers.
//   TestVerifQueryReplay  E, in-package: BuildPattern + MatchItem over a line universe, for the cases TLC exported
//   TestVerifQueryFilter  E, end-to-end: the real binary in filter mode (sorted and streaming path)
//   TestVerifQueryRecord  J: runs (opts, query, lines) inputs and records what MatchItem said, for Judge_Query.tla
// Nothing here decides a verdict: the harness reports what the real code did in the projection TLC printed.

import (
	"bytes"
	"encoding/json"
	"fmt"
	"os"
	"os/exec"
	"runtime"
	"sort"
	"strings"
	"sync"
	"testing"
	"unicode"

	"github.com/junegunn/fzf/src/algo"
	"github.com/junegunn/fzf/src/util"
)

type vqOpts struct {
	Fuzzy     bool   `json:"fuzzy"`
	Extended  bool   `json:"extended"`
	Case      string `json:"case"`
	Normalize bool   `json:"normalize"`
	// driver choices that must not change the match set (used by the J records only)
	Algo string `json:"algo,omitempty"`
	Fwd  bool   `json:"fwd"`
	Pos  bool   `json:"pos"`
}

type vqCase struct {
	Cls string   `json:"cls"`
	Q   []string `json:"q"`
	O   vqOpts   `json:"o"`
}

type vqCompact struct {
	Neg bool  `json:"neg"`
	Ids []int `json:"ids"`
}

// the four drivings of the matcher every case is put through: algorithm x scan direction x position tracking
type vqVariant struct {
	name    string
	algo    string
	fwd     bool
	withPos bool
}

var vqVariants = []vqVariant{
	{"v2-fwd", "v2", true, false},
	{"v2-bwd-pos", "v2", false, true},
	{"v1-fwd-pos", "v1", true, true},
	{"v1-bwd", "v1", false, false},
}

func vqCaseMode(s string) Case {
	switch s {
	case "smart":
		return CaseSmart
	case "ignore":
		return CaseIgnore
	case "respect":
		return CaseRespect
	}
	panic("unknown case mode " + s)
}

func vqAlgo(s string) algo.Algo {
	if s == "v1" {
		return algo.FuzzyMatchV1
	}
	return algo.FuzzyMatchV2
}

func vqBuild(o vqOpts, algoName string, fwd bool, withPos bool, query string) *Pattern {
	return BuildPattern(NewChunkCache(), make(map[string]*Pattern),
		o.Fuzzy, vqAlgo(algoName), o.Extended, vqCaseMode(o.Case), o.Normalize, fwd,
		withPos, true, []Range{}, Delimiter{}, revision{}, []rune(query), nil)
}

func vqCompactOf(ids []int, n int) vqCompact {
	if 2*len(ids) > n {
		in := make([]bool, n+1)
		for _, id := range ids {
			in[id] = true
		}
		rest := []int{}
		for id := 1; id <= n; id++ {
			if !in[id] {
				rest = append(rest, id)
			}
		}
		return vqCompact{true, rest}
	}
	if ids == nil {
		ids = []int{}
	}
	return vqCompact{false, ids}
}

func vqLoadUniverses(t *testing.T) map[string][]string {
	path := os.Getenv("VERIF_UNIVERSES")
	if path == "" {
		t.Fatal("VERIF_UNIVERSES not set")
	}
	data, err := os.ReadFile(path)
	if err != nil {
		t.Fatal(err)
	}
	var raw map[string][][]string
	if err := json.Unmarshal(data, &raw); err != nil {
		t.Fatal(err)
	}
	out := map[string][]string{}
	for k, lines := range raw {
		for _, l := range lines {
			out[k] = append(out[k], verifText(l))
		}
	}
	return out
}

func vqItems(lines []string) []Item {
	items := make([]Item, len(lines))
	for i, l := range lines {
		items[i] = Item{text: util.ToChars([]byte(l))}
		items[i].text.Index = int32(i)
	}
	return items
}

func vqReadAll(t *testing.T) [][]byte {
	var all [][]byte
	verifReadCases(t, func(line []byte) error {
		all = append(all, append([]byte(nil), line...))
		return nil
	})
	return all
}

// the character classes of algo are process-global and filled by algo.Init (fzf calls it from postProcessOptions);
// the word / non-word split the boundary term relies on is the same in every scheme
func vqInit(t *testing.T) {
	scheme := os.Getenv("VERIF_SCHEME")
	if scheme == "" {
		scheme = "default"
	}
	if !algo.Init(scheme) {
		t.Fatal("unknown scheme " + scheme)
	}
}

func vqWorkers() int {
	n := runtime.GOMAXPROCS(0)
	if n > 8 {
		n = 8
	}
	if n < 1 {
		n = 1
	}
	return n
}

// runs f(i) for i in [0,n) on a small pool; results are stored by the callee at index i
func vqParallel(n int, f func(worker int, i int)) {
	var wg sync.WaitGroup
	next := make(chan int, 256)
	for w := 0; w < vqWorkers(); w++ {
		wg.Add(1)
		go func(w int) {
			defer wg.Done()
			for i := range next {
				f(w, i)
			}
		}(w)
	}
	for i := 0; i < n; i++ {
		next <- i
	}
	close(next)
	wg.Wait()
}

// ---------------------------------------------------------------------------------------------------- alphabet

// TestVerifQueryChars binds the symbol tables of FzfChars (Lower, Norm, IsSpace, word class) to the real functions:
// one case per symbol, answered with what unicode / algo say about the character it denotes.
func TestVerifQueryChars(t *testing.T) {
	vqInit(t)
	out := verifOpenOut(t)
	defer out.Close()
	verifReadCases(t, func(line []byte) error {
		var c struct {
			Sym string `json:"sym"`
		}
		if err := json.Unmarshal(line, &c); err != nil {
			return err
		}
		r := []rune(verifText([]string{c.Sym}))[0]
		// a character is a word character iff a boundary term does not hold right after it
		probe := util.ToChars([]byte(string(r) + "b"))
		res, _ := algo.ExactMatchBoundary(true, false, true, &probe, []rune("b"), false, nil)
		out.Put(map[string]interface{}{"got": map[string]interface{}{
			"lower": verifSyms(strings.ToLower(string(r)))[0],
			"norm":  verifSyms(string(algo.NormalizeRunes([]rune{r})))[0],
			"space": unicode.IsSpace(r),
			"word":  res.Start < 0,
		}})
		return nil
	})
}

// ---------------------------------------------------------------------------------------------------- E, in-package

func TestVerifQueryReplay(t *testing.T) {
	vqInit(t)
	out := verifOpenOut(t)
	defer out.Close()
	universes := vqLoadUniverses(t)
	cases := vqReadAll(t)
	results := make([]map[string]interface{}, len(cases))
	type wstate struct {
		slab  *util.Slab
		items map[string][]Item
	}
	states := make([]*wstate, vqWorkers())
	for w := range states {
		states[w] = &wstate{util.MakeSlab(slab16Size, slab32Size), map[string][]Item{}}
		for k, lines := range universes {
			states[w].items[k] = vqItems(lines)
		}
	}
	vqParallel(len(cases), func(w int, i int) {
		res := map[string]interface{}{}
		results[i] = res
		defer func() {
			if r := recover(); r != nil {
				res["panic"] = fmt.Sprint(r)
			}
		}()
		var c vqCase
		if err := json.Unmarshal(cases[i], &c); err != nil {
			panic(err)
		}
		items, ok := states[w].items[c.Cls]
		if !ok {
			panic("no universe for class " + c.Cls)
		}
		query := verifText(c.Q)
		m := map[string]vqCompact{}
		got := map[string]interface{}{"m": m}
		for _, v := range vqVariants {
			p := vqBuild(c.O, v.algo, v.fwd, v.withPos, query)
			ids := []int{}
			for idx := range items {
				if r, _, _ := p.MatchItem(&items[idx], v.withPos, states[w].slab); r != nil {
					ids = append(ids, idx+1)
				}
			}
			m[v.name] = vqCompactOf(ids, len(items))
			if v.name == vqVariants[0].name {
				got["ckey"] = verifSyms(p.CacheKey())
				got["cacheable"] = p.cacheable
				got["sortable"] = p.sortable
			}
		}
		res["got"] = got
	})
	for _, r := range results {
		out.Put(r)
	}
}

// ---------------------------------------------------------------------------------------------------- E, end-to-end

// the four command lines every sampled case is run with; `bwd` ones make core.go pick the backward scan
var vqRuns = []struct {
	name string
	args []string
}{
	{"sort-v2", []string{"--algo=v2"}},
	{"nosort-v2-end", []string{"--algo=v2", "+s", "--tiebreak=end"}},
	{"sort-v1-path", []string{"--algo=v1", "--scheme=path"}},
	{"nosort-v1", []string{"--algo=v1", "+s"}},
}

func vqArgs(o vqOpts, query string) []string {
	args := []string{"--filter", query}
	if !o.Fuzzy {
		args = append(args, "--exact")
	}
	if !o.Extended {
		args = append(args, "--no-extended")
	}
	switch o.Case {
	case "ignore":
		args = append(args, "-i")
	case "respect":
		args = append(args, "+i")
	case "smart":
		args = append(args, "--smart-case")
	}
	if !o.Normalize {
		args = append(args, "--literal")
	}
	return args
}

func TestVerifQueryFilter(t *testing.T) {
	out := verifOpenOut(t)
	defer out.Close()
	bin := os.Getenv("VERIF_FZF")
	if bin == "" {
		t.Fatal("VERIF_FZF not set")
	}
	universes := vqLoadUniverses(t)
	stdin := map[string][]byte{}
	idOf := map[string]map[string]int{}
	for k, lines := range universes {
		stdin[k] = []byte(strings.Join(lines, "\n") + "\n")
		idOf[k] = map[string]int{}
		for i, l := range lines {
			idOf[k][l] = i + 1
		}
	}
	cases := vqReadAll(t)
	results := make([]map[string]interface{}, len(cases))
	env := []string{}
	for _, e := range os.Environ() {
		if !strings.HasPrefix(e, "FZF_") {
			env = append(env, e)
		}
	}
	vqParallel(len(cases), func(w int, i int) {
		res := map[string]interface{}{}
		results[i] = res
		var c vqCase
		if err := json.Unmarshal(cases[i], &c); err != nil {
			res["panic"] = err.Error()
			return
		}
		query := verifText(c.Q)
		got := map[string]interface{}{}
		for _, run := range vqRuns {
			cmd := exec.Command(bin, append(vqArgs(c.O, query), run.args...)...)
			cmd.Env = env
			cmd.Stdin = bytes.NewReader(stdin[c.Cls])
			var so, se bytes.Buffer
			cmd.Stdout, cmd.Stderr = &so, &se
			err := cmd.Run()
			code := 0
			if err != nil {
				if ee, ok := err.(*exec.ExitError); ok {
					code = ee.ExitCode()
				} else {
					res["panic"] = err.Error()
					return
				}
			}
			ids := []int{}
			text := so.String()
			if len(text) > 0 {
				for _, l := range strings.Split(strings.TrimSuffix(text, "\n"), "\n") {
					ids = append(ids, idOf[c.Cls][l]) // 0 = a line that was never fed
				}
			}
			sort.Ints(ids)
			n := len(ids)
			// a duplicate or foreign line cannot be expressed in the compact form: report the raw list then
			clean := true
			for j, id := range ids {
				if id == 0 || (j > 0 && ids[j-1] == id) {
					clean = false
				}
			}
			r := map[string]interface{}{"exit": code, "n": n}
			if clean {
				r["m"] = vqCompactOf(ids, len(universes[c.Cls]))
			} else {
				r["raw"] = ids
			}
			if se.Len() > 0 {
				r["stderr"] = se.String()
			}
			got[run.name] = r
		}
		res["got"] = got
	})
	for _, r := range results {
		out.Put(r)
	}
}

// ---------------------------------------------------------------------------------------------------- J

type vqInput struct {
	Opts  vqOpts     `json:"opts"`
	Query []string   `json:"query"`
	Lines [][]string `json:"lines"`
}

func TestVerifQueryRecord(t *testing.T) {
	vqInit(t)
	out := verifOpenOut(t)
	defer out.Close()
	inputs := vqReadAll(t)
	results := make([]map[string]interface{}, len(inputs))
	slabs := make([]*util.Slab, vqWorkers())
	for w := range slabs {
		slabs[w] = util.MakeSlab(slab16Size, slab32Size)
	}
	vqParallel(len(inputs), func(w int, i int) {
		var in vqInput
		if err := json.Unmarshal(inputs[i], &in); err != nil {
			panic(err)
		}
		matched := make([]bool, len(in.Lines))
		res := map[string]interface{}{"opts": in.Opts, "query": in.Query, "lines": in.Lines, "matched": matched, "panic": false}
		results[i] = res
		defer func() {
			if r := recover(); r != nil {
				res["panic"] = true
				res["panicmsg"] = fmt.Sprint(r)
			}
		}()
		p := vqBuild(in.Opts, in.Opts.Algo, in.Opts.Fwd, in.Opts.Pos, verifText(in.Query))
		for k, l := range in.Lines {
			item := Item{text: util.ToChars([]byte(verifText(l)))}
			r, _, _ := p.MatchItem(&item, in.Opts.Pos, slabs[w])
			matched[k] = r != nil
		}
	})
	for _, r := range results {
		out.Put(r)
	}
}
