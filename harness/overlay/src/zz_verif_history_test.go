//go:build verif

package fzf

// C18: replays FzfHistory behaviours (MC_History.tla / Gen_History.cfg) on the real History with a real file.

import (
	"encoding/json"
	"os"
	"path/filepath"
	"testing"
)

type vhObs struct {
	File    string   `json:"file"`
	Open    bool     `json:"open"`
	Entries []string `json:"entries"`
	Cursor  int      `json:"cursor"`
	Ret     string   `json:"ret"`
}
type vhStep struct {
	Act string `json:"act"`
	Arg string `json:"arg"`
}
type vhCase struct {
	Max   int      `json:"max"`
	File0 string   `json:"file0"`
	Steps []vhStep `json:"steps"`
}

func TestVerifHistory(t *testing.T) {
	out := verifOpenOut(t)
	defer out.Close()
	dir := t.TempDir()
	id := 0
	verifReadCases(t, func(line []byte) error {
		var c vhCase
		if err := json.Unmarshal(line, &c); err != nil {
			return err
		}
		path := filepath.Join(dir, "hist")
		os.Remove(path)
		if c.File0 != "MISSING" {
			if err := os.WriteFile(path, []byte(c.File0), 0600); err != nil {
				return err
			}
		}
		readFile := func() string {
			b, err := os.ReadFile(path)
			if err != nil {
				return "MISSING"
			}
			return string(b)
		}
		var h *History
		got := []vhObs{}
		errs := ""
		for _, s := range c.Steps {
			ret, hasRet := "", false
			switch s.Act {
			case "Load":
				var err error
				h, err = NewHistory(path, c.Max)
				if err != nil {
					errs = err.Error()
				}
			case "Prev":
				h.override(s.Arg)
				ret, hasRet = h.previous(), true // what the terminal puts on the query line
			case "Next":
				h.override(s.Arg)
				ret, hasRet = h.next(), true
			case "Submit":
				if err := h.append(s.Arg); err != nil {
					errs = err.Error()
				}
				h = nil
			case "Quit":
				h = nil
			}
			o := vhObs{File: readFile(), Entries: []string{}}
			if h != nil {
				o.Open = true
				o.Entries = append(o.Entries, h.lines[:len(h.lines)-1]...)
				o.Cursor = h.cursor + 1
				o.Ret = h.current()
				if hasRet && ret != o.Ret {
					// the value handed to the terminal differs from the entry the cursor is on
					o.Ret = "returned:" + ret + "|current:" + o.Ret
				}
			}
			got = append(got, o)
		}
		out.Put(map[string]interface{}{"id": id, "got": got, "err": errs})
		id++
		return nil
	})
}
