//go:build verif

package algo

import (
	"math/rand"
	"os"
	"strconv"
	"testing"

	"github.com/junegunn/fzf/src/util"
)

// TestVerifAlgoScan: a large seeded volume of random FuzzyMatchV2 calls on poisoned slabs.  For every input the call
// is made without a slab with positions (reference) and on one long-lived slab that is poisoned before the call
// (0x7fff / -1 / pseudo-random / stale), with and without positions, in both representations.  Recorded for the
// judge (Judge_Algo.tla decides): every call whose result differs from the reference call, and a 1-in-K sample of
// the others.  This only SELECTS what TLC judges; no expectation is computed here.
func TestVerifAlgoScan(t *testing.T) {
	tab := vaLoadTable()
	seed, _ := strconv.Atoi(os.Getenv("VERIF_SEED"))
	total, _ := strconv.Atoi(os.Getenv("VERIF_SCAN_N"))
	sampleEvery, _ := strconv.Atoi(os.Getenv("VERIF_SCAN_SAMPLE"))
	maxLen, _ := strconv.Atoi(os.Getenv("VERIF_SCAN_LEN"))
	rnd := rand.New(rand.NewSource(int64(seed)*7919 + 17))
	lower, norm := map[string]string{}, map[string]string{}
	syms := []string{}
	for _, e := range tab.Syms {
		lower[e.Sym], norm[e.Sym] = e.Lower, e.Norm
		w := 1
		if e.Class[0] == "lower" || e.Class[0] == "upper" || e.Class[0] == "number" {
			w = 4
		}
		if e.Sym == "a" || e.Sym == "b" || e.Sym == "A" || e.Sym == " " || e.Sym == "-" || e.Sym == "_" || e.Sym == "/" {
			w = 8
		}
		for ; w > 0; w-- {
			syms = append(syms, e.Sym)
		}
	}
	out := verifOpenOut(t)
	defer out.Close()
	shared := util.MakeSlab(100*1024, 2048)
	fills := []string{"max", "neg", "rnd", "stale"}
	emitted, calls, differing, emPos, emNoPos := 0, 0, 0, 0, 0
	perScheme := total / len(tab.Schemes)
	for _, scheme := range tab.Schemes {
		vaInit(scheme)
		if bad := vaCheckTable(tab, scheme); len(bad) > 0 {
			t.Fatal(bad)
		}
		for it := 0; it < perScheme; it++ {
			n := 2 + rnd.Intn(maxLen-1)
			text := make([]string, n)
			for i := range text {
				text[i] = syms[rnd.Intn(len(syms))]
			}
			cs, nm := rnd.Intn(3) == 0, rnd.Intn(2) == 0
			m := 1 + rnd.Intn(4)
			if m > n {
				m = n
			}
			pat := []string{}
			for _, i := range vaSortedSample(rnd, n, m) { // a subsequence of the folded text, so that it matches
				s := text[i]
				if !cs {
					s = lower[s]
				}
				if nm {
					s = norm[s]
				}
				pat = append(pat, s)
			}
			str := verifText(text)
			prunes := []rune(verifText(pat))
			nat := util.ToChars([]byte(str))
			run := util.RunesToChars([]rune(str))
			for _, fwd := range []bool{true, false} {
				c0 := nat
				ref := vaCall("v2", cs, nm, fwd, &c0, prunes, true, nil)
				for vi := 0; vi < 4; vi++ {
					fill := fills[rnd.Intn(len(fills))]
					wp := vi != 1
					rep, chars := "natural", nat
					if vi == 2 {
						rep, chars = "runes", run
					}
					vaFill(shared, fill, n, m, rnd)
					got := vaCall("v2", cs, nm, fwd, &chars, prunes, wp, shared)
					calls++
					differs := got.Panic != "" || got.S != ref.S || got.E != ref.E || got.Sc != ref.Sc || (wp && !vaIntsEq(got.Pos, ref.Pos))
					if differs {
						differing++
					}
					take := sampleEvery > 0 && calls%sampleEvery == 0
					if differs && wp && emPos < 2500 {
						take = true
						emPos++
					} else if differs && !wp && emNoPos < 300 {
						take = true
						emNoPos++
					}
					if take {
						in := &vaInput{T: text, N: n, P: pat, Cs: cs, Norm: nm, Sch: scheme, Kind: "v2", Fwd: fwd, Wp: wp, Slab: "real",
							Cap16: cap(shared.I16), Fill: fill, Rep: rep, Chk: "exact", WithRef: true,
							S: got.S, E: got.E, Sc: got.Sc, Pos: got.Pos, NilPos: got.NilPos, Panic: got.Panic}
						if !wp {
							in.Pos = []int{}
						}
						in.Ref = &struct {
							S   int   `json:"s"`
							E   int   `json:"e"`
							Sc  int   `json:"sc"`
							Pos []int `json:"pos"`
						}{ref.S, ref.E, ref.Sc, ref.Pos}
						out.Put(in)
						emitted++
					}
				}
			}
		}
	}
	out.Put(map[string]interface{}{"summary": true, "calls": calls, "differing": differing, "emitted": emitted})
}

func vaSortedSample(rnd *rand.Rand, n, m int) []int {
	pick := make([]bool, n)
	for k := 0; k < m; {
		i := rnd.Intn(n)
		if !pick[i] {
			pick[i] = true
			k++
		}
	}
	out := []int{}
	for i, p := range pick {
		if p {
			out = append(out, i)
		}
	}
	return out
}
