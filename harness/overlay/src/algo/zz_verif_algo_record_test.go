//go:build verif

package algo

import (
	"encoding/json"
	"fmt"
	"math/rand"
	"os"
	"strconv"
	"strings"
	"testing"

	"github.com/junegunn/fzf/src/util"
)

// one call to record: the text is either a symbol sequence or run-length encoded (giant lines)
type vaInput struct {
	T       []string        `json:"t"`
	Rle     [][]interface{} `json:"rle,omitempty"` // [[symbol, count], ...]
	N       int             `json:"n"`             // length of the text in runes (filled in here)
	P       []string        `json:"p"`
	Cs      bool            `json:"cs"`
	Norm    bool            `json:"norm"`
	Sch     string          `json:"sch"`
	Kind    string          `json:"kind"`
	Fwd     bool            `json:"fwd"`
	Wp      bool            `json:"wp"`
	Slab    string          `json:"slab"` // nil | real | cap:<int16 cap>:<int32 cap>
	Cap16   int             `json:"cap16"`
	Fill    string          `json:"fill"`
	Rep     string          `json:"rep"` // natural | runes
	Chk     string          `json:"chk"`
	WithRef bool            `json:"withref,omitempty"`
	// what the real code returned
	S      int    `json:"s"`
	E      int    `json:"e"`
	Sc     int    `json:"sc"`
	Pos    []int  `json:"pos"`
	NilPos bool   `json:"nilpos"`
	Panic  string `json:"panic,omitempty"`
	// the same call without slab, natural representation, positions requested
	Ref *struct {
		S   int   `json:"s"`
		E   int   `json:"e"`
		Sc  int   `json:"sc"`
		Pos []int `json:"pos"`
	} `json:"ref,omitempty"`
}

func vaInputText(in *vaInput) string {
	if in.Rle == nil {
		return verifText(in.T)
	}
	var sb strings.Builder
	for _, run := range in.Rle {
		r := verifSym[run[0].(string)]
		for k := int(run[1].(float64)); k > 0; k-- {
			sb.WriteRune(r)
		}
	}
	return sb.String()
}

func vaSlabFor(cache map[string]*util.Slab, spec string) *util.Slab {
	if spec == "nil" {
		return nil
	}
	if s, ok := cache[spec]; ok {
		return s
	}
	var s *util.Slab
	if spec == "real" {
		s = util.MakeSlab(100*1024, 2048)
	} else {
		parts := strings.Split(spec, ":")
		a, _ := strconv.Atoi(parts[1])
		b, _ := strconv.Atoi(parts[2])
		s = util.MakeSlab(a, b)
	}
	cache[spec] = s
	return s
}

func TestVerifAlgoRecord(t *testing.T) {
	tab := vaLoadTable()
	seed, _ := strconv.Atoi(os.Getenv("VERIF_SEED"))
	rnd := rand.New(rand.NewSource(int64(seed)))
	inputs := []*vaInput{}
	verifReadCases(t, func(line []byte) error {
		in := &vaInput{}
		if err := json.Unmarshal(line, in); err != nil {
			return err
		}
		if in.T == nil {
			in.T = []string{}
		}
		inputs = append(inputs, in)
		return nil
	})
	out := verifOpenOut(t)
	defer out.Close()
	slabs := map[string]*util.Slab{} // one slab per size for the whole run: every record continues a call history
	tableBad := []string{}
	for _, scheme := range tab.Schemes {
		vaInit(scheme)
		tableBad = append(tableBad, vaCheckTable(tab, scheme)...)
		for _, in := range inputs {
			if in.Sch != scheme {
				continue
			}
			text := vaInputText(in)
			runes := []rune(text)
			in.N = len(runes)
			pat := []rune(verifText(in.P))
			var chars util.Chars
			if in.Rep == "runes" {
				chars = util.RunesToChars(runes)
			} else {
				chars = util.ToChars([]byte(text))
			}
			slab := vaSlabFor(slabs, in.Slab)
			in.Cap16 = -1
			if slab != nil {
				in.Cap16 = cap(slab.I16)
			}
			if in.Kind == "v2" {
				vaFill(slab, in.Fill, in.N, len(pat), rnd)
			}
			r := vaCall(in.Kind, in.Cs, in.Norm, in.Fwd, &chars, pat, in.Wp, slab)
			in.S, in.E, in.Sc, in.Pos, in.NilPos, in.Panic = r.S, r.E, r.Sc, r.Pos, r.NilPos, r.Panic
			if !in.Wp {
				in.Pos = []int{}
			}
			if in.WithRef {
				nat := util.ToChars([]byte(text))
				kind := in.Kind
				if kind == "v2" && slab != nil && in.N*len(pat) > cap(slab.I16) {
					kind = "v1" // the documented fallback for large inputs
				}
				q := vaCall(kind, in.Cs, in.Norm, in.Fwd, &nat, pat, true, nil)
				in.Ref = &struct {
					S   int   `json:"s"`
					E   int   `json:"e"`
					Sc  int   `json:"sc"`
					Pos []int `json:"pos"`
				}{q.S, q.E, q.Sc, q.Pos}
			}
		}
	}
	if len(tableBad) > 0 {
		t.Fatal("symbol table disagrees with the real code: " + fmt.Sprint(tableBad))
	}
	for _, in := range inputs {
		out.Put(in)
	}
}
