//go:build verif

package algo

import (
	"encoding/json"
	"fmt"
	"math/rand"
	"os"
	"strconv"
	"strings"
	"sync"
	"testing"

	"github.com/junegunn/fzf/src/util"
)

// expected result as printed by TLC: [start, end, score, [positions]]
type vaExp struct {
	S, E, Sc int
	Pos      []int
}

func (v *vaExp) UnmarshalJSON(b []byte) error {
	var raw []json.RawMessage
	if err := json.Unmarshal(b, &raw); err != nil || len(raw) != 4 {
		return fmt.Errorf("bad result %s", b)
	}
	json.Unmarshal(raw[0], &v.S)
	json.Unmarshal(raw[1], &v.E)
	json.Unmarshal(raw[2], &v.Sc)
	return json.Unmarshal(raw[3], &v.Pos)
}

type vaCase struct {
	A    int      `json:"a"`
	I    int      `json:"i"`
	T    []string `json:"t"`
	P    []string `json:"p"`
	Cs   bool     `json:"cs"`
	Norm bool     `json:"norm"`
	Sch  string   `json:"sch"`
	R    []vaExp  `json:"r"`
	Fb   []bool   `json:"fb"`
}

type vaBad struct {
	Fn    string      `json:"fn"`
	Kind  string      `json:"kind"`
	Fwd   bool        `json:"fwd"`
	Rep   string      `json:"rep"`
	Wp    bool        `json:"withPos"`
	Slab  string      `json:"slab"`
	Fill  string      `json:"fill"`
	Field string      `json:"field"`
	Exp   interface{} `json:"exp"`
	Got   interface{} `json:"got"`
	Ref   interface{} `json:"ref,omitempty"` // same field of the reference variant (no slab, natural representation, positions)
	// the same reference call on the OTHER representation of the same text (runes); set only when it differs from Ref:
	// then the result depends on how the text is held
	Ref2 interface{} `json:"ref2,omitempty"`
}

// a FuzzyMatchV2 result that differs from the alignment TLC predicted (which of several valid alignments is reported
// is code-derived): handed to Judge_Algo.tla, which decides whether it is a valid witness
type vaJudge struct {
	Kind string `json:"kind"`
	Fwd  bool   `json:"fwd"`
	Wp   bool   `json:"withPos"`
	S    int    `json:"s"`
	E    int    `json:"e"`
	Sc   int    `json:"sc"`
	Pos  []int  `json:"pos"`
}

func vaIntsEq(a, b []int) bool {
	if len(a) != len(b) {
		return false
	}
	for i := range a {
		if a[i] != b[i] {
			return false
		}
	}
	return true
}

type vaSlabSet struct {
	names []string
	slabs []*util.Slab
	fbIdx []int // index into case.Fb, -1 = V2 never falls back with this slab
}

func vaMakeSlabs(t *vaTable) *vaSlabSet {
	s := &vaSlabSet{names: []string{"nil", "real"}, slabs: []*util.Slab{nil, util.MakeSlab(100*1024, 2048)}, fbIdx: []int{-1, -1}}
	for i, c := range t.Caps16 {
		s.names = append(s.names, fmt.Sprintf("cap%d/%d", c, t.Caps32[i]))
		s.slabs = append(s.slabs, util.MakeSlab(c, t.Caps32[i]))
		s.fbIdx = append(s.fbIdx, i)
	}
	return s
}

// vaRunCase runs every variant of one case and returns the disagreements with TLC's prediction (at most 12).
func vaRunCase(c *vaCase, t *vaTable, ss *vaSlabSet, fields string, fills []string, rnd *rand.Rand) ([]vaBad, []vaJudge, int) {
	text := verifText(c.T)
	pat := []rune(verifText(c.P))
	n, m := len(c.T), len(c.P)
	type rep struct {
		name  string
		chars util.Chars
	}
	natural := "runes(ToChars)"
	nat := util.ToChars([]byte(text))
	if nat.IsBytes() {
		natural = "bytes"
	}
	reps := []rep{{natural, nat}, {"runes(RunesToChars)", util.RunesToChars([]rune(text))}}
	bad := []vaBad{}
	judge := []vaJudge{}
	calls := 0
	refs := map[string]vaRes{}  // reference variant per (matcher, direction)
	refs2 := map[string]vaRes{} // ... on the runes representation
	for _, kind := range t.Kinds {
		for _, fwd := range []bool{true, false} {
			chars := reps[0].chars
			refs[fmt.Sprint(kind, fwd)] = vaCall(kind, c.Cs, c.Norm, fwd, &chars, pat, true, nil)
			chars2 := reps[1].chars
			refs2[fmt.Sprint(kind, fwd)] = vaCall(kind, c.Cs, c.Norm, fwd, &chars2, pat, true, nil)
		}
	}
	kidx := map[string]int{}
	for i, k := range t.Kinds {
		kidx[k] = i
	}
	for _, kind := range t.Kinds {
		for d, fwd := range []bool{true, false} {
			for _, rp := range reps {
				for _, wp := range []bool{true, false} {
					for si, slab := range ss.slabs {
						if kind != "v2" && si > 1 {
							break // only FuzzyMatchV2 looks at the slab
						}
						fl := fills
						if slab == nil || kind != "v2" {
							fl = fills[:1]
						}
						for _, fill := range fl {
							expKind := kind
							if kind == "v2" && ss.fbIdx[si] >= 0 && c.Fb[ss.fbIdx[si]] {
								expKind = "v1"
							}
							if kind == "v2" && slab != nil && ss.fbIdx[si] < 0 && n*m > cap(slab.I16) {
								panic("case too large for the real slab")
							}
							exp := c.R[2*kidx[expKind]+d]
							vaFill(slab, fill, n, m, rnd)
							chars := rp.chars
							got := vaCall(kind, c.Cs, c.Norm, fwd, &chars, pat, wp, slab)
							calls++
							ref := refs[fmt.Sprint(expKind, fwd)]
							refOf := map[string]interface{}{"panic": ref.Panic, "matched": ref.S >= 0, "start": ref.S, "end": ref.E,
								"pos": ref.Pos, "score": ref.Sc}
							ref2 := refs2[fmt.Sprint(expKind, fwd)]
							ref2Of := map[string]interface{}{"panic": ref2.Panic, "matched": ref2.S >= 0, "start": ref2.S, "end": ref2.E,
								"pos": ref2.Pos, "score": ref2.Sc}
							add := func(field string, e, g interface{}) {
								if len(bad) < 12 {
									b := vaBad{vaFuncNames[kind], kind, fwd, rp.name, wp, ss.names[si], fill, field, e, g, nil, nil}
									if fields == "all" {
										b.Ref = refOf[field]
										if fmt.Sprint(ref2Of[field]) != fmt.Sprint(refOf[field]) {
											b.Ref2 = ref2Of[field]
										}
									}
									bad = append(bad, b)
								}
							}
							if got.Panic != "" {
								add("panic", nil, got.Panic)
								continue
							}
							matchedOK := (got.S >= 0) == (exp.S >= 0)
							rng := fields == "range" || fields == "all"
							if rng && !matchedOK {
								add("matched", exp.S >= 0, got.S >= 0)
							}
							if !matchedOK {
								continue
							}
							if fields == "range" && kind == "v2" && expKind == "v2" {
								if exp.S >= 0 && (got.E != exp.E || (wp && !vaIntsEq(got.Pos, exp.Pos)) || got.S != exp.S) {
									j := vaJudge{kind, fwd, wp, got.S, got.E, got.Sc, got.Pos}
									dup := false
									for _, o := range judge {
										dup = dup || (o.Fwd == j.Fwd && o.Wp == j.Wp && o.S == j.S && o.E == j.E && vaIntsEq(o.Pos, j.Pos))
									}
									if !dup && len(judge) < 8 {
										judge = append(judge, j)
									}
								}
								continue
							}
							if rng {
								if got.E != exp.E {
									add("end", exp.E, got.E)
								}
								approxStart := kind == "v2" && expKind == "v2" && !wp && m > 1
								if got.S != exp.S && (!approxStart || fields == "all") {
									add("start", exp.S, got.S)
								}
								if wp && !vaIntsEq(got.Pos, exp.Pos) {
									add("pos", exp.Pos, got.Pos)
								}
							}
							if (fields == "score" || fields == "all") && got.Sc != exp.Sc {
								add("score", exp.Sc, got.Sc)
							}
						}
					}
				}
			}
		}
	}
	return bad, judge, calls
}

func TestVerifAlgoCases(t *testing.T) {
	tab := vaLoadTable()
	fields := os.Getenv("VERIF_FIELDS")
	fills := strings.Split(os.Getenv("VERIF_FILLS"), ",")
	par, _ := strconv.Atoi(os.Getenv("VERIF_PAR"))
	if par <= 0 {
		par = 8
	}
	seed, _ := strconv.Atoi(os.Getenv("VERIF_SEED"))
	cases := []*vaCase{}
	verifReadCases(t, func(line []byte) error {
		c := &vaCase{}
		if err := json.Unmarshal(line, c); err != nil {
			return err
		}
		cases = append(cases, c)
		return nil
	})
	out := verifOpenOut(t)
	defer out.Close()
	tableBad := []string{}
	total := 0
	byScheme := map[string]int{}
	for _, scheme := range tab.Schemes {
		vaInit(scheme)
		tableBad = append(tableBad, vaCheckTable(tab, scheme)...)
		idxs := []int{}
		for i, c := range cases {
			if c.Sch == scheme {
				idxs = append(idxs, i)
			}
		}
		byScheme[scheme] = len(idxs)
		bads := make([][]vaBad, len(idxs))
		judges := make([][]vaJudge, len(idxs))
		ncalls := make([]int, par)
		var wg sync.WaitGroup
		for w := 0; w < par; w++ {
			wg.Add(1)
			go func(w int) {
				defer wg.Done()
				ss := vaMakeSlabs(tab) // one slab set per worker, reused for all its cases: a call history
				rnd := rand.New(rand.NewSource(int64(seed*1000 + w)))
				for k := w; k < len(idxs); k += par {
					b, j, n := vaRunCase(cases[idxs[k]], tab, ss, fields, fills, rnd)
					bads[k], judges[k] = b, j
					ncalls[w] += n
				}
			}(w)
		}
		wg.Wait()
		for k, b := range bads {
			if len(b) > 0 || len(judges[k]) > 0 {
				out.Put(map[string]interface{}{"line": idxs[k], "bad": b, "judge": judges[k]})
			}
		}
		for _, n := range ncalls {
			total += n
		}
	}
	out.Put(map[string]interface{}{"summary": true, "cases": len(cases), "calls": total, "table_bad": tableBad, "by_scheme": byScheme})
}
