//go:build verif

package algo

// C02 / C03 / C05 (API level): binds spec/FzfAlgo*.tla to the real matchers.
//   TestVerifAlgoCases   replays cases exported by TLC (MC_Algo.tla / Gen_Algo*.cfg): every matcher, both scan
//                        directions, bytes and runes representation, with/without positions, no slab / real slab /
//                        scaled-down slabs, fresh or poisoned slab contents; compares with the result TLC predicted.
//   TestVerifAlgoRecord  runs the real matchers on generated inputs (random long texts, giant run-length-encoded
//                        lines) and records what they returned, for Judge_Algo.tla.
//   TestVerifAlgoHist    replays call histories on one poisoned slab (MC_AlgoSlab.tla).
// No expected value is computed here: this file drives the real code, projects results and compares them with
// values computed by TLC.

import (
	"encoding/json"
	"fmt"
	"math/rand"
	"os"
	"sort"
	"strconv"
	"unicode"
	"unicode/utf8"

	"github.com/junegunn/fzf/src/util"
)

type vaTable struct {
	Kinds   []string `json:"kinds"`
	Caps16  []int    `json:"caps16"`
	Caps32  []int    `json:"caps32"`
	Schemes []string `json:"schemes"`
	Syms    []struct {
		Sym   string   `json:"sym"`
		Lower string   `json:"lower"`
		Norm  string   `json:"norm"`
		Space bool     `json:"space"`
		Ascii bool     `json:"ascii"`
		Class []string `json:"class"`
	} `json:"syms"`
}

var vaSeed = func() int {
	n, _ := strconv.Atoi(os.Getenv("VERIF_SEED"))
	return n
}()

var vaClassNames = map[charClass]string{charWhite: "white", charNonWord: "nonword", charDelimiter: "delimiter",
	charLower: "lower", charUpper: "upper", charLetter: "letter", charNumber: "number"}

var vaFuncs = map[string]Algo{"v2": FuzzyMatchV2, "v1": FuzzyMatchV1, "exact": ExactMatchNaive,
	"boundary": ExactMatchBoundary, "prefix": PrefixMatch, "suffix": SuffixMatch, "equal": EqualMatch}
var vaFuncNames = map[string]string{"v2": "FuzzyMatchV2", "v1": "FuzzyMatchV1", "exact": "ExactMatchNaive",
	"boundary": "ExactMatchBoundary", "prefix": "PrefixMatch", "suffix": "SuffixMatch", "equal": "EqualMatch"}

func vaLoadTable() *vaTable {
	b, err := os.ReadFile(os.Getenv("VERIF_TABLE"))
	if err != nil {
		panic(err)
	}
	var t vaTable
	if err := json.Unmarshal(b, &t); err != nil {
		panic(err)
	}
	return &t
}

// vaInit selects a scoring scheme.  algo.Init mutates package globals and "path" is not undone by a later Init, so
// the two globals it leaves behind are put back to their process-start values first.
func vaInit(scheme string) {
	delimiterChars = "/,:;|"
	initialCharClass = charWhite
	if !Init(scheme) {
		panic("Init(" + scheme + ") failed")
	}
}

// vaCheckTable: the symbol tables of spec/FzfChars.tla against the real classification / folding functions, for
// the scheme that is currently initialised.  Returns the disagreements.
func vaCheckTable(t *vaTable, scheme string) []string {
	si := -1
	for i, s := range t.Schemes {
		if s == scheme {
			si = i
		}
	}
	bad := []string{}
	for _, e := range t.Syms {
		r, ok := verifSym[e.Sym]
		if !ok {
			bad = append(bad, "symbol missing in harness/shared/chars.go: "+e.Sym)
			continue
		}
		if got := vaClassNames[charClassOf(r)]; got != e.Class[si] {
			bad = append(bad, fmt.Sprintf("charClassOf(%q) scheme %s: spec %s, real %s", r, scheme, e.Class[si], got))
		}
		lo := r
		if lo >= 'A' && lo <= 'Z' {
			lo += 32
		} else if lo > unicode.MaxASCII {
			lo = unicode.To(unicode.LowerCase, lo)
		}
		if lo != verifSym[e.Lower] || unicode.ToLower(r) != verifSym[e.Lower] {
			bad = append(bad, fmt.Sprintf("lower(%q): spec %q, real %q / %q", r, verifSym[e.Lower], lo, unicode.ToLower(r)))
		}
		if got := normalizeRune(r); got != verifSym[e.Norm] {
			bad = append(bad, fmt.Sprintf("normalizeRune(%q): spec %q, real %q", r, verifSym[e.Norm], got))
		}
		if unicode.IsSpace(r) != e.Space {
			bad = append(bad, fmt.Sprintf("IsSpace(%q): spec %v", r, e.Space))
		}
		if (r < utf8.RuneSelf) != e.Ascii {
			bad = append(bad, fmt.Sprintf("ascii(%q): spec %v", r, e.Ascii))
		}
	}
	return bad
}

// vaRes is the projection of what a matcher returned.
type vaRes struct {
	S, E, Sc int
	Pos      []int // effective highlight positions, ascending: the returned ones, or the range when none are returned
	NilPos   bool
	Panic    string
}

func vaCall(kind string, cs, norm, fwd bool, chars *util.Chars, pat []rune, withPos bool, slab *util.Slab) (res vaRes) {
	defer func() {
		if r := recover(); r != nil {
			res = vaRes{S: -2, E: -2, Pos: []int{}, Panic: fmt.Sprint(r)}
		}
	}()
	r, pos := vaFuncs[kind](cs, norm, fwd, chars, pat, withPos, slab)
	res = vaRes{S: r.Start, E: r.End, Sc: r.Score, Pos: []int{}, NilPos: pos == nil}
	if pos != nil {
		res.Pos = append(res.Pos, (*pos)...)
		sort.Ints(res.Pos)
	} else if r.Start >= 0 {
		for i := r.Start; i < r.End; i++ { // what the caller of the matchers highlights when no positions come back
			res.Pos = append(res.Pos, i)
		}
	}
	return res
}

// slab contents before a call ("fill"); only the prefix a call on (n, m) can touch is rewritten
func vaFill(slab *util.Slab, fill string, n, m int, rnd *rand.Rand) {
	if slab == nil || fill == "stale" {
		return
	}
	l16, l32 := 3*n+2*n*m+16, n+m+16
	if l16 > len(slab.I16) {
		l16 = len(slab.I16)
	}
	if l32 > len(slab.I32) {
		l32 = len(slab.I32)
	}
	a, b := slab.I16[:l16], slab.I32[:l32]
	// "rnd": pseudo-random garbage that depends only on (VERIF_SEED, n, m), so that a call can be replayed alone
	x := uint64(vaSeed)*0x9E3779B97F4A7C15 + uint64(n)*7919 + uint64(m)*104729 + 1
	next := func() uint64 {
		x += 0x9E3779B97F4A7C15
		z := x
		z = (z ^ (z >> 30)) * 0xBF58476D1CE4E5B9
		z = (z ^ (z >> 27)) * 0x94D049BB133111EB
		return z ^ (z >> 31)
	}
	for i := range a {
		switch fill {
		case "zero":
			a[i] = 0
		case "max":
			a[i] = 0x7fff
		case "neg":
			a[i] = -1
		default:
			a[i] = int16(next())
		}
	}
	for i := range b {
		switch fill {
		case "zero":
			b[i] = 0
		case "max":
			b[i] = 0x7fffffff
		case "neg":
			b[i] = -1
		default:
			b[i] = int32(next())
		}
	}
}
