//go:build verif

package algo

// Shared plumbing of the conformance harnesses (injected with `go test -overlay`; never part of /repo).
// Cases come from TLC (file named by VERIF_CASES, one JSON object per line); results go to VERIF_OUT.

import (
	"bufio"
	"encoding/json"
	"os"
	"testing"
)

func verifReadCases(t *testing.T, into func(line []byte) error) int {
	path := os.Getenv("VERIF_CASES")
	if path == "" {
		t.Fatal("VERIF_CASES not set")
	}
	f, err := os.Open(path)
	if err != nil {
		t.Fatal(err)
	}
	defer f.Close()
	sc := bufio.NewScanner(f)
	sc.Buffer(make([]byte, 1<<20), 1<<28)
	n := 0
	for sc.Scan() {
		if len(sc.Bytes()) == 0 {
			continue
		}
		if err := into(sc.Bytes()); err != nil {
			t.Fatalf("case %d: %v", n, err)
		}
		n++
	}
	if err := sc.Err(); err != nil {
		t.Fatal(err)
	}
	return n
}

type verifOut struct {
	f *os.File
	w *bufio.Writer
	e *json.Encoder
}

func verifOpenOut(t *testing.T) *verifOut {
	path := os.Getenv("VERIF_OUT")
	if path == "" {
		t.Fatal("VERIF_OUT not set")
	}
	f, err := os.Create(path)
	if err != nil {
		t.Fatal(err)
	}
	w := bufio.NewWriterSize(f, 1<<20)
	e := json.NewEncoder(w)
	e.SetEscapeHTML(false)
	return &verifOut{f, w, e}
}

func (o *verifOut) Put(v interface{}) {
	if err := o.e.Encode(v); err != nil {
		panic(err)
	}
}

func (o *verifOut) Close() {
	o.w.Flush()
	o.f.Close()
}
