//go:build verif

package PKG

// Symbol table shared with spec/FzfChars.tla: a text in the specification is a sequence of symbols.

import "strings"

var verifSym = map[string]rune{
	"a": 'a', "b": 'b', "c": 'c', "e": 'e', "A": 'A', "B": 'B', "C": 'C', "1": '1', "2": '2',
	"a~": 'á', "A~": 'Á', "e~": 'é', "han": '漢', " ": ' ', "TAB": '\t',
	"_": '_', "-": '-', ".": '.', "$": '$', "^": '^', "'": '\'', "!": '!', "\\": '\\', "(": '(', ")": ')', "*": '*', "+": '+',
	"/": '/', ",": ',', ":": ':', ";": ';', "|": '|',
	// added for the field tokenizer (C10): control characters, white space beyond TAB / SPACE, characters whose UTF-8
	// encoding contains the bytes 0x85 / 0xA0 / 0x80
	"CR": '\r', "VT": '\v', "FF": '\f', "LF": '\n', "BS": '\b', "US": '\x1f', "DEL": '\x7f',
	"NBSP": '\u00a0', "NEL": '\u0085', "IDSP": '\u3000', "EMSP": '\u2003', "ZWSP": '\u200b',
	"a`": '\u00e0', "aog": '\u0105', "dag": '\u2020', "ni": '\u4f60', "hori": '\u5800',
	// added for non-ASCII literal delimiters (C10): e-grave (C3 A8, next to e-acute C3 A9), box drawings light
	// vertical (E2 94 82) / horizontal (E2 94 80)
	"e`": '\u00e8', "bxv": '\u2502', "bxh": '\u2500',
}

var verifSymOf = func() map[rune]string {
	m := map[rune]string{}
	for k, v := range verifSym {
		m[v] = k
	}
	return m
}()

// verifText turns a symbol sequence into the string it denotes (panics on an unknown symbol).
func verifText(syms []string) string {
	var sb strings.Builder
	for _, s := range syms {
		r, ok := verifSym[s]
		if !ok {
			panic("unknown symbol " + s)
		}
		sb.WriteRune(r)
	}
	return sb.String()
}

// verifSyms is the inverse of verifText (panics on a character outside the table).
func verifSyms(s string) []string {
	out := []string{}
	for _, r := range s {
		k, ok := verifSymOf[r]
		if !ok {
			panic("character outside the symbol table: " + string(r))
		}
		out = append(out, k)
	}
	return out
}
