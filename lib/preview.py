"""Sessions of the real interactive fzf (tmux) with preview commands that log their own invocation and hold a
session-wide lock for their lifetime; seeded UI histories racing with process start-up, output and exit; observations
at quiescence (GET /, the commands' LOG, /proc, the captured preview window) and after the end of the session (/proc);
projection of the pv.* hook trace onto the events of spec/Trace_Preview.tla.  Used by C20."""
import glob, json, os, re, signal, time
import tmuxdrv
from vlib import Infra

# field codes -> shell words (placeholders are substituted by fzf; {q} {} are quoted by fzf itself)
WORDS = {"n": "{n}", "s": "{}", "q": "{q}", "pn": "\"$(echo {+n} | tr ' ' ,)\"", "pf": "\"$(tr '\\n' , < {+f})\"", "f": "\"$(cat {f})\""}
TEMPLATES = {"PA": ["n", "s", "q", "pn", "pf", "f"], "PB": ["n", "s", "pn"], "PC": ["q", "n", "pf"], "PD": ["n", "f"]}
ENDLESS = ("endless", "ticking", "incrlong", "pipe", "execend", "closed")
HUNG_AFTER = 15.0      # a SIGKILLed process group that has not been reaped after this long is not going to be
MARKER = "change-prompt(%d> )"     # the number shows on the screen: what the terminal has consumed so far

# what a command does after its first block of lines ($L = identity line, $i = number of the next line).  Everything
# that takes time is a CHILD of the shell fzf started (command list / loop / pipeline), except `execend`.
FRAG = {"instant": ":", "mute": ":", "late": ":", "slow": "sleep 0.3; :",
        # `closed`: the OUTPUT ends (stdout and stderr closed: EOF on fzf's pipe) while the PROCESS goes on for ever
        # (the `sleep` children do not inherit the session lock: with the output closed, fzf's Wait returns as soon as the
        # SHELL has been reaped, while a `sleep` killed by the same signal may take a moment to leave the process table; the
        # next command would find the lock still held by a process that is already dying - seen on a loaded machine)
        "closed": "exec >&- 2>&-; while :; do sleep 1 9>&-; done",
        "endless": "sleep 1000; echo \"$L|end\"", "pipe": "sleep 1000 | cat", "execend": "exec sleep 1000",
        "incr": "for j in 1 2 3; do sleep 0.12; echo \"$L|$i\"; i=$((i+1)); done",
        "incrlong": "for j in 1 2; do sleep 0.15; echo \"$L|$i\"; i=$((i+1)); done; sleep 1000; :",
        "ticking": "while :; do sleep 0.25; echo \"$L|$i\"; i=$((i+1)); done"}
LATE = 0.9             # kind `late`: silent for longer than previewDelayed (500 ms: "Loading ..")

# preview window layouts (pane 110 x 18); rows / columns of the window are measured on the real binary (calibrate)
LAYOUTS = ["down,5,border-top", "right,44,border-left", "up,6,border-bottom", "left,40,border-right", "down,6,border-none",
           "right,38,border-rounded", "up,4,border-sharp", "right,50,border-none"]
PANE = (110, 18)


def command(tag, kinds, lead=0, talls=(1,)):
    """The preview command: takes the session lock for its lifetime, appends `start|pid|identity line` to the LOG, prints
    M lines `identity line|i` at once (M = talls[item index mod len(talls)]; kind `mute`: prints NOTHING), then behaves
    by kind = kinds[item index mod len(kinds)].  lead: seconds the command stays silent before it logs and prints."""
    codes = TEMPLATES[tag]
    fmt = tag + "".join("|%s" for _ in codes)
    args = " ".join(WORDS[c] for c in codes)
    idx = lambda k: "|".join(str(i) for i, x in enumerate(kinds) if x == k)
    arms = " ".join("%d) %s;;" % (i, FRAG[k]) for i, k in enumerate(kinds))
    return ("exec 9>>\"$VLOCK\"; flock -n 9 || echo \"overlap|$$\" >> \"$VLOG\"; %sN={n}; N=${N:-0}; K=$(( N %% %d )); "
            "set -- %s; shift $(( N %% %d )); M=$1; %s%sL=$(printf '%s' %s); echo \"start|$$|$L\" >> \"$VLOG\"; "
            "i=1; while [ $i -le $M ]; do echo \"$L|$i\"; i=$((i+1)); done; case $K in %s esac" % (
                "sleep %s; " % lead if lead else "", len(kinds), " ".join(str(x) for x in talls), len(talls),
                ("case $K in %s) M=0;; esac; " % idx("mute")) if "mute" in kinds else "",
                ("case $K in %s) sleep %s;; esac; " % (idx("late"), LATE)) if "late" in kinds else "",
                fmt, args, arms))


RULER = "i=0; while [ $i -lt 60 ]; do printf '%0300d\\n' 0 | tr 0 R; i=$((i+1)); done"


def calibrate(ctx, fzf, layout):
    """Where the preview window of a layout is on the screen: a preview of 60 lines of 300 R's fills it completely
    (no wrap: every row is cut at the right edge).  Returns (x0, y0, W, H)."""
    s = tmuxdrv.Session(ctx, fzf, ["--no-color", "--no-unicode", "--multi", "--no-sort", "--preview", RULER, "--preview-window", layout],
                        input_data="ab0\nab1\n", width=PANE[0], height=PANE[1])
    try:
        s.wait_listening(timeout=120)
        s.wait_for(lambda tr: any(e["ev"] == "pv.display" and e["nlines"] == 60 for e in tr), timeout=120, what="ruler displayed")
        t0 = time.time()
        while True:
            lines = s.capture()
            ys = [y for y, ln in enumerate(lines) if "RRRRRRRR" in ln]
            if ys and ys == list(range(ys[0], ys[0] + len(ys))):
                spans = [(lines[y].index("R"), lines[y].rindex("R")) for y in ys]
                x0 = spans[0][0]
                ws = {b - a + 1 for a, b in spans[1:]} if len(spans) > 1 else {spans[0][1] - spans[0][0] + 1}
                if all(a == x0 for a, _ in spans) and len(ws) == 1 and len(ys) >= 2 and "1/60" in lines[ys[0]]:
                    return (x0, ys[0], ws.pop(), len(ys))
            if time.time() - t0 > 20:
                raise Infra("cannot locate the preview window of layout %s on the screen:\n%s" % (layout, "\n".join(lines)))
            time.sleep(0.05)
    finally:
        try:
            s.post("abort", final=True, timeout=10)
        except Exception:
            pass
        s.close()


def kind_of(kinds, item):
    return kinds[(item if item >= 0 else 0) % len(kinds)]


# ------------------------------------------------------------------ process table
def _read(path):
    try:
        with open(path, "rb") as fh:
            return fh.read()
    except OSError:
        return None


def scan(sid, fzf=None):
    """Processes of this session (environment marker FZF_VERIF_SID): returns (fzf_pids, preview process list).
    A preview process is one fzf started for a preview command (its environment carries FZF_MATCH_COUNT and - what
    only environForPreview() adds - LINES; the command of a reload has the former only).  Zombies and processes with
    SIGKILL already pending are not alive."""
    marker = ("FZF_VERIF_SID=" + sid).encode()
    fzfs, prev = [], []
    for p in glob.glob("/proc/[0-9]*"):
        env = _read(p + "/environ")
        if not env or marker not in env:
            continue
        envs = env.split(b"\0")
        if marker not in envs:
            continue
        stat = _read(p + "/stat")
        status = _read(p + "/status")
        cmd = _read(p + "/cmdline")
        if not stat or status is None or cmd is None:
            continue
        rest = stat.rsplit(b") ", 1)[1].split()
        state, pgid = rest[0].decode(), int(rest[2])
        if state in ("Z", "X"):
            continue
        pending = 0
        for line in status.split(b"\n"):
            if line.startswith(b"SigPnd:") or line.startswith(b"ShdPnd:"):
                pending |= int(line.split()[1], 16)
        pid = int(p[6:])
        if any(e.startswith(b"FZF_MATCH_COUNT=") for e in envs):
            if not any(e.startswith(b"LINES=") for e in envs):
                continue                                           # the command of a reload, not a preview
            if pending & (1 << (signal.SIGKILL - 1)):
                continue
            prev.append({"pid": pid, "pgid": pgid, "cmd": cmd.replace(b"\0", b" ").decode(errors="replace")[:80]})
        elif fzf is not None and cmd.split(b"\0")[0] == fzf.encode():
            fzfs.append(pid)
    return fzfs, prev


def pgids(prev):
    return sorted({p["pgid"] for p in prev})


def kill_all(prev):
    for p in prev:
        try:
            os.kill(p["pid"], signal.SIGKILL)
        except OSError:
            pass


# ------------------------------------------------------------------ trace analysis (driver side: when to look)
def analyse(tr, kinds, now=None):
    """Where the previewer stands according to the hook trace:
       'busy'            something will still happen on its own
       'running'         the request announced last was taken, its (never-ending) command runs and has been displayed
       'finished'        the request announced last was taken, its command was reaped (or none was needed)
       'stuck'           a request is pending but the never-ending command in flight was never signalled
       'hung'            the watcher took a signal long ago, yet the command has not been reaped"""
    enq = [e for e in tr if e["ev"] == "pv.enqueue"]
    picks = [e for e in tr if e["ev"] == "pv.pick"]
    if not enq or not picks:
        return "busy"
    E, P = enq[-1], picks[-1]
    after = [e for e in tr if e["seq"] > P["seq"]]          # what the previewer did with the request taken last
    start = [e for e in after if e["ev"] == "pv.start"]
    started = bool(start)
    exited = any(e["ev"] == "pv.exit" for e in after)
    kills = [e for e in after if e["ev"] == "pv.kill"]
    killed = bool(kills)
    if started and not exited and killed and now is not None and now - kills[0].get("_t", now) > HUNG_AFTER:
        return "hung"
    if started and not exited and not killed:
        if any(e["ev"] == "pv.signal" and e["sent"] and e["seq"] > start[0]["seq"] for e in after):
            return "busy"                          # a signal was taken after the start: the watcher is about to act on it
    shown = [e for e in after if e["ev"] == "pv.display" and e["version"] == P["version"]]
    endless = kind_of(kinds, P["item"]) in ENDLESS
    if P["seq"] < E["seq"]:                       # the last announcement has not been taken
        if started and not exited and not killed and endless:
            return "stuck"
        return "busy"
    if P["item"] == -1:
        return "finished" if shown else "busy"
    if not started:
        return "busy"
    if exited:
        return "finished" if shown else "busy"
    if killed:
        return "busy"
    if endless and shown and shown[-1]["nlines"] > 0:
        return "running"
    return "busy"


class Index:
    """Incremental view of the growing hook trace (the sessions log thousands of events; conditions are polled)."""
    def __init__(self, s):
        self.s, self.n, self.counts, self.pv, self.markers, self.last_flush, self.exit_seen = s, 0, {}, [], [], 0, False
        # input generations: reload actions executed, reader restarts (coord.restart), the list the terminal holds (term.list)
        self.major, self.reload_acts, self.restarts, self.lists, self.searches = 0, [], [], 0, []
        self.final_major = 0            # the newest major revision of which the terminal got a list with reading = false
        self.list_seq, self.render_list_seq = 0, 0    # last Terminal.UpdateList / last reqList handled by the render loop

    def update(self):
        tr = self.s.trace()
        for e in tr[self.n:]:
            k = e["ev"]
            self.counts[k] = self.counts.get(k, 0) + 1
            if k.startswith("pv."):
                e["_t"] = time.time()          # when the driver saw it (only used to give up on a hung previewer)
                self.pv.append(e)
            elif k == "term.act" and e.get("act") == "change-prompt":
                self.markers.append(e["seq"])
            elif k == "term.act" and e.get("act") in ("reload", "reload-sync"):
                self.reload_acts.append((e["seq"], time.time()))
            elif k == "coord.restart":
                self.restarts.append((e["seq"], e["rev"][0]))
            elif k == "coord.search":
                self.searches.append(e["seq"])
            elif k == "term.list":
                self.lists += 1
                self.list_seq = e["seq"]
                if e["rev"][0] != self.major:          # Terminal.UpdateList took over the list of another input generation
                    self.major = e["rev"][0]
                    self.counts["list.reload"] = self.counts.get("list.reload", 0) + 1
                if not e["reading"]:
                    self.final_major = e["rev"][0]
            elif k == "term.render" and e.get("what") == "flush":
                self.last_flush = e["seq"]
            elif k == "term.render" and e.get("what") == "list":
                self.render_list_seq = e["seq"]
            elif k == "term.exit":
                self.exit_seen = True
        self.n = len(tr)
        return self

    def count(self, ev):
        return self.update().counts.get(ev, 0)

    def wait(self, cond, timeout, what):
        t0 = time.time()
        delay = 0.001
        while True:
            self.update()
            if cond():
                return True
            if time.time() - t0 > timeout:
                raise Infra("timeout waiting for %s; last preview events: %s" % (what, json.dumps(
                    [{k: v for k, v in e.items() if k not in ("command", "template")} for e in self.pv[-6:]])[:1200]))
            time.sleep(delay)
            delay = min(delay * 1.5, 0.02)

    def reload_state(self, now):
        """'settled': every reload the terminal executed was taken by the coordinator (a reader restart follows it) and the
        list of the newest input generation is with the terminal, complete, and the render loop has handled the reqList of
        the last UpdateList (that is where it decides about a refresh of the preview); 'lost': a reload action was executed but the
        coordinator - which has served a later search request - never restarted the reader (recorded as it is: the
        trace says which generation is on display); 'pending' otherwise."""
        if self.render_list_seq < self.list_seq:
            return "pending"                 # UpdateList sets reqList: the render loop has not looked at the new list yet
        if not self.reload_acts:
            return "settled"
        a_seq, a_t = self.reload_acts[-1]
        after = [r for r in self.restarts if r[0] > a_seq]
        if not after:
            if now - a_t > 3 and any(x > a_seq for x in self.searches):
                return "lost" if (not self.restarts or self.final_major >= self.restarts[-1][1]) else "pending"
            return "pending"
        return "settled" if self.final_major >= self.restarts[-1][1] else "pending"

    def wait_marker(self, n, timeout=120):
        """The n-th marker action has been executed and the render loop has flushed afterwards: everything POSTed
        before it was processed and every request set on the render loop's box before it was handled."""
        self.wait(lambda: len(self.markers) >= n and self.last_flush > self.markers[n - 1], timeout, "marker %d" % n)


def rows_of(lines, geom):
    """The rows of the preview window cut from a captured screen (trailing blanks dropped)."""
    x0, y0, w, h = geom
    out = []
    for y in range(y0, y0 + h):
        ln = lines[y] if y < len(lines) else ""
        out.append(ln[x0:x0 + w].rstrip())
    return out


_PROMPT = re.compile(r"(?:^|[ |+])(\d+)>(?: |$)")      # (capture-pane drops trailing blanks)


def prompt_no(lines):
    """The number the prompt shows (set by the driver's marker action), -1 if none."""
    for ln in lines:
        m = _PROMPT.search(ln)
        if m:
            return int(m.group(1))
    return -1


def read_log(path):
    recs, overlaps = [], 0
    try:
        with open(path) as fh:
            data = fh.read()
    except FileNotFoundError:
        return recs, overlaps
    for line in data.split("\n"):
        if not line:
            continue
        parts = line.split("|")
        if parts[0] == "overlap":
            overlaps += 1
        elif parts[0] == "start" and len(parts) >= 3 and parts[1].isdigit():
            recs.append({"pid": int(parts[1]), "vals": parts[2:]})
    return recs, overlaps


# ------------------------------------------------------------------ one session
class Unsettled(Exception):
    """The session did not reach a state the driver recognises as quiescent (re-run once before it is recorded)."""


class Plan:
    """What a session does.  steps: list of dicts
         {"post": body}                      POST an action chain; @R<k> / @S<k> in it stand for reload(CMD) / reload-sync(CMD)
                                             with a CMD that prints the lines of input generation k (plan.gens[k - 1] lines;
                                             k = 0: the initial input again); @Rs<k> @Ss<k>: CMD is silent for 0.3 s first;
                                             @Rp<k> @Sp<k>: CMD prints two lines, pauses 0.3 s, prints the rest
         {"sleep": seconds}                  timing stimulus (never synchronisation)
         {"until": hook-event}               go on as soon as one more such hook event has been logged ("rel": "post": one more
                                             than before the preceding POST; list.reload = the terminal got another input generation)
         {"burst": body, "until": event}     keep POSTing body until one more such hook event has been logged
         {"idle": seconds}                   POST nothing until no previewer event (but repeated displays) has been logged for
                                             that long (>= 1 s): recorded as an `idle` event (Trace_Preview.TIdle)
       In a POST body @Wh stands for change-preview-window(hidden), @W<k> for change-preview-window(LAYOUTS[k]), @Ws for the
       layout in use; the driver sends them only where the specification has them (hide: window visible; show: window hidden
       by change-preview-window; toggle-preview not while hidden that way), otherwise `ignore` is sent in their place.
       observe: take the quiescence observation before leaving;  leave: abort | accept | sigterm | none(the steps end it)"""
    def __init__(self, sid, tag, kinds, nitems, steps, observe=True, leave="abort", label="random", lead=0, talls=(1,), layout=0, wrap=False, suffix="",
                 gens=(), follow=False):
        self.sid, self.tag, self.kinds, self.nitems, self.steps = sid, tag, kinds, nitems, steps
        self.observe, self.leave, self.label, self.lead = observe, leave, label, lead
        self.talls, self.layout, self.wrap = list(talls), layout, wrap         # lines printed at once by item index; LAYOUTS index; wrap mode
        self.suffix = suffix                                                    # appended to every item text (lines wider than the window)
        self.gens = list(gens)                                                  # number of lines of input generation 1, 2, ... (reload)
        self.follow = follow                                                    # --preview-window follow

    def to_json(self):
        return dict(self.__dict__)


def item_text(i, g=0):
    """Line i of input generation g: ANOTHER line at the same index in every generation."""
    return "ab%d" % i if g == 0 else "a%sb%d" % ("cdefgh"[(g - 1) % 6], i)


def gen_texts(plan, g):
    return [item_text(i, g) + plan.suffix for i in range(plan.nitems if g == 0 else plan.gens[g - 1])]


_RELOAD = re.compile(r"@([RS])([sp]?)(\d+)")
_GENFILE = re.compile(r"gen(\d+)\.txt")
_CPW = re.compile(r"@W(h|s|\d+)")


def reload_action(m):
    f = "gen%s.txt" % m.group(3)
    cmd = {"": "cat %s" % f, "s": "sleep 0.3; cat %s" % f, "p": "head -n 2 %s; sleep 0.3; tail -n +3 %s" % (f, f)}[m.group(2)]
    return "%s(%s)" % ("reload" if m.group(1) == "R" else "reload-sync", cmd)


def run_session(ctx, fzf, plan, geoms, record_unsettled=False):
    """geoms: LAYOUTS index -> (x0, y0, W, H) of the preview window on the screen (calibrate)."""
    sid = "c20x%dx%d" % (os.getpid(), plan.sid)
    kinds = plan.kinds
    cmds = {tag: command(tag, kinds, plan.lead, plan.talls) for tag in TEMPLATES}
    gens = [gen_texts(plan, g) for g in range(len(plan.gens) + 1)]
    texts = gens[0]
    geom = geoms[plan.layout]
    args = ["--no-color", "--no-unicode", "--multi", "--no-sort", "--preview", cmds[plan.tag],
            "--preview-window", LAYOUTS[plan.layout] + (",wrap" if plan.wrap else "") + (",follow" if plan.follow else "")]
    # the preview commands run in the session directory (run.sh changes into it): LOG and LOCK are relative paths
    s = tmuxdrv.Session(ctx, fzf, args, input_data="".join(t + "\n" for t in texts), width=PANE[0], height=PANE[1],
                        env={"FZF_VERIF_SID": sid, "VLOG": "pvlog", "VLOCK": "pvlock"})
    log_path = os.path.join(s.dir, "pvlog")
    for g, tx in enumerate(gens):                 # the reload commands run in the session directory
        with open(os.path.join(s.dir, "gen%d.txt" % g), "w") as fh:
            fh.write("".join(t + "\n" for t in tx))
    quiet = None
    quiet_at = None
    visible, tag, markers = True, plan.tag, 0
    hidden_by, layout_now, idles = "", plan.layout, []
    gone = False
    try:
        s.wait_listening(timeout=120)
        s.wait_for(lambda tr: any(e["ev"] == "term.list" and not e["reading"] for e in tr), timeout=120, what="first final list")
        ix = Index(s)

        def post(body):
            nonlocal visible, tag, gone, hidden_by, layout_now, geom
            if not body.startswith("change-preview:"):
                toks = []
                for tok in body.split("+"):
                    m = _CPW.fullmatch(tok)
                    if m and m.group(1) == "h":
                        if visible:
                            visible, hidden_by, tok = False, "cpw", "change-preview-window(hidden)"
                        else:
                            tok = "ignore"
                    elif m:
                        if not visible and hidden_by == "cpw":
                            if m.group(1) != "s":
                                layout_now = int(m.group(1)) % len(LAYOUTS)
                                geom = geoms[layout_now]
                            visible, hidden_by, tok = True, "", "change-preview-window(%s)" % LAYOUTS[layout_now]
                        else:
                            tok = "ignore"
                    elif tok == "toggle-preview":
                        if not visible and hidden_by == "cpw":
                            tok = "ignore"
                        else:
                            visible = not visible
                            hidden_by = "" if visible else "tp"
                    toks.append(tok)
                body = "+".join(toks)
            body = _RELOAD.sub(reload_action, body)
            final = any(a in body for a in ("abort", "accept"))
            st, _ = s.post(body, final=final, timeout=60)
            if final:
                gone = True
            elif st != 200:
                raise Infra("POST %r -> %d" % (body, st))
            if body.startswith("change-preview:"):
                for t, c in cmds.items():
                    if body == "change-preview:" + c:
                        tag = t

        pre = {}
        for st in plan.steps:
            if gone:
                break
            if "sleep" in st:
                time.sleep(st["sleep"])
            elif "idle" in st:
                quiet_evs = lambda: sum(1 for e in ix.update().pv if e["ev"] != "pv.display")
                for _ in range(4):
                    n0, t0 = quiet_evs(), time.monotonic()
                    time.sleep(max(1.0, st["idle"]))
                    ms = int((time.monotonic() - t0) * 1000)
                    if quiet_evs() == n0:
                        idles.append((ix.n, {"ev": "idle", "ms": ms}))
                        break
            elif "burst" in st:
                n0 = pre.get(st["until"], 0) if st.get("rel") == "post" else ix.count(st["until"])
                k, t1 = 0, time.time()
                while ix.count(st["until"]) == n0:
                    post(st["burst"])
                    k += 1
                    if k >= 4000 or time.time() - t1 > 20:      # the awaited event is not coming (e.g. window hidden): go on
                        break
            elif "until" in st:
                n0 = pre.get(st["until"], 0) if st.get("rel") == "post" else st.get("n0")
                want = (ix.count(st["until"]) if n0 is None else n0) + 1
                try:
                    ix.wait(lambda: ix.counts.get(st["until"], 0) >= want, 2 if st.get("soft") else 30, st["until"])
                except Infra:
                    if s.exited():
                        raise                      # (otherwise: go on, the recorded trace is judged as it is)
            else:
                pre = dict(ix.update().counts)          # ("rel": "post" = one more such event than before this POST)
                post(st["post"])
        if plan.observe and not gone:
            deadline = time.time() + (60 if record_unsettled else 120)
            while True:
                markers += 1
                post(MARKER % markers)
                ix.wait_marker(markers)
                state = analyse(ix.pv, kinds, time.time())
                if ix.reload_state(time.time()) == "pending":       # the new input has not arrived (completely) yet
                    state = "busy"
                if state == "busy":
                    if time.time() > deadline:
                        if not record_unsettled:
                            raise Unsettled("session %s never became quiescent; last preview events: %s" % (
                                plan.label, json.dumps([{k: v for k, v in e.items() if k not in ("command", "template", "_t")} for e in ix.pv[-8:]])[:1500]))
                        state = "unsettled"
                if state == "busy":
                    n, nl = len(ix.pv), ix.lists
                    try:
                        ix.wait(lambda: len(ix.pv) > n or ix.lists > nl, 5 if ix.reload_state(time.time()) != "pending" else 0.5, "progress")
                    except Infra:
                        pass
                    continue
                # candidate quiescence: observe, then make sure nothing but repeated displays happened meanwhile
                sig0 = [(e["ev"], e.get("version")) for e in ix.pv if e["ev"] != "pv.display"]
                disp0 = [e for e in ix.pv if e["ev"] == "pv.display"]
                lists0 = ix.lists
                get = s.get(timeout=60)
                if get is None:
                    raise Infra("GET / failed at quiescence")
                _, prev = scan(sid)
                recs, overlaps = read_log(log_path)
                # the screen: the prompt shows the number of the marker once the terminal emulator has consumed everything
                # fzf wrote up to the flush that followed it; then two captures in a row must agree below the first row
                # (a running command's spinner keeps changing the first one)
                t1 = time.time()
                lines = s.capture()
                while prompt_no(lines) != markers and time.time() - t1 < 20:
                    time.sleep(0.01)
                    lines = s.capture()
                t_prompt = time.time() - t1
                rows = rows_of(lines, geom) if visible else []
                while time.time() - t1 < 25:
                    time.sleep(0.015)
                    again = rows_of(s.capture(), geom) if visible else []
                    if again[1:] == rows[1:]:
                        rows = again
                        break
                    rows = again
                ix.update()
                sig1 = [(e["ev"], e.get("version")) for e in ix.pv if e["ev"] != "pv.display"]
                if state != "unsettled" and (sig1 != sig0 or analyse(ix.pv, kinds, time.time()) != state or ix.lists != lists0):
                    if time.time() > deadline + 60:
                        raise Infra("session %s keeps moving" % plan.label)
                    continue
                disp1 = [e for e in ix.pv if e["ev"] == "pv.display"]
                nlo = 0
                if disp1:
                    nlo = disp0[-1]["nlines"] if disp0 and disp0[-1]["version"] == disp1[-1]["version"] else disp1[-1]["nlines"]
                cur = get["current"]["index"] if get.get("current") else -1
                quiet = {"ev": "quiet", "cur": cur, "curtext": get["current"]["text"] if get.get("current") else "", "reload": ix.reload_state(time.time()), "q": get["query"], "sel": [x["index"] for x in get["selected"]],
                         "visible": visible, "tag": tag, "rows": rows, "nlo": nlo, "procs": pgids(prev), "overlaps": overlaps, "log": recs,
                         "state": state, "waited": [round(t_prompt, 2), round(time.time() - t1, 2), markers]}
                quiet_at = ix.n
                break
        # ---- the end of the session
        if not gone:
            if plan.leave == "sigterm":
                fz, _ = scan(sid, fzf)
                if len(fz) != 1:
                    raise Infra("cannot identify the fzf process of the session: %r" % fz)
                os.kill(fz[0], signal.SIGTERM)
            elif plan.leave == "accept":
                post("accept")
            else:
                post("abort")
        status, _ = s.wait_exit(timeout=120)
        # none survives: processes that are neither dead, dying (SIGKILL pending) nor zombies, seen twice
        _, prev = scan(sid)
        if prev:
            t1 = time.time()
            while prev and time.time() - t1 < 3:
                time.sleep(0.05)
                _, prev = scan(sid)
        recs, overlaps = read_log(log_path)
        exit_ev = {"ev": "exit", "how": plan.leave, "status": status, "survivors": pgids(prev), "overlaps": overlaps}
        kill_all(prev)
        tr = list(s.trace())
        return project(plan, gens, cmds, tr, quiet, quiet_at, exit_ev, geoms, idles)
    finally:
        try:
            s.close()
        finally:
            _, prev = scan(sid)
            kill_all(prev)


# ------------------------------------------------------------------ projection onto Trace_Preview events
SCROLLS = ("preview-up", "preview-down", "preview-page-up", "preview-page-down", "preview-half-page-up", "preview-half-page-down",
           "preview-top", "preview-bottom")


def project(plan, gens, cmds, tr, quiet, quiet_at, exit_ev, geoms, idles=()):
    """gens[k]: the lines of input generation k (what the reload command for it prints); idles: (trace position, event)."""
    geom = geoms[plan.layout]
    idles = list(idles)
    tagof = {c: t for t, c in cmds.items()}
    major, content, content_of = 0, 0, {0: 0}    # t.revision.major; which generation's lines it holds; by major revision

    def add_quiet():
        # the driver's view of which input is on display must be what fzf reports under the cursor (else: a driver error)
        if quiet["cur"] >= 0 and (quiet["cur"] >= len(gens[content]) or gens[content][quiet["cur"]] != quiet["curtext"]):
            raise Infra("session %d: GET / reports line %r at index %d, generation %d (revision %d) has %r there" % (
                plan.sid, quiet["curtext"], quiet["cur"], content, major, gens[content][quiet["cur"]] if quiet["cur"] < len(gens[content]) else None))
        evs.append(quiet)
    evs = [{"ev": "begin", "sid": plan.sid, "texts": gens[0], "tmpls": TEMPLATES, "kinds": plan.kinds, "talls": plan.talls,
            "H": geom[3], "W": geom[2], "wrap": plan.wrap, "follow": plan.follow, "layout": LAYOUTS[plan.layout], "tag": plan.tag, "label": plan.label}]
    last_disp = None                             # (only an immediately repeated display is dropped)
    during = ""                                  # the action being executed (term.act ... term.loop happen under t.mutex)
    for i, e in enumerate(tr):
        while idles and idles[0][0] <= i and (quiet is None or idles[0][0] <= quiet_at):
            evs.append(idles.pop(0)[1])
            last_disp = None
        if quiet is not None and i == quiet_at:
            add_quiet()
            last_disp = None
        k = e["ev"]
        n0 = len(evs)
        if k == "coord.restart":
            m = _GENFILE.search(e.get("command", ""))
            if not m:
                raise Infra("reader restarted on an unknown command %r" % e.get("command"))
            content_of[e["rev"][0]] = int(m.group(1))
        elif k == "term.list":
            if e["rev"][0] != major:             # Terminal.UpdateList took over the list of another input generation
                major = e["rev"][0]
                if major not in content_of:
                    raise Infra("list of revision %d without a reader restart" % major)
                content = content_of[major]
                evs.append({"ev": "reload", "texts": gens[content], "content": content, "rev": major, "seq": e["seq"]})
        elif k == "term.act":
            during = e.get("act", "")
            if during in SCROLLS:
                evs.append({"ev": "scroll", "act": during, "seq": e["seq"]})
            elif during == "toggle-preview":
                evs.append({"ev": "tp", "seq": e["seq"]})
            elif during == "toggle-preview-wrap":
                evs.append({"ev": "tw", "seq": e["seq"]})
            elif during == "change-preview-window":
                if e.get("arg") == "hidden":
                    evs.append({"ev": "cpw", "hidden": True, "H": 0, "W": 0, "wrap0": plan.wrap, "seq": e["seq"]})
                elif e.get("arg") in LAYOUTS:
                    g = geoms[LAYOUTS.index(e["arg"])]
                    evs.append({"ev": "cpw", "hidden": False, "H": g[3], "W": g[2], "wrap0": plan.wrap, "layout": e["arg"], "seq": e["seq"]})
                else:
                    raise Infra("change-preview-window with an argument the driver never sends: %r" % e.get("arg"))
        elif k == "term.loop":
            during = ""
        elif k == "pv.enqueue":
            evs.append({"ev": "enq", "q": e["q"], "item": e["item"], "nitems": e["nitems"], "tag": tagof.get(e["template"], "?"),
                        "during": during, "seq": e["seq"]})
        elif k == "pv.signal":
            evs.append({"ev": "sig", "immediately": e["immediately"], "sent": e["sent"], "seq": e["seq"]})
        elif k == "pv.pick":
            evs.append({"ev": "pick", "version": e["version"], "q": e["q"], "item": e["item"], "nitems": e["nitems"], "seq": e["seq"]})
        elif k == "pv.start":
            evs.append({"ev": "cstart", "version": e["version"], "pid": e["pid"], "seq": e["seq"]})
        elif k == "pv.kill":
            evs.append({"ev": "kill", "version": e["version"], "immediately": e["immediately"], "seq": e["seq"]})
        elif k == "pv.ctxdone":
            evs.append({"ev": "ctxdone", "version": e["version"], "seq": e["seq"]})
        elif k == "pv.exit":
            evs.append({"ev": "cexit", "version": e["version"], "status": e["status"], "seq": e["seq"]})
        elif k == "pv.display":
            head = e["lines"][0].rstrip("\n").split("|") if e["nlines"] > 0 and e.get("lines") else []
            d = (e["version"], e["nlines"], head)
            if d != last_disp:                      # the ticker repeats the same display every 100 ms (spinner)
                evs.append({"ev": "disp", "version": e["version"], "nlines": e["nlines"], "head": head, "seq": e["seq"]})
            last_disp = d
            continue
        if len(evs) > n0:
            last_disp = None
    while idles and (quiet is None or idles[0][0] <= quiet_at):
        evs.append(idles.pop(0)[1])
    if quiet is not None and quiet_at >= len(tr):
        add_quiet()
    evs.append(exit_ev)
    return evs
