#!/usr/bin/env python3
"""Regenerates MANIFEST.json from lib/registry.py (single place where claimed checks are described)."""
import json, os, sys
ROOT = os.path.dirname(os.path.dirname(os.path.abspath(__file__)))
sys.path.insert(0, os.path.join(ROOT, "lib"))
import registry

props = [json.loads(l) for l in open(os.path.join(ROOT, "properties.jsonl"))]
checks, na = [], []
for p in props:
    pid = p["id"]
    c = registry.CHECKS.get(pid)
    if pid in getattr(registry, "SUSPENDED", {}):
        na.append({"property_id": pid, "reason": registry.SUSPENDED[pid]})
        continue
    if c is None:
        na.append({"property_id": pid, "reason": registry.NOT_APPLICABLE.get(pid, "check not built yet (work in progress)")})
        continue
    checks.append({
        "property_id": pid,
        "quick_cmd": "bin/check %s quick" % pid,
        "thorough_cmd": "bin/check %s thorough" % pid,
        "evidence_file": "evidence/%s.json" % pid,
        "replay_cmd_template": "bin/check %s quick --replay {path}" % pid,
        "engine": "tlc-conformance",
        "level_claimed": {"category": "model_checking", "text": c["text"], "design_ref": c["design_ref"]},
        "level_note": c["note"],
        "technique": c["technique"],
    })
m = {
    "version": 1,
    "setup_cmd": "bin/setup",
    "hooks": {
        "guard": "verif",
        "enable": "go build -tags verif (and go test -tags verif -overlay ...) from /repo's working tree",
        "baseline_off_cmd": "cd /repo && GOFLAGS=-mod=mod GOPROXY=off go test -vet=off -count=1 ./...",
        "source_commits": registry.HOOK_COMMITS,
        "add_only": True,
    },
    "engines": [{"name": "tlc-conformance", "path": "bin/check",
                 "serves_properties": [c["property_id"] for c in checks],
                 "kind_free_text": "explicit TLA+ specification (spec/*.tla) checked with TLC; spec behaviours/cases exported by "
                                   "TLC are replayed on the real code (in-package harnesses injected with go test -overlay, real "
                                   "binary under tmux), and executions recorded from the real code are judged by TLC trace specs"}],
    "checks": checks,
    "not_applicable": na,
    "notes": registry.NOTES,
}
json.dump(m, open(os.path.join(ROOT, "MANIFEST.json"), "w"), indent=1)
print("checks:", [c["property_id"] for c in checks], "n/a:", [n["property_id"] for n in na])
