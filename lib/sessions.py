"""Interactive sessions of the real fzf (tmux + --listen + trace hooks) and the projection of their traces onto
transition records judged by spec/Judge_Editor.tla.  Shared by C09 (editor), C07 (output), C15 (screen)."""
import json, random, re
import chars
from vlib import Infra

STATE_KEYS = ("input", "cx", "yanked", "cy", "offset", "sel", "multi", "track")

NAME_FIX = {"position": "pos", "delete-char-eof": "delete-char/eof", "backward-delete-char-eof": "backward-delete-char/eof"}


LENIENT = False     # True: characters outside the symbol table denote themselves (class 'nonword' for the spec)


def state_of(ev):
    return {"input": chars.syms(ev["input"], LENIENT), "cx": ev["cx"], "yanked": chars.syms(ev["yanked"], LENIENT), "cy": ev["cy"],
            "offset": ev["offset"], "sel": ev["sel"], "multi": ev["multi"], "track": ev["track"]}


def fmt_action(act, arg):
    """Spec action -> text of a --bind / POST action."""
    if act in ("put", "change-query"):
        return "%s(%s)" % (act, chars.text(arg))
    if act == "pos":
        return "pos(%d)" % arg
    if act == "change-multi":
        return "change-multi" if arg == -1 else "change-multi(%d)" % arg
    return act


def parse_arg(act, arg):
    """Trace action argument -> spec argument."""
    if act in ("put", "change-query"):
        return chars.syms(arg, LENIENT)
    if act == "pos":
        try:
            return int(arg)
        except ValueError:
            return None
    if act == "change-multi":
        if arg == "":
            return -1
        try:
            n = int(arg)
            return n if n >= 0 else None
        except ValueError:
            return None
    return []


class Cfg:
    """Session configuration -> fzf arguments + the spec environment constants."""

    def __init__(self, layout="default", cycle=False, multi=None, scroll_off=None, inputless=False, disabled=False,
                 extra=(), track=False):
        self.track = track
        self.layout, self.cycle, self.multi, self.scroll_off = layout, cycle, multi, scroll_off
        self.inputless, self.disabled, self.extra = inputless, disabled, list(extra)

    def args(self):
        a = ["--no-color", "--no-unicode", "--no-scrollbar", "--no-hscroll", "--layout=" + self.layout]
        if self.cycle:
            a.append("--cycle")
        if self.multi == "inf":
            a.append("--multi")
        elif self.multi is not None:
            a.append("--multi=%d" % self.multi)
        if self.scroll_off is not None:
            a.append("--scroll-off=%d" % self.scroll_off)
        if self.inputless:
            a.append("--no-input")
        if self.disabled:
            a.append("--disabled")
        if self.track:
            a.append("--track")
        return a + self.extra

    def env(self, ids, texts, max_items):
        return {"list": ids, "texts": texts, "maxItems": max_items, "cycle": self.cycle, "layout": self.layout,
                "scrollOff": 3 if self.scroll_off is None else self.scroll_off, "inputless": self.inputless}

    def describe(self):
        return " ".join(self.args())


def transitions(trace, cfg, sid, items=None, lenient=False):
    global LENIENT
    LENIENT = lenient
    try:
        return _transitions(trace, cfg, sid, items)
    finally:
        LENIENT = False


def _transitions(trace, cfg, sid, items=None):
    """Projects one session's trace onto transition records.  items: the input records (item immutability check)."""
    recs = []
    ids, texts = [], []
    last_focus = -1      # the render loop's focusedIndex: the item focused when the list was last rendered
    prev = None          # previous state-carrying event
    prev_rev = None
    evs = [e for e in trace if e["ev"].startswith("term.")]
    i = 0
    while i < len(evs):
        e = evs[i]
        kind = e["ev"]
        if not LENIENT and (not chars.known(e["input"]) or not chars.known(e["yanked"])):
            raise Infra("query outside the symbol table: %r" % e["input"])
        st = state_of(e)
        mi = e.get("maxItems", 0)
        base = {"sid": sid, "seq": e["seq"]}
        if kind == "term.list":
            if "ids" not in e:
                raise Infra("term.list without ids (list longer than 64)")
            rev = e["mrev"]
            if prev_rev is None or rev == prev_rev:
                k = "same"
            elif rev[0] != prev_rev[0]:
                k = "reload"
            else:
                k = "trim"
            if prev is not None:
                # CODE-DERIVED: with --tac an unranked (pass-through) result list is the input reversed, and "the first item"
                # that tracking latches on when the previous list was empty is the first INPUT item, i.e. the last row
                tacpass = "--tac" in cfg.extra and (not e.get("sort", True) or e["input"] == "")
                recs.append(dict(base, k="list", pre=state_of(prev), post=st, kind=k, minLoaded=e["minIndex"], oldList=ids,
                                 newList=e["ids"], maxItems=mi, tacpass=tacpass))
            prev_rev = e["rev"]
            ids = e["ids"]
            texts = [chars.syms(t) if chars.known(t) else ["e"] for t in (e.get("texts") or [])]
            if items is not None and prev_rev is not None and e["rev"][0] == 0:
                recs.append(dict(base, k="items", texts=e.get("texts") or [],
                                 orig=[items[j] if 0 <= j < len(items) else None for j in ids]))
        elif kind == "term.render":
            if prev is not None:
                if e["what"] == "list":
                    recs.append(dict(base, k="render", pre=state_of(prev), post=st, env=cfg.env(ids, texts, mi), lastFocus=last_focus))
                    last_focus = ids[e["cy"]] if 0 <= e["cy"] < len(ids) else -1
                else:
                    recs.append(dict(base, k="steady", pre=state_of(prev), post=st))
        elif kind in ("term.act", "term.loop", "term.exit"):
            if prev is not None and prev["ev"] == "term.act":
                act = NAME_FIX.get(prev["act"], prev["act"])
                pe = prev
                if act in ("toggle-in", "toggle-out") and kind == "term.act" and e["act"] in ("toggle-up", "toggle-down"):
                    # delegating action: its effect is the nested action's; skip to the event after the nested one
                    if i + 1 < len(evs):
                        st_after = state_of(evs[i + 1])
                        recs.append(dict(base, k="act", act=act, arg=[], pre=state_of(pe), post=st_after,
                                         env=cfg.env(ids, texts, pe.get("maxItems", mi))))
                    recs.append(dict(base, k="steady", pre=state_of(pe), post=st))
                else:
                    arg = chars.syms(pe["ch"], LENIENT) if act == "char" else parse_arg(act, pe["arg"])
                    if arg is not None:
                        recs.append(dict(base, k="act", act=act, arg=arg, pre=state_of(pe), post=st,
                                         env=cfg.env(ids, texts, pe.get("maxItems", mi))))
            elif prev is not None:
                recs.append(dict(base, k="steady", pre=state_of(prev), post=st))
        prev = e
        i += 1
    return recs


KEYMAP = {  # tmux key name -> default fzf action (for reference / coverage; the trace says what really ran)
    "C-a": "beginning-of-line", "C-e": "end-of-line", "C-b": "backward-char", "C-f": "forward-char", "C-h": "backward-delete-char",
    "BSpace": "backward-delete-char", "DC": "delete-char", "C-u": "unix-line-discard", "C-w": "unix-word-rubout", "C-y": "yank",
    "M-b": "backward-word", "M-f": "forward-word", "M-d": "kill-word", "M-BSpace": "backward-kill-word",
    "Up": "up", "Down": "down", "C-k": "up", "C-j": "down", "C-p": "up", "C-n": "down", "Tab": "toggle-down", "BTab": "toggle-up",
    "PPage": "page-up", "NPage": "page-down", "Left": "backward-char", "Right": "forward-char", "Home": "beginning-of-line",
    "End": "end-of-line", "S-Left": "backward-word", "S-Right": "forward-word",
}
