"""E binding for C08/C13: matcher-level schedules enumerated by TLC (spec/Gen_Matcher.tla) replayed on a real
ChunkList + Matcher with the scan.chunk gate; the observed publish sequence must be one the specification allows."""
import json, os
from vlib import Infra, write_ndjson, read_ndjson


def run_part(ctx, sample=None, race=False):
    gen = ctx.tlc("Gen_Matcher", "Gen_Matcher.cfg", workers=4, timeout=900, label="gen-matcher")
    cases = gen.json_items("CASE")
    if len(cases) < 100:
        raise Infra("Gen_Matcher exported only %d cases" % len(cases))
    cases.sort(key=lambda c: json.dumps(c, sort_keys=True))
    if sample and len(cases) > sample:
        ctx.rng.shuffle(cases)
        cases = cases[:sample]
    h = ctx.build_harness("src", ["zz_verif_common_test.go", "zz_verif_matcher_test.go"], race=race)
    cpath = os.path.join(ctx.work, "mcases.ndjson")
    opath = os.path.join(ctx.work, "mout.ndjson")
    inputs = [{k: v for k, v in c.items() if k != "expect"} for c in cases]
    write_ndjson(cpath, inputs)
    rc, out = ctx.run_harness(h, "TestVerifMatcherSchedules", env={"VERIF_CASES": cpath, "VERIF_OUT": opath}, timeout=1800,
                              allow_fail=race)
    if race and ("WARNING: DATA RACE" in out or "concurrent map" in out):
        ctx.violation("Go race detector (monitor, not the TLA+ spec) reported a data race during the matcher schedules:\n" + out[:3000],
                      {"race_report": out[:20000], "monitor": "go -race", "harness": "TestVerifMatcherSchedules"})
        ctx.cov["race_detector_reports_in_harness"] = out.count("WARNING: DATA RACE")
        return 0, 0
    if rc != 0:
        raise Infra("matcher schedule harness failed:\n" + out[-3000:])
    res = read_ndjson(opath)
    if len(res) != len(cases):
        raise Infra("matcher schedules: %d cases, %d results" % (len(cases), len(res)))
    cancelled = 0
    for c, r in zip(cases, res):
        allowed = c["expect"]
        if r["got"] in allowed and not r.get("timeout"):
            if c["kind"] == "cancel" and len(r["got"]) == 1:
                cancelled += 1
            continue
        # re-run alone a few times (timing decides WHICH allowed sequence shows; a disallowed one may need the same luck
        # again).  What the harness recorded is what the real matcher published - it read the merger itself - so the
        # recorded observation stays the evidence if it does not recur.
        write_ndjson(cpath + ".1", [{k: v for k, v in c.items() if k != "expect"}])
        r1 = r
        for _ in range(6):
            ctx.run_harness(h, "TestVerifMatcherSchedules", env={"VERIF_CASES": cpath + ".1", "VERIF_OUT": opath + ".1"}, timeout=600,
                            allow_fail=race)
            rr = read_ndjson(opath + ".1")
            if rr and (rr[0]["got"] not in allowed or rr[0].get("timeout")):
                r1 = rr[0]
                break
        brief = [(p["q"], p["count"], len(p["ids"])) for p in r1["got"]]
        ctx.violation("matcher schedule %s: real matcher published %s%s; the specification allows only %s" % (
            json.dumps({k: v for k, v in c.items() if k not in ("expect",)}), brief, " (then nothing more: timeout)" if r1.get("timeout") else "",
            [[(p["q"], p["count"], len(p["ids"])) for p in seq] for seq in allowed]),
            {"schedule": {k: v for k, v in c.items() if k != "expect"}, "got": r1, "allowed": allowed})
    ctx.cov["matcher_schedules_replayed"] = len(cases)
    ctx.cov["matcher_schedules_with_cancelled_scan"] = cancelled
    ctx.cov["evaluations"] += len(cases)
    ctx.cov["traces_validated_against_impl"] += len(cases)
    return len(cases), cancelled
