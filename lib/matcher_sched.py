"""E binding for C08/C13: matcher-level schedules enumerated by TLC (spec/Gen_Matcher.tla) replayed on a real
ChunkList + Matcher with the scan.chunk gate; the observed publish sequence must be one the specification allows."""
import json, os
from vlib import Infra, write_ndjson, read_ndjson


def run_part(ctx, sample=None, race=False):
    gen = ctx.tlc("Gen_Matcher", "Gen_Matcher.cfg", workers=4, timeout=900, label="gen-matcher")
    cases = gen.json_items("CASE")
    if len(cases) < 100:
        raise Infra("Gen_Matcher exported only %d cases" % len(cases))
    cases.sort(key=lambda c: json.dumps(c, sort_keys=True))
    if sample and len(cases) > sample:
        ctx.rng.shuffle(cases)
        cases = cases[:sample]
    h = ctx.build_harness("src", ["zz_verif_common_test.go", "zz_verif_matcher_test.go"], race=race)
    cpath = os.path.join(ctx.work, "mcases.ndjson")
    opath = os.path.join(ctx.work, "mout.ndjson")
    inputs = [{k: v for k, v in c.items() if k != "expect"} for c in cases]
    write_ndjson(cpath, inputs)
    rc, out = ctx.run_harness(h, "TestVerifMatcherSchedules", env={"VERIF_CASES": cpath, "VERIF_OUT": opath}, timeout=1800,
                              allow_fail=race)
    if race and ("WARNING: DATA RACE" in out or "concurrent map" in out):
        ctx.violation("Go race detector (monitor, not the TLA+ spec) reported a data race during the matcher schedules:\n" + out[:3000],
                      {"race_report": out[:20000], "monitor": "go -race", "harness": "TestVerifMatcherSchedules"})
        ctx.cov["race_detector_reports_in_harness"] = out.count("WARNING: DATA RACE")
        return 0, 0
    if rc != 0:
        raise Infra("matcher schedule harness failed:\n" + out[-3000:])
    res = read_ndjson(opath)
    if len(res) != len(cases):
        raise Infra("matcher schedules: %d cases, %d results" % (len(cases), len(res)))
    cancelled = 0
    for c, r in zip(cases, res):
        allowed = c["expect"]
        if r["got"] in allowed and not r.get("timeout"):
            if c["kind"] == "cancel" and len(r["got"]) == 1:
                cancelled += 1
            continue
        # reproduce alone (timing plays a part in which allowed sequence shows, never in whether it is allowed)
        write_ndjson(cpath + ".1", [{k: v for k, v in c.items() if k != "expect"}])
        ctx.run_harness(h, "TestVerifMatcherSchedules", env={"VERIF_CASES": cpath + ".1", "VERIF_OUT": opath + ".1"}, timeout=600)
        r1 = read_ndjson(opath + ".1")[0]
        if r1["got"] in allowed and not r1.get("timeout"):
            # try a few more times before giving up on reproduction
            again = None
            for _ in range(5):
                ctx.run_harness(h, "TestVerifMatcherSchedules", env={"VERIF_CASES": cpath + ".1", "VERIF_OUT": opath + ".1"}, timeout=600)
                rr = read_ndjson(opath + ".1")[0]
                if rr["got"] not in allowed or rr.get("timeout"):
                    again = rr
                    break
            if again is None:
                raise Infra("matcher schedule mismatch not reproduced: %s" % json.dumps(c)[:300])
            r1 = again
        brief = [(p["q"], p["count"], len(p["ids"])) for p in r1["got"]]
        ctx.violation("matcher schedule %s: real matcher published %s%s; the specification allows only %s" % (
            json.dumps({k: v for k, v in c.items() if k not in ("expect",)}), brief, " (then nothing more: timeout)" if r1.get("timeout") else "",
            [[(p["q"], p["count"], len(p["ids"])) for p in seq] for seq in allowed]),
            {"schedule": {k: v for k, v in c.items() if k != "expect"}, "got": r1, "allowed": allowed})
    ctx.cov["matcher_schedules_replayed"] = len(cases)
    ctx.cov["matcher_schedules_with_cancelled_scan"] = cancelled
    ctx.cov["evaluations"] += len(cases)
    ctx.cov["traces_validated_against_impl"] += len(cases)
    return len(cases), cancelled
