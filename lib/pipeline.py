"""Sessions of the real interactive fzf with a slow producer and query edits racing with loading and searching;
projection of the hook trace onto the events of spec/Trace_Pipeline.tla; oracle table from `fzf --filter`.
Shared by C08 (convergence) and C13 (loading and searching do not interfere)."""
import json, os, random, subprocess, time, shlex, sys
import tmuxdrv
from vlib import Infra, go_env, ROOT

WORDS = ["ab", "ba", "abc", "cab", "a", "b", "c", "bca", "aab", "bb", "ac", "ca", "x", "ax", "bx", "abab", "cc", "a-b", "b_a", "Ab", "aB"]
MASK = 0x1fffffffffffff


def make_lines(rng, n):
    return ["%05d %s %s" % (i, rng.choice(WORDS), rng.choice(WORDS)) for i in range(n)]


def fnv_res(ids):
    """Same projection as the hook: ids themselves if <= 64, else [n, digest] (digest reduced to 31 bits for TLC)."""
    if len(ids) <= 64:
        return ids
    h = 0xcbf29ce484222325
    for i in ids:
        for b in (i & 0xff, (i >> 8) & 0xff, (i >> 16) & 0xff, (i >> 24) & 0xff):
            h ^= b
            h = (h * 0x100000001b3) & 0xffffffffffffffff
    return [len(ids), (h & MASK) % 2147483647]


def ev_res(e):
    if "ids" in e:
        return e["ids"]
    return [e["n"], e["digest"] % 2147483647]


PRODUCER = r'''
import sys, time, json
sched = json.load(open(sys.argv[1]))
out = sys.stdout
for burst in sched:
    if burst["sleep"] > 0:
        time.sleep(burst["sleep"])
    out.write("".join(l + "\n" for l in burst["lines"]))
    out.flush()
'''


def make_schedule(rng, lines, slow):
    sched, i = [], 0
    while i < len(lines):
        k = rng.choice([1, 2, 7, 50, 99, 100, 101, 250, 1000, 5000])
        sched.append({"sleep": rng.choice([0, 0, 0.001, 0.005, 0.02, 0.05]) * slow, "lines": lines[i:i + k]})
        i += k
    return sched


EDITS = ["put(a)", "put(b)", "put(c)", "put( )", "put(!)", "put(')", "put(^)", "put(|)", "put(ab)", "backward-delete-char", "backward-delete-char",
         "clear-query", "change-query(ab)", "change-query(a b)", "change-query(b | c)", "change-query(!a)", "change-query('ab)",
         "change-query(abc)", "change-query(a)", "change-query(ba)", "toggle-sort", "beginning-of-line", "end-of-line", "delete-char",
         "backward-char", "unix-line-discard", "backward-kill-word", "yank", "up", "down"]
CHAINS = ["backward-delete-char+put(b)", "clear-query+put(ab)", "put(a)+put(b)", "toggle-sort+put(a)", "change-query(ab)+backward-delete-char",
          "put(c)+backward-delete-char+put(a)", "backward-delete-char+put(a)", "change-query(abc)+backward-char+backward-delete-char+put(c)",
          "unix-line-discard+yank", "toggle-sort+toggle-sort", "change-query(b)+toggle-sort"]


def make_steps(rng, n, slow):
    steps = []
    for _ in range(n):
        r = rng.random()
        act = rng.choice(CHAINS) if r < 0.3 else rng.choice(EDITS)
        steps.append({"sleep": rng.choice([0, 0, 0, 0.001, 0.003, 0.01, 0.03, 0.08]) * slow, "post": act})
    return steps


def run_session(ctx, fzf, sid, lines, sched, steps, extra_args=(), width=70, height=16, race_log=False):
    sdir = os.path.join(ctx.work, "pl-%d-%d" % (os.getpid(), sid))
    os.makedirs(sdir, exist_ok=True)
    with open(os.path.join(sdir, "sched.json"), "w") as fh:
        json.dump(sched, fh)
    with open(os.path.join(sdir, "producer.py"), "w") as fh:
        fh.write(PRODUCER)
    input_cmd = "python3 %s %s" % (shlex.quote(os.path.join(sdir, "producer.py")), shlex.quote(os.path.join(sdir, "sched.json")))
    env = {"GORACE": "log_path=%s halt_on_error=0" % os.path.join(sdir, "race")} if race_log else None
    s = tmuxdrv.Session(ctx, fzf, ["--no-color", "--no-unicode"] + list(extra_args), input_cmd=input_cmd, width=width, height=height, env=env)
    try:
        s.wait_listening()
        for st in steps:
            if st["sleep"] > 0:
                time.sleep(st["sleep"])
            code, _ = s.post(st["post"])
            if code != 200:
                raise Infra("POST %r -> %d" % (st["post"], code))
        # quiescence: reader finished, every request served, the last result displayed, nothing moves any more
        def quiet(tr):
            if not any(e["ev"] == "coord.read" and e.get("fin") for e in tr):
                return False
            if sum(1 for e in tr if e["ev"] == "term.loop") < len(steps):
                return False
            return True
        s.wait_for(quiet, timeout=120, what="input end + all actions processed")
        s.wait_trace_quiet(quiet=0.4, timeout=120)
        st = s.get()
        if st is None:
            raise Infra("GET / failed at quiescence")
        s.wait_trace_quiet(quiet=0.1, timeout=60)
        tr = list(s.trace())
        s.post("abort", final=True)
        s.wait_exit()
        return tr, st
    finally:
        s.close()


def project(trace, get, sid):
    """Hook trace -> Trace_Pipeline events; returns (events, oracle_keys)."""
    evs = [{"ev": "start", "sid": sid}]
    keys = set()

    def req(e):
        return {"q": e["q"], "count": e["count"], "final": e["final"], "sort": e["sort"], "rev": e["rev"]}
    saw = []
    for e in trace:
        k = e["ev"]
        if k == "match.slot":
            saw.append(dict(req(e), kind="reset" if e["kind"] == 1 else "retry"))
        elif k == "match.pick":
            evs.append(dict(req(e), ev="pick", saw=saw, seq=e["seq"]))
            saw = []
        elif k == "match.reset":
            evs.append(dict(req(e), ev="reset", cancel=e["cancel"], seq=e["seq"]))
        elif k in ("match.cachehit", "match.cancelled"):
            evs.append(dict(req(e), ev=k.split(".")[1], seq=e["seq"]))
        elif k == "match.publish":
            evs.append(dict(req(e), ev="publish", res=ev_res(e), seq=e["seq"]))
            keys.add((e["q"], e["count"], e["sort"]))
        elif k == "term.list":
            evs.append({"ev": "list", "res": ev_res(e), "n": e["n"], "seq": e["seq"]})
        elif k == "term.loop":
            evs.append({"ev": "query", "q": e["input"], "seq": e["seq"]})
    ids = [m["index"] for m in get["matches"]]
    evs.append({"ev": "end", "q": get["query"], "total": get["totalCount"], "sort": get["sort"], "getres": fnv_res(ids),
                "matchCount": get["matchCount"]})
    keys.add((get["query"], get["totalCount"], get["sort"]))
    return evs, keys


def oracle(fzf, lines, q, n, sort, extra_args=()):
    """What a fresh `fzf --filter q` prints for the first n input lines, as item indices."""
    args = [fzf, "--filter", q] + list(extra_args)
    if not sort:
        args.append("+s")
    r = subprocess.run(args, input=("".join(l + "\n" for l in lines[:n])).encode(), capture_output=True, env=go_env(), timeout=120)
    if r.returncode not in (0, 1):
        raise Infra("oracle fzf --filter %r exited %d: %s" % (q, r.returncode, r.stderr[:200]))
    ids = [int(l.split(b" ", 1)[0]) for l in r.stdout.split(b"\n") if l]
    return fnv_res(ids)


def okey(sid, q, n, sort):
    return "%d|%s|%d|%s" % (sid, q, n, "s" if sort else "u")
