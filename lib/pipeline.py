"""Sessions of the real interactive fzf with a slow producer and query edits racing with loading and searching;
projection of the hook trace onto the events of spec/Trace_Pipeline.tla; oracle table from `fzf --filter`.
Shared by C08 (convergence) and C13 (loading and searching do not interfere)."""
import json, os, random, subprocess, time, shlex, sys
import tmuxdrv
from vlib import Infra, go_env, ROOT

WORDS = ["ab", "ba", "abc", "cab", "a", "b", "c", "bca", "aab", "bb", "ac", "ca", "x", "ax", "bx", "abab", "cc", "a-b", "b_a", "Ab", "aB"]
MASK = 0x1fffffffffffff


def make_lines(rng, n, sparse=False):
    if sparse:      # few matches per 100-item chunk, so that per-chunk result caching (<= 20 matches) is exercised
        voc = ["ab", "abc", "xab", "abx", "cab", "bca", "ba", "Ab", "XY", "xyz", "xxy", "yyx", "zzy", "yzx", "xzz", "zyx", "yxy", "zxz", "xy", "yz", "zx",
               "x", "y", "z", "xx", "yy", "zz", "xyx", "yzy", "zxy", "xzy", "yxz"]
        return ["%05d %s %s" % (i, rng.choice(voc), rng.choice(voc[7:])) for i in range(n)]
    return ["%05d %s %s" % (i, rng.choice(WORDS), rng.choice(WORDS)) for i in range(n)]


# query pairs whose compiled patterns share (or must not share) result-cache keys
CACHE_PAIRS = [("^ab", "ab"), ("ab$", "ab"), ("'ab", "ab"), ("!ab", "ab"), ("ab | xyz", "ab"), ("'ab'", "ab"), ("^ab$", "ab"), ("ab", "abc"),
               ("abc", "ab"), ("ab", "b"), ("a b", "ab"), ("ab", "a b"), ("^x", "x"), ("x$", "x"), ("xy", "xyz"), ("'xy", "xy"), ("!xy", "xy"),
               ("xy", "^xy"), ("ab", "ab$"), ("xyz", "yz"), ("ab !x", "ab"), ("ab", "ab x")]


def scenario_steps(rng, kind, reloads):
    """Directed step lists (every step settles before the next): cache-key collisions; exclude / reload / same query."""
    st = []

    def add(post, settle=True):
        st.append({"sleep": 0, "post": post, "settle": settle})
    if kind == "cachekeys":
        # pairs whose per-chunk cache keys coincide although one of the two is not a plain conjunction (its result must
        # not be taken from - or put into - the cache under that key): always a few of these, plus some of the others
        share = [("^ab", "ab"), ("ab$", "ab"), ("'ab", "ab"), ("^ab$", "ab"), ("ab", "ab$"), ("ab !x", "ab"), ("'ab'", "ab"),
                 ("abc", "^abc"), ("abc !a", "abc"), ("xyz", "xyz$")]
        rest = [p for p in CACHE_PAIRS if p not in share]
        rng.shuffle(share)
        rng.shuffle(rest)
        pairs = share[:3] + rest[:rng.randint(2, 5)]
        rng.shuffle(pairs)
        for a, b in pairs:
            add("change-query(%s)" % a)
            add("change-query(%s)" % b)
            add("toggle-sort")                  # forgets the whole-list results, keeps the per-chunk cache: both are
            add("change-query(%s)" % a)         # computed again, each after the other has filled the per-chunk cache
            add("change-query(%s)" % b)
    elif kind == "casekeys":
        # smart-case: the same letters in another case are another pattern (pattern cache, merger cache, chunk cache keys)
        seqs = [["ab", "Ab", "AB", "ab", "aB"], ["x", "X", "x"], ["xy", "XY", "Xy", "xy"], ["abc", "ABC", "abc"], ["ba", "Ba", "ba", "bA"]]
        rng.shuffle(seqs)
        for seq in seqs[:3]:
            for q in seq:
                add("change-query(%s)" % q)
    elif kind == "narrow-widen":
        # a narrower query and back: the earlier (cached) answer must still be intact when it is served again
        for k, base in enumerate(rng.sample(["a", "x", "b", "y", "ab", "xy"], 4)):
            if k == 1:
                add("toggle-sort")          # the rest in input order (unsorted result lists are kept by reference)
            add("change-query(%s)" % base)
            add("put(%s)" % rng.choice(["b", "y", "c", "z"]))
            add("backward-delete-char")
            add("put(%s)" % rng.choice(["a", "x"]))
            add("backward-delete-char")
    elif kind == "nth-cache":
        # per-chunk result caches must not survive a change of the searched fields
        seqs = [("xy", "3", "xyz"), ("ab", "2", "abc"), ("x", "3", "xz"), ("yz", "2..", "yzx"), ("ab", "3", "ab")]
        rng.shuffle(seqs)
        for q1, nth, q2 in seqs[:3]:
            add("change-query(%s)" % q1)
            add("change-nth(%s)" % nth)
            add("change-query(%s)" % q2)
            add("change-query(%s)" % q1)
            add("change-nth(..)")
    elif kind == "exclude-race":
        # an exclusion immediately followed by another query-changing action while input is still streaming in
        add("change-query(%s)" % rng.choice(["x", "y", "a", ""]))
        for _ in range(rng.randint(1, 3)):
            st.append({"sleep": rng.choice([0.05, 0.2]), "post": rng.choice(["exclude", "down+exclude"])})
            st.append({"sleep": 0, "post": rng.choice(["put(x)", "put(y)", "backward-delete-char", "toggle-sort", "put(a)"])})
    elif kind == "tail":
        for _ in range(rng.randint(3, 6)):
            st.append({"sleep": rng.choice([0.3, 0.6, 1.0]), "post": rng.choice(["change-query(x)", "change-query(ab)", "clear-query", "put(y)",
                                                                                 "toggle-sort", "backward-delete-char", "change-query(xy)"])})
    elif kind == "slow-scan":
        # scans that take a while (gate delay per chunk): query changes arrive while the previous scan is still running,
        # including a change BACK to the query whose result is on display
        qs = rng.sample(["a", "x", "b", "y", "ab", "xy"], 3)
        add("change-query(%s)" % qs[0])
        for _ in range(rng.randint(2, 4)):
            other = rng.choice(qs[1:])
            st.append({"sleep": 0, "post": "change-query(%s)" % other})
            st.append({"sleep": rng.choice([0.01, 0.03, 0.06]), "post": "change-query(%s)" % qs[0]})
            st.append({"check": True})          # quiescence: the list on display must be that of the query on the prompt
    elif kind == "reload-same-matches":
        # the new input has exactly as many lines - and as many matches for any query - as the old one
        add("change-query(%s)" % rng.choice(["x", "y", "ab", "xy"]))
        add(rng.choice(["RELOAD0", "RELOADSYNC0"]))
        add("down")
    elif kind == "reload-same-count":
        # a reload whose first burst brings exactly as many lines as the old input had, with a query typed while the
        # new input is still empty (the matcher's result cache must not outlive the input it was filled for)
        add("change-query(%s)" % rng.choice(["x", "y", "ab"]))
        st.append({"sleep": 0, "post": "RELOAD0"})
        st.append({"sleep": 0.15, "post": "change-query(%s)" % rng.choice(["z", "xy", "a"])})
    elif kind == "reload-race":
        # a reload immediately followed by another query-changing action while input is still streaming in
        add("change-query(%s)" % rng.choice(["x", "y", "a", ""]))
        st.append({"sleep": rng.choice([0.05, 0.2]), "post": "RELOAD0"})
        st.append({"sleep": 0, "post": rng.choice(["put(x)", "put(y)", "backward-delete-char", "toggle-sort", "put(a)"])})
    else:
        qs = ["ab", "x", "xy", "b", "a"]
        q = rng.choice(qs)
        add("change-query(%s)" % q)
        add(rng.choice(["exclude", "down+exclude", "toggle+down+toggle+exclude-multi"]))
        if rng.random() < 0.5:
            add("change-query(%s)" % rng.choice(qs))
            add("exclude")
        if reloads > 0:
            add(rng.choice(["RELOAD0", "RELOADSYNC0"]))
        add("change-query(%s)" % rng.choice(qs))
        add("change-query(%s)" % q)
        add("clear-query")
        add("change-query(%s)" % q)
    return st


def fnv_res(ids):
    """Same projection as the hook: ids themselves if <= 64, else [-n, digest] (digest reduced to 31 bits for TLC)."""
    if len(ids) <= 64:
        return ids
    h = 0xcbf29ce484222325
    for i in ids:
        for b in (i & 0xff, (i >> 8) & 0xff, (i >> 16) & 0xff, (i >> 24) & 0xff):
            h ^= b
            h = (h * 0x100000001b3) & 0xffffffffffffffff
    return [-len(ids), (h & MASK) % 2147483647]


def ev_res(e):
    if "ids" in e:
        return e["ids"]
    return [-e["n"], e["digest"] % 2147483647]


PRODUCER = r'''
import sys, time, json
sched = json.load(open(sys.argv[1]))
out = sys.stdout
for burst in sched:
    if burst["sleep"] > 0:
        time.sleep(burst["sleep"])
    out.write("".join(l + "\n" for l in burst["lines"]))
    out.flush()
'''


def make_schedule(rng, lines, slow):
    sched, i = [], 0
    while i < len(lines):
        k = rng.choice([1, 2, 7, 50, 99, 100, 101, 250, 1000, 5000])
        sched.append({"sleep": rng.choice([0, 0, 0.001, 0.005, 0.02, 0.05]) * slow, "lines": lines[i:i + k]})
        i += k
    total = sum(b["sleep"] for b in sched)
    if total > 12:          # keep a session's loading phase within a dozen seconds
        for b in sched:
            b["sleep"] *= 12.0 / total
    return sched


EDITS = ["put(a)", "put(b)", "put(c)", "put( )", "put(!)", "put(')", "put(^)", "put(|)", "put(ab)", "backward-delete-char", "backward-delete-char",
         "clear-query", "change-query(ab)", "change-query(a b)", "change-query(b | c)", "change-query(!a)", "change-query('ab)",
         "change-query(abc)", "change-query(a)", "change-query(ba)", "toggle-sort", "beginning-of-line", "end-of-line", "delete-char",
         "backward-char", "unix-line-discard", "backward-kill-word", "yank", "up", "down"]
CHAINS = ["backward-delete-char+put(b)", "clear-query+put(ab)", "put(a)+put(b)", "toggle-sort+put(a)", "change-query(ab)+backward-delete-char",
          "put(c)+backward-delete-char+put(a)", "backward-delete-char+put(a)", "change-query(abc)+backward-char+backward-delete-char+put(c)",
          "unix-line-discard+yank", "toggle-sort+toggle-sort", "change-query(b)+toggle-sort"]


def make_steps(rng, n, slow, reloads=0, excludes=False):
    """reloads: number of reload commands available (placeholders RELOAD<k> / RELOADSYNC<k> are substituted by run_session)."""
    steps = []
    used = 0
    for _ in range(n):
        r = rng.random()
        if excludes and r < 0.12:
            act = rng.choice(["exclude", "exclude", "down+exclude", "up+up+exclude", "exclude+put(a)", "toggle+down+toggle+exclude-multi",
                              "change-nth(2)", "change-nth(3)", "change-nth(2|3|..)", "change-nth(2..)", "change-nth(..2)", "change-nth(2)+put(b)",
                              "change-nth(3)+exclude"])
        elif used < reloads and r < 0.2:
            act = rng.choice(["RELOAD%d", "RELOADSYNC%d", "RELOAD%d+put(a)", "change-query(b)+RELOAD%d"]) % used
            used += 1
        else:
            act = rng.choice(CHAINS) if r < 0.45 else rng.choice(EDITS)
        steps.append({"sleep": rng.choice([0, 0, 0, 0.001, 0.003, 0.01, 0.03, 0.08]) * slow, "post": act})
    return steps


def matcher_idle(tr):
    # every announced request has been taken, the request taken last has been answered (or abandoned for a newer
    # one that was answered) and the answer has reached the terminal - a slow scan is silent, not idle
    last = {}
    for e in tr:
        if e["ev"] in ("match.reset", "match.pick", "match.publish", "term.list"):
            last[e["ev"]] = e["seq"]
    if "match.reset" not in last:
        return True
    return last.get("match.pick", -1) > last["match.reset"] and last.get("match.publish", -1) > last["match.pick"] and \
        last.get("term.list", -1) > last["match.publish"]



def run_session(ctx, fzf, sid, lines, sched, steps, extra_args=(), width=70, height=16, race_log=False, reload_scheds=(), chunk_ms=0):
    """reload_scheds: schedules for the reload commands RELOAD<k>; returns (trace, GET state, {command: k})."""
    sdir = os.path.join(ctx.work, "pl-%d-%d" % (os.getpid(), sid))
    os.makedirs(sdir, exist_ok=True)
    with open(os.path.join(sdir, "sched.json"), "w") as fh:
        json.dump(sched, fh)
    with open(os.path.join(sdir, "producer.py"), "w") as fh:
        fh.write(PRODUCER)
    input_cmd = "python3 %s %s" % (shlex.quote(os.path.join(sdir, "producer.py")), shlex.quote(os.path.join(sdir, "sched.json")))
    cmds = {}
    for k, rs in enumerate(reload_scheds):
        with open(os.path.join(sdir, "resched%d.json" % k), "w") as fh:
            json.dump(rs, fh)
        cmds[k] = "python3 %s %s" % (os.path.join(sdir, "producer.py"), os.path.join(sdir, "resched%d.json" % k))
    env = {"GORACE": "log_path=%s halt_on_error=0" % os.path.join(sdir, "race")} if race_log else {}
    if chunk_ms:
        env["FZF_VERIF_GATE_DELAY"] = "scan.chunk=%d" % chunk_ms      # every chunk of a scan takes at least this long
    env = env or None
    s = tmuxdrv.Session(ctx, fzf, ["--no-color", "--no-unicode"] + list(extra_args), input_cmd=input_cmd, width=width, height=height, env=env)
    try:
        s.wait_listening()
        mids = []
        for st in steps:
            if st.get("check"):
                # mid-session quiescence: nothing moves any more (the spinner aside), then the state is read
                s.wait_for(matcher_idle, timeout=120, what="matcher idle (mid-session check)")
                s.wait_trace_quiet(quiet=0.4, timeout=60, ignore=("term.render",))
                g = s.get()
                n1 = sum(1 for e in s.trace() if e["ev"] != "term.render")
                s.wait_trace_quiet(quiet=0.1, timeout=60, ignore=("term.render",))
                tr_now = s.trace()
                if g is not None and not g["reading"] and matcher_idle(tr_now) and sum(1 for e in tr_now if e["ev"] != "term.render") == n1:
                    mids.append((tr_now[-1]["seq"] if tr_now else 0, g))
                continue
            if st["sleep"] > 0:
                time.sleep(st["sleep"])
            body = st["post"]
            for k, c in cmds.items():
                body = body.replace("RELOADSYNC%d" % k, "reload-sync(%s)" % c).replace("RELOAD%d" % k, "reload(%s)" % c)
            code, _ = s.post(body)
            if code != 200:
                raise Infra("POST %r -> %d" % (body, code))
            if st.get("settle"):
                # the search this step triggered (if any) has been displayed and the (re)loader is idle
                def settled(tr):
                    resets = [e["seq"] for e in tr if e["ev"] == "match.reset"]
                    lists = [e["seq"] for e in tr if e["ev"] == "term.list"]
                    reads = [e for e in tr if e["ev"] == "coord.read"]
                    restarts = [e["seq"] for e in tr if e["ev"] == "coord.restart"]
                    if not reads or not reads[-1].get("fin") or (restarts and restarts[-1] > reads[-1]["seq"]):
                        return False
                    return bool(lists) and (not resets or lists[-1] > resets[-1])
                s.wait_trace_quiet(quiet=0.03, timeout=60)
                s.wait_for(settled, timeout=60, what="step settled")
                s.wait_trace_quiet(quiet=0.03, timeout=60)
        # quiescence: reader finished, every request served, the last result displayed, nothing moves any more
        def quiet(tr):
            if not any(e["ev"] == "coord.read" and e.get("fin") for e in tr):
                return False
            if sum(1 for e in tr if e["ev"] == "term.loop") < len([x for x in steps if not x.get("check")]):
                return False
            return True
        s.wait_for(quiet, timeout=120, what="input end + all actions processed")
        def loader_idle(tr):
            # the coordinator saw the end of the input it started last (a reload request that never reached it - finding F21 -
            # leaves the TERMINAL in reading state with its spinner redrawing for ever, although nothing is being read)
            reads = [e for e in tr if e["ev"] == "coord.read"]
            restarts = [e["seq"] for e in tr if e["ev"] == "coord.restart"]
            return bool(reads) and bool(reads[-1].get("fin")) and not (restarts and restarts[-1] > reads[-1]["seq"])
        t0 = time.time()
        while True:
            try:
                s.wait_trace_quiet(quiet=0.4, timeout=120, ignore=("term.render",))
            except Infra as ex:
                st = s.get()
                raise Infra("session %d: %s; state: %s; steps: %s; args: %s" % (
                    sid, ex, json.dumps({k: st.get(k) for k in ("reading", "totalCount", "matchCount", "query")} if st else None),
                    json.dumps([x.get("post", "CHECK")[:60] for x in steps]), list(extra_args)))
            st = s.get()
            if st is None:
                raise Infra("GET / failed at quiescence")
            n1 = sum(1 for e in s.trace() if e["ev"] != "term.render")
            s.wait_trace_quiet(quiet=0.1, timeout=60, ignore=("term.render",))
            tr_now = s.trace()
            if (not st["reading"] or (loader_idle(tr_now) and time.time() - t0 > 3)) and matcher_idle(tr_now) and \
                    sum(1 for e in tr_now if e["ev"] != "term.render") == n1:
                break           # the (re)loader is done, the matcher has answered and nothing moved since the state was read
            if time.time() - t0 > 120:
                raise Infra("session never became quiescent (reading=%s)" % st["reading"])
        tr = list(s.trace())
        s.post("abort", final=True)
        s.wait_exit()
        sync = {}
        for st_ in [x for x in steps if not x.get("check")]:
            for k in cmds:
                if "RELOADSYNC%d" % k in st_["post"]:
                    sync[k] = True
        cm = {c: (k, sync.get(k, False)) for k, c in cmds.items()}
        cm["__mids__"] = mids
        return tr, st, cm
    finally:
        s.close()


def project(trace, get, sid, cmdmap=None, tail=0, sizes=None):
    """Hook trace -> Trace_Pipeline events; returns (events, oracle_keys, cfgs).  Every `reset` event is annotated with
    cfg = index into cfgs of the configuration its pattern/snapshot was built under: (input number of the snapshot's major
    revision (-1 = initial input, k = reload command k), excluded item indices in effect, --nth expression in effect), and
    pcfg = the configuration before the latest exclusion (for the named deviation StaleChunkCache), or -1.
    The exclusion list and nth are the coordinator's own state: exclusions are cleared by a reload (at restart, or for
    reload-sync when the new input is complete), nth survives; a request issued right after a reload may still carry the
    OLD snapshot (old revision) together with the NEW (empty) exclusion list."""
    evs = [{"ev": "start", "sid": sid, "tail": tail}]
    sizes = sizes or {}
    keys = set()
    cmdmap = dict(cmdmap or {})
    mids = sorted(cmdmap.pop("__mids__", []), key=lambda m: m[0])
    major_input = {0: -1}
    denied, prev_denied, nth = [], None, ""
    wanted = []             # exclusions the user asked for (terminal side): must all be honoured at quiescence
    wanted_input = -1       # the input the user asked for last (-1 = the initial one, k = reload command k)
    pending_sync_clear = False
    cfgs = []

    def cfg_index(c):
        if c not in cfgs:
            cfgs.append(c)
        return cfgs.index(c)

    def req(e):
        return {"q": e["q"], "lo": e.get("first", 0), "count": e["count"], "final": e["final"], "sort": e["sort"], "rev": e["rev"]}
    saw = []
    last_cfg = 0
    issued = []             # (fields, cfg, seq) of announced requests, oldest first
    last_bump_seq = -1
    scanning_cfg = None     # configuration of the request the matcher is serving right now
    overlap_cfg = None      # configuration that was being scanned when the caches were last cleared (it may have refilled them)
    def quiescent_event(name, g):
        ids_ = [m["index"] for m in g["matches"]]
        wc = cfg_index((wanted_input, tuple(wanted), nth))
        if cfgs and cfgs[last_cfg][0] == wanted_input and set(cfgs[last_cfg][1]) == set(wanted) and cfgs[last_cfg][2] == nth:
            wc = last_cfg

        def final_lo(ci):
            # with --tail N the final snapshot holds the last N records of the (complete) input
            inp = cfgs[ci][0] if ci < len(cfgs) else -1
            return max(0, sizes.get(inp, 0) - tail) if tail else 0
        evs.append({"ev": name, "q": g["query"], "total": g["totalCount"], "sort": g["sort"], "getres": fnv_res(ids_),
                    "matchCount": g["matchCount"], "wcfg": wc, "lo": final_lo(last_cfg), "wlo": final_lo(wc)})
        keys.add((g["query"], final_lo(last_cfg), g["totalCount"], g["sort"], last_cfg))
        keys.add((g["query"], final_lo(wc), g["totalCount"], g["sort"], wc))
    for e in trace:
        k = e["ev"]
        while mids and mids[0][0] < e["seq"]:
            quiescent_event("mid", mids.pop(0)[1])
        if k == "match.slot":
            saw.append(dict(req(e), kind="reset" if e["kind"] == 1 else "retry"))
        elif k == "match.pick":
            pick_ev = dict(req(e), ev="pick", saw=saw, seq=e["seq"], pcfg=-1)
            evs.append(pick_ev)
            saw = []
            f = req(e)
            for j in range(len(issued) - 1, -1, -1):
                if issued[j][0] == f:
                    scanning_cfg = issued[j][1]
                    if issued[j][2] < last_bump_seq:
                        # a request announced BEFORE the caches were last cleared is served after the clear: it may put
                        # entries of its own configuration back (same mechanism as a scan in flight across the clear)
                        overlap_cfg = issued[j][1]
                    elif overlap_cfg is not None and overlap_cfg != scanning_cfg and cfgs[overlap_cfg][0] == cfgs[scanning_cfg][0]:
                        # what may have refilled the caches is known only now (the older request was served after this
                        # one had been announced)
                        pick_ev["pcfg"] = overlap_cfg
                        keys.add((e["q"], e.get("first", 0), e["count"], e["sort"], overlap_cfg))
                        keys.add((e["q"], e.get("first", 0), e["count"], e["sort"], scanning_cfg))
                    pick_ev["cfg"] = scanning_cfg
                    issued = issued[j + 1:]
                    break
        elif k == "coord.restart":
            if e["command"] not in cmdmap:
                raise Infra("restart with an unknown command %r" % e["command"])
            kk, sync = cmdmap[e["command"]]
            major_input[e["rev"][0]] = kk
            if sync:
                pending_sync_clear = True
            else:
                denied, prev_denied = [], None
            wanted = []
            overlap_cfg = None
        elif k == "coord.read":
            if e.get("fin") and pending_sync_clear:
                denied, prev_denied = [], None
                pending_sync_clear = False
        elif k == "coord.bump":
            overlap_cfg = scanning_cfg
            last_bump_seq = e["seq"]
            if e.get("compatible", True) and e.get("deny"):
                prev_denied = list(denied)
                denied = denied + [i for i in e["deny"] if i not in denied]
            if e.get("nth"):
                nth = e["nth"]
        elif k == "match.reset":
            inp = major_input.get(e["rev"][0], -1)
            c = cfg_index((inp, tuple(denied), nth))
            pc = overlap_cfg if (overlap_cfg is not None and overlap_cfg != c and cfgs[overlap_cfg][0] == inp) else -1
            last_cfg = c
            issued.append((req(e), c, e["seq"]))
            evs.append(dict(req(e), ev="reset", cancel=e["cancel"], cfg=c, pcfg=pc, seq=e["seq"]))
            keys.add((e["q"], e.get("first", 0), e["count"], e["sort"], c))
            if pc >= 0:
                keys.add((e["q"], e.get("first", 0), e["count"], e["sort"], pc))
        elif k in ("match.cachehit", "match.cancelled"):
            evs.append(dict(req(e), ev=k.split(".")[1], seq=e["seq"]))
            if k == "match.cancelled":
                scanning_cfg = None
        elif k == "match.publish":
            evs.append(dict(req(e), ev="publish", res=ev_res(e), seq=e["seq"]))
            scanning_cfg = None
        elif k == "term.list":
            evs.append({"ev": "list", "res": ev_res(e), "n": e["n"], "seq": e["seq"]})
        elif k == "term.act" and e["act"] in ("reload", "reload-sync"):
            if e["arg"] in cmdmap:
                wanted_input = cmdmap[e["arg"]][0]
                wanted = []
        elif k == "term.act" and e["act"] in ("exclude", "exclude-multi"):
            # what the action excludes: the selection if there is one (exclude-multi), else the item under the cursor
            ids_ = list(e["sel"]) if (e["act"] == "exclude-multi" and e["sel"]) else ([e["cur"]] if e.get("cur", -1) >= 0 else [])
            if e["rev"][0] == max(major_input) and major_input[max(major_input)] == wanted_input:
                # an exclusion on a list of the input the user last asked for
                wanted = wanted + [i for i in ids_ if i not in wanted]
        elif k == "term.loop":
            evs.append({"ev": "query", "q": e["input"], "seq": e["seq"]})
    for m in mids:
        quiescent_event("mid", m[1])
    quiescent_event("end", get)
    return evs, keys, cfgs


def oracle(fzf, lines, q, n, sort, extra_args=(), excluded=(), nth="", raw=False, lo=0):
    """What a fresh `fzf --filter q` prints for the n input lines from line lo on (lo > 0 only under --tail), as item
    indices (minus excluded items)."""
    args = [fzf, "--filter", q] + list(extra_args)
    if nth:
        args += ["--nth", nth]
    if not sort:
        args.append("+s")
    r = subprocess.run(args, input=("".join(l + "\n" for l in lines[lo:lo + n])).encode(), capture_output=True, env=go_env(), timeout=120)
    if r.returncode not in (0, 1):
        raise Infra("oracle fzf --filter %r exited %d: %s" % (q, r.returncode, r.stderr[:200]))
    ids = [int(l.split(b" ", 1)[0]) for l in r.stdout.split(b"\n") if l]
    if excluded:
        ex = set(excluded)
        ids = [i for i in ids if i not in ex]
    if raw:
        return ids
    return fnv_res(ids)


def okey(sid, q, lo, n, sort, cfg=0):
    return "%d|%s|%d|%d|%s|%d" % (sid, q, lo, n, "s" if sort else "u", cfg)
