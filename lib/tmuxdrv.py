"""Process-level driver: the real fzf binary (built with -tags verif) on a real pty provided by tmux.

Stimuli: --listen POSTs (action lists), tmux send-keys (real key bytes), resize.  Observations: the NDJSON trace the
hooks append to (FZF_VERIF_TRACE), GET / (state under the terminal mutex), tmux capture-pane (the screen), stdout
file and exit status.  Synchronisation is on trace events, never on fixed sleeps.
"""
import json, os, socket, subprocess, time, shlex, itertools, http.client
from vlib import Infra, go_env

_counter = itertools.count()


def free_port():
    for _ in range(50):
        s = socket.socket()
        try:
            s.bind(("127.0.0.1", 0))
            p = s.getsockname()[1]
        finally:
            s.close()
        return p
    raise Infra("no free port")


class Session:
    def __init__(self, ctx, fzf, args, input_data=None, input_cmd=None, width=80, height=24, env=None, listen=True,
                 name=None, shell_prefix=""):
        n = next(_counter)
        self.ctx = ctx
        self.dir = os.path.join(ctx.work, "sess-%d-%d" % (os.getpid(), n))
        os.makedirs(self.dir)
        self.sock = "vf%d_%d" % (os.getpid(), n)
        self.trace_path = os.path.join(self.dir, "trace.ndjson")
        self.out_path = os.path.join(self.dir, "stdout")
        self.status_path = os.path.join(self.dir, "status")
        self.port = free_port() if listen else None
        self._trace = []
        self._trace_pos = 0
        self.width, self.height = width, height
        argv = [fzf] + list(args)
        if listen:
            argv.append("--listen=127.0.0.1:%d" % self.port)
        cmd = " ".join(shlex.quote(a) for a in argv)
        if input_cmd is not None:
            cmd = "%s | %s" % (input_cmd, cmd)
        else:
            inp = os.path.join(self.dir, "input")
            with open(inp, "wb") as fh:
                fh.write(input_data if isinstance(input_data, bytes) else (input_data or "").encode())
            cmd = "%s < %s" % (cmd, shlex.quote(inp))
        script = os.path.join(self.dir, "run.sh")
        with open(script, "w") as fh:
            fh.write("#!/bin/sh\ncd %s\n%s%s > %s\necho $? > %s.tmp\nmv %s.tmp %s\n" % (
                shlex.quote(self.dir), shell_prefix, cmd, shlex.quote(self.out_path), shlex.quote(self.status_path),
                shlex.quote(self.status_path), shlex.quote(self.status_path)))
        os.chmod(script, 0o755)
        e = go_env({"FZF_VERIF_TRACE": self.trace_path, "TERM": "xterm-256color", "LC_ALL": "C.UTF-8", "LANG": "C.UTF-8",
                    "SHELL": "/bin/sh", "TMPDIR": self.dir})
        e.pop("TMUX", None)
        e.pop("TMUX_PANE", None)
        if env:
            e.update(env)
        self.env = e
        r = subprocess.run(["tmux", "-L", self.sock, "-f", "/dev/null", "new-session", "-d", "-x", str(width), "-y", str(height),
                            "-s", "s", script], env=e, capture_output=True, text=True)
        if r.returncode != 0:
            raise Infra("tmux new-session failed: " + r.stderr)
        subprocess.run(["tmux", "-L", self.sock, "set-option", "-g", "remain-on-exit", "on"], env=e, capture_output=True)

    # ------------------------------------------------------------ tmux
    def tmux(self, *args, check=True):
        r = subprocess.run(["tmux", "-L", self.sock] + list(args), env=self.env, capture_output=True, text=True)
        if check and r.returncode != 0:
            raise Infra("tmux %s failed: %s" % (args, r.stderr))
        return r.stdout

    def keys(self, *keys, literal=False):
        if literal:
            self.tmux("send-keys", "-t", "s", "-l", "".join(keys))
        else:
            self.tmux("send-keys", "-t", "s", *keys)

    def resize(self, w, h):
        self.tmux("resize-window", "-t", "s", "-x", str(w), "-y", str(h))
        self.width, self.height = w, h

    def capture(self):
        out = self.tmux("capture-pane", "-p", "-t", "s")
        lines = out.split("\n")
        if lines and lines[-1] == "":
            lines.pop()
        return lines

    # ------------------------------------------------------------ http
    def post(self, body, timeout=30.0, headers=None, final=False):
        """POST an action list.  final=True: the actions may end fzf before it answers (status 0 then)."""
        c = http.client.HTTPConnection("127.0.0.1", self.port, timeout=timeout)
        try:
            c.request("POST", "/", body=body.encode(), headers=headers or {})
            r = c.getresponse()
            data = r.read()
            return r.status, data
        except (http.client.HTTPException, OSError):
            if final:
                return 0, b""
            raise
        finally:
            c.close()

    def get(self, limit=100000, timeout=30.0):
        c = http.client.HTTPConnection("127.0.0.1", self.port, timeout=timeout)
        try:
            c.request("GET", "/?limit=%d" % limit)
            r = c.getresponse()
            data = r.read()
            if r.status != 200:
                return None
            return json.loads(data)
        finally:
            c.close()

    def wait_listening(self, timeout=60.0):
        t0 = time.time()
        while time.time() - t0 < timeout:
            try:
                s = socket.create_connection(("127.0.0.1", self.port), timeout=0.5)
                s.close()
                return
            except OSError:
                if self.exited():
                    raise Infra("fzf exited before listening; screen:\n" + "\n".join(self.capture()))
                time.sleep(0.01)
        raise Infra("fzf did not start listening; screen:\n" + "\n".join(self.capture()))

    # ------------------------------------------------------------ trace
    def trace(self):
        try:
            with open(self.trace_path, "rb") as fh:
                fh.seek(self._trace_pos)
                data = fh.read()
        except FileNotFoundError:
            return self._trace
        end = data.rfind(b"\n")
        if end >= 0:
            for line in data[:end].split(b"\n"):
                if line:
                    self._trace.append(json.loads(line))
            self._trace_pos += end + 1
        return self._trace

    def count(self, ev, pred=None):
        return sum(1 for e in self.trace() if e["ev"] == ev and (pred is None or pred(e)))

    def wait_for(self, cond, timeout=60.0, what="condition"):
        """cond(trace) -> truthy; polls the trace file."""
        t0 = time.time()
        delay = 0.001
        while True:
            v = cond(self.trace())
            if v:
                return v
            if time.time() - t0 > timeout:
                raise Infra("timeout waiting for %s; last events: %s; screen:\n%s" % (
                    what, json.dumps(self._trace[-5:])[:1500], "\n".join(self.capture()) if not self.exited() else "(exited)"))
            time.sleep(delay)
            delay = min(delay * 1.5, 0.02)

    def wait_count(self, ev, n, timeout=60.0, pred=None):
        return self.wait_for(lambda tr: sum(1 for e in tr if e["ev"] == ev and (pred is None or pred(e))) >= n,
                             timeout, "%d x %s" % (n, ev))

    def wait_trace_quiet(self, quiet=0.05, timeout=60.0, ignore=()):
        """Waits until the trace has not grown for `quiet` seconds (only for observations that are re-checked).
        ignore: event names that do not count as activity (e.g. term.render: the spinner of a terminal that believes it is
        still reading redraws for ever)."""
        def size():
            tr = self.trace()
            return len(tr) if not ignore else sum(1 for e in tr if e.get("ev") not in ignore)
        t0 = time.time()
        last = size()
        tl = time.time()
        while time.time() - t0 < timeout:
            time.sleep(0.005)
            n = size()
            if n != last:
                last, tl = n, time.time()
            elif time.time() - tl >= quiet:
                return
        raise Infra("trace never went quiet for %.2fs within %.0fs; last events: %s" % (
            quiet, timeout, json.dumps([(e.get("ev"), e.get("seq")) for e in self.trace()[-6:]])))

    # ------------------------------------------------------------ end
    def exited(self):
        return os.path.exists(self.status_path)

    def wait_exit(self, timeout=60.0):
        t0 = time.time()
        while not self.exited():
            if time.time() - t0 > timeout:
                raise Infra("fzf did not exit; screen:\n" + "\n".join(self.capture()))
            time.sleep(0.005)
        with open(self.status_path) as fh:
            status = int(fh.read().strip())
        with open(self.out_path, "rb") as fh:
            out = fh.read()
        return status, out

    def close(self):
        subprocess.run(["tmux", "-L", self.sock, "kill-server"], env=self.env, capture_output=True)
        try:        # (a killed server leaves its socket behind; tens of thousands of them pile up under /tmp over a day of runs)
            os.unlink(os.path.join(os.environ.get("TMUX_TMPDIR", "/tmp"), "tmux-%d" % os.getuid(), self.sock))
        except OSError:
            pass
