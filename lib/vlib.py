"""Common machinery for the fzf TLA+ conformance checks (python3 stdlib only).

A check is a python module lib/props/<id>.py exposing run(ctx).  It uses this library to
  * build /repo's current working tree (binary and in-package harness, build tag `verif`),
  * run TLC on a module of /verif/spec (exhaustive model checking, case/behaviour export, trace judging),
  * compare what the real code did with what the specification says,
  * write evidence/<id>.json and print VIOLATION / KNOWN-FINDING lines.

Exit codes: 0 property held on everything explored; 1 VIOLATION (real code disagreed with the spec, reproduced);
2 infrastructure problem (never a verdict about fzf).
"""
import json, os, re, shutil, subprocess, sys, time, hashlib, random, glob

ROOT = os.path.dirname(os.path.dirname(os.path.abspath(__file__)))
REPO = os.environ.get("VERIF_REPO", "/repo")
SPEC = os.path.join(ROOT, "spec")
OVERLAY = os.path.join(ROOT, "harness", "overlay")
EVID = os.path.join(ROOT, "evidence")
if os.path.realpath(REPO) != "/repo":
    # runs against a scratch tree (seeded changes) keep their evidence away from the evidence of /repo itself
    EVID = os.path.join(ROOT, ".work", "evidence-scratch")
NCPU = os.cpu_count() or 4


class Infra(Exception):
    """Anything that is not a verdict about fzf."""


def log(*a):
    print("[verif]", *a, file=sys.stderr, flush=True)


def go_env(extra=None):
    e = dict(os.environ)
    e.update({"GOFLAGS": "-mod=mod", "GOPROXY": "off", "GOSUMDB": "off", "GOTOOLCHAIN": "local"})
    e.pop("FZF_DEFAULT_OPTS", None)
    e.pop("FZF_DEFAULT_OPTS_FILE", None)
    e.pop("FZF_DEFAULT_COMMAND", None)
    e.pop("FZF_API_KEY", None)
    if extra:
        e.update(extra)
    return e


class Ctx:
    def __init__(self, prop, tier, seed, replay=None):
        self.prop, self.tier, self.seed, self.replay = prop, tier, seed, replay
        self.t0 = time.time()
        self.work = os.path.join(ROOT, ".work", "%s-%s-%d" % (prop, tier, os.getpid()))
        shutil.rmtree(self.work, ignore_errors=True)
        os.makedirs(self.work)
        self.cov = {"states": 0, "transitions": 0, "traces_validated_against_impl": 0, "evaluations": 0,
                    "distinct_nontrivial": 0, "samples": [], "exhaustive": False, "rule": "",
                    "tlc_runs": [], "action_coverage": {}}
        self.assumptions = []
        self.violations = []      # (what, replay_path)
        self.known = []           # strings
        self.rng = random.Random(seed)
        self._fzf = None
        self._harness = {}

    @property
    def quick(self):
        return self.tier == "quick"

    def pick(self, quick, thorough):
        return quick if self.quick else thorough

    # ---------------------------------------------------------------- builds
    def build_fzf(self, race=False):
        key = "fzf-race" if race else "fzf"
        if getattr(self, "_" + key.replace("-", "_"), None):
            return getattr(self, "_" + key.replace("-", "_"))
        out = os.path.join(self.work, key)
        cmd = ["go", "build", "-tags", "verif", "-o", out]
        if race:
            cmd.insert(2, "-race")
        cmd.append(".")
        r = subprocess.run(cmd, cwd=REPO, env=go_env(), capture_output=True, text=True)
        if r.returncode != 0:
            raise Infra("go build of /repo failed:\n" + r.stderr[-4000:])
        setattr(self, "_" + key.replace("-", "_"), out)
        return out

    def build_harness(self, pkg, files, race=False, name=None, shared=(), gopkg=None):
        """Compile an in-package test binary of /repo/<pkg> with /verif/harness/overlay/<pkg>/<files> overlaid.
        shared: names of harness/shared/<n>.go files injected too (their `package PKG` line is rewritten to gopkg,
        default: fzf for src, else the directory name)."""
        key = (pkg, tuple(files), race, tuple(shared))
        if key in self._harness:
            return self._harness[key]
        repl = {}
        gopkg = gopkg or ("fzf" if pkg == "src" else os.path.basename(pkg))
        for sname in shared:
            txt = open(os.path.join(ROOT, "harness", "shared", sname + ".go")).read().replace("package PKG", "package " + gopkg)
            gen = os.path.join(self.work, "shared-%s-%s_test.go" % (gopkg, sname))
            with open(gen, "w") as fh:
                fh.write(txt)
            repl[os.path.join(REPO, pkg, "zz_verif_shared_%s_test.go" % sname)] = gen
        for f in files:
            src = os.path.join(OVERLAY, pkg, f)
            if not os.path.exists(src):
                raise Infra("missing harness file " + src)
            repl[os.path.join(REPO, pkg, f)] = src
        ov = os.path.join(self.work, "overlay-%s.json" % hashlib.md5(repr(key).encode()).hexdigest()[:8])
        with open(ov, "w") as fh:
            json.dump({"Replace": repl}, fh)
        out = os.path.join(self.work, (name or ("h-" + pkg.replace("/", "_"))) + (".race" if race else "") + ".test")
        cmd = ["go", "test", "-c", "-tags", "verif", "-vet=off", "-overlay", ov, "-o", out]
        if race:
            cmd.insert(3, "-race")
        cmd.append("./" + pkg)
        r = subprocess.run(cmd, cwd=REPO, env=go_env(), capture_output=True, text=True)
        if r.returncode != 0 or not os.path.exists(out):
            raise Infra("harness build failed (%s):\n%s" % (pkg, (r.stdout + r.stderr)[-6000:]))
        self._harness[key] = out
        return out

    def run_harness(self, binary, run, env=None, timeout=3600, cwd=None, allow_fail=False):
        """Run one Test function of a harness binary; returns (returncode, stdout+stderr)."""
        e = go_env({"VERIF_SEED": str(self.seed), "VERIF_TIER": self.tier, "VERIF_WORK": self.work})
        if env:
            e.update({k: str(v) for k, v in env.items()})
        cmd = [binary, "-test.run", "^" + run + "$", "-test.timeout", "%ds" % timeout, "-test.count", "1"]
        try:
            r = subprocess.run(cmd, cwd=cwd or self.work, env=e, capture_output=True, text=True, timeout=timeout + 30)
        except subprocess.TimeoutExpired:
            raise Infra("harness %s timed out after %ds" % (run, timeout))
        out = r.stdout + r.stderr
        if r.returncode != 0 and not allow_fail:
            raise Infra("harness %s exited %d:\n%s" % (run, r.returncode, out[-6000:]))
        if "no tests to run" in out:
            raise Infra("harness function %s not found" % run)
        return r.returncode, out

    # ---------------------------------------------------------------- TLC
    def tlc(self, module, cfg=None, workers=None, timeout=1800, env=None, args=(), label=None, expect_ok=True,
            heap=None, coverage=False, dfs=False):
        """Run TLC on spec/<module>.tla with spec/<cfg>.  Returns TLCResult."""
        label = label or (cfg or module).replace(".cfg", "")
        rdir = os.path.join(self.work, "tlc-" + re.sub(r"[^A-Za-z0-9_.-]", "_", label))
        n = 0
        base = rdir
        while os.path.exists(rdir):
            n += 1
            rdir = "%s.%d" % (base, n)
        os.makedirs(rdir)
        for f in os.listdir(SPEC):
            if f.endswith(".tla") or f.endswith(".cfg"):
                shutil.copy(os.path.join(SPEC, f), rdir)
        e = dict(os.environ)
        jto = "-Dfile.encoding=UTF-8 -Xss256m -Djava.io.tmpdir=" + rdir       # (TLC leaves an empty tlc-<n> directory per run in its tmpdir)
        jto += " -Xmx" + (heap or os.environ.get("VERIF_TLC_HEAP", "6g"))
        if dfs:
            jto += " -Dtlc2.tool.queue.IStateQueue=StateDeque"
        e["JAVA_TOOL_OPTIONS"] = jto
        if env:
            e.update({k: str(v) for k, v in env.items()})
        w = workers or min(NCPU, 16)
        cmd = ["timeout", str(int(timeout)), "tlc", "-workers", str(w), "-metadir", os.path.join(rdir, "meta"),
               "-config", cfg or (module + ".cfg")]
        if coverage:
            cmd += ["-coverage", "1"]
        cmd += list(args) + [module + ".tla"]
        t0 = time.time()
        outp = os.path.join(rdir, "out.txt")
        with open(outp, "w") as fh:
            r = subprocess.run(cmd, cwd=rdir, env=e, stdout=fh, stderr=subprocess.STDOUT)
        res = TLCResult(r.returncode, outp, time.time() - t0, label)
        self.cov["tlc_runs"].append({"label": label, "exit": res.code, "generated": res.generated,
                                     "distinct": res.distinct, "wall_s": round(res.wall, 1)})
        if r.returncode == 124:
            raise Infra("TLC timed out (%s) after %ds" % (label, timeout))
        if expect_ok and res.code != 0:
            raise Infra("TLC run %s failed with exit %d:\n%s" % (label, res.code, res.tail()))
        shutil.rmtree(os.path.join(rdir, "meta"), ignore_errors=True)
        return res

    def mc(self, module, cfg, **kw):
        """Exhaustive model checking of the design; adds to states/transitions. A failure is an infra error
        (the model alone never yields a verdict about the code)."""
        res = self.tlc(module, cfg, **kw)
        self.cov["states"] += res.distinct
        self.cov["transitions"] += res.generated
        if res.action_cov:
            self.cov["action_coverage"][res.label] = res.action_cov
        return res

    # ---------------------------------------------------------------- verdicts
    def sample(self, s, cap=6):
        if len(self.cov["samples"]) < cap:
            self.cov["samples"].append(s)

    def violation(self, what, case):
        d = os.path.join(EVID, "replays", self.prop)
        os.makedirs(d, exist_ok=True)
        p = os.path.join(d, "%s-%d-%d.json" % (self.tier, self.seed, len(self.violations)))
        with open(p, "w") as fh:
            json.dump({"property": self.prop, "what": what, "case": case}, fh, indent=1, default=str)
        self.violations.append((what, p))
        return p

    def finish(self, level="model_checking"):
        known = load_known()
        reported = []
        for what, p in self.violations:
            kf = match_known(known, self.prop, what, p)
            if kf:
                line = "KNOWN-FINDING: property=%s %s" % (self.prop, kf["summary"])
                if line not in self.known:
                    self.known.append(line)
            else:
                reported.append((what, p))
        cov = dict(self.cov)
        cov["known_findings_seen"] = list(self.known)
        ev = {"property_id": self.prop, "tier": self.tier, "seed": self.seed, "level": level, "coverage": cov,
              "assumptions": self.assumptions, "wall_s": round(time.time() - self.t0, 1), "violations": len(reported)}
        os.makedirs(EVID, exist_ok=True)
        with open(os.path.join(EVID, self.prop + ".json"), "w") as fh:
            json.dump(ev, fh, indent=1, default=str)
        for k in self.known:
            print(k)
        for what, p in reported[:20]:
            print("VIOLATION property=%s replay=%s" % (self.prop, p))
            log("  ", what[:600])
        if os.environ.get("VERIF_KEEP") != "1":
            shutil.rmtree(self.work, ignore_errors=True)
        return 1 if reported else 0


class TLCResult:
    def __init__(self, code, outp, wall, label):
        self.code, self.outp, self.wall, self.label = code, outp, wall, label
        self.generated = self.distinct = self.depth = 0
        self.tagged = {}
        self.action_cov = {}
        self.errors = []
        pat = re.compile(r'^<<"([A-Z]+)", (.*)>>$')
        with open(outp, errors="replace") as fh:
            for line in fh:
                line = line.rstrip("\n")
                m = pat.match(line)
                if m:
                    self.tagged.setdefault(m.group(1), []).append(m.group(2))
                    continue
                m = re.match(r"^(\d+) states generated, (\d+) distinct states found", line)
                if m:
                    self.generated, self.distinct = int(m.group(1)), int(m.group(2))
                m = re.match(r"^The depth of the complete state graph search is (\d+)", line)
                if m:
                    self.depth = int(m.group(1))
                m = re.match(r"^<(\w+) line \d+, col \d+ to line \d+, col \d+ of module (\w+)>: (\d+):(\d+)", line)
                if m:
                    self.action_cov[m.group(2) + "." + m.group(1)] = int(m.group(4))
                if line.startswith("Error:") or "is violated" in line:
                    self.errors.append(line)

    def tail(self, n=60):
        with open(self.outp, errors="replace") as fh:
            return "".join(fh.readlines()[-n:])

    def json_items(self, tag):
        """Lines printed as PrintT(<<"TAG", ToJson(x)>>) decoded back to python objects."""
        out = []
        for s in self.tagged.get(tag, []):
            out.append(json.loads(json.loads(s)))
        return out

    def raw_items(self, tag):
        return self.tagged.get(tag, [])


# ---------------------------------------------------------------- E binding: replay spec cases on real code
def replay_cases(ctx, binary, run, cases, expected, label, env=None, timeout=3600, kf=None, describe=None,
                 max_report=10):
    """Run `cases` (list of dicts, computed by TLC) through harness function `run`; `expected(case)` is the
    projection TLC computed, compared with result['got'].  Each mismatch is re-run alone; only reproduced
    mismatches become violations.  Returns the list of results."""
    if not cases:
        raise Infra("no cases to replay for " + label)
    cpath = os.path.join(ctx.work, "cases-%s.ndjson" % label)
    opath = os.path.join(ctx.work, "out-%s.ndjson" % label)
    write_ndjson(cpath, cases)
    e = {"VERIF_CASES": cpath, "VERIF_OUT": opath}
    if env:
        e.update(env)
    ctx.run_harness(binary, run, env=e, timeout=timeout)
    results = read_ndjson(opath)
    if len(results) != len(cases):
        raise Infra("%s: %d cases but %d results" % (label, len(cases), len(results)))
    bad = 0
    for i, (c, r) in enumerate(zip(cases, results)):
        exp = expected(c)
        if r.get("got") == exp and not r.get("panic"):
            continue
        bad += 1
        if bad > max_report:
            continue
        # reproduce alone
        c1 = os.path.join(ctx.work, "case1-%s.ndjson" % label)
        o1 = os.path.join(ctx.work, "out1-%s.ndjson" % label)
        write_ndjson(c1, [c])
        e1 = dict(e)
        e1.update({"VERIF_CASES": c1, "VERIF_OUT": o1})
        ctx.run_harness(binary, run, env=e1, timeout=timeout)
        r1 = read_ndjson(o1)[0]
        if r1.get("got") == exp and not r1.get("panic"):
            raise Infra("%s: mismatch on case %d not reproduced when run alone" % (label, i))
        what = "%s: real code disagrees with spec: %s" % (label, describe(c, exp, r1) if describe else
                                                          json.dumps({"case": c, "expected": exp, "got": r1})[:1500])
        case = {"harness": run, "label": label, "case": c, "expected": exp, "got": r1, "env": env or {}}
        if kf:
            sig = kf(c, exp, r1)
            if sig:
                case["kf"] = sig
        ctx.violation(what, case)
    ctx.cov["evaluations"] += len(cases)
    return results


# ---------------------------------------------------------------- J binding: TLC judges records from real code
def judge(ctx, module, cfg, records, label, workers=None, timeout=3600, env=None):
    """TLC evaluates the spec on every record (spec/<module>.tla must read `ndJsonDeserialize(IOEnv.TRACE)`,
    walk it with a sharded index variable and print <<"MISMATCH", l, ...>> for every record the spec does not
    explain).  Returns (sorted 0-based indices of mismatching records, TLCResult)."""
    if not records:
        raise Infra("no records to judge for " + label)
    CH = 20000
    if len(records) > CH:       # big batches: one TLC run per chunk (ndJsonDeserialize and the JVM stay comfortable)
        bad, last, merged = [], None, {}
        for k in range(0, len(records), CH):
            b, last = judge(ctx, module, cfg, records[k:k + CH], "%s-part%d" % (label, k // CH), workers=workers, timeout=timeout, env=env)
            bad += [k + i for i in b]
            # the items TLC printed carry the record's 1-based position in its chunk as their first field: shift it
            for tag, items in last.tagged.items():
                for x in items:
                    if tag in ("MISMATCH", "DEV", "WHY", "KNOWN"):
                        head, sep, rest = x.partition(",")
                        try:
                            x = str(int(head.strip()) + k) + sep + rest
                        except ValueError:
                            pass
                    merged.setdefault(tag, []).append(x)
        last.tagged = merged
        return sorted(bad), last
    tpath = os.path.join(ctx.work, "trace-%s.ndjson" % label)
    write_ndjson(tpath, records)
    e = {"TRACE": tpath}
    if env:
        e.update(env)
    res = ctx.tlc(module, cfg, workers=workers, timeout=timeout, env=e, label="judge-" + label)
    if res.distinct < len(records):
        raise Infra("judge %s visited %d states for %d records" % (label, res.distinct, len(records)))
    bad = sorted({int(x.split(",")[0].strip()) - 1 for x in res.raw_items("MISMATCH")})
    ctx.cov["traces_validated_against_impl"] += len(records)
    ctx.cov["evaluations"] += len(records)
    return bad, res


def record_and_judge(ctx, binary, run, inputs, module, cfg, label, env=None, timeout=3600, kf=None,
                     describe=None, max_report=10, workers=None):
    """Feed `inputs` to harness function `run` (which writes one record per input: the input plus what the real
    code returned), let TLC judge every record, re-run and re-judge the rejected ones alone; reproduced
    rejections become violations.  Returns the records."""
    ipath = os.path.join(ctx.work, "in-%s.ndjson" % label)
    opath = os.path.join(ctx.work, "rec-%s.ndjson" % label)
    write_ndjson(ipath, inputs)
    e = {"VERIF_CASES": ipath, "VERIF_OUT": opath}
    if env:
        e.update(env)
    ctx.run_harness(binary, run, env=e, timeout=timeout)
    recs = read_ndjson(opath)
    if len(recs) != len(inputs):
        raise Infra("%s: %d inputs but %d records" % (label, len(inputs), len(recs)))
    bad, _ = judge(ctx, module, cfg, recs, label, timeout=timeout, workers=workers)
    if bad:
        sub = [inputs[i] for i in bad[:max_report]]
        write_ndjson(ipath + ".re", sub)
        e2 = dict(e)
        e2.update({"VERIF_CASES": ipath + ".re", "VERIF_OUT": opath + ".re"})
        ctx.run_harness(binary, run, env=e2, timeout=timeout)
        recs2 = read_ndjson(opath + ".re")
        bad2, _ = judge(ctx, module, cfg, recs2, label + "-re", timeout=timeout, workers=1)
        if not bad2:
            raise Infra("%s: %d rejected records, none reproduced" % (label, len(bad)))
        for j in bad2:
            r = recs2[j]
            what = "%s: spec rejects what the real code did: %s" % (label, describe(r) if describe else json.dumps(r)[:1500])
            case = {"harness": run, "label": label, "record": r, "env": env or {}}
            if kf:
                sig = kf(r)
                if sig:
                    case["kf"] = sig
            ctx.violation(what, case)
    return recs


def first_diff(exp, got):
    """Index of the first differing element of two lists (or -1)."""
    for i in range(max(len(exp), len(got))):
        if i >= len(exp) or i >= len(got) or exp[i] != got[i]:
            return i
    return -1


# ---------------------------------------------------------------- known findings
def load_known():
    p = os.path.join(ROOT, "known_findings.json")
    if not os.path.exists(p):
        return []
    with open(p) as fh:
        return json.load(fh).get("known", [])


def match_known(known, prop, what, replay_path):
    """A violation is a known finding only if its replay case matches the finding's `match` (all key/values
    present in the recorded case's `kf` dict)."""
    try:
        with open(replay_path) as fh:
            case = json.load(fh).get("case", {})
    except Exception:
        case = {}
    sig = case.get("kf") if isinstance(case, dict) else None
    if not sig:
        return None
    for k in known:
        if prop not in k.get("properties", [k.get("property")]):
            continue
        if all(sig.get(a) == b for a, b in k["match"].items()):
            return k
    return None


# ---------------------------------------------------------------- misc helpers
def write_ndjson(path, recs):
    with open(path, "w") as fh:
        for r in recs:
            fh.write(json.dumps(r, ensure_ascii=True) + "\n")


def read_ndjson(path):
    out = []
    with open(path) as fh:
        for line in fh:
            line = line.strip()
            if line:
                out.append(json.loads(line))
    return out


def main(argv):
    if len(argv) < 3:
        print("usage: check <Cnn> quick|thorough [--replay file]", file=sys.stderr)
        return 2
    prop, tier = argv[1], argv[2]
    replay = None
    if "--replay" in argv:
        replay = argv[argv.index("--replay") + 1]
    tier = os.environ.get("VERIF_TIER", tier) if tier not in ("quick", "thorough") else tier
    seed = int(os.environ.get("VERIF_SEED", "1") or "1")
    sys.path.insert(0, os.path.join(ROOT, "lib"))
    try:
        mod = __import__("props." + prop.lower(), fromlist=["run"])
    except ImportError as ex:
        print("no check for", prop, ex, file=sys.stderr)
        return 2
    ctx = Ctx(prop, tier, seed, replay)
    try:
        level = mod.run(ctx) or "model_checking"
        return ctx.finish(level)
    except BaseException as ex:
        if not isinstance(ex, Infra):
            import traceback
            traceback.print_exc()
        log("INFRA ERROR:", ex)
        if ctx.violations:
            # reproduced violations were already recorded before the infrastructure problem (e.g. a later stage met a
            # crashing binary): they stand; the infra error is reported alongside
            log("reporting the %d violation(s) recorded before the infrastructure error" % len(ctx.violations))
            ctx.cov["infra_error_after_violations"] = str(ex)[:500]
            if not ctx.cov.get("distinct_nontrivial"):
                ctx.cov["distinct_nontrivial"] = max(2, len(ctx.violations))
            if not ctx.cov.get("evaluations"):
                ctx.cov["evaluations"] = len(ctx.violations)
            if not ctx.cov["samples"]:
                ctx.cov["samples"].append({"violation": ctx.violations[0][0][:300]})
            return ctx.finish("model_checking")
        if os.environ.get("VERIF_KEEP") != "1":
            shutil.rmtree(ctx.work, ignore_errors=True)
        return 2
