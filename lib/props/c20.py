"""C20 - the preview catches up with the focused line; superseded preview commands are terminated; none survives the
end of the session (spec/FzfPreview.tla, spec/Trace_Preview.tla)."""
import json, os, re
from concurrent.futures import ThreadPoolExecutor
import preview
from preview import Plan
from vlib import Infra, write_ndjson

# (StaleAfterReload of FzfPreview is not offered by Trace_Preview: the code cannot do it; a session that shows it is rejected)
KIND_OF_DEV = {"LostCancel": "lost-cancel", "LostKillAtExit": "survives-exit", "ExitBeforeKill": "survives-exit",
               "StaleAfterShow": "stale-after-show", "StaleAfterShowKeep": "stale-after-change-preview-window", "StaleRows": "stale-rows-after-loading", "LostOffsetReset": "lost-offset-reset"}
FINDING_OF_KIND = {"stale-after-change-preview-window": "F30", "lost-cancel": "F6", "survives-exit": "F6", "stale-after-show": "F18", "stale-rows-after-loading": "F24",
                   "lost-offset-reset": "F27"}


# ------------------------------------------------------------------ stimuli
def random_steps(rng, n, nitems, ngens=0):
    moves = ["up", "up", "up", "down", "up+up", "up+up+up", "page-up", "first", "last", "pos(%d)" % rng.randint(1, nitems), "down+down"]
    edits = ["put(a)", "put(b)", "put(1)", "put(2)", "backward-delete-char", "clear-query", "change-query(b1)", "change-query(a)",
             "change-query(ab2)", "change-query(zz)", "backward-delete-char+put(1)"]
    sels = ["toggle", "toggle+up", "toggle+down", "toggle+up+toggle", "clear-selection", "deselect", "select", "toggle-up"]
    pvs = ["refresh-preview", "toggle-preview", "toggle-preview+toggle-preview", "up+refresh-preview", "refresh-preview+up",
           "refresh-preview+refresh-preview", "toggle+refresh-preview"]
    # scrolled states: the next result arrives at another offset / at the same one (there and back)
    scrolls = ["preview-down", "preview-down", "preview-up", "preview-page-down", "preview-half-page-down", "preview-bottom", "preview-top",
               "preview-down+preview-down", "preview-down+preview-up", "preview-page-down+preview-page-up", "preview-half-page-up",
               "toggle-preview-wrap", "toggle-preview-wrap+toggle-preview-wrap", "preview-down+up", "up+preview-down", "preview-bottom+preview-top"]
    # the input is replaced (reload / reload-sync; instant, after a pause, in two parts): the line under the cursor becomes another
    # line although its index may stay what it was; with and without a selection to clear, alone and chained with a movement
    reloads = ["@R%d", "@S%d", "@R%d", "@S%d", "@Rs%d", "@Ss%d", "@Rp%d", "@Sp%d", "toggle+@R%d", "toggle+up+@S%d", "@R%d+up", "up+@S%d",
               "toggle+@Rs%d", "@S%d+toggle"]
    steps = []
    for _ in range(n):
        if rng.random() < 0.04:
            # the second way of hiding: change-preview-window(hidden) keeps the lines; things change while the window is away;
            # it comes back at the same or at another position (each on its own POST, the next step waits for a display)
            steps.append({"post": "@Wh"})
            for _k in range(rng.randint(1, 3)):
                if rng.random() < 0.6:
                    steps.append({"sleep": rng.choice([0.003, 0.03, 0.12, 0.3])})
                steps.append({"post": rng.choice(moves + edits[:6] + sels[:4])})
            if rng.random() < 0.7:
                steps.append({"sleep": rng.choice([0.01, 0.08, 0.25])})
            steps.append({"post": rng.choice(["@Ws", "@Ws", "@W%d" % rng.randrange(len(preview.LAYOUTS))])})
            steps.append({"until": "pv.display", "soft": True})
            continue
        r = rng.random()
        reloaded = False
        if r < 0.37:
            body = rng.choice(moves)
        elif r < 0.50:
            body = rng.choice(edits)
        elif r < 0.63:
            body = rng.choice(sels)
        elif r < 0.74:
            body = rng.choice(pvs)
        elif r < 0.87:
            body = rng.choice(scrolls)
        elif r < 0.94:
            if ngens:
                body = rng.choice(reloads) % rng.randint(0, ngens)
                reloaded = True
            else:
                body = rng.choice(moves)
        else:
            # another template (with / without {q}, {+}), then edits that keep the cursor on the same line: only the
            # version counter can tell the render loop that the preview must be refreshed
            steps.append({"post": "change-preview:" + rng.choice(sorted(preview.TEMPLATES))})      # resolved to the command by the driver
            if rng.random() < 0.5:
                steps.append({"until": "pv.display", "soft": True})
            body = rng.choice(["put(a)", "put(b)", "put(a)+backward-delete-char+put(b)", "toggle", "toggle+toggle", "up+change-query(a)+down",
                               "change-query(zz)", "toggle+put(a)"])
        steps.append({"post": body})
        r = rng.random()
        if reloaded and r < 0.5:
            steps.append({"until": "list.reload", "soft": True, "rel": "post"})      # (pseudo event: the terminal got the list of another input generation)
        elif r < 0.02:
            steps.append({"idle": 1.0})                  # nothing for a second: the watcher of a running command sits in its select
        elif r < 0.45:
            pass                                         # back to back
        elif r < 0.75:
            steps.append({"sleep": rng.choice([0.001, 0.003, 0.01, 0.03, 0.08, 0.12, 0.22, 0.3, 0.45, 0.52, 0.6])})
        elif r < 0.9:
            steps.append({"until": rng.choice(["pv.pick", "pv.start", "pv.kill", "pv.display", "pv.exit"]), "soft": True})
        else:
            steps.append({"burst": rng.choice(["up", "up", "down", "toggle"]), "until": rng.choice(["pv.pick", "pv.start"])})
    return steps


def talls_for(rng, h):
    """How many lines the commands print at once, by item index: shorter than, equal to and taller than the window of h
    rows, mixed so that a tall output is followed by a short one and by another tall one."""
    short = [1, 2, max(1, h - 1), max(1, h // 2)]
    tall = [h, h, h + 1, h + 4, 2 * h + 3]
    k = rng.randint(2, 5)
    out = [rng.choice(tall), rng.choice(short)] + [rng.choice(short + tall) for _ in range(k - 2)]
    if rng.random() < 0.5:
        rng.shuffle(out)
    return out


def random_plan(rng, sid, geoms):
    kinds = rng.choice([["endless"], ["instant"], ["endless", "instant", "slow", "mute", "incr", "incrlong", "ticking"],
                        ["endless", "instant", "mute"], ["slow", "incr", "mute", "instant"], ["ticking", "incrlong", "endless"],
                        ["instant", "mute"], ["mute", "endless", "instant"], ["instant", "slow"], ["pipe", "instant", "endless"],
                        ["late", "instant", "execend", "slow"], ["instant", "incr", "slow"], ["pipe", "execend", "endless", "instant"],
                        ["closed", "instant"], ["closed", "slow", "endless", "instant"]])
    nitems = rng.choice([40, 400, 3000])
    leave = rng.choice(["abort", "abort", "accept", "sigterm"])
    # input generations for reload: as many lines as before / fewer (the cursor may be pulled up) / more
    gens = [rng.choice([nitems, nitems, max(3, nitems // 3), 3, nitems + 13]) for _ in range(rng.choice([0, 0, 1, 2, 3]))]
    steps = random_steps(rng, rng.randint(5, 22), nitems, len(gens))
    observe = rng.random() < 0.85
    if not observe:
        # leave in the middle of things: right after a movement / as soon as the watcher got the cancel / at once
        steps += rng.choice([[{"post": "up"}], [{"post": "up"}, {"until": "pv.kill", "soft": True}], [{"post": "up"}, {"until": "pv.pick", "soft": True}],
                             [{"post": "toggle"}, {"sleep": 0.05}], []])
    layout = rng.randrange(len(preview.LAYOUTS))
    # --preview-window follow (not with commands that never stop printing: the screen may be one result behind)
    follow = rng.random() < 0.12 and not ({"ticking", "incrlong"} & set(kinds))
    return Plan(sid, rng.choice(sorted(preview.TEMPLATES)), kinds, nitems, steps, observe=observe, leave=leave, label="random",
                lead=rng.choice([0, 0, 0, 0.35]), talls=talls_for(rng, geoms[layout][3]), layout=layout, wrap=rng.random() < 0.3,
                suffix=rng.choice(["", "", "-" + "w" * rng.randint(8, 40)]), gens=gens, follow=follow)


def directed_plans(sid0, reps, geoms, rng):
    """Process-level schedules for TLC's deviation counterexamples (MC_Preview_dev*.cfg): they widen the windows in
    which the non-blocking cancel / kill finds the watcher outside its select; and the row-by-row scenarios: outputs
    shorter than / equal to / taller than the window following each other at the same and at another scroll offset."""
    plans = []
    sid = sid0
    nl = len(preview.LAYOUTS)
    first = {"until": "pv.display", "n0": 0}
    shown = {"until": "pv.display", "soft": True}
    for r in range(reps):
        # LostKillAtExit: cancel received, watcher sits in its previewCancelWait delay, the session ends
        plans.append(Plan(sid, "PA", ["endless"], 40, [{"until": "pv.start", "n0": 0}, {"post": "up"}, {"until": "pv.kill", "n0": 0}],
                          observe=False, leave=["abort", "accept", "sigterm"][r % 3], label="exit-during-cancel-wait", lead=1000)); sid += 1
        # LostCancel: movements until the previewer takes a request; the last movement falls between pick and the watcher's select
        plans.append(Plan(sid, "PA", ["endless"], 5000, [{"until": "pv.start", "n0": 0}, {"burst": "up", "until": "pv.pick"}],
                          observe=True, leave="abort", label="move-while-starting", layout=r % nl, talls=[2, geoms[r % nl][3] + 2])); sid += 1
        # LostKillAtExit: the session ends while the first command is being started
        plans.append(Plan(sid, "PA", ["endless"], 40, [{"until": "pv.pick", "n0": 0}], observe=False, leave="abort", label="exit-while-starting")); sid += 1
        # LostCancel (older request taken between try-send and Set): two announcements back to back
        plans.append(Plan(sid, "PB", ["pipe"], 400, [{"until": "pv.start", "n0": 0}] + [{"post": "up+refresh-preview"}] * 6,
                          observe=True, leave="sigterm", label="double-announce", layout=(r + 1) % nl, talls=[geoms[(r + 1) % nl][3], 1])); sid += 1
        # ---- rows: every layout in turn (r-th repetition: layouts r, r + reps, ...)
        for lay in range(r, nl, reps):
            h = geoms[lay][3]
            wrap = (lay + r) % 3 == 0
            # a tall output, then a short one, then another tall one, all at offset 0; then back
            plans.append(Plan(sid, "PA" if wrap else ["PB", "PA", "PD", "PC"][lay % 4], ["instant"], 40,
                              [first, {"post": "up"}, shown, {"post": "up"}, shown, {"post": "up"}, shown, {"post": "down"}],
                              label="tall-short-tall", talls=[h + 3, 1, 2 * h + 1, h], layout=lay, wrap=wrap,
                              suffix="-" + "w" * 36 if wrap else ["", "-" + "w" * 14, "-" + "w" * 33][(lay + r) % 3])); sid += 1
            # the same with commands of every duration (children of the shell: command lists, loops, a pipeline), back to back
            plans.append(Plan(sid, ["PA", "PD", "PB"][lay % 3], ["endless", "slow", "pipe", "incr", "instant"], 40,
                              [first, {"post": "up"}, {"until": "pv.start", "soft": True}, {"post": "up"}, {"sleep": 0.25}, {"post": "up"},
                               {"post": "up"}, shown, {"post": "up+up"}],
                              leave=["abort", "accept", "sigterm"][lay % 3], label="tall-short-tall-slow", talls=[h, 2, h + 5, 1, h + 1, h - 1], layout=lay, wrap=wrap)); sid += 1
            # scrolled: the next result arrives while the window shows another offset; there and back: at the same one
            plans.append(Plan(sid, "PB", ["instant", "slow"], 40,
                              [first, {"post": "preview-down"}, {"post": "preview-down"}, {"post": "up"}, shown, {"post": "preview-page-down"},
                               {"post": "preview-up"}, {"post": "up"}, shown, {"post": "preview-down+preview-up"}, {"post": "up"}, shown,
                               {"post": "preview-bottom"}, {"post": "down"}],
                              label="scrolled", talls=[2 * h + 3, h + 2, h, h + 1], layout=lay, wrap=False)); sid += 1
            plans.append(Plan(sid, "PD", ["ticking", "instant", "incrlong"], 40,
                              [first, {"post": "preview-half-page-down"}, {"post": "up"}, shown, {"post": "up"}, shown, {"sleep": 0.4},
                               {"post": "preview-down"}] + ([{"post": "toggle-preview-wrap"}] if lay % 2 else []),
                              leave="abort", label="scrolled-running", talls=[h + 1, 3, h - 1], layout=lay, wrap=(lay % 2 == 0),
                              suffix=["-" + "w" * 25, ""][(lay // 2) % 2])); sid += 1
        # StaleRows (TLC's counterexample MC_Preview_dev_rows.cfg replayed): a tall output on display, the next command is silent
        # for longer than previewDelayed ("Loading .."), meanwhile the window is repainted at the same offset
        lay = (2 * r) % nl
        h = geoms[lay][3]
        plans.append(Plan(sid, "PB", ["late"], 40, [first, {"post": "up"}, {"until": "pv.start", "n0": 1}, {"sleep": 0.62},
                                                    {"post": ["toggle-preview-wrap", "preview-down+preview-up", "preview-down"][r % 3]}]
                          + ([{"sleep": 0.02}, {"post": "preview-up"}] if r % 3 == 2 else []),
                          label="repaint-while-loading", talls=[h + 2, h + 4], layout=lay)); sid += 1
        # StaleAfterShow: window hidden, then move away + show + move back within one iteration of the action loop
        if r == 0:
            plans.append(Plan(sid, "PB", ["instant"], 40, [{"until": "pv.display", "n0": 0}, {"post": "toggle-preview"}, {"sleep": 0.2},
                                                           {"post": "up+toggle-preview+down"}], observe=True, leave="abort", label="show-and-move-back",
                              talls=[geoms[0][3] + 1, 2])); sid += 1
        if r == 0:
            # the right command runs last but prints nothing / there is nothing to preview: the window must be empty
            plans.append(Plan(sid, "PB", ["instant", "mute"], 40, [first, {"post": "up"}], label="mute-command", talls=[geoms[0][3] + 2])); sid += 1
            plans.append(Plan(sid, "PA", ["mute", "instant"], 40, [first, {"post": "up"}, {"until": "pv.display", "soft": True}, {"post": "down"}],
                              label="mute-command", talls=[geoms[1][3], 3], layout=1)); sid += 1
            plans.append(Plan(sid, "PD", ["instant"], 40, [first, {"post": "change-query(zz)"}], label="no-match-blank", talls=[geoms[2][3] + 1], layout=2)); sid += 1
            plans.append(Plan(sid, "PB", ["slow"], 40, [first, {"post": "up+change-query(zz)"}], label="no-match-blank", talls=[geoms[3][3]], layout=3)); sid += 1
            # template without {q} -> template with {q}, then query edits that leave the same line under the cursor
            plans.append(Plan(sid, "PB", ["instant"], 40, [first, {"post": "change-preview:PA"}, {"until": "pv.display", "soft": True},
                                                           {"post": "put(a)"}], label="query-after-change-preview", talls=[geoms[4][3] + 1, 2], layout=4)); sid += 1
            plans.append(Plan(sid, "PD", ["endless"], 40, [first, {"post": "change-preview:PC"}, {"until": "pv.display", "soft": True},
                                                           {"post": "up+change-query(b)+down"}, {"sleep": 0.3}, {"post": "put(1)"}],
                              leave="sigterm", label="query-after-change-preview")); sid += 1
            # template without {+} -> template with {+}, then toggles that leave the cursor where it is; and back
            plans.append(Plan(sid, "PD", ["instant"], 40, [first, {"post": "change-preview:PB"}, {"until": "pv.display", "soft": True},
                                                           {"post": "toggle"}, {"sleep": 0.2}, {"post": "up+toggle+down"}],
                              label="toggle-after-change-preview", talls=[geoms[5][3], 1], layout=5)); sid += 1
            plans.append(Plan(sid, "PA", ["instant"], 40, [first, {"post": "put(a)"}, {"post": "change-preview:PD"}, {"until": "pv.display", "soft": True},
                                                           {"post": "put(b)"}, {"post": "change-preview:PC"}, {"post": "backward-delete-char"}],
                              leave="accept", label="query-after-change-preview", talls=[3, geoms[0][3] + 1])); sid += 1
        plans += reload_plans(sid, r, geoms)
        sid += 20
        plans += window_plans(sid, r, geoms)
        sid += 20
        # no deviation expected: leave while a never-ending command runs and its watcher is in the select
        plans.append(Plan(sid, "PC", ["ticking"], 40, [{"until": "pv.display", "n0": 0}], observe=True, leave=["sigterm", "accept", "abort"][r % 3],
                          label="exit-while-running", talls=[2])); sid += 1
    return plans


def reload_plans(sid0, r, geoms):
    """The list is a function of the input generation: reload(CMD) / reload-sync(CMD) with commands that print OTHER lines at
    the same positions - as many as before, fewer, more - while the selection is empty / not empty, with and without a query,
    while the preview of the old line is on display / still running.  The cursor keeps its position, the item under it keeps
    its INDEX: only the content tells that the preview on display is not the one for the line under the cursor."""
    nl = len(preview.LAYOUTS)
    first = {"until": "pv.display", "n0": 0}
    shown = {"until": "pv.display", "soft": True}
    switched = {"until": "list.reload", "soft": True, "rel": "post"}
    plans = []

    def add(tag, kinds, steps, label, gens, lay, talls=None, **kw):
        h = geoms[lay % nl][3]
        plans.append(Plan(sid0 + len(plans), tag, kinds, 40, steps, label=label, gens=gens, layout=lay % nl,
                          talls=talls or [h + 2, 2, h, 1], **kw))
    R, S = ("@R1", "@S1") if r % 2 == 0 else ("@S1", "@R1")
    slowR = ["@Rs1", "@Ss1", "@Rp1", "@Sp1"][r % 4]
    tags = ["PB", "PD", "PA", "PC"]
    # as many lines as before, empty selection, no query: cursor on the first line / further up (the seeded case C20-7)
    add(tags[r % 4], ["instant"], [first, {"post": R}], "reload-same-index", [40], r)
    add(tags[(r + 1) % 4], ["instant"], [first, {"post": "up+up"}, shown, {"post": S}], "reload-same-index", [40], r + 1)
    add(tags[(r + 2) % 4], ["instant"], [first, {"post": "up+up+up"}, shown, {"post": slowR}], "reload-same-index-slow-input", [40], r + 2)
    # the preview of the old line is still running (never-ending / slow) when the list is replaced
    add(tags[(r + 3) % 4], ["endless"], [first, {"post": "up"}, shown, {"post": R}], "reload-while-preview-runs", [40], r + 3,
        leave=["abort", "accept", "sigterm"][r % 3])
    add("PB", ["slow", "instant"], [first, {"post": "up+up"}, {"until": "pv.start", "soft": True}, {"post": S}], "reload-while-preview-runs", [40], r + 4)
    add("PD", ["late", "instant"], [first, {"post": "up"}, {"until": "pv.start", "soft": True}, {"post": slowR}, {"sleep": 0.2}, {"post": "preview-down"}],
        "reload-while-preview-runs", [40], r + 5)
    # a selection to clear (the version is bumped with the selection as well)
    add("PA", ["instant"], [first, {"post": "toggle+up+toggle+up"}, shown, {"post": R}], "reload-with-selection", [40], r + 6)
    add("PC", ["instant", "slow"], [first, {"post": "toggle"}, shown, {"post": S}], "reload-with-selection", [40], r + 7)
    # with a query: the position is kept, the index under the cursor need not be
    add("PA", ["instant"], [first, {"post": "change-query(b1)"}, shown, {"post": "up"}, shown, {"post": R}], "reload-with-query", [40], r)
    add("PC", ["instant"], [first, {"post": "put(b)"}, shown, {"post": slowR}, switched, {"post": "backward-delete-char"}], "reload-with-query", [40], r + 1)
    # fewer lines (the cursor is pulled up / stays), more lines; back to the first input; the same input again
    add("PB", ["instant"], [first, {"post": "up+up+up+up+up"}, shown, {"post": R}], "reload-fewer", [3], r + 2)
    add("PD", ["instant"], [first, {"post": "up"}, shown, {"post": S}], "reload-fewer", [3], r + 3)
    add("PB", ["instant"], [first, {"post": "last"}, shown, {"post": R}], "reload-more", [61], r + 4)
    add("PD", ["instant"], [first, {"post": "up+up"}, shown, {"post": "@R1"}, switched, shown, {"post": "@S2"}, switched, shown, {"post": "@R0"}],
        "reload-there-and-back", [40, 40], r + 5)
    add("PB", ["instant"], [first, {"post": "up"}, shown, {"post": "@S1"}, switched, shown, {"post": "@R1"}], "reload-same-input-again", [40], r + 6)
    # two reloads back to back (the reader is restarted while it reads); a reload and a movement in one chain
    add("PA", ["instant"], [first, {"post": "@Rp1"}, {"post": "@R2"}], "reload-twice", [40, 40], r + 7)
    add("PB", ["instant", "slow"], [first, {"post": "up+" + R + "+up"}], "reload-and-move", [40], r)
    add("PD", ["instant"], [first, {"post": S}, {"burst": "up", "until": "list.reload", "rel": "post"}], "reload-and-move", [40], r + 1)
    # the window is hidden while the list is replaced, then shown
    add("PB", ["instant"], [first, {"post": "toggle-preview"}, {"post": R}, switched, {"sleep": 0.2}, {"post": "toggle-preview"}],
        "reload-while-hidden", [40], r + 2)
    return plans


def window_plans(sid0, r, geoms):
    """(A) change-preview-window(hidden) - the way of hiding that KEEPS the lines - then movements / query edits / toggles, then
    the window comes back at the same or at another position: the preview must be restarted for the line under the cursor;
    (B) --preview-window follow: tall / short / tall outputs, every row compared as always (each plan ENDS in the state of
    interest: the rows are observed at the end); (C) commands of kind `closed` (print, close stdout and stderr, go on for
    ever): superseded long after their start (`idle`: the watcher sits in its select) they must be gone and the new command
    must run; the same at the end of the session."""
    nl = len(preview.LAYOUTS)
    first = {"until": "pv.display", "n0": 0}
    shown = {"until": "pv.display", "soft": True}
    plans = []

    def add(tag, kinds, steps, label, lay, talls=None, **kw):
        h = geoms[lay % nl][3]
        plans.append(Plan(sid0 + len(plans), tag, kinds, 40, steps, label=label, layout=lay % nl, talls=talls or [h + 2, 2, h, 1], **kw))
    other = "@W%d" % ((r + 3) % nl)
    # (A)
    add("PB", ["instant"], [first, {"post": "@Wh"}, {"sleep": 0.2}, {"post": "up+up"}, {"sleep": 0.2}, {"post": "@Ws"}], "cpw-hide-move-show", r)
    add("PD", ["instant"], [first, {"post": "@Wh"}, {"post": "up"}, {"post": "up"}, {"post": "up"}, {"sleep": 0.3}, {"post": other}],
        "cpw-hide-move-show-elsewhere", r + 1)
    add("PA", ["instant"], [first, {"post": "@Wh"}, {"sleep": 0.1}, {"post": "put(b)"}, {"sleep": 0.3}, {"post": "@Ws"}], "cpw-hide-edit-show", r + 2)
    add("PC", ["instant", "slow"], [first, {"post": "@Wh"}, {"sleep": 0.1}, {"post": "toggle"}, {"sleep": 0.2}, {"post": "@Ws"}, shown,
                                    {"post": "@Wh"}, {"post": "up+up+up"}, {"sleep": 0.15}, {"post": other}], "cpw-hide-toggle-show-twice", r + 3)
    add("PB", ["endless"], [first, {"post": "@Wh"}, {"sleep": 0.7}, {"post": "up"}, {"sleep": 0.2}, {"post": "@Ws"}], "cpw-hide-while-running", r + 4,
        leave=["abort", "accept", "sigterm"][r % 3])
    add("PB", ["instant"], [first, {"post": "@Wh"}, {"sleep": 0.2}, {"post": "@Ws"}], "cpw-hide-show-same-line", r + 5)
    # the wrap mode switched by toggle-preview-wrap does not survive change-preview-window (the options are rebuilt from the
    # ones the finder was started with): lines wider than the window, wrap toggled, hidden, shown again
    add("PA", ["instant"], [first, {"post": "toggle-preview-wrap"}, shown, {"post": "@Wh"}, {"sleep": 0.2}, {"post": "@Ws"}, shown,
                            {"post": "toggle-preview-wrap"}, shown, {"post": "up"}], "cpw-after-toggle-wrap", r + 1, suffix="-" + "w" * 16,
        wrap=(r % 2 == 1))
    if r == 0:          # F30 (repaired in /repo, 57de50f): show-again and move back in one chain; passes on the repaired tree
        add("PB", ["instant"], [first, {"post": "@Wh"}, {"sleep": 0.3}, {"post": "up+@Ws+down"}], "cpw-show-and-move-back", r)
    # (B)
    for k, lay in enumerate((r, r + 3)):
        h = geoms[lay % nl][3]
        talls = [2 * h + 9, 2, h + 5, 1, h]
        add("PB", ["instant"], [first, {"post": "up"}], "follow-tall-short", lay, talls=talls, follow=True)
        add("PD", ["instant", "slow"], [first, {"post": "up"}, shown, {"post": "up"}], "follow-tall-short-tall", lay, talls=talls, follow=True, wrap=(k == 1))
        add("PB", ["instant"], [first, {"post": "up"}, shown, {"post": "up"}, shown, {"post": "up"}], "follow-tall-short-tall-short", lay + 1, talls=talls, follow=True)
    h = geoms[(r + 2) % nl][3]
    add("PA", ["incr", "instant"], [first, {"post": "up"}, shown, {"post": "down"}], "follow-growing", r + 2, talls=[h - 1, 3 * h], follow=True)
    add("PB", ["instant"], [first, {"post": "preview-up"}, {"post": "preview-up"}, {"post": "up"}, shown, {"post": "up"}], "follow-scrolled-away", r + 2,
        talls=[h + 6, 3, 2 * h], follow=True)
    # (C)
    add("PB", ["closed"], [first, {"idle": 1.0}, {"post": "up"}], "closed-output-superseded", r, talls=[2, 3])
    add("PA", ["closed", "instant"], [first, {"idle": 1.0}, {"post": "up"}, shown, {"post": "up"}, shown, {"idle": 1.0}, {"post": "put(b)"}],
        "closed-output-superseded", r + 1, talls=[h, 1, 3])
    add("PD", ["closed"], [first, {"idle": 1.0}], "closed-output-exit", r + 2, talls=[2], leave=["sigterm", "accept", "abort"][r % 3])
    return plans


# ------------------------------------------------------------------ judging
def validate(ctx, events, label):
    tpath = os.path.join(ctx.work, "pvtrace-%s.ndjson" % label)
    write_ndjson(tpath, events)
    res = ctx.tlc("Trace_Preview", "Trace_Preview.cfg", workers=1, timeout=1800, env={"TRACE": tpath}, label="trace-" + label, expect_ok=False)
    if res.code != 0 or res.depth == 0:
        raise Infra("Trace_Preview failed to run:\n" + res.tail())
    ends = {}
    for d in res.raw_items("END"):
        m = re.match(r"\s*(\d+),\s*(\d+),\s*\{(.*)\}", d)
        if not m:
            raise Infra("cannot parse END line " + d)
        ends.setdefault(int(m.group(1)), []).append((int(m.group(2)), sorted(x.strip().strip('"') for x in m.group(3).split(",") if x.strip())))
    return res.depth - 1, ends, res


def judge_sessions(ctx, results, label):
    """results: {sid: (plan, events)}.  Every session must be accepted by Trace_Preview; a session accepted only with
    the help of deviation actions is a (classified) violation, a rejected one an unexplained violation."""
    pending = sorted(results)
    guard = 0
    accepted_clean = 0
    while pending and guard < 12:
        guard += 1
        evs, offs = [], []
        for sid in pending:
            e = results[sid][1]
            offs.append((len(evs), len(evs) + len(e), sid))
            evs += e
        acc, ends, res = validate(ctx, evs, "%s-%d" % (label, guard))
        ctx.cov["evaluations"] += acc
        rejected = None
        for (a, b, sid) in offs:
            plan, s_evs = results[sid]
            if acc >= b:
                flags = ends.get(sid, [])
                if not flags:
                    raise Infra("session %d accepted but no END line" % sid)
                if any(f == 0 for f, _ in flags):
                    accepted_clean += 1
                else:
                    # accepted only with the help of named deviation actions of the specification: one (classified)
                    # violation per kind of consequence; the signature comes from TLC's explanation, nothing else
                    devs = min((d for _, d in flags), key=len)
                    q = [e for e in s_evs if e["ev"] == "quiet"]
                    for kind in sorted({KIND_OF_DEV[d] for d in devs}):
                        mine = [d for d in devs if KIND_OF_DEV[d] == kind]
                        what = "session %d (%s): explained only by deviation %s of FzfPreview (%s): " % (
                            sid, plan.label, "+".join(mine), FINDING_OF_KIND[kind])
                        if kind == "survives-exit":
                            what += "preview process group %s still alive after fzf exited (%s)" % (s_evs[-1]["survivors"], s_evs[-1]["how"])
                        elif kind == "stale-after-change-preview-window":
                            what += ("at quiescence the cursor is on item %s but the window shows %s: the request announced by change-preview-window "
                                     "(back from hidden; t.version is not bumped there) was served and the render loop, which finds the focus it "
                                     "recorded while the window was hidden, announced nothing after it" % (q[-1]["cur"], q[-1]["rows"][:3]) if q else "stale preview")
                        elif kind == "stale-after-show":
                            what += ("at quiescence the cursor is on item %s but the window shows %s: the request announced by toggle-preview "
                                     "was served and the render loop announced nothing after it" % (q[-1]["cur"], q[-1]["rows"][:3]) if q else "stale preview")
                        elif kind == "stale-rows-after-loading":
                            what += ("at quiescence the cursor is on item %s, the command for it ran last and fzf took its output over, but only the "
                                     "FIRST row of the window was repainted - the rows below still show an older preview: %s (reqPreviewDelayed had "
                                     "put the new version into t.previewer.version while the old lines were repainted, so the result counted as "
                                     "`unchanged` in printPreview)" % (q[-1]["cur"], q[-1]["rows"][:4]) if q else "stale rows")
                        elif kind == "lost-offset-reset":
                            what += ("the first result of a command did not reset the scroll offset (overwritten in the one-slot request box by a "
                                     "later result of the same command): window shows %s" % (q[-1]["rows"][:3],) if q else "stale offset")
                        else:
                            what += ("at quiescence the cursor is on item %s (query %r, selection %s), the window shows %s, the never-ending "
                                     "command of an older request still runs and the request for the current state was never taken" % (
                                         q[-1]["cur"], q[-1]["q"], q[-1]["sel"], q[-1]["rows"][:3]) if q else "stale preview")
                        ctx.violation(what, {"plan": plan.to_json(), "events": s_evs, "deviations": devs, "kf": {"finding": FINDING_OF_KIND[kind], "kind": kind}})
            elif rejected is None:
                rejected = (a, b, sid)
        if rejected is None:
            return accepted_clean
        a, b, sid = rejected
        plan, s_evs = results[sid]
        bad = s_evs[acc - a]
        prev = s_evs[max(0, acc - a - 5):acc - a]
        short = lambda e: {k: v for k, v in e.items() if k not in ("log", "texts", "tmpls")}
        hint = ""
        if bad["ev"] == "quiet" and bad.get("curtext") and any(e["ev"] == "reload" for e in s_evs[:acc - a]):
            # (wording only) the input was replaced during the session and the line under the cursor is named nowhere in the window
            if bad["visible"] and not any(("|%s|" % bad["curtext"]) in r + "|" or ("|%s,|" % bad["curtext"]) in r for r in bad["rows"]):
                hint = " [after a reload the line under the cursor is %r (index %d); the preview window does not show its preview]" % (
                    bad["curtext"], bad["cur"])
        ctx.violation("session %d (%s, window %s%s, %s lines by item): spec rejects event %d %s (after %s)%s" % (
            sid, plan.label, preview.LAYOUTS[plan.layout], ",wrap" if plan.wrap else "", plan.talls, acc - a,
            json.dumps(short(bad))[:900], json.dumps([short(e) for e in prev])[:700], hint),
            {"plan": plan.to_json(), "events": s_evs, "rejected_at": acc - a})
        pending = [x for x in pending if x > sid]
    return accepted_clean


DEV_CFGS = (("MC_Preview_dev_reload.cfg", "ConvergenceStaleAfterReload"), ("MC_Preview_dev.cfg", "ConvergenceLostCancel"), ("MC_Preview_dev_exit.cfg", "ExitCleanLostKill"),
            ("MC_Preview_dev_show.cfg", "ConvergenceStaleAfterShow"), ("MC_Preview_dev_showkeep.cfg", "ConvergenceStaleAfterShowKeep"), ("MC_Preview_dev_rows.cfg", "ConvergenceStaleRows"),
            ("MC_Preview_dev_offset.cfg", "ConvergenceLostOffsetReset"))


def model_checking(ctx):
    """(1) the design: all interleavings of <= 2 (quick) / 3 (thorough) user actions with every previewer / watcher /
    command / render-loop step, safety + liveness on one-line outputs (MC_Preview*.cfg), safety on outputs shorter than,
    equal to and taller than the window with scrolling, re-wrapping and "Loading .." (MC_Preview_rows*.cfg); then the
    deviation configs, whose counterexamples are kept.  The TLC runs go on side by side (and beside the sessions)."""
    jobs = [("MC_Preview_cov.cfg", dict(workers=2, coverage=True, timeout=1500)),           # every action taken (1 user action)
            ("MC_Preview_cov2.cfg", dict(workers=2, coverage=True, timeout=1500)),          # 2 user actions, small: change-preview-window hide + show
            ("MC_Preview_quick.cfg", dict(workers=4, timeout=1500)),                        # incl. commands that close their output and go on
            ("MC_Preview_follow_quick.cfg", dict(workers=ctx.pick(4, 3), timeout=1500)),    # --preview-window follow, rows
            ("MC_Preview_rows_quick.cfg", dict(workers=ctx.pick(6, 4), timeout=1500))]
    if not ctx.quick:
        jobs += [("MC_Preview.cfg", dict(workers=6, timeout=5400)),            # 3 user actions (incl. reload), one-line outputs, liveness: 8.9 M states
                 ("MC_Preview_rows.cfg", dict(workers=5, timeout=5400)),       # 3 user actions, rows + scrolling + reload (finite, no {q}): 23.2 M states
                 ("MC_Preview_show4.cfg", dict(workers=5, timeout=5400)),      # 4 user actions (toggle-preview chains, finding F18; no reload): 21 M states
                 ("MC_Preview_rows_fixed.cfg", dict(workers=2, timeout=5400))] # the repair of F24 at design level: StaleRows impossible
    ex = ThreadPoolExecutor(max_workers=len(jobs) + len(DEV_CFGS))
    mcs = [(cfg, ex.submit(ctx.tlc, "FzfPreview", cfg, **kw)) for cfg, kw in jobs]
    devs = [(cfg, inv, ex.submit(ctx.tlc, "FzfPreview", cfg, workers=1, timeout=900, expect_ok=False, args=["-difftrace"])) for cfg, inv in DEV_CFGS]
    ex.shutdown(wait=False)

    def finish():
        for cfg, fut in mcs:
            res = fut.result()
            ctx.cov["states"] += res.distinct
            ctx.cov["transitions"] += res.generated
            if res.action_cov:
                ctx.cov["action_coverage"][res.label] = res.action_cov
        if not ctx.cov["action_coverage"]:
            raise Infra("no action coverage reported")
        # every action taken in one of the coverage runs (1 user action with everything on; 2 user actions on a small configuration)
        taken = {}
        for label, res in ctx.cov["action_coverage"].items():
            for a, n in res.items():
                taken[a] = taken.get(a, 0) + n
        zero = [a for a, n in taken.items() if n == 0 and a.split(".")[1] not in ("Init",)]
        if zero:
            raise Infra("actions never taken in %s: %s" % (sorted(ctx.cov["action_coverage"]), zero))
        for cfg, inv, fut in devs:
            res = fut.result()
            if res.code != 12 or not any(inv in e for e in res.errors):
                raise Infra("%s: expected a counterexample to %s (exit 12), got exit %d\n%s" % (cfg, inv, res.code, res.tail(20)))
            with open(res.outp, errors="replace") as fh:
                acts = re.findall(r"^State \d+: <(\w+)[ (]", fh.read(), re.M)
            ctx.cov.setdefault("deviation_counterexamples", {})[inv] = acts
    return finish


def run(ctx):
    finish_mc = model_checking(ctx)

    if ctx.replay:
        rp = json.load(open(ctx.replay))["case"]
        acc, ends, res = validate(ctx, rp["events"], "replay")
        flags = ends.get(rp["events"][0]["sid"], [])
        if acc < len(rp["events"]):
            ctx.violation("recorded session rejected again at event %d" % acc, rp)
        elif not any(f == 0 for f, _ in flags):
            ctx.violation("recorded session is again explained only by deviations %s" % flags, rp)
        ctx.cov["distinct_nontrivial"] = 1
        ctx.cov["evaluations"] = len(rp["events"])
        finish_mc()
        return "model_checking"

    # (2) J: recorded sessions of the real binary
    fzf = ctx.build_fzf()
    rng = ctx.rng
    with ThreadPoolExecutor(max_workers=4) as ex:           # where each layout puts the preview window (measured on the real binary)
        geoms = list(ex.map(lambda lay: preview.calibrate(ctx, fzf, lay), preview.LAYOUTS))
    ctx.cov["window_geometry"] = {lay: {"x": g[0], "y": g[1], "W": g[2], "H": g[3]} for lay, g in zip(preview.LAYOUTS, geoms)}
    plans = directed_plans(1000, ctx.pick(2, 8), geoms, rng)
    plans += [random_plan(rng, sid, geoms) for sid in range(ctx.pick(30, 500))]
    if os.environ.get("VERIF_C20_ONLY"):         # development aid: only the scenarios whose label matches
        plans = [p for p in plans if re.search(os.environ["VERIF_C20_ONLY"], p.label)]
    for p in plans:                      # template tags -> commands (the driver knows the commands it builds)
        for st in p.steps:
            if "post" in st and st["post"].startswith("change-preview:"):
                st["post"] = "change-preview:" + preview.command(st["post"].split(":", 1)[1], p.kinds, p.lead, p.talls)

    retried = []

    def do(plan):
        try:
            return plan.sid, plan, preview.run_session(ctx, fzf, plan, geoms)
        except preview.Unsettled:
            # not reproduced = noise of the machine; reproduced = recorded as it is and judged by the specification
            retried.append(plan.sid)
            return plan.sid, plan, preview.run_session(ctx, fzf, plan, geoms, record_unsettled=True)
    results = {}
    with ThreadPoolExecutor(max_workers=8) as ex:
        for sid, plan, evs in ex.map(do, plans):
            results[sid] = (plan, evs)
    clean = judge_sessions(ctx, results, "all")
    finish_mc()

    allev = [e for sid in results for e in results[sid][1]]
    kinds = {}
    for e in allev:
        kinds[e["ev"]] = kinds.get(e["ev"], 0) + 1
    ctx.cov["traces_validated_against_impl"] = len(results)
    ctx.cov["sessions_rerun_because_unsettled"] = len(retried)
    ctx.cov["sessions_accepted_without_deviation"] = clean
    ctx.cov["events_by_kind"] = kinds
    ctx.cov["try_sends"] = {"taken": sum(1 for e in allev if e["ev"] == "sig" and e["sent"]),
                            "dropped": sum(1 for e in allev if e["ev"] == "sig" and not e["sent"])}
    ctx.cov["kills"] = {"delayed_cancel": sum(1 for e in allev if e["ev"] == "kill" and not e["immediately"]),
                        "immediate": sum(1 for e in allev if e["ev"] == "kill" and e["immediately"])}
    ctx.cov["quiescent_states"] = {}
    for e in allev:
        if e["ev"] == "quiet":
            ctx.cov["quiescent_states"][e["state"]] = ctx.cov["quiescent_states"].get(e["state"], 0) + 1
    quiets = [e for e in allev if e["ev"] == "quiet" and e["visible"]]
    ctx.cov["quiescent_with_empty_window"] = sum(1 for e in quiets if not any(e["rows"]))
    ctx.cov["rows_compared"] = sum(len(e["rows"]) for e in quiets)
    ctx.cov["quiescent_windows"] = {"full": sum(1 for e in quiets if e["rows"] and all(e["rows"])),
                                    "partly_filled": sum(1 for e in quiets if any(e["rows"]) and not all(e["rows"])),
                                    "scrolled": sum(1 for e in quiets if e["rows"] and re.search(r"\b([2-9]|\d\d+)/\d+$", e["rows"][0])),
                                    "with_wrapped_rows": sum(1 for e in quiets if any(r.startswith("> ") for r in e["rows"]))}
    ctx.cov["scroll_and_wrap_actions"] = sum(1 for e in allev if e["ev"] in ("scroll", "tw"))
    ctx.cov["layouts"] = sorted({results[sid][0].layout for sid in results})
    ctx.cov["reloads"] = {"generations_taken_over": kinds.get("reload", 0),
                          "sessions": sum(1 for sid in results if any(e["ev"] == "reload" for e in results[sid][1])),
                          "quiescent_after_reload": sum(1 for sid in results for i, e in enumerate(results[sid][1])
                                                        if e["ev"] == "quiet" and any(x["ev"] == "reload" for x in results[sid][1][:i])),
                          "quiescent_after_reload_with_query": sum(1 for sid in results for i, e in enumerate(results[sid][1])
                                                                   if e["ev"] == "quiet" and e["q"] and any(x["ev"] == "reload" for x in results[sid][1][:i])),
                          "reload_requests_not_served": sum(1 for e in allev if e["ev"] == "quiet" and e.get("reload") == "lost")}
    ctx.cov["change_preview_window"] = {"hidden": sum(1 for e in allev if e["ev"] == "cpw" and e["hidden"]),
                                        "shown_again": sum(1 for e in allev if e["ev"] == "cpw" and not e["hidden"])}
    ctx.cov["follow_sessions"] = sum(1 for sid in results if results[sid][0].follow)
    ctx.cov["idle_points"] = kinds.get("idle", 0)
    ctx.cov["closed_output_commands_started"] = sum(1 for sid in results for e in results[sid][1] if e["ev"] == "pick" and e["item"] >= 0
                                                    and preview.kind_of(results[sid][0].kinds, e["item"]) == "closed")
    ctx.cov["change_preview_posts"] = sum(1 for sid in results for st in results[sid][0].steps if st.get("post", "").startswith("change-preview:"))
    ctx.cov["exits"] = {}
    for e in allev:
        if e["ev"] == "exit":
            k = e["how"] + ("/survivors" if e["survivors"] else "/clean")
            ctx.cov["exits"][k] = ctx.cov["exits"].get(k, 0) + 1
    distinct = {json.dumps([e["tag"], e["cur"] >= 0, e["q"] != "", len(e["sel"]), e["visible"], e["state"], len(e["procs"]), e["curtext"][:2],
                            sum(1 for r in e["rows"] if r), bool(e["rows"]) and "/" in e["rows"][0][-8:]])
                for e in allev if e["ev"] == "quiet"}
    distinct |= {json.dumps([results[sid][0].label, results[sid][1][-1]["how"], bool(results[sid][1][-1]["survivors"])]) for sid in results}
    ctx.cov["distinct_nontrivial"] = len(distinct)
    ctx.cov["rule"] = ("tmux-driven sessions of the real binary with preview commands that log their own invocation, hold a session lock and "
                       "print multi-line outputs naming the item on every line (shorter than / equal to / taller than the window, by item "
                       "index; instant / slow / late / incremental / never-ending incl. command lists and pipelines whose long-running part "
                       "is a child of the shell, and commands that close stdout / stderr and go on for ever, by item index); preview window down / up / left / right, with and without border, wrap on / "
                       "off; seeded histories of movements, query edits, toggles, toggle-preview, refresh-preview, change-preview, preview "
                       "scrolling, toggle-preview-wrap and reload / reload-sync (commands that print other lines at the same positions: as "
                       "many, fewer, more; instant, after a pause, in two parts) POSTed back to back, after seeded pauses, or as soon as a previewer event (pick / "
                       "start / kill / display / exit) is logged; the pv.* hook trace plus LOG, /proc scan, GET / and EVERY ROW of the captured "
                       "preview window at quiescence and the /proc scan after abort / accept / SIGTERM are validated by Trace_Preview; "
                       "non-trivial = distinct (template, has item, has query, selection size, window visible, previewer state, live "
                       "commands, input generation of the line under the cursor, rows filled, scroll indicator) quiescence observations + distinct (scenario, way of leaving, survivors) endings")
    for sid in sorted(results)[:3]:
        ctx.sample([{k: v for k, v in e.items() if k not in ("texts", "tmpls", "log")} for e in results[sid][1] if e["ev"] in ("enq", "pick", "quiet", "exit")][:6])
    ctx.assumptions += ["a terminal hang-up (SIGHUP, which fzf does not handle) and SIGKILL of fzf are not ways of leaving the property speaks about",
                        "placeholder quoting itself is C12's subject: queries and items here are plain words",
                        "MC: instant and slow commands are the same in an untimed model (finite vs never-ending)",
                        "the position and size of the preview window on the screen are measured on the real binary (a ruler preview per layout), "
                        "not specified: C20 is about what the window shows; texts are ASCII without tabs (one cell per character)",
                        "the spinner and the scroll indicator drawn over the right end of the first row are code-derived; the 'Loading ..' "
                        "message is not observed (no quiescent state shows it)",
                        "reload: the generation on display is read from the hook trace (coord.restart names the command, the first term.list with "
                        "another major revision is the moment Terminal.UpdateList replaced the list); a reload request the coordinator never "
                        "served (overwritten in the event box) is recorded as it is, not judged (C08's subject)",
                        "no resize during a session; change-preview-window only as (hidden) and, from there, back to one of the 8 layouts "
                        "(never mixed with toggle-preview while hidden; no change of a visible window); --preview-window follow not with "
                        "commands that never stop printing; header lines (~N) and scroll specs (+N) not used",
                        "timing assumption behind `idle` (Trace_Preview.TIdle): a watcher goroutine reaches its select within 1 s of the "
                        "command's start when the driver POSTs nothing and no previewer event is logged meanwhile - only then is a dropped "
                        "cancel / kill denied the LostCancel / LostKillAtExit reading (finding F6)"]
    return "model_checking"
