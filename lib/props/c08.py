"""C08 - interactive results converge to a fresh filter of the current query (spec/FzfPipeline.tla, Trace_Pipeline.tla)."""
import json, os
from concurrent.futures import ThreadPoolExecutor
import pipeline, matcher_sched
from vlib import Infra, write_ndjson


def validate(ctx, events, table, label):
    """Runs Trace_Pipeline over the concatenated events; returns (accepted_prefix_len, devs, res)."""
    tpath = os.path.join(ctx.work, "ptrace-%s.ndjson" % label)
    opath = os.path.join(ctx.work, "ptable-%s.json" % label)
    write_ndjson(tpath, events)
    with open(opath, "w") as fh:
        json.dump(table, fh)
    res = ctx.tlc("Trace_Pipeline", "Trace_Pipeline.cfg", workers=1, timeout=1800, env={"TRACE": tpath, "TABLES": opath},
                  label="trace-" + label, expect_ok=False)
    if res.code not in (0, 10, 12, 13) and res.distinct == 0:
        raise Infra("Trace_Pipeline failed to run:\n" + res.tail())
    accepted = res.depth - 1
    ends = {}
    for d in res.raw_items("END"):
        sid, flag = [int(x.strip()) for x in d.split(",")[:2]]
        ends.setdefault(sid, set()).add(flag)
    devs = sorted((sid, min(fl)) for sid, fl in ends.items() if 0 not in fl)   # reached its end only with a deviation action
    return accepted, devs, res


DIRECTED = ["cachekeys", "exclude-reload", "nth-cache", "exclude-race", "tail", "reload-race", "reload-same-count", "casekeys", "narrow-widen",
            "slow-scan", "reload-same-matches", "slow-tail"]


def directed_kind(sid, race):
    if race:        # under the race detector: cache traffic, and --tail trimming while slow scans hold older snapshots
        return ["cachekeys", "slow-tail", "slow-scan", "tail"][(sid // 3) % 4]
    return DIRECTED[(sid // 3) % len(DIRECTED)]


def make_job(ctx, rng, sid, race, kind=None):
    chunk_ms = 0
    n = rng.choice([3, 40, 150, 150, 1200, 1200, 8000] + ([40000] if not ctx.quick else []))
    lines = pipeline.make_lines(rng, n)
    slow = rng.choice([0.2, 1, 1, 3]) if not race else rng.choice([1, 3, 6])
    sched = pipeline.make_schedule(rng, lines, slow)
    nrel = rng.choice([0, 0, 1, 2]) if not race else 0
    relines = [pipeline.make_lines(rng, rng.choice([0, 5, 120, 900])) for _ in range(nrel)]
    rescheds = [pipeline.make_schedule(rng, rl, slow) for rl in relines]
    steps = pipeline.make_steps(rng, rng.randint(6, 30), rng.choice([0.3, 1, 2]), reloads=nrel, excludes=rng.random() < 0.5)
    if sid % 3 == 1 or kind:       # directed scenarios: result-cache key collisions / exclude-reload-same-query / races on the event box
        kind = kind or directed_kind(sid, race)
        n = rng.choice([150, 330, 1200]) if kind not in ("cachekeys", "nth-cache", "casekeys") else rng.choice([1200, 2500])
        lines = pipeline.make_lines(rng, n, sparse=True)
        sched = pipeline.make_schedule(rng, lines, 0.2)
        if kind == "tail":
            # a slow steady producer under --tail: snapshots of constant size whose window moves; the query is left alone
            # for stretches (merger cache, same count) and changed while the window moves
            lines = pipeline.make_lines(rng, 700, sparse=True)
            sched = [{"sleep": 0.02, "lines": lines[i:i + 5]} for i in range(0, len(lines), 5)]
        if kind in ("exclude-race", "reload-race"):
            # keep the loader busy (a burst every few ms) so that the coordinator naps between rounds
            lines = pipeline.make_lines(rng, 600, sparse=True)
            sched = [{"sleep": 0.004, "lines": lines[i:i + 2]} for i in range(0, len(lines), 2)]
        nrel = 1 if kind in ("exclude-reload", "reload-race") else 0
        relines = [pipeline.make_lines(rng, rng.choice([n, n, 200]), sparse=True) for _ in range(nrel)]
        rescheds = [pipeline.make_schedule(rng, rl, 0.2) for rl in relines]
        if kind == "exclude-reload" and (sid % 8 == 4 or rng.random() < 0.5):     # a reload of exactly the same size arriving in one burst
            relines = [pipeline.make_lines(rng, n, sparse=True)]
            rescheds = [[{"sleep": 0, "lines": relines[0]}]]
        if kind == "reload-same-matches":
            n = rng.choice([150, 330])
            lines = pipeline.make_lines(rng, n, sparse=True)
            sched = [{"sleep": 0, "lines": lines}]
            nrel = 1
            words = [l.split(" ", 1)[1] for l in lines]
            rng.shuffle(words)
            relines = [["%05d %s" % (i, w) for i, w in enumerate(words)]]
            while relines[0] == lines:
                rng.shuffle(words)
                relines = [["%05d %s" % (i, w) for i, w in enumerate(words)]]
            rescheds = [[{"sleep": 0.2, "lines": relines[0]}]]
        if kind == "slow-scan":
            lines = pipeline.make_lines(rng, 6400, sparse=True)        # 64 chunks: several per partition
            sched = [{"sleep": 0, "lines": lines}]
            chunk_ms = rng.choice([40, 80])
        if kind == "slow-tail":
            # --tail with slow scans: snapshots are trimmed while older ones are still being scanned
            lines = pipeline.make_lines(rng, 1500, sparse=True)
            sched = [{"sleep": 0.05, "lines": lines[i:i + 50]} for i in range(0, len(lines), 50)]
            chunk_ms = 30
        if kind == "reload-same-count":
            n = rng.choice([150, 330])
            lines = pipeline.make_lines(rng, n, sparse=True)
            sched = [{"sleep": 0, "lines": lines}]
            nrel = 1
            relines = [pipeline.make_lines(rng, n + 40, sparse=True)]
            rescheds = [[{"sleep": 0.8, "lines": relines[0][:n]}, {"sleep": 2.0, "lines": relines[0][n:]}]]
        steps = pipeline.scenario_steps(rng, "tail" if kind == "slow-tail" else kind, nrel)
    tail = 0
    if kind is None and sid % 3 == 2 and sid % 2 == 0:      # every sixth session runs under --tail
        tail = rng.choice([1, 7, 99, 100, 101, 250, 1000])
    elif kind == "tail":
        tail = rng.choice([5, 100, 150])
    elif kind == "slow-tail":
        tail = rng.choice([250, 330])
    if kind is None and not race and sid % 5 == 3:
        chunk_ms = rng.choice([5, 20])          # some of the random sessions with slower scans
    return (sid, lines, sched, steps, relines, rescheds, tail, chunk_ms)


def run_jobs(ctx, jobs, fzf, fzf_oracle, race, label):
    """Runs the sessions, projects their hook traces, builds the oracle tables and validates everything with
    Trace_Pipeline; violations are recorded on ctx.  Returns (events, results)."""
    def do(job):
        sid, lines, sched, steps, relines, rescheds, tail, chunk_ms = job
        tr, get, cmdmap = pipeline.run_session(ctx, fzf, sid, lines, sched, steps, race_log=race, reload_scheds=rescheds,
                                               extra_args=(["--tail", str(tail)] if tail else []), chunk_ms=chunk_ms)
        sizes = {-1: len(lines)}
        sizes.update({k: len(rl) for k, rl in enumerate(relines)})
        evs, keys, cfgs = pipeline.project(tr, get, sid, cmdmap, tail=tail, sizes=sizes)
        table = {}
        rawids = {}
        for (q, lo, n, srt, ci) in keys:
            inp, excluded, nth = cfgs[ci] if ci < len(cfgs) else (-1, (), "")
            src = lines if inp == -1 else relines[inp]
            ids = pipeline.oracle(fzf_oracle, src, q, n, srt, excluded=excluded, nth=nth, raw=True, lo=lo)
            rawids[(q, lo, n, srt, ci)] = ids
            table[pipeline.okey(sid, q, lo, n, srt, ci)] = pipeline.fnv_res(ids)
        # bounds for the deviation StaleChunkCache: a result mixed chunk-wise from two configurations lies between their
        # intersection and their union
        for e in evs:
            if e["ev"] in ("reset", "pick") and e.get("pcfg", -1) >= 0 and "cfg" in e:
                a = rawids.get((e["q"], e["lo"], e["count"], e["sort"], e["cfg"]))
                b = rawids.get((e["q"], e["lo"], e["count"], e["sort"], e["pcfg"]))
                if a is not None and b is not None:
                    sa, sb = set(a), set(b)
                    table["B|" + pipeline.okey(sid, e["q"], e["lo"], e["count"], e["sort"], e["cfg"]) + "|%d" % e["pcfg"]] = \
                        [len(sa & sb), len(sa | sb)] + sorted(sa | sb)[:200] + [-1] + sorted(sa & sb)[:200]
        return sid, evs, table
    results = {}
    with ThreadPoolExecutor(max_workers=6) as ex:
        for sid, evs, table in ex.map(do, jobs):
            results[sid] = (evs, table)
    events, table, bounds = [], {}, []
    for sid in sorted(results):
        evs, tb = results[sid]
        bounds.append((len(events), len(events) + len(evs), sid))
        events += evs
        table.update(tb)
    report_rejections(ctx, events, table, bounds, results, jobs, label)
    return events, results


def item_history_part(ctx, n=3):
    """For C05 (history independence at process level): sessions in which the same items are matched repeatedly under
    changing queries and --nth settings (per-item token cache, per-chunk result cache, merger cache); every published
    list must equal a fresh `fzf --filter` run with the options then in force."""
    fzf = ctx.build_fzf()
    rng = ctx.rng
    kinds = ["nth-cache", "casekeys", "narrow-widen", "cachekeys"]
    jobs = [make_job(ctx, rng, 900 + i, False, kind=kinds[i % len(kinds)]) for i in range(n)]
    events, results = run_jobs(ctx, jobs, fzf, fzf, False, "c05-items")
    return len(jobs), len(events)


def run(ctx, prop="C08"):
    ctx.mc("FzfPipeline", "MC_Pipeline_quick.cfg" if ctx.quick else "MC_Pipeline.cfg", timeout=3000, workers=8 if ctx.quick else 12,
           heap=None if ctx.quick else "16g")
    ctx.mc("FzfPipeline", "MC_Pipeline_quick_reload.cfg", timeout=1700, workers=8)
    # --tail: snapshots are windows, the chunk list is trimmed by snapshots (trimmed copies are new chunk objects)
    ctx.mc("FzfPipeline", "MC_Pipeline_tail_quick.cfg" if (ctx.quick or prop != "C13") else "MC_Pipeline_tail.cfg", timeout=3400,
           workers=8 if ctx.quick else 12, heap=None if ctx.quick else "16g")
    if not ctx.quick and prop == "C08":
        ctx.mc("FzfPipeline", "MC_Pipeline_deep.cfg", timeout=3000, workers=12, heap="16g")
    # the named deviations must be reachable in the model (their counterexamples document findings F5, F17, F21; the last one shows
    # that the minor-revision bump on a trimming snapshot is what keeps the merger cache sound under --tail)
    devs = {}
    for cfg, inv in (("MC_Pipeline_dev.cfg", "ConvergenceStrict"), ("MC_Pipeline_dev_stale.cfg", "NeverStale"),
                     ("MC_Pipeline_dev_lost.cfg", "NeverLost"), ("MC_Pipeline_dev_trim.cfg", "PublishedIsFilter"),
                     ("MC_Pipeline_dev_prevcount.cfg", "PublishedIsFilter")):
        r = ctx.tlc("FzfPipeline", cfg, workers=4, timeout=900, expect_ok=False, label="dev-" + inv)
        if r.code != 12 or not any(inv in e for e in r.errors):
            raise Infra("deviation config %s no longer yields its counterexample (exit %d)" % (cfg, r.code))
        devs[cfg.replace("MC_Pipeline_", "").replace(".cfg", "") + ":" + inv] = "counterexample found (%d states explored)" % r.distinct
    ctx.cov["deviation_counterexamples"] = devs
    # cross-module lemmas: the Holds table / query lattice of the concurrent model means what FzfQuery.Matches says
    ctx.tlc("Fzf", "MC_Fzf.cfg", workers=2, timeout=600, label="root-lemmas")
    race = prop == "C13"
    if not ctx.replay:
        # E binding: TLC-enumerated matcher schedules with gate-forced cancellation points
        matcher_sched.run_part(ctx, sample=ctx.pick(300, None) if prop == "C08" else ctx.pick(500, None), race=race)
    fzf = ctx.build_fzf(race=race)
    fzf_oracle = ctx.build_fzf() if race else fzf
    rng = ctx.rng
    nsess = ctx.pick(36, 600) if not race else ctx.pick(13, 400)
    jobs = [make_job(ctx, rng, sid, race) for sid in range(nsess)]
    if ctx.replay:
        rp = json.load(open(ctx.replay))["case"]
        acc, devs, res = validate(ctx, rp["events"], rp["table"], "replay")
        if acc < len(rp["events"]):
            ctx.violation("recorded trace rejected again at event %d: %s" % (acc, json.dumps(rp["events"][acc])[:400]), rp)
        ctx.cov["distinct_nontrivial"] = 2
        ctx.cov["evaluations"] = len(rp["events"])
        ctx.sample(rp["events"][:3])
        return "model_checking"

    events, results = run_jobs(ctx, jobs, fzf, fzf_oracle, race, "all")
    if race:
        import glob
        reports = sorted(glob.glob(os.path.join(ctx.work, "pl-*", "race.*")))
        ctx.cov["race_detector_reports"] = len(reports)
        def race_class(b):
            # lazily memoised per-item fields written by matcher workers while other goroutines read or copy the item
            if "transformInput" in b and "pattern.go" in b:
                return "F23"
            if "(*Chars).TrimLength" in b and "(*ChunkList).Snapshot" in b:
                return "F28"
            return "other"
        KF = {"F23": {"finding": "F23", "site": "Pattern.transformInput", "kind": "race-on-Item.transformed"},
              "F28": {"finding": "F28", "site": "Chars.TrimLength vs ChunkList.Snapshot", "kind": "race-on-trimLength-memo-under-tail"}}
        reported = set()
        for rp in reports[:6]:
            txt = open(rp, errors="replace").read()
            blocks = [b for b in txt.split("==================") if "DATA RACE" in b]
            by = {}
            for b in blocks:
                by.setdefault(race_class(b), []).append(b)
            for cls, bs in sorted(by.items()):
                if cls != "other" and cls in reported:
                    continue
                reported.add(cls)
                case = {"race_report": "==================".join(bs)[:20000], "monitor": "go -race", "blocks": len(bs)}
                if cls in KF:
                    case["kf"] = KF[cls]
                ctx.violation("Go race detector (monitor, not the TLA+ spec) reported a data race (%d report(s) of this kind):\n%s" % (
                    len(bs), bs[0][:2500]), case)
        loading = sum(1 for e in events if e["ev"] == "publish" and not e["final"])
        ctx.cov["publishes_while_loading"] = loading
        ctx.cov["cancelled_scans"] = sum(1 for e in events if e["ev"] == "cancelled")
    both = sum(1 for e in events if e["ev"] == "pick" and len(e["saw"]) == 2)
    ctx.cov["traces_validated_against_impl"] = len(jobs)
    ctx.cov["evaluations"] = len(events)
    kinds = {}
    for e in events:
        kinds[e["ev"]] = kinds.get(e["ev"], 0) + 1
    ctx.cov["events_by_kind"] = kinds
    distinct = {json.dumps([e["q"], e["count"], e["sort"], e["final"]]) for e in events if e["ev"] == "publish" and e["res"] not in ([], )}
    ctx.cov["distinct_nontrivial"] = len(distinct)
    ctx.cov["rule"] = ("tmux-driven sessions of the real binary: a producer writes 3..40000 lines in seeded bursts while query edits, chained "
                       "edits and sort toggles are POSTed at seeded times; the hook trace (reset/pick/cachehit/cancelled/publish/list) is "
                       "validated by Trace_Pipeline with every published list and the final list compared with `fzf --filter` of the "
                       "same query over the same prefix (under --tail N: the same window of the last N records); non-trivial = distinct published (query, snapshot size, sort, final) with a "
                       "non-empty result")
    ctx.cov["picks_with_two_pending_requests"] = both
    ctx.sample([e for e in events if e["ev"] in ("reset", "pick", "publish", "list", "end")][:6])
    ctx.assumptions += ["filter mode is the yardstick (bound to the spec by C01/C04)", "no --tail in these sessions yet"]
    ctx.cov["sessions_with_reload"] = sum(1 for j in jobs if j[4])
    ctx.cov["sessions_with_tail"] = sum(1 for j in jobs if j[6])
    ctx.cov["publishes_of_a_moved_tail_window"] = sum(1 for e in events if e["ev"] == "publish" and e["lo"] > 0)
    ctx.cov["distinct_tail_windows_published"] = len({(e["lo"], e["count"]) for e in events if e["ev"] == "publish" and e["lo"] > 0})
    return "model_checking"


def report_rejections(ctx, events, table, bounds, results, jobs, label):
    """Validates; for each rejected session records a violation (the recorded real trace is the evidence) and goes on
    with the remaining sessions."""
    pending = list(bounds)
    guard = 0
    while pending and guard < 8:
        guard += 1
        evs = []
        offs = []
        for (a, b, sid) in pending:
            offs.append((len(evs), len(evs) + (b - a), sid))
            evs += events[a:b]
        acc, devs, res = validate(ctx, evs, table, "%s-%d" % (label, guard))
        for sid, flag in devs:
            s_evs, s_tb = results[sid]
            if flag == 3:
                case = {"events": s_evs, "table": s_tb, "kf": {"finding": "F21", "site": "EvtSearchNew", "kind": "exclusion-lost-by-coalescing"}}
                ctx.violation("session %d: an exclusion or reload requested by the user is not in effect at quiescence (its search "
                              "request was overwritten in the one-slot event box by the next query change before the coordinator "
                              "handled it)" % sid, case)
            elif flag == 2:
                case = {"events": s_evs, "table": s_tb, "kf": {"finding": "F17", "site": "ChunkCache", "kind": "stale-after-exclude"}}
                ctx.violation("session %d: a result computed after an exclusion still contains the excluded item (chunk cache "
                              "refilled by an older request after the coordinator cleared it)" % sid, case)
            else:
                case = {"events": s_evs, "table": s_tb, "kf": {"finding": "F5", "site": "Matcher.Loop", "kind": "older-request-served"}}
                ctx.violation("session %d: matcher served the older of two pending requests and dropped the newer one" % sid, case)
        if acc >= len(evs):
            return
        # which session was rejected
        for i, (a, b, sid) in enumerate(offs):
            if a <= acc < b:
                s_evs, s_tb = results[sid]
                bad = s_evs[acc - a]
                prev = s_evs[max(0, acc - a - 4):acc - a]
                case = {"events": s_evs, "table": s_tb, "rejected_at": acc - a}
                ctx.violation("session %d: spec rejects event %d %s (after %s)" % (
                    sid, acc - a, json.dumps(bad)[:500], json.dumps([(e["ev"], e.get("q"), e.get("count")) for e in prev])), case)
                pending = [pending[j] for j in range(i + 1, len(pending))]
                break
        else:
            raise Infra("cannot locate rejected event %d" % acc)
