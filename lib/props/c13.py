"""C13 - loading and searching run concurrently without interfering (spec/FzfPipeline.tla, Trace_Pipeline.tla).

Same protocol specification and trace validation as C08, with the emphasis on searches that run while the loader is
still appending (slow producer, edits throughout loading): every published result must be the sequential filter of
exactly the snapshot its request carried, a cancelled scan never publishes, counts agree with lists.  The sessions run
on a `go build -race` binary; a data-race report is surfaced as a monitor finding (the memory-model clause is outside
what a TLA+ state machine can express, see DESIGN.md section 8)."""
from props import c08


def run(ctx):
    return c08.run(ctx, prop="C13")
