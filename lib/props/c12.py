"""C12 - placeholders expand to shell words that evaluate back to the original text (spec/FzfShell.tla).

MC  MC_Shell / MC_ShellLex / MC_ShellExpand: ShEval(Quote(s)) = <<s>> for every string over the 18-symbol data alphabet,
    one word per item, escaped placeholders literal, the expansion of every (template, terminal state) pair reads back;
    the executor matrix ($SHELL x --with-shell, 48 cells): the quoting style follows the program that runs the command,
    every (style, evaluating program) pair of the matrix reads back, crossed pairs do not.
E   the same strings / command lines / (template, state) pairs, with the expansion TLC computed, replayed on the real
    Executor.QuoteEntry / escapeSingleQuote / buildPlusList + replacePlaceholder; the real /bin/sh and bash are given
    every command line the specification calls inert and must see exactly the words TLC computed.  Every string also
    goes through the executor NewExecutor builds under every cell of the matrix (which cells give which quoted form =
    the table TLC computed), and what a POSIX-evaluated cell quotes is read by the program its own ExecCommand starts.
    MC_ShellExpand_files*: the same machine under every --delimiter of a menu (AWK, literal strings, a bracket
    expression) and both print separators: item placeholders {N} cut with the delimiter, {q:N} always at blanks, file
    placeholders ({f} {+f} {+f2} {sf2..} {fn} {+nf}) = the symbol FILE in the command line plus the file's contents
    (every record terminated).  MC_ShellEnv: every environment ENTRY over an 11-symbol alphabet - which are exported
    by the --tmux re-launch script and the theorem that sh evaluating it defines exactly those - one `fzf --tmux` run
    of the real binary per entry (script text, environment of the re-launched process, nothing else ran).
J   random long multi-line items / queries / selections through the same code, run by the real Executor.ExecCommand
    under every shell and under cells of the matrix; the real binary's --tmux re-launch (stand-in tmux, stand-in child);
    the real binary under tmux with $SHELL / --with-shell of every POSIX-evaluated cell running
    load:execute-silent(printf '%s\\0' {} {q} > file)+abort on random items / queries; the real binary with
    --read0 --multi [--print0] [--delimiter D] running select-all+execute-silent(cp {+f} ..; cp {+f2} ..; printf
    {q:1} {q:2..} {2} {+1} ..)+abort (files read back, words seen by printf); Judge_Shell decides.
"""
import json, os, shlex, shutil
from concurrent.futures import ThreadPoolExecutor
import vlib
from vlib import replay_cases, Infra, write_ndjson, read_ndjson

DATA = ["SQ", "DQ", "BSL", "DOL", "BT", "SP", "LF", "STAR", "SEMI", "AMP", "PIPE", "LP", "LB", "RB", "BANG", "HASH",
        "TILDE", "a"]
HOT = ["SQ", "BSL", "DQ", "SP", "LF", "DOL", "BT"]       # drawn more often: what quoting and lexing act on
CODE = {"SQ": "Q", "DQ": "D", "BSL": "B", "DOL": "S", "BT": "T", "SP": "_", "LF": "N", "STAR": "X", "SEMI": "C",
        "AMP": "A", "PIPE": "P", "LP": "L", "LB": "O", "RB": "E", "BANG": "G", "HASH": "H", "TILDE": "W"}
SPECIAL_CODES = set(CODE.values())
CHAR = {"Q": "'", "D": '"', "B": "\\", "S": "$", "T": "`", "_": " ", "N": "\n", "X": "*", "C": ";", "A": "&", "P": "|",
        "L": "(", "O": "{", "E": "}", "G": "!", "H": "#", "W": "~", "u": "_", "Z": "\\0", "F": "<FILE>"}


def show(code):
    """wire code (one character per symbol) -> the text it stands for (evidence / messages only)"""
    if isinstance(code, list):
        return [show(c) for c in code]
    return "".join(CHAR.get(ch, ch) for ch in code)


# ------------------------------------------------------------------------------------------------ shells
def find_shells():
    """The real shells of this machine: /bin/sh and bash are required; bash is also run in POSIX mode; any other
    POSIX shell that is installed and is a different program is added."""
    if not os.path.exists("/bin/sh"):
        raise Infra("/bin/sh missing")
    bash = shutil.which("bash")
    if not bash:
        raise Infra("bash missing")
    shells = [{"name": "sh", "argv": ["/bin/sh"]}, {"name": "bash", "argv": [bash]},
              {"name": "bash-posix", "argv": [bash, "--posix"]}]
    seen = {os.path.realpath("/bin/sh"), os.path.realpath(bash)}
    for extra in ("dash", "ksh", "mksh", "yash", "zsh"):
        p = shutil.which(extra)
        if p and os.path.realpath(p) not in seen and extra != "zsh":     # zsh is not POSIX by default
            seen.add(os.path.realpath(p))
            shells.append({"name": extra, "argv": [p]})
    return shells


# ------------------------------------------------------------------------------------------------ E helpers
CELLS = []      # the ($SHELL, --with-shell) table as TLC printed it (messages only)


def per_shell(shells, words):
    return {sh["name"]: words for sh in shells}


def kf_site(c, exp, r):
    got = r.get("got") or {}
    for k in ("argv", "p", "f", "e", "valid", "x", "xf", "fs", "sh", "xs", "ev"):
        if k in exp and got.get(k) != exp[k]:
            site = {"p": "Executor.QuoteEntry(posix)", "f": "Executor.QuoteEntry(fish)", "e": "escapeSingleQuote",
                    "valid": "buildPlusList", "x": "replacePlaceholder", "xf": "replacePlaceholder(fish)",
                    "fs": "replacePlaceholder/WriteTemporaryFile (file placeholder contents)",
                    "sh": "real shell", "argv": "NewExecutor/ExecCommand argv",
                    "xs": "NewExecutor: quoting style per ($SHELL, --with-shell)",
                    "ev": "real shell started by the executor of a ($SHELL, --with-shell) cell"}[k]
            return {"site": site, "field": k}
    return None


def describe(c, exp, r):
    extra = ""
    got = r.get("got") or {}
    diff = {k: {"spec": exp[k], "real": got.get(k)} for k in exp if got.get(k) != exp[k]}
    inp = {k: (show(c[k]) if k in ("s", "t", "its", "q") else c[k]) for k in c
           if k in ("s", "t", "its", "ix", "cur", "sel", "q", "fp", "shell", "set", "ws", "d", "sep", "ent")}
    if "xs" in diff and CELLS:
        # name the cells whose executor quotes differently from the table
        def per_cell(xs):
            return {i: q for q, mask in (xs or {}).items() for i, b in enumerate(mask) if b == "1"}
        want, real = per_cell(exp["xs"]), per_cell(got.get("xs"))
        wrong = [i for i in sorted(want) if real.get(i) != want[i]]
        del diff["xs"]
        extra = " QuoteEntry differs from the table in %d cells, e.g. %s" % (len(wrong), json.dumps([
            {"SHELL": CELLS[i]["shell"] if CELLS[i]["set"] else None, "with-shell": CELLS[i]["ws"],
             "spec_style": CELLS[i]["style"], "spec": show(want[i]), "real": show(real.get(i, "?"))} for i in wrong[:3]]))

    def shw(v):
        if isinstance(v, dict):
            return {k: shw(x) for k, x in v.items()}
        if isinstance(v, str) and (v.startswith("ERR") or v.startswith("!")):
            return v
        return show(v) if isinstance(v, (str, list)) else v
    return "input %s:%s %s" % (json.dumps(inp), extra, json.dumps({k: (v if k == "err" else shw(v)) for k, v in diff.items()})[:900])


def mc_and_cases(ctx, module, cfg, label, coverage=False, env=None, timeout=2400, workers=None):
    res = ctx.mc(module, cfg, label=label, coverage=coverage, env=env, timeout=timeout, workers=workers)
    if coverage:
        dead = [a for a, n in res.action_cov.items() if n == 0]
        if dead:
            raise Infra("vacuous model (%s): actions never taken: %s" % (label, dead))
    cases = res.json_items("CASE")
    if not cases:
        raise Infra("TLC exported no cases (%s)" % label)
    return res, cases


# ------------------------------------------------------------------------------------------------ J generators
def rand_text(rng, maxlen, extra=()):
    n = rng.choice([0, 1, 2, 3]) if rng.random() < 0.15 else rng.randint(0, maxlen)
    pool = DATA + HOT + HOT + list(extra)
    return [rng.choice(pool) for _ in range(n)]


RANGES = [["1"], ["2"], ["3"], ["MINUS", "1"], ["MINUS", "2"], ["1", "DOT", "DOT", "2"], ["2", "DOT", "DOT"],
          ["DOT", "DOT", "2"], ["DOT", "DOT"], ["MINUS", "2", "DOT", "DOT", "MINUS", "1"], ["2", "DOT", "DOT", "3"],
          ["1", "0"], ["DOT", "DOT", "MINUS", "2"]]
BAD_RANGES = [["0"], ["1", "DOT"], ["DOT"], ["MINUS"], ["1", "DOT", "DOT", "DOT", "2"], ["MINUS", "1", "DOT", "DOT", "2"]]


def rand_placeholder(rng, allow_raw):
    k = rng.random()
    flags = []
    if rng.random() < 0.4:
        flags.append("PLUS")
    if rng.random() < 0.25:
        flags.append("s")
    if allow_raw and rng.random() < 0.3:
        flags.append("r")
    if rng.random() < 0.2:          # file placeholder: the expansion is a path, the texts are in the file
        flags.append("f")
    rng.shuffle(flags)
    if k < 0.25:
        body = flags
    elif k < 0.40:
        body = rng.choice([["n"], ["PLUS", "n"], ["n"], ["PLUS", "n"], ["f", "n"], ["n", "f"], ["f", "n", "f"],
                           ["PLUS", "f", "n"], ["PLUS", "n", "f"], ["PLUS", "f", "n", "f"]])
    elif k < 0.65:
        body = flags + rng.choice(RANGES)
    elif k < 0.85:
        body = rng.choice([["q"], ["q", "COLON"] + rng.choice(RANGES), ["q", "COLON"] + rng.choice(RANGES),
                           ["q", "COLON", "s"] + rng.choice(RANGES)])
    elif k < 0.92:
        body = flags + rng.choice(BAD_RANGES)
    else:
        # escaped placeholder, file variants included
        return ["BSL", "LB"] + rng.choice([[], ["PLUS"], ["q"], ["n"], ["PLUS", "f"], ["f"], ["1"], ["f", "n"]]) + ["RB"]
    return ["LB"] + body + ["RB"]


WORDS = [["a"], ["a", "a"], ["SQ", "a", "SP", "a", "SQ"], ["DQ", "a", "SP", "a", "DQ"], ["a", "BSL", "SP", "a"],
         ["SQ", "SQ"], ["DQ", "DQ"], ["DQ", "a", "BSL", "DQ", "DQ"], ["BSL", "SQ"], ["BSL", "BSL"],
         ["DQ", "BSL", "a", "SQ", "DQ"], ["BSL", "LF"]]
JUNK = [["SQ"], ["DQ"], ["BSL"], ["LB"], ["RB"], ["SP"], ["a"], ["BSL", "BSL"], ["LB", "LB"],
        # braces that are not placeholders
        ["LB", "PLUS", "q", "RB"], ["LB", "s", "n", "RB"], ["LB", "n", "s", "RB"], ["LB", "q", "COLON", "RB"],
        ["LB", "q", "COLON", "s", "RB"], ["LB", "1", "s", "RB"], ["LB", "q", "1", "RB"], ["LB", "q", "q", "RB"],
        ["LB", "PLUS", "SP", "n", "RB"], ["LB", "n", "n", "RB"], ["LB", "a", "RB"], ["LB", "LB", "RB", "RB"]]


def rand_template(rng):
    toks = []
    n = rng.randint(1, 6)
    if rng.random() < 0.7:          # well-formed: words and quoting placeholders, mostly blank-separated
        for i in range(n):
            if i and rng.random() < 0.85:
                toks.append(["SP"] * rng.randint(1, 2))
            r = rng.random()
            toks.append(rand_placeholder(rng, False) if r < 0.6 else rng.choice(WORDS) if r < 0.95 else rng.choice(JUNK[9:]))
    else:                           # anything
        for i in range(n):
            r = rng.random()
            toks.append(rand_placeholder(rng, True) if r < 0.5 else rng.choice(WORDS) if r < 0.7 else rng.choice(JUNK))
    return [s for t in toks for s in t]


# --delimiter menu of the random records: AWK (not given), literal strings, bracket expressions (regular expressions)
DELIMS = [("str", ["COLON"]), ("str", ["COLON", "COLON"]), ("str", ["SP"]), ("str", ["SEMI"]), ("str", ["a"]),
          ("str", ["a", "COLON"]), ("cls", ["SEMI", "COLON"]), ("cls", ["SP", "COLON"]), ("cls", ["a", "SEMI"])]


def delim_arg(d):
    """the --delimiter argument that gives this delimiter (None: option not given)"""
    if d["kind"] == "awk":
        return None
    return text_of(d["pat"]) if d["kind"] == "str" else "[" + text_of(d["pat"]) + "]"


def rand_delim(rng, p_awk=0.4):
    if rng.random() < p_awk:
        return {"kind": "awk", "pat": []}
    k, pat = rng.choice(DELIMS)
    return {"kind": k, "pat": list(pat)}


def rand_record_input(rng):
    nitems = rng.randint(1, 5)
    extra = ["LB", "RB", "q", "PLUS", "n", "1"]      # data that looks like a placeholder must stay data
    d = rand_delim(rng)
    if d["kind"] != "awk":                            # the delimiter occurs in lines and in the query
        extra += (d["pat"] + ["SP"]) * 4
    sep = "NUL" if rng.random() < 0.3 else "LF"
    items = [rand_text(rng, 40, extra) for _ in range(nitems)]
    if rng.random() < 0.3:           # a last line that is empty / ends with the delimiter / ends with a line feed
        items[-1] = rng.choice([[], items[-1] + (d["pat"] or ["SP"]), items[-1] + ["LF"], ["a"]])
    ix = rng.sample(range(0, 100000), nitems)
    if rng.random() < 0.3:          # small ordinals too (ordinals are unique: selectItem keys the selection by them)
        small = rng.choice([0, 9, 10, 99])
        if small not in ix:
            ix[0] = small
    cur = 0 if rng.random() < 0.1 else rng.randint(1, nitems)
    sel = []
    if rng.random() < 0.6:
        sel = rng.sample(range(1, nitems + 1), rng.randint(1, nitems))
    return {"t": rand_template(rng), "items": items, "ix": ix, "cur": cur, "sel": sel, "q": rand_text(rng, 40, extra),
            "fp": rng.random() < 0.2, "d": d, "sep": sep}


IDENT_START = ["a", "q", "n", "s", "r", "f", "e", "x", "p", "o", "t", "US"]
IDENT_CHARS = IDENT_START + ["0", "1", "2", "9"]
# what must never get from a NAME into the script
NAME_JUNK = ["SEMI", "MINUS", "DOT", "SP", "LF", "DOL", "BT", "LP", "AMP", "PIPE", "SQ", "DQ", "BSL", "STAR", "HASH",
             "LB", "RB", "BANG", "TILDE", "COLON", "PLUS"]
# entries whose name is shell syntax that would run the stand-in command `a` (first in $PATH) if it got into the script
DIRECTED_ENTS = [
    ["x", "SEMI", "a", "SP", "f", "SEMI", "q", "EQ", "1"],                      # x;a f;q=1
    ["x", "BT", "a", "SP", "f", "BT", "EQ", "1"],                               # x`a f`=1
    ["x", "LF", "a", "SP", "f", "LF", "q", "EQ", "1"],                          # x<newline>a f<newline>q=1
    ["x", "AMP", "a", "SP", "f", "AMP", "q", "EQ", "1"],                        # x&a f&q=1
    ["x", "PIPE", "a", "SP", "f", "EQ", "1"],                                   # x|a f=1
    ["x", "DOL", "LP", "a", "SP", "f", "EQ", "1"],                              # x$(a f=1
    ["n", "MINUS", "s", "EQ", "1"], ["n", "DOT", "s", "EQ", "1"], ["n", "SP", "s", "EQ", "1"],   # n-s  n.s  n s
    ["1", "a", "EQ", "1"], ["MINUS", "a", "EQ", "1"], ["EQ", "a"], ["EQ"],      # 1a=1  -a=1  =a  =
    ["n", "MINUS", "s"], ["SEMI", "a", "SP", "f"], ["n", "SP"],                 # without "=": n-s  ;a f  "n "
]


def rand_ident(rng, used):
    while True:
        name = [rng.choice(IDENT_START)] + [rng.choice(IDENT_CHARS) for _ in range(rng.randint(0, 6))]
        key = tuple(name)
        if key not in used and name != ["US"]:      # $_ is maintained by the shells themselves
            used.add(key)
            return name


def rand_bad_name(rng, used):
    while True:
        n = rng.randint(1, 8)
        name = [rng.choice(IDENT_CHARS + NAME_JUNK + NAME_JUNK) for _ in range(n)]
        if rng.random() < 0.7:      # a valid beginning, then something else
            name = [rng.choice(IDENT_START)] + name
        ident = name[0] in IDENT_START and all(c in IDENT_CHARS for c in name)
        if not ident and "EQ" not in name and tuple(name) not in used:
            used.add(tuple(name))
            return name


def rand_tmux_input(rng, k=0):
    """one `fzf --tmux` run: arguments, and an environment of entries with identifier names (random values), entries
    whose names are not identifiers (never exported, never evaluated) and entries without "=" (not variables)"""
    name = rand_text(rng, 10) or ["a"]
    opts = rng.sample(["--query", "--prompt", "--header", "--preview", "--border-label"], rng.randint(1, 4))
    args = [["--tmux"]]
    for o in opts:
        args += [[o], rand_text(rng, 40)]
    used = set()
    ents = []
    for _ in range(rng.randint(1, 4)):
        ents.append(rand_ident(rng, used) + ["EQ"] + rand_text(rng, 40, ("EQ", "EQ")))
    for _ in range(rng.randint(0, 3)):
        bad = rand_bad_name(rng, used)
        # without "=": only names that are not identifiers (an identifier without "=": see the E cases / finding)
        ents.append(bad if rng.random() < 0.2 else bad + ["EQ"] + rand_text(rng, 12))
    if k < 2 * len(DIRECTED_ENTS):
        ents.append(DIRECTED_ENTS[k % len(DIRECTED_ENTS)])
    rng.shuffle(ents)
    return {"name": name, "args": args, "ents": ents}


def record_and_judge(ctx, binary, run, inputs, label, env, describe_rec, kf):
    """vlib.record_and_judge, returning the judge's result as well (for the SPOKEN count)."""
    ipath = os.path.join(ctx.work, "in-%s.ndjson" % label)
    opath = os.path.join(ctx.work, "rec-%s.ndjson" % label)
    write_ndjson(ipath, inputs)
    e = dict(env, VERIF_CASES=ipath, VERIF_OUT=opath)
    ctx.run_harness(binary, run, env=e, timeout=3000)
    recs = read_ndjson(opath)
    if len(recs) != len(inputs):
        raise Infra("%s: %d inputs but %d records" % (label, len(inputs), len(recs)))
    bad, res = vlib.judge(ctx, "Judge_Shell", "Judge_Shell.cfg", recs, label, timeout=3000)
    if bad:
        sub = [inputs[i] for i in bad[:10]]
        write_ndjson(ipath + ".re", sub)
        ctx.run_harness(binary, run, env=dict(e, VERIF_CASES=ipath + ".re", VERIF_OUT=opath + ".re"), timeout=3000)
        recs2 = read_ndjson(opath + ".re")
        bad2, _ = vlib.judge(ctx, "Judge_Shell", "Judge_Shell.cfg", recs2, label + "-re", timeout=3000, workers=1)
        if not bad2:
            raise Infra("%s: %d rejected records, none reproduced" % (label, len(bad)))
        for j in bad2:
            r = recs2[j]
            case = {"harness": run, "label": label, "record": r}
            sig = kf(r)
            if sig:
                case["kf"] = sig
            ctx.violation("%s: spec rejects what the real code / shell did: %s" % (label, describe_rec(r)), case)
    return recs, res


def text_of(syms):
    m = {"SQ": "'", "DQ": '"', "BSL": "\\", "DOL": "$", "BT": "`", "SP": " ", "LF": "\n", "STAR": "*", "SEMI": ";",
         "AMP": "&", "PIPE": "|", "LP": "(", "LB": "{", "RB": "}", "BANG": "!", "HASH": "#", "TILDE": "~", "PLUS": "+",
         "MINUS": "-", "DOT": ".", "COLON": ":", "US": "_", "EQ": "=", "NUL": "\0", "FILE": "F"}
    return "".join(m.get(s, chr(int(s[1:], 16)) if len(s) == 3 and s[0] == "x" else s) for s in syms)


SYM_OF = {"'": "SQ", '"': "DQ", "\\": "BSL", "$": "DOL", "`": "BT", " ": "SP", "\n": "LF", "*": "STAR", ";": "SEMI",
          "&": "AMP", "|": "PIPE", "(": "LP", "{": "LB", "}": "RB", "!": "BANG", "#": "HASH", "~": "TILDE", "+": "PLUS",
          "-": "MINUS", ".": "DOT", ":": "COLON", "_": "US", "=": "EQ", "\0": "NUL", "F": "FILE"}


def syms_of(text):
    """inverse of text_of (bytes outside the table: xHH)"""
    return [SYM_OF.get(ch) or (ch if ch.isascii() and ch.isalnum() else "x%02X" % ord(ch)) for ch in text]


def describe_expand_rec(r):
    return json.dumps({"template": text_of(r["t"]), "items": [text_of(i) for i in r["items"]], "ordinals": r["ix"],
                       "cur": r["cur"], "sel": r["sel"], "query": text_of(r["q"]), "forcePlus": r["fp"],
                       "delimiter": delim_arg(r["d"]), "sep": r["sep"],
                       "valid": r["valid"], "expansion": text_of(r["x"]), "files": [text_of(f) for f in r["fs"]],
                       "argv": {k: [text_of(w) for w in v] for k, v in r["argv"].items()},
                       "matrix_runs": [{"SHELL": "/".join(c["shell"]) if c["set"] else None,
                                        "with-shell": " ".join("/".join(w) for w in c["ws"]),
                                        "expansion": text_of(c["x"]), "ran": c["ran"],
                                        "argv": [text_of(w) for w in c["argv"]]}
                                       for c in r.get("runs", [])]
                       })[:2500]


def describe_tmux_rec(r):
    return json.dumps({"env_entries": [text_of(a) for a in r["ents"]], "script_part": text_of(r["script"]),
                       "child_env": [text_of(a) for a in r["seenenv"]], "ran": [text_of(a) for a in r["ran"]],
                       "err": r["err"], "argv0": text_of(r["argv0"]), "args": [text_of(a) for a in r["args"]],
                       "child_argv": [text_of(a) for a in r["seen"]]})[:1800]


def kf_tmux(r):
    noeq = [e for e in r["ents"] if "EQ" not in e and e and e[0] in IDENT_START and all(c in IDENT_CHARS for c in e)]
    if noeq and r["err"]:
        return {"site": "runProxy", "kind": "env-entry-without-equals"}
    return {"site": "runTmux/runProxy re-quoting"}


# ------------------------------------------------------------------------------------------------ process level
PEXEC_BIND = "load:execute-silent(printf '%s\\0' {} {q} > seen.bin)+abort"


def pexec_session(ctx, fzf, rec):
    """One session of the real binary under tmux: $SHELL and --with-shell of the cell, one item (--read0), a query,
    the command run on `load`; returns the record with what printf received."""
    import tmuxdrv
    prefix = ("env SHELL=%s " % shlex.quote("/".join(rec["shell"]))) if rec["set"] else "env -u SHELL "
    args = ["--read0", "--disabled", "--query=" + text_of(rec["q"]), "--bind", PEXEC_BIND]
    ws = " ".join("/".join(w) for w in rec["ws"])
    if ws:
        args += ["--with-shell", ws]
    s = tmuxdrv.Session(ctx, fzf, args, input_data=(text_of(rec["item"]) + "\0").encode(), listen=False,
                        shell_prefix=prefix)
    out = dict(rec, seen=[], err="")
    try:
        status, _ = s.wait_exit(120)
        p = os.path.join(s.dir, "seen.bin")
        if status != 130:
            out["err"] = "exit status %d" % status
        elif not os.path.exists(p):
            out["err"] = "command wrote nothing"
        else:
            data = open(p, "rb").read().decode("latin-1")
            parts = data.split("\0")
            if parts[-1] != "":
                out["err"] = "output not NUL-terminated"
            out["seen"] = [syms_of(w) for w in parts[:-1]]
    finally:
        s.close()
        shutil.rmtree(s.dir, ignore_errors=True)
    return out


def describe_pexec_rec(r):
    return json.dumps({"SHELL": "/".join(r["shell"]) if r["set"] else None, "with-shell": " ".join("/".join(w) for w in r["ws"]),
                       "bind": PEXEC_BIND, "item": text_of(r["item"]), "query": text_of(r["q"]),
                       "printf_saw": [text_of(w) for w in r["seen"]], "err": r["err"]})[:1500]


def pexec_and_judge(ctx, inputs):
    fzf = ctx.build_fzf()
    with ThreadPoolExecutor(max_workers=6) as ex:
        recs = list(ex.map(lambda r: pexec_session(ctx, fzf, r), inputs))
    bad, _ = vlib.judge(ctx, "Judge_Shell", "Judge_Shell.cfg", recs, "pexec", timeout=3000)
    if bad:
        again = [pexec_session(ctx, fzf, inputs[i]) for i in bad[:10]]
        bad2, _ = vlib.judge(ctx, "Judge_Shell", "Judge_Shell.cfg", again, "pexec-re", timeout=3000, workers=1)
        if not bad2:
            raise Infra("pexec: %d rejected sessions, none reproduced" % len(bad))
        for j in bad2:
            r = again[j]
            ctx.violation("execute-silent in the real binary: the shell did not receive the item / query: " +
                          describe_pexec_rec(r),
                          {"harness": "pexec", "label": "pexec", "record": {k: r[k] for k in ("kind", "set", "shell", "ws", "item", "q")},
                           "kf": {"site": "NewExecutor/execute (process level)", "err": bool(r["err"])}})
    return recs


# ---- process level: delimiters, {q:N}, file placeholders
PMIX_BIND = ("load:select-all+execute-silent(cp {+f} pf.bin; cp {+f2} pf2.bin; cp {f} cf.bin; cp {+nf} nf.bin; "
             "printf '%s\\0' {q:1} {q:2..} {q:s-1} {2} {+1} > seen.bin)+abort")


def rand_pmix_input(rng, k):
    d = rand_delim(rng, 0.25)
    extra = ["COLON", "SEMI", "SP", "SP"] + (d["pat"] + ["SP"]) * 4
    n = rng.randint(1, 4)
    items = [rand_text(rng, 16, extra) for _ in range(n)]
    pat = d["pat"] or ["SP"]
    # the last line decides what the end of a file looks like: empty, one field, ends with the delimiter / a line feed
    items[-1] = [[], ["a"], items[-1] + pat, items[-1] + ["LF"], items[-1] + ["a"] + pat + ["LF"], items[-1]][k % 6]
    items[0] = rng.choice([["a"] + pat + ["SQ", "SP", "a"] + pat + ["a"], items[0] or ["a"]]) if n > 1 else items[0]
    q = rand_text(rng, 8, extra) + ["SP"] + ["a"] + pat + rand_text(rng, 8, extra) + rng.choice([[], ["SP", "SP", "a"]])
    return {"kind": "pmix", "items": items, "q": q, "d": d, "sep": "NUL" if k % 3 == 1 else "LF"}


def pmix_session(ctx, fzf, rec):
    """One session of the real binary under tmux: --read0 lines (they may contain line feeds, the last may be empty),
    --multi, a query of several words, [--print0] [--delimiter]; the command run on `load` after select-all copies the
    temporary files and hands the {q:N} / {N} words to printf."""
    import tmuxdrv
    args = ["--read0", "--multi", "--disabled", "--query=" + text_of(rec["q"]), "--bind", PMIX_BIND]
    if rec["sep"] == "NUL":
        args.append("--print0")
    if delim_arg(rec["d"]) is not None:
        args.append("--delimiter=" + delim_arg(rec["d"]))
    data = "".join(text_of(i) + "\0" for i in rec["items"]).encode("latin-1")
    s = tmuxdrv.Session(ctx, fzf, args, input_data=data, listen=False, shell_prefix="env SHELL=/bin/sh ")
    out = dict(rec, seen=[], pf=[], pf2=[], cf=[], nf=[], err="")
    try:
        status, _ = s.wait_exit(120)
        errs = []
        if status != 130:
            errs.append("exit status %d" % status)
        for key in ("pf", "pf2", "cf", "nf"):
            p = os.path.join(s.dir, key + ".bin")
            if not os.path.exists(p):
                errs.append("%s.bin not written" % key)
            else:
                out[key] = syms_of(open(p, "rb").read().decode("latin-1"))
        p = os.path.join(s.dir, "seen.bin")
        if not os.path.exists(p):
            errs.append("printf wrote nothing")
        else:
            parts = open(p, "rb").read().decode("latin-1").split("\0")
            if parts[-1] != "":
                errs.append("output not NUL-terminated")
            out["seen"] = [syms_of(w) for w in parts[:-1]]
        out["err"] = "; ".join(errs)
    finally:
        s.close()
        shutil.rmtree(s.dir, ignore_errors=True)
    return out


def describe_pmix_rec(r):
    return json.dumps({"args": ["--read0", "--multi"] + (["--print0"] if r["sep"] == "NUL" else []) +
                               ([] if delim_arg(r["d"]) is None else ["--delimiter=" + delim_arg(r["d"])]),
                       "bind": PMIX_BIND, "lines": [text_of(i) for i in r["items"]], "query": text_of(r["q"]),
                       "{+f}": text_of(r["pf"]), "{+f2}": text_of(r["pf2"]), "{f}": text_of(r["cf"]), "{+nf}": text_of(r["nf"]),
                       "printf_saw": [text_of(w) for w in r["seen"]], "err": r["err"]})[:1800]


def pmix_and_judge(ctx, inputs):
    fzf = ctx.build_fzf()
    with ThreadPoolExecutor(max_workers=6) as ex:
        recs = list(ex.map(lambda r: pmix_session(ctx, fzf, r), inputs))
    bad, _ = vlib.judge(ctx, "Judge_Shell", "Judge_Shell.cfg", recs, "pmix", timeout=3000)
    if bad:
        again = [pmix_session(ctx, fzf, inputs[i]) for i in bad[:10]]
        bad2, _ = vlib.judge(ctx, "Judge_Shell", "Judge_Shell.cfg", again, "pmix-re", timeout=3000, workers=1)
        if not bad2:
            raise Infra("pmix: %d rejected sessions, none reproduced" % len(bad))
        for j in bad2:
            r = again[j]
            ctx.violation("file / {q:N} / {N} placeholders in the real binary: files or words differ from the specification: " +
                          describe_pmix_rec(r),
                          {"harness": "pmix", "label": "pmix", "record": {k: r[k] for k in ("kind", "items", "q", "d", "sep")},
                           "kf": {"site": "replacePlaceholder/WriteTemporaryFile (process level)", "err": bool(r["err"])}})
    return recs


# ------------------------------------------------------------------------------------------------ the check
def run(ctx):
    shells = find_shells()
    senv = {"VERIF_SHELLS": json.dumps(shells), "VERIF_PAR": "8"}
    h = ctx.build_harness("src", ["zz_verif_common_test.go", "zz_verif_shell_test.go"])
    W = 8 if os.environ.get("VERIF_DEV") else None

    def use_cells(res):
        cells = sorted(res.json_items("CELL"), key=lambda c: c["id"])
        if len(cells) != 48 or [c["id"] for c in cells] != list(range(48)):
            raise Infra("executor matrix: %d cells exported" % len(cells))
        path = os.path.join(ctx.work, "cells.json")
        json.dump(cells, open(path, "w"))
        senv["VERIF_CELLS"] = path
        CELLS[:] = cells
        return cells

    if ctx.replay:
        rp = json.load(open(ctx.replay))["case"]
        cells = use_cells(ctx.tlc("MC_Shell", "MC_ShellCells.cfg", label="cells", workers=1))
        if rp.get("harness") in ("pexec", "pmix"):
            sess, desc = (pexec_session, describe_pexec_rec) if rp["harness"] == "pexec" else (pmix_session, describe_pmix_rec)
            recs = [sess(ctx, ctx.build_fzf(), rp["record"])]
            bad, _ = vlib.judge(ctx, "Judge_Shell", "Judge_Shell.cfg", recs, "replay", workers=1)
            for j in bad:
                ctx.violation(rp["harness"] + ": " + desc(recs[j]), {"harness": rp["harness"], "record": recs[j]})
        elif "record" in rp:
            record_and_judge(ctx, h, rp["harness"], [rp["record"]], "replay",
                             dict(senv, VERIF_FZF=ctx.build_fzf()) if rp["harness"] == "TestVerifShellTmux" else senv,
                             describe_tmux_rec if rp["harness"] == "TestVerifShellTmux" else describe_expand_rec,
                             lambda r: None)
        else:
            exp = rp["expected"]
            replay_cases(ctx, h, rp["harness"], [rp["case"]], lambda c: exp, "replay",
                         env=dict(senv, VERIF_FZF=ctx.build_fzf()) if rp["harness"] == "TestVerifShellEnv" else senv,
                         describe=describe)
        return "model_checking"

    nontrivial = 0
    # ---- (1)+(2a) quoting: every string over the data alphabet; invariants and case export in one walk
    def exp_quote(c):
        return {"p": c["p"], "f": c["f"], "e": c["e"], "sh": per_shell(shells, c["w"]), "xs": c["xs"], "ev": c["ev"]}

    res0, cases = mc_and_cases(ctx, "MC_Shell", "MC_Shell_quick.cfg", "quote<=4", coverage=True, workers=W)
    if len(cases) != sum(18 ** k for k in range(5)):
        raise Infra("quote<=4: %d cases" % len(cases))
    # ---- the executor matrix: the table TLC printed, bound to NewExecutor / ExecCommand cell by cell
    cells = use_cells(res0)
    posix_cells = [c for c in cells if c["ev"] == "posix"]
    crossed = [c for c in cells if c["set"] and (os.path.basename(c["shell"]) == "fish") != (c["style"] == "fish")]
    if not posix_cells or not crossed or not any(c["style"] == "fish" for c in cells):
        raise Infra("executor matrix without POSIX-evaluated / crossed / fish cells")
    replay_cases(ctx, h, "TestVerifShellCells", cells, lambda c: {"argv": c["argv"]}, "cells", env=senv, describe=describe,
                 kf=kf_site)
    ctx.cov["executor_matrix"] = {"cells": len(cells), "evaluated_by_real_posix_shell": len(posix_cells),
                                  "fish_style (bound to the code only)": sum(1 for c in cells if c["style"] == "fish"),
                                  "no model of the evaluating program": sum(1 for c in cells if c["ev"] == "other"),
                                  "SHELL_and_with-shell_disagree_about_fish": len(crossed),
                                  "command_prefixes_run": sorted({" ".join(c["argv"]) for c in posix_cells})}
    ctx.assumptions.append("executor matrix: $SHELL in {unset, empty, /bin/sh, /bin/bash, /usr/bin/fish, /opt/x/fish, fishy, "
                           "/bin/zsh} x --with-shell in {not given, 'sh -c', 'bash -c', '/bin/bash --posix -c', 'fish -c', "
                           "'/usr/local/bin/fish -c'}; other programs (zsh, ruby -e, ...) get the POSIX style and no round-trip "
                           "claim; a trailing slash or blanks inside a path are not exercised")
    replay_cases(ctx, h, "TestVerifShellQuote", cases, exp_quote, "quote4", env=senv, describe=describe, kf=kf_site)
    nontrivial += sum(1 for c in cases if SPECIAL_CODES & set(c["s"]))
    prefixes = sorted({" ".join(c["argv"]) for c in posix_cells})
    nontrivial += sum(len(prefixes) for c in cases if SPECIAL_CODES & set(c["s"]))
    for c in (cases[1], cases[len(cases) // 3], cases[-1]):
        ctx.sample({"text": show(c["s"]), "QuoteEntry": show(c["p"]), "fish": show(c["f"]),
                    "line_given_to_shells": show(c["p"] + "_" + c["e"] + "_a" + c["p"] + "a"), "shell_words": show(c["w"])})
    if not ctx.quick:
        for first in DATA:          # strings of length 5, sharded by first symbol (bounded memory, 18 TLC runs)
            _, cs = mc_and_cases(ctx, "MC_Shell", "MC_Shell.cfg", "quote5-" + first, env={"C12_FIRST": first}, workers=W)
            cs = [c for c in cs if len(c["s"]) == 5]
            if len(cs) != 18 ** 4:
                raise Infra("quote5-%s: %d cases" % (first, len(cs)))
            replay_cases(ctx, h, "TestVerifShellQuote", cs, exp_quote, "quote5-" + first, env=senv, describe=describe,
                         kf=kf_site)
            nontrivial += sum(1 + len(prefixes) for c in cs if SPECIAL_CODES & set(c["s"]))
    ctx.cov["exhaustive"] = True

    # ---- (2b) the shell model itself against the real shells
    _, lex = mc_and_cases(ctx, "MC_Shell", ctx.pick("MC_ShellLex_quick.cfg", "MC_ShellLex.cfg"), "lex", coverage=ctx.quick,
                          workers=W)
    replay_cases(ctx, h, "TestVerifShellLex", lex, lambda c: {"sh": per_shell(shells, c["w"])}, "lex", env=senv,
                 describe=describe, kf=kf_site)
    ctx.cov["shell_model_lines_validated"] = len(lex)
    ctx.sample({"command_line": show(lex[len(lex) // 2]["t"]), "shell_words": show(lex[len(lex) // 2]["w"])})

    # ---- (1)+(2c) expansion: every (template, terminal state) pair
    def exp_expand(c):
        return {"valid": c["valid"], "x": c["x"], "xf": c["xf"], "fs": c["fs"],
                "sh": per_shell(shells, c["w"]) if (c["valid"] and c["ws"] == "OK") else None}

    # (TLC's -coverage does not get past start-up on this module - its cost model of the nested folds explodes - so the
    # per-action coverage is measured on the exported states: every action changes a variable of its own)
    cfgs = [("MC_ShellExpand_quick.cfg", "expand"), ("MC_ShellExpand_files_quick.cfg", "expand-files")]
    if not ctx.quick:
        cfgs = [("MC_ShellExpand_quick.cfg", "expand"), ("MC_ShellExpand_files.cfg", "expand-files"),
                ("MC_ShellExpand_files_wide.cfg", "expand-files-wide"),
                ("MC_ShellExpand_wide.cfg", "expand-wide"), ("MC_ShellExpand_deep.cfg", "expand-deep")]
    spoken = shell_read = 0
    file_cases = delim_cases = 0
    for cfg, label in cfgs:
        _, ex = mc_and_cases(ctx, "MC_ShellExpand", cfg, label, workers=W, timeout=3000)
        acts = {"AddToken": sum(1 for c in ex if c["t"]), "Toggle": sum(1 for c in ex if c["sel"]),
                "Move": sum(1 for c in ex if c["cur"]), "SetQuery": sum(1 for c in ex if c["q"]),
                "SetForcePlus": sum(1 for c in ex if c["fp"]),
                "want:OK": sum(1 for c in ex if c["want"] == "OK"), "want:NA": sum(1 for c in ex if c["want"] == "NA"),
                "not-valid": sum(1 for c in ex if not c["valid"])}
        if "files" in label:
            # the classes the delimiter / file part is about (counted on the exported states)
            last_empty = lambda f, sep: len(f) >= 2 and f[-1] == sep and f[-2] == sep
            acts.update({
                "file placeholder": sum(1 for c in ex if c["fs"]),
                "file: several records": sum(1 for c in ex if c["fs"] and len(c["sel"]) > 1),
                "file: last record empty or ends with the separator": sum(
                    1 for c in ex for f in c["fs"] if last_empty(f, "N" if c["sep"] == "LF" else "Z") or f in ("N", "Z")),
                "file: --print0": sum(1 for c in ex if c["fs"] and c["sep"] == "NUL"),
                "{q:N} under --delimiter": sum(1 for c in ex if "Oq:" in c["t"] and c["d"]["kind"] != "awk" and c["q"]),
                "{N} under --delimiter": sum(1 for c in ex if "O2E" in c["t"] and c["d"]["kind"] != "awk"),
                "delimiter: literal": sum(1 for c in ex if c["d"]["kind"] == "str"),
                "delimiter: bracket expression": sum(1 for c in ex if c["d"]["kind"] == "cls")})
            file_cases += sum(1 for c in ex if c["fs"] and c["valid"])
            delim_cases += sum(1 for c in ex if c["valid"] and c["d"]["kind"] != "awk" and ("Oq:" in c["t"] or "O2E" in c["t"] or "f2" in c["t"]))
        else:
            acts.update({"want:HAZARD": sum(1 for c in ex if c["want"] == "HAZARD"),
                         "want:INCOMPLETE": sum(1 for c in ex if c["want"] == "INCOMPLETE")})
        if min(acts.values()) == 0:
            raise Infra("vacuous model (%s): %s" % (label, acts))
        ctx.cov["action_coverage"][label + " (states reached through / classified as)"] = acts
        replay_cases(ctx, h, "TestVerifShellExpand", ex, exp_expand, label, env=senv, describe=describe, kf=kf_site)
        spoken += sum(1 for c in ex if c["want"] == "OK" and c["valid"] and "O" in c["t"])
        shell_read += sum(1 for c in ex if c["valid"] and c["ws"] == "OK")
        if label == "expand":
            good = [c for c in ex if c["want"] == "OK" and c["sel"] and "O+E" in c["t"]]
            for c in good[:2]:
                ctx.sample({"template": show(c["t"]), "lines": show(c["its"]), "cur": c["cur"], "sel": c["sel"],
                            "query": show(c["q"]), "forcePlus": c["fp"], "expansion": show(c["x"]),
                            "shell_words": show(c["w"])})
        del ex
    if spoken == 0:
        raise Infra("no expansion case in which the property speaks")
    nontrivial += spoken
    ctx.cov["expansions_read_by_real_shells"] = shell_read
    ctx.cov["expansions_with_file_placeholders (file contents compared)"] = file_cases
    ctx.cov["expansions_of_field_placeholders_under_a_delimiter"] = delim_cases

    # ---- (1)+(2d) the --tmux re-launch script: every environment entry over the environment alphabet
    def exp_env(c):
        return {"script": c["script"], "vars": c["vars"], "ran": [], "err": ""}

    # entries that are an identifier and nothing else (no "=")
    is_bare_ident = lambda c: "=" not in c["ent"] and c["ent"] and c["ent"][0] in "au" and not (set(c["ent"]) - set("a1u"))

    def kf_env(c, exp, r):
        got = r.get("got") or {}
        if is_bare_ident(c) and got.get("err"):
            return {"site": "runProxy", "kind": "env-entry-without-equals"}
        return {"site": "runProxy", "kind": "env-export", "exported": c["exported"]}

    _, envc = mc_and_cases(ctx, "MC_Shell", ctx.pick("MC_ShellEnv_quick.cfg", "MC_ShellEnv.cfg"), "env", coverage=ctx.quick,
                           workers=W)
    envc = [c for c in envc if not c["ent"].startswith("u=")]       # $_ is maintained by the shells themselves
    envc.sort(key=lambda c: ("=" not in c["ent"], len(c["ent"]), c["ent"]))     # NAME=value entries first
    cls = {"exported": sum(1 for c in envc if c["exported"]),
           "name is not an identifier": sum(1 for c in envc if not c["exported"] and "=" in c["ent"]),
           "valid beginning, then something else": sum(1 for c in envc if not c["exported"] and "=" in c["ent"]
                                                       and c["ent"][0] in "au" and c["ent"].index("=") > 1),
           "no =": sum(1 for c in envc if "=" not in c["ent"])}
    if min(cls.values()) == 0:
        raise Infra("vacuous environment enumeration: %s" % cls)
    ctx.cov["action_coverage"]["env (entries by class)"] = cls
    # the bare identifiers are a class of their own, replayed apart from the rest so that a disagreement about it
    # cannot use up the report budget of the other classes
    fenv = dict(senv, VERIF_FZF=ctx.build_fzf())
    replay_cases(ctx, h, "TestVerifShellEnv", [c for c in envc if not is_bare_ident(c)], exp_env, "env", env=fenv,
                 describe=describe, kf=kf_env)
    replay_cases(ctx, h, "TestVerifShellEnv", [c for c in envc if is_bare_ident(c)], exp_env, "env-bare-identifier",
                 env=fenv, describe=describe, kf=kf_env, max_report=2)
    nontrivial += sum(1 for c in envc if set(c["ent"]) - set("a1u="))
    ctx.cov["tmux_relaunch_runs_one_env_entry_each"] = len(envc)
    e0 = next(c for c in envc if c["exported"] and "Q" in c["ent"])
    ctx.sample({"env_entry": show(e0["ent"]), "script_line": show(e0["script"]), "child_env": show(e0["vars"])})

    # ---- (3a) J: random long inputs, real ExecCommand under every shell
    n = ctx.pick(1500, 20000)
    inputs = [rand_record_input(ctx.rng) for _ in range(n)]
    for i, inp in enumerate(inputs):        # every cell in turn, plus a random one
        inp["cells"] = [i % len(cells), ctx.rng.randrange(len(cells))]
    recs, res = record_and_judge(ctx, h, "TestVerifShellRecord", inputs, "record", senv, describe_expand_rec,
                                 lambda r: {"site": "replacePlaceholder/ExecCommand", "valid": r["valid"]})
    for r in recs:
        if r["valid"] and set(r["argv"]) != {sh["name"] for sh in shells}:
            raise Infra("record without the argv of every shell")
        if r["valid"] and len(r["runs"]) != 2:
            raise Infra("record without its matrix runs")
    ctx.cov["random_records_run_under_matrix_cells"] = {
        "expanded": sum(len(r["runs"]) for r in recs), "run_by_real_shell": sum(1 for r in recs for c in r["runs"] if c["ran"])}
    jspoken = len(res.raw_items("SPOKEN"))
    if jspoken < n // 5:
        raise Infra("only %d of %d random records fall under the property" % (jspoken, n))
    nontrivial += jspoken
    ctx.cov["random_records_under_property"] = jspoken
    r0 = next(r for r in recs if r["valid"] and r["sel"] and len(r["x"]) > 20)
    ctx.sample({"template": text_of(r0["t"]), "expansion": text_of(r0["x"])[:300],
                "sh_argv": [text_of(w) for w in r0["argv"]["sh"]][:8]})

    # ---- (3b) J: the real binary re-launching itself for --tmux
    m = ctx.pick(150, 1500)
    tin = [rand_tmux_input(ctx.rng, k) for k in range(m)]
    trecs, _ = record_and_judge(ctx, h, "TestVerifShellTmux", tin, "tmux", dict(senv, VERIF_FZF=ctx.build_fzf()),
                                describe_tmux_rec, kf_tmux)
    nontrivial += m
    ctx.sample({"tmux_child_argv": [text_of(a) for a in trecs[0]["seen"]][:9]})

    # ---- (3c) J: the real binary with $SHELL / --with-shell of every POSIX-evaluated cell, execute-silent on one item
    per_cell = ctx.pick(3, 40)
    pin = []
    for c in posix_cells:
        for k in range(per_cell):
            item = rand_text(ctx.rng, 30) or ["a"]
            q = rand_text(ctx.rng, 30)
            if k == 0:          # one session per cell certainly has a quote and a backslash in it
                item.insert(ctx.rng.randint(0, len(item)), "SQ")
                q.insert(ctx.rng.randint(0, len(q)), "BSL")
            pin.append({"kind": "pexec", "set": c["set"], "shell": c["shell"].split("/") if c["set"] else [],
                        "ws": [w.split("/") for w in c["ws"].split()], "item": item, "q": q})
    precs = pexec_and_judge(ctx, pin)
    nontrivial += len(precs)
    ctx.cov["execute_sessions_of_the_real_binary"] = len(precs)
    ctx.sample({"SHELL": "/".join(precs[0]["shell"]) if precs[0]["set"] else None,
                "with-shell": " ".join("/".join(w) for w in precs[0]["ws"]), "item": text_of(precs[0]["item"]),
                "query": text_of(precs[0]["q"]), "printf_saw": [text_of(w) for w in precs[0]["seen"]]})

    # ---- (3d) J: the real binary: --delimiter, {q:N}, {N}, file placeholders after select-all
    pm = [rand_pmix_input(ctx.rng, k) for k in range(ctx.pick(36, 600))]
    pmrecs = pmix_and_judge(ctx, pm)
    nontrivial += len(pmrecs)
    ctx.cov["file_and_delimiter_sessions_of_the_real_binary"] = len(pmrecs)
    p0 = next((r for r in pmrecs if r["d"]["kind"] != "awk" and len(r["items"]) > 1), pmrecs[0])
    ctx.sample({"delimiter": delim_arg(p0["d"]), "sep": p0["sep"], "lines": [text_of(i) for i in p0["items"]],
                "query": text_of(p0["q"]), "{+f2}": text_of(p0["pf2"]), "printf_saw": [text_of(w) for w in p0["seen"]]})

    ctx.cov["distinct_nontrivial"] = nontrivial
    ctx.cov["shells"] = [" ".join(s["argv"]) for s in shells]
    ctx.cov["rule"] = ("sum of: strings over the 18-symbol data alphabet (length <= %d, all of them) that contain at least "
                       "one non-letter symbol, each quoted by the real QuoteEntry (POSIX + fish) and escapeSingleQuote and "
                       "read back by every real shell, plus the same strings once per distinct command prefix (sh -c, "
                       "/bin/bash --posix -c, ...) of the POSIX-evaluated cells of the 48-cell ($SHELL, --with-shell) matrix, "
                       "quoted by the executors built under those cells and read by the program ExecCommand starts; (template, terminal state) pairs of MC_ShellExpand with at least "
                       "one placeholder for which the property speaks (placeholders unquoted, not raw); random records "
                       "(items/queries up to 40 symbols, multi-line, up to 5 lines selected) for which it speaks, run by "
                       "the real ExecCommand under every shell (and under 2 cells of the matrix each); --tmux re-launches of the "
                       "real binary; execute-silent sessions of the real binary under every POSIX-evaluated cell; environment "
                       "entries (all strings <= %d over 11 symbols) containing something other than letters / digits / _ / =, one "
                       "`fzf --tmux` run of the real binary each; select-all + execute-silent sessions of the real binary under "
                       "--delimiter / --print0 (files and words read back). Compared: code expansion = spec expansion, temporary "
                       "file contents = spec contents, real shell argv = words computed by TLC, export part of the re-launch "
                       "script = spec text, environment of the re-launched process = the entries the spec exports"
                       % (ctx.pick(4, 5), ctx.pick(3, 4)))
    ctx.assumptions += [
        "no fish binary here: the fish escaper is bound to the code only (QuoteFish = real QuoteEntry under SHELL=fish; "
        "FishReadsBack is checked on the model alone)",
        "NUL bytes excluded (they cannot occur in an argv)",
        "the shell model treats $ ` * ; & | ( { } ! # ~ and an unquoted newline as outside its scope when they are active; "
        "command lines whose template text contains them unquoted are expanded and compared textually but not judged at "
        "shell level",
        "{fzf:...} placeholders and range lists with commas are not modelled; --delimiter: AWK style, literal strings and "
        "regular expressions that are one bracket expression (the three code paths of Tokenize; the full menu: C10)",
        "file placeholders: the path of the temporary file is one symbol (FILE); the code writes it bare, so the "
        "shell-level reading assumes a temporary directory whose name is inert ($TMPDIR is chosen by the harness)",
        "--tmux re-launch: environment entries named TMUX_PANE, BASH_FUNC_*%% and $_ are outside the model; the stand-in "
        "tmux runs `sh SCRIPT` from an environment without the caller's entries (a popup starts from the tmux server's "
        "environment); nothing on stderr and a started child are part of the expected observation",
        "the process-level execute/preview path under a tty is exercised by the interactive (tmux) checks; here the command "
        "reaches the shells through the real Executor.ExecCommand without a Terminal loop",
    ]
    return "model_checking"
