"""C01 - filtering is exact: the lines shown are the lines satisfying the query (spec/FzfQuery.tla).

MC  MC_Query[_quick].cfg   sanity theorems of the specification on a query typed term by term
E   Gen_Query_*.cfg        TLC exports, per (query, options), the ids of the matching lines of a fixed universe;
                           replayed (a) in-package on BuildPattern+MatchItem (v1/v2 x forward/backward x positions),
                           (b) for a sample, through the real binary in filter mode (sorted and streaming path)
J   Judge_Query            seeded random longer queries/lines over the whole alphabet run on the real matcher,
                           every record decided by FzfQuery!Matches
Python only builds inputs, moves files and compares JSON that TLC computed.
"""
import glob, json, os
from concurrent.futures import ThreadPoolExecutor
import vlib
from vlib import replay_cases, judge, Infra, write_ndjson, read_ndjson, log

VARIANTS = ["v2-fwd", "v2-bwd-pos", "v1-fwd-pos", "v1-bwd"]
BWD_VARIANTS = {"v2-bwd-pos", "v1-bwd"}
RUNS = ["sort-v2", "nosort-v2-end", "sort-v1-path", "nosort-v1"]
BWD_RUNS = {"nosort-v2-end", "sort-v1-path"}
# signatures of genuine defects (DESIGN 9); the integrator decides fix vs known_findings.json
KF_F1 = {"finding": "F1", "kind": "boundary", "forward": False}
KF_TABQ = {"finding": "TABQ", "kind": "tab-in-query"}
HARNESS_FILES = ["zz_verif_common_test.go", "zz_verif_query_test.go"]

CHARMAP = {"a~": "á", "A~": "Á", "e~": "é", "han": "漢", "TAB": "\\t"}


def show(syms):
    return "".join(CHARMAP.get(s, s) for s in syms)


def show_opts(o):
    return "%s%s case=%s%s" % ("fuzzy" if o["fuzzy"] else "--exact", "" if o["extended"] else " --no-extended",
                               o["case"], "" if o["normalize"] else " --literal")


def count(compact, n):
    return n - len(compact["ids"]) if compact["neg"] else len(compact["ids"])


def norm_case(c):
    for k in ("m", "f1"):
        c[k]["ids"] = sorted(c[k]["ids"])
    return c


# ------------------------------------------------------------------------------------------------ E: expectations
def exp_replay(c):
    return {"m": {v: c["m"] for v in VARIANTS}, "ckey": c["ckey"], "cacheable": c["cacheable"],
            "sortable": c["sortable"]}


def exp_replay_f1(c):
    e = exp_replay(c)
    e["m"] = {v: (c["f1"] if v in BWD_VARIANTS else c["m"]) for v in VARIANTS}
    return e


def kf_replay(c, exp, r):
    """F1 exactly: the query has a multi-character boundary term and the real code's answer is, for every
    variant, what the specification says under deviation F1 for the backward variants and the specification
    itself for the forward ones."""
    if c.get("hasf1") and not r.get("panic") and r.get("got") == exp_replay_f1(c) and c["f1"] != c["m"]:
        return KF_F1
    return None


def make_exp_filter(sizes):
    def one(c, dev):
        n = sizes[c["cls"]]
        m, ex = (c["f1"], c["f1exit"]) if dev else (c["m"], c["exit"])
        return {"exit": ex, "n": count(m, n), "m": m}

    def exp(c):
        return {run: one(c, False) for run in RUNS}

    def exp_f1(c):
        return {run: one(c, run in BWD_RUNS) for run in RUNS}

    def kf(c, exp_, r):
        if c.get("hasf1") and not r.get("panic") and r.get("got") == exp_f1(c) and c["f1"] != c["m"]:
            return KF_F1
        return None
    return exp, kf


def describe_replay(c, exp, r):
    got = r.get("got") or {}
    diffs = []
    for v in VARIANTS:
        g = (got.get("m") or {}).get(v)
        if g != exp["m"][v]:
            diffs.append("%s: spec %s, real %s" % (v, json.dumps(exp["m"][v])[:200], json.dumps(g)[:200]))
    for k in ("ckey", "cacheable", "sortable"):
        if got.get(k) != exp[k]:
            diffs.append("%s (code-derived): spec %s, real %s" % (k, json.dumps(exp[k]), json.dumps(got.get(k))))
    return "[%s] query %r (%s) over universe %s: %s%s" % (
        c["cls"], show(c["q"]), show_opts(c["o"]), c["cls"], "; ".join(diffs)[:900],
        " PANIC " + str(r.get("panic")) if r.get("panic") else "")


def describe_filter(c, exp, r):
    got = r.get("got") or {}
    diffs = ["%s: spec %s, real %s" % (run, json.dumps(exp[run])[:200], json.dumps(got.get(run))[:200])
             for run in RUNS if got.get(run) != exp[run]]
    return "[%s] fzf --filter %r (%s): %s" % (c["cls"], show(c["q"]), show_opts(c["o"]), "; ".join(diffs)[:900])


def two_pass(ctx, h, test, cases, expected, label, env, describe, kf):
    """Replay everything, then re-run (and only then report) the mismatches: the ones no known deviation explains
    first, so that a known finding can never crowd out a new one."""
    results = replay_cases(ctx, h, test, cases, expected, label, env=env, max_report=0)
    bad = [i for i, (c, r) in enumerate(zip(cases, results)) if r.get("got") != expected(c) or r.get("panic")]
    if not bad:
        return results, bad
    plain = [i for i in bad if not kf(cases[i], expected(cases[i]), results[i])]
    known = [i for i in bad if kf(cases[i], expected(cases[i]), results[i])]
    pick = plain[:10] + known[:3]
    before = len(ctx.violations)
    replay_cases(ctx, h, test, [cases[i] for i in pick], expected, label + "-re", env=env, max_report=len(pick),
                 kf=kf, describe=describe)
    if len(ctx.violations) - before != len(pick):
        raise Infra("%s: %d of %d mismatches not reproduced" % (label, len(pick) - (len(ctx.violations) - before), len(pick)))
    log("%s: %d mismatching cases (%d explained by a known deviation)" % (label, len(bad), len(known)))
    return results, bad


# ------------------------------------------------------------------------------------------------ J: input generator
LOW, UP, ACC, DIG = ["a", "b", "c", "e"], ["A", "B", "C"], ["a~", "A~", "e~"], ["1", "2"]
NONWORD = ["_", "-", ".", "(", ")", "*", "+", "/", ",", ":", ";"]
OPS = ["'", "^", "$", "!", "|", "\\"]
LINE_SYMS = LOW * 3 + UP * 2 + ACC + DIG + ["han", " ", " ", "TAB"] + NONWORD + OPS
ACCENT = {"a": "a~", "a~": "a", "A": "A~", "A~": "A", "e": "e~", "e~": "e"}
FLIP = {"a": "A", "b": "B", "c": "C", "A": "a", "B": "b", "C": "c", "a~": "A~", "A~": "a~"}
SHAPES = [("", ""), ("", ""), ("", ""), ("'", ""), ("'", ""), ("'", "'"), ("'", "'"), ("^", ""), ("", "$"), ("^", "$")]


def gen_body(rng):
    out = []
    for _ in range(rng.choice([1, 1, 2, 2, 2, 3, 3, 4])):
        x = rng.random()
        if x < 0.60:
            out.append(rng.choice(LOW + LOW + UP))
        elif x < 0.73:
            out.append(rng.choice(ACC))
        elif x < 0.79:
            out.append(rng.choice(DIG + ["han"]))
        elif x < 0.87:
            out.append(rng.choice(NONWORD))
        elif x < 0.925:
            out += ["\\", " "]
        elif x < 0.985:
            out.append(rng.choice(OPS))
        else:
            out.append("TAB")
    return out


def gen_query(rng):
    """-> (query symbols, list of term texts used to build relevant lines)"""
    if rng.random() < 0.05:
        q = [rng.choice(["a", "A", "b", "a~", "'", "^", "$", "!", "|", "\\", " ", " ", "-"]) for _ in range(rng.randint(1, 10))]
        return q, [[s for s in q if s not in OPS and s != " "][:3]]
    texts, q, nterms = [], [], 0
    if rng.random() < 0.04:
        q += rng.choice([[" "], [" ", " "], ["|", " "]])
    ngroups = rng.choice([1, 1, 2, 2, 3, 4])
    for g in range(ngroups):
        if nterms >= 6:
            break
        if g:
            q += [" "] * rng.choice([1, 1, 1, 1, 2])
        for a in range(rng.choice([1, 1, 1, 1, 1, 1, 2, 2, 2, 3])):
            if nterms >= 6:
                break
            if a:
                q += [" ", "|", " "]
            body = gen_body(rng)
            if rng.random() < 0.08:
                pre = rng.choice([["'"], ["^"], ["!"], ["!", "!"], ["'", "^"], ["^", "'"], ["!", "'"], []])
                post = rng.choice([["'"], ["$"], ["'", "$"], ["$", "'"], ["$", "$"], []])
            else:
                s = rng.choice(SHAPES)
                pre = (["!"] if rng.random() < 0.25 else []) + ([s[0]] if s[0] else [])
                post = [s[1]] if s[1] else []
            q += pre + body + post
            nterms += 1
            text, i = [], 0
            while i < len(body):
                if body[i] == "\\" and i + 1 < len(body) and body[i + 1] == " ":
                    text.append(" ")
                    i += 2
                else:
                    text.append(body[i])
                    i += 1
            texts.append(text)
    if rng.random() < 0.05:
        q += rng.choice([[" "], [" ", "|"], [" ", " "], ["\\", " "]])
    return q, texts


def mutate(rng, t):
    if not t or rng.random() < 0.45:
        return t
    op = rng.randrange(7)
    i = rng.randrange(len(t))
    if op == 0:
        t[i] = FLIP.get(t[i], t[i])
    elif op == 1:
        t[i] = ACCENT.get(t[i], t[i])
    elif op == 2:
        del t[i]
    elif op == 3:
        t.insert(i, rng.choice(LINE_SYMS))
    elif op == 4:
        t = [FLIP.get(s, s) if s in UP + ["A~"] else s for s in t]
    elif op == 5:
        t = [FLIP.get(s, s) if s in LOW + ["a~"] else s for s in t]
    else:
        t.insert(rng.randrange(len(t) + 1), rng.choice(LOW))
    return t


def gen_line(rng, texts):
    pieces = []
    for _ in range(rng.choice([1, 1, 2, 2, 3, 4])):
        if texts and rng.random() < 0.7:
            pieces.append(mutate(rng, list(rng.choice(texts))))
        else:
            pieces.append([rng.choice(LINE_SYMS) for _ in range(rng.randint(0, 4))])
    line = []
    if rng.random() < 0.25:
        line += [rng.choice([" ", "TAB"])] * rng.randint(1, 2)
    for i, pc in enumerate(pieces):
        if i:
            line += rng.choice([[], [], [" "], [" "], ["-"], ["_"], ["/"], ["."], ["TAB"], [","], ["a"], ["1"], [" ", " "]])
        line += pc
    if rng.random() < 0.25:
        line += [rng.choice([" ", "TAB"])] * rng.randint(1, 2)
    return line[:24]


def gen_inputs(rng, n, nlines):
    out = []
    for _ in range(n):
        q, texts = gen_query(rng)
        o = {"fuzzy": rng.random() < 0.7, "extended": rng.random() < 0.85,
             "case": rng.choice(["smart", "smart", "smart", "ignore", "respect"]), "normalize": rng.random() < 0.75,
             "algo": rng.choice(["v1", "v2"]), "fwd": rng.random() < 0.5, "pos": rng.random() < 0.5}
        if "TAB" in q:
            o["fwd"] = True      # keeps the two known deviations apart
        out.append({"opts": o, "query": q, "lines": [gen_line(rng, texts) for _ in range(nlines)]})
    return out


def run_record(ctx, h, inputs, tag):
    ipath = os.path.join(ctx.work, "jin-%s.ndjson" % tag)
    opath = os.path.join(ctx.work, "jrec-%s.ndjson" % tag)
    write_ndjson(ipath, inputs)
    ctx.run_harness(h, "TestVerifQueryRecord", env={"VERIF_CASES": ipath, "VERIF_OUT": opath,
                                                    "VERIF_SCHEME": ["default", "path", "history"][ctx.seed % 3]})
    recs = read_ndjson(opath)
    if len(recs) != len(inputs):
        raise Infra("record: %d inputs, %d records" % (len(inputs), len(recs)))
    return recs


def mismatches(res):
    out = []
    for x in res.raw_items("MISMATCH"):
        parts = [p.strip() for p in x.split(",")]
        out.append((int(parts[0]) - 1, int(parts[1]) - 1, parts[2].strip('"')))
    return sorted(out)


def describe_record(r, k, why):
    o = r["opts"]
    return "query %r (%s, algo=%s, %s scan, pos=%s) line %r: real code says matched=%s, the specification says %s%s" % (
        show(r["query"]), show_opts(o), o["algo"], "forward" if o["fwd"] else "backward", o["pos"],
        show(r["lines"][k]), r["matched"][k], not r["matched"][k] if not r.get("panic") else "(panic: %s)" % r.get("panicmsg"),
        "" if why == "none" else " [explained by deviation %s]" % why)


def judge_flow(ctx, h, inputs, workers):
    recs = run_record(ctx, h, inputs, "all")
    _, res = judge(ctx, "Judge_Query", "Judge_Query.cfg", recs, "query", workers=workers, timeout=3000)
    mm = mismatches(res)
    if mm:
        plain = sorted({l for (l, k, why) in mm if why not in ("F1", "TABQ")})
        f1 = sorted({l for (l, k, why) in mm if why == "F1"} - set(plain))
        tabq = sorted({l for (l, k, why) in mm if why == "TABQ"} - set(plain) - set(f1))
        pick = plain[:10] + f1[:3] + tabq[:3]
        recs2 = run_record(ctx, h, [inputs[l] for l in pick], "re")
        _, res2 = judge(ctx, "Judge_Query", "Judge_Query.cfg", recs2, "query-re", workers=1, timeout=3000)
        mm2 = mismatches(res2)
        if {l for (l, _, _) in mm2} != set(range(len(pick))):
            raise Infra("judge: %d rejected records, %d reproduced" % (len(pick), len({l for (l, _, _) in mm2})))
        seen = set()
        for (l, k, why) in mm2:
            if l in seen:
                continue
            seen.add(l)
            r = recs2[l]
            case = {"harness": "TestVerifQueryRecord", "label": "query-judge", "record": r, "line": k, "why": why}
            if why == "F1":
                case["kf"] = KF_F1
            elif why == "TABQ":
                case["kf"] = KF_TABQ
            ctx.violation("judge: the specification rejects what the real code did: " + describe_record(r, k, why), case)
        log("judge: %d rejected (record,line) pairs: %d records plain, %d F1, %d TABQ" % (len(mm), len(plain), len(f1), len(tabq)))
    return recs, mm


# ------------------------------------------------------------------------------------------------ the check
def run(ctx):
    if not ctx.replay:      # drop this tier/seed's replay files of an earlier run (they are overwritten by index)
        for f in glob.glob(os.path.join(vlib.EVID, "replays", ctx.prop, "%s-%d-*.json" % (ctx.tier, ctx.seed))):
            os.remove(f)
    dev_workers = int(os.environ.get("VERIF_WORKERS", "0")) or None     # cap while other builders share the machine
    W = dev_workers or min(vlib.NCPU, 16)

    def gen(cfg, cls, label, args=(), workers=None, timeout=3000):
        res = ctx.tlc("MC_Query", cfg, workers=workers or max(2, W // 2), timeout=timeout, label=label,
                      env={"GEN_CLASS": cls}, args=list(args), heap="3g")
        cases = [norm_case(c) for c in res.json_items("CASE")]
        univ = res.json_items("UNIV")
        chars = res.json_items("CHARS")
        if not cases or len(univ) != 1 or len(chars) != 1:
            raise Infra("%s exported %d cases / %d universes" % (label, len(cases), len(univ)))
        return cases, univ[0], chars[0]

    def do_mc():
        cfg = "MC_Query_quick.cfg" if ctx.quick else "MC_Query.cfg"
        mc = ctx.mc("MC_Query", cfg, timeout=3000, workers=W, env={"GEN_CLASS": "mc"})
        # vacuity (TLC's -coverage cannot be used on this module: its cost-model construction expands the operator
        # graph and runs out of memory at start-up).  Every action instance fired iff the state count is exact:
        nopts, nterms = (5, 48) if ctx.quick else (12, 72)
        want = nopts * (1 + nterms + nterms * 2 * nterms)
        if mc.distinct != want:
            raise Infra("MC_Query: %d states, expected %d (opts x (1 + T + T*2T))" % (mc.distinct, want))
        wit = {"NarrowingSound": len(mc.raw_items("NARROW")), "LookupSound": len(mc.raw_items("LOOKUP"))}
        if min(wit.values()) == 0:
            raise Infra("vacuous theorem in MC_Query: %s" % wit)
        ctx.cov["action_coverage"]["MC_Query"] = {"Init": nopts, "TypeAnd": nopts * (nterms + nterms * nterms),
                                                 "TypeOr": nopts * nterms * nterms, "antecedent_witnesses": wit}
        return mc

    seed = str(ctx.seed)
    ntraces = ctx.pick(1200, 12000)
    simw = 8 if not dev_workers else min(8, dev_workers)
    jobs = {
        "harness": lambda: ctx.build_harness("src", HARNESS_FILES, shared=["chars"]),
        "fzf": lambda: ctx.build_fzf(),
        "mc": do_mc,
        "doc": lambda: gen("Gen_Query_doc.cfg", "doc", "gen-doc", workers=simw,
                           args=["-simulate", "num=%d" % (ntraces // simw), "-depth", "4", "-seed", seed]),
        "basic": lambda: gen("Gen_Query_basic_quick.cfg" if ctx.quick else "Gen_Query_basic.cfg", "basic", "gen-basic"),
        "corner": lambda: gen("Gen_Query_corner_quick.cfg" if ctx.quick else "Gen_Query_corner.cfg", "corner", "gen-corner"),
    }
    if not ctx.quick:
        jobs["doc1"] = lambda: gen("Gen_Query_doc1.cfg", "doc", "gen-doc1")
    if ctx.replay:
        jobs = {k: jobs[k] for k in ("basic", "corner", "harness", "fzf")}
        jobs["basic"] = lambda: gen("Gen_Query_basic_quick.cfg", "basic", "gen-basic")
        jobs["corner"] = lambda: gen("Gen_Query_corner_quick.cfg", "corner", "gen-corner")
    out = {}
    # the TLC runs are independent: overlap them (BFS start-up and initial states are single-threaded)
    with ThreadPoolExecutor(max_workers=3 if dev_workers else 4) as ex:
        futs = {k: ex.submit(f) for k, f in jobs.items()}
        for k, f in futs.items():
            out[k] = f.result()
    h, fzf = out["harness"], out["fzf"]

    # universes (line id -> line), exactly as TLC printed them
    univ = {"doc": out["basic"][1], "basic": out["basic"][1], "corner": out["corner"][1]}
    for k in ("doc", "doc1"):
        if k in out and out[k][1] != univ["doc"]:
            raise Infra("universe of %s differs from the basic class" % k)
    sizes = {k: len(v) for k, v in univ.items()}
    upath = os.path.join(ctx.work, "universes.json")
    with open(upath, "w") as fh:
        json.dump(univ, fh)
    env = {"VERIF_UNIVERSES": upath, "VERIF_FZF": fzf}
    exp_filter, kf_filter = make_exp_filter(sizes)

    if ctx.replay:
        case = json.load(open(ctx.replay))["case"]
        if case["harness"] == "TestVerifQueryRecord":
            judge_flow(ctx, h, [{k: case["record"][k] for k in ("opts", "query", "lines")}], 1)
        elif case["harness"] == "TestVerifQueryFilter":
            replay_cases(ctx, h, case["harness"], [case["case"]], exp_filter, "replay", env=env, kf=kf_filter, describe=describe_filter)
        else:
            replay_cases(ctx, h, case["harness"], [case["case"]], exp_replay, "replay", env=env, kf=kf_replay, describe=describe_replay)
        return "model_checking"

    # (0) the alphabet itself: FzfChars tables vs unicode.* / algo
    chars = out["basic"][2]
    ccases = [{"sym": s, "exp": chars[s]} for s in sorted(chars)]
    replay_cases(ctx, h, "TestVerifQueryChars", ccases, lambda c: c["exp"], "chars", env=env,
                 describe=lambda c, e, r: "symbol %r: FzfChars says %s, real code says %s" % (c["sym"], e, r.get("got")))

    # (1) E in-package
    bykey = {}
    for k in ("doc1", "doc", "basic", "corner"):
        for c in out.get(k, ([], None, None))[0]:
            bykey.setdefault(json.dumps([c["cls"], c["q"], c["o"]], sort_keys=True), c)
    cases = [bykey[k] for k in sorted(bykey)]       # TLC prints in worker order: sort, so that a seed fixes the sample
    log("E: %d distinct (query, options) cases exported by TLC" % len(cases))
    _, bad = two_pass(ctx, h, "TestVerifQueryReplay", cases, exp_replay, "replay", env, describe_replay, kf_replay)

    # (2) E end-to-end: a seeded sample through the real binary; every class, biased to non-trivial match sets
    nontrivial = [c for c in cases if 0 < count(c["m"], sizes[c["cls"]]) < sizes[c["cls"]]]
    trivial = [c for c in cases if not (0 < count(c["m"], sizes[c["cls"]]) < sizes[c["cls"]])]
    ne2e = ctx.pick(150, 2500)
    sample = ctx.rng.sample(nontrivial, min(len(nontrivial), ne2e * 4 // 5)) + ctx.rng.sample(trivial, min(len(trivial), ne2e // 5))
    two_pass(ctx, h, "TestVerifQueryFilter", sample, exp_filter, "filter", env, describe_filter, kf_filter)

    # (3) J
    inputs = gen_inputs(ctx.rng, ctx.pick(4000, 40000), 12)
    recs, mm = judge_flow(ctx, h, inputs, W)

    # evidence
    nmatched = sum(sum(1 for b in r["matched"] if b) for r in recs)
    ntotal = sum(len(r["matched"]) for r in recs)
    byclass = {}
    for c in cases:
        byclass[c["cls"]] = byclass.get(c["cls"], 0) + 1
    ctx.cov["traces_validated_against_impl"] += len(cases) * len(VARIANTS) + len(sample) * len(RUNS)
    ctx.cov["distinct_nontrivial"] = len(nontrivial)
    ctx.cov["rule"] = ("E: distinct (query, fuzzy/extended/case/normalize) pairs exported by TLC whose match set over the line "
                       "universe is neither empty nor everything; each is replayed on BuildPattern+MatchItem with "
                       "{v1,v2} x {forward,backward} x {positions on/off} and must give exactly TLC's set of line ids "
                       "(plus cache key / cacheable / sortable, code-derived); a seeded sample also through the real binary "
                       "(--filter, sorted and +s streaming path, --tiebreak=end, --scheme=path; stdout set and exit status). "
                       "Universes: doc/basic = all %d strings of length <= 4 over {a,A,b,a-acute,blank,-}; corner = all %d strings "
                       "of length <= 3 over {a ' $ ^ ! | \\ blank}. Exhaustive sub-spaces: basic (all raw queries of length <= %d, "
                       "--no-extended, 12 option combinations), corner (all raw queries of length <= %d over the operator alphabet, "
                       "4 combinations)%s; doc queries of 1-3 terms are TLC -simulate samples. J: %d random (options, query) records "
                       "x 12 lines, each decided by FzfQuery!Matches in TLC." % (
                           sizes["doc"], sizes["corner"], ctx.pick(2, 3), ctx.pick(3, 4),
                           "" if ctx.quick else ", doc1 (all 288 one-term documented queries x 12 combinations)", len(recs)))
    ctx.cov["cases_by_class"] = byclass
    ctx.cov["e2e_sample"] = len(sample)
    ctx.cov["judge_lines"] = {"total": ntotal, "matched": nmatched, "rejected": len(mm)}
    ctx.cov["replay_mismatching_cases"] = len(bad)
    for c in nontrivial[:3]:
        ctx.sample({"query": show(c["q"]), "opts": c["o"], "class": c["cls"], "matching_lines": count(c["m"], sizes[c["cls"]]),
                    "first_ids": c["m"]["ids"][:8], "complemented": c["m"]["neg"]})
    for r in recs[:2]:
        ctx.sample({"query": show(r["query"]), "opts": r["opts"], "lines": [show(l) for l in r["lines"][:4]],
                    "matched": r["matched"][:4]})
    ctx.assumptions += [
        "finite alphabet (FzfChars, 31 symbols chosen to hit every character class, case and accent branch); arbitrary "
        "Unicode is not enumerated; the tables Lower/Norm/IsSpace/word-class are themselves checked against unicode/algo",
        "--nth / --with-nth / --delimiter are not crossed here (field selection is C10); --tac/--tail not crossed (C04/C06)",
        "interactive match list equality is C08's job; C01 observes MatchItem and filter-mode output",
        "code-derived corners (lone operators, `'a$`, bar placement, anchored terms skipping blanks at the line ends, "
        "cache key) mirror the code and are regression oracles only",
    ]
    return "model_checking"
