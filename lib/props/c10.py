"""C10 - field index expressions select exactly the documented fields (spec/FzfFields.tla).

MC   MC_Fields*.cfg: partition / offsets / cut characterisation for every line <= 5 (quick) / 6 (thorough) over
     {a b , : space TAB e~} x 9 delimiters; selection, --nth soundness/completeness and rendition invariants are
     checked in the same TLC runs that export the cases.
     AWK style has a second alphabet (delimiter record awk:uni): TAB and SPACE - the only AWK blanks - next to CR, VT,
     FF, NBSP, NEL and multi-byte characters whose UTF-8 bytes include 0xA0 / 0x85 / 0x80 (a-grave, a-ogonek, U+4F60,
     U+5800): full menu on every line <= 3 / 4, in-package and through the binary; tokens only on every line
     <= 3 / 4 over 22 symbols (also LF, BS, US, DEL, U+2003, U+3000, zero width space, dagger).
     Non-ASCII delimiters have a third alphabet {a b SPACE e-acute e-grave box-vertical box-horizontal U+4F60}: the literal
     delimiters e-acute (one character, 2 bytes), box-vertical (one character, 3 bytes), e-acute+box-vertical (two
     characters) and the regular expression [e-acute box-vertical]; full menu on every line <= 3 / 4, in-package and through
     the binary (--delimiter on the command line); partition invariants on every line <= 5 / 6.  ByCharacter /
     LiteralWhole (FzfFields): a literal delimiter is matched as a whole string of characters, characters sharing bytes
     of its encoding (e-grave, box-horizontal) are field content.
E    TLC-exported cases replayed in-package (Tokenize, ParseRange, Transform, splitNth, BuildPattern+MatchItem,
     nthTransformer via the option parser, Item.acceptNth, replacePlaceholder) and through the real binary
     (fzf --filter with --nth / --delimiter / --with-nth, default and streaming path).
J    longer random lines / expressions / nth lists / templates recorded from the real code, judged by Judge_Fields.
"""
import json, os
from vlib import replay_cases, record_and_judge, judge, write_ndjson, Infra, log

LINE_KEYS = ["toks", "hits", "raw", "shown", "acc", "whits", "ph", "phs", "phq", "qph", "qphs"]
FILES = ["zz_verif_common_test.go", "zz_verif_fields_test.go"]
BASE_DELIMS = [("awk", ""), ("str", ","), ("str", ", "), ("str", "TAB"), ("re", "[,:]"), ("re", ",+"), ("re", ",|, "), ("re", "b*")]
# non-ASCII delimiters (MC_Fields.tla U8Delims): ids are symbol names; the first three are literal strings for
# delimiterRegexp (one character / no meta character), the last is a regular expression
U8_DELIMS = [("str", "e~"), ("str", "bxv"), ("str", "e~bxv"), ("re", "[e~bxv]")]
U8_IDS = {d[1] for d in U8_DELIMS}
CLI_DELIMS = BASE_DELIMS + [("awk", "uni")] + U8_DELIMS    # awk:uni = AWK style again, on its own alphabet (MC_Fields.tla AwkU)
ALL_DELIMS = BASE_DELIMS + [("re", ","), ("re", ", "), ("re", "TAB")] + U8_DELIMS
UNIVERSES = ("base", "uni", "u8")
N_BASE_DELIMS, N_BASE_SYMS, N_U8_SYMS = 11, 7, 8
J_ALPHABET = ["a", "b", ",", ":", " ", "TAB", "e~", "a", ",", " ", "han", "A~", "c", "1", ";", "-", "/"]
J_TERMSYMS = ["a", "b", ",", ":", "e~", "han", "A~", "c", "1", ";", "-", "/", "e`", "bxh", "bxv"]
# characters that are not AWK blanks although something else takes them for white space (control characters, Unicode
# white space, UTF-8 sequences with the bytes 0x85 / 0xA0 / 0x80) and wide characters; mixed into the random lines
J_ODD = ["CR", "VT", "FF", "LF", "NBSP", "NEL", "IDSP", "EMSP", "ZWSP", "BS", "US", "DEL", "a`", "aog", "ni", "hori", "dag"]
J_SPACES = {" ", "TAB", "CR", "VT", "FF", "LF", "NBSP", "NEL", "IDSP", "EMSP"}      # unicode.IsSpace: never inside a term
# lines for the non-ASCII delimiters: their characters, the characters sharing lead bytes with them, letters, wide characters
J_U8 = ["e~", "e`", "bxv", "bxh", "e~", "bxv", "a", "b", "c", " ", "ni", "han", "A~", "a`", "dag", ","]


def dkey(d):
    return "%s:%s" % (d["kind"], d["id"])


def txt(syms):
    return "".join({"TAB": "\\t", " ": "_"}.get(s, s if len(s) == 1 or s.endswith("~") else "<%s>" % s) for s in syms)


def ukey(d):
    """which universe of lines a delimiter's cases are drawn from"""
    if d["kind"] != "awk" and d["id"] in U8_IDS:
        return "u8"
    return "uni" if (d["kind"], d["id"]) == ("awk", "uni") else "base"


def expr(chars):
    return "".join(chars)


def nth_arg(exprs):
    return ",".join(expr(e) for e in exprs)


def spec_arg(sp):
    if sp["plain"]:
        return nth_arg(sp["nth"])
    out = ""
    for p in sp["parts"]:
        out += {"lit": lambda: txt(p["v"]), "nth": lambda: "{" + nth_arg(p["v"]) + "}", "n": lambda: "{n}"}[p["k"]]()
    return out


class Combos:
    def __init__(self, menu):
        self.m = menu
        self.nK, self.nT = len(menu["kinds"]), len(menu["terms"])
        self.nWN, self.nWK, self.nWT = len(menu["wnth"]), len(menu["wkinds"]), len(menu["wterms"])

    def combo(self, c):
        c -= 1
        return (c // (self.nK * self.nT), (c // self.nT) % self.nK, c % self.nT)

    def wcombo(self, c):
        c -= 1
        return (c // (self.nWN * self.nWK * self.nWT), (c // (self.nWK * self.nWT)) % self.nWN,
                (c // self.nWT) % self.nWK, c % self.nWT)

    def combo_str(self, c):
        n, k, t = self.combo(c)
        return "--nth=%s %s term=%s" % (nth_arg(self.m["nth"][n]) or "(none)", self.m["kinds"][k], txt(self.m["terms"][t]))

    def wcombo_str(self, c):
        s, n, k, t = self.wcombo(c)
        return "--with-nth=%s --nth=%s %s term=%s" % (spec_arg(self.m["specs"][s]), nth_arg(self.m["wnth"][n]) or "(none)",
                                                      self.m["wkinds"][k], txt(self.m["wterms"][t]))


def run(ctx):
    quick = ctx.quick
    workers = int(os.environ.get("VERIF_WORKERS", "0")) or None

    # ---------------------------------------------------------------- (1) MC: partition / offsets / cut points
    mc = ctx.mc("MC_Fields", "MC_Fields_quick.cfg" if quick else "MC_Fields.cfg", timeout=1500, coverage=quick,
                workers=workers)
    if not quick:
        cov = ctx.mc("MC_Fields", "MC_Fields_quick.cfg", timeout=900, coverage=True, workers=workers, label="MC_cov")
        ctx.mc("MC_Fields", "MC_Fields_faithful.cfg", timeout=900, workers=workers)
    else:
        cov = mc
    dead = [a for a, n in cov.action_cov.items() if n == 0]
    if dead or not cov.action_cov:
        raise Infra("vacuous model: action coverage %s" % cov.action_cov)

    # ---------------------------------------------------------------- (2) E: exports (the same runs check the
    # selection / --nth / rendition invariants in every exported state)
    gl = ctx.mc("MC_Fields", "Gen_Fields_line3.cfg" if quick else "Gen_Fields_line4.cfg", timeout=1500, workers=workers,
                label="gen-line")
    menus = gl.json_items("MENU")
    lines = gl.json_items("CASE")
    if not menus or len(lines) != gl.distinct:
        raise Infra("line export incomplete: %d cases, %d states, %d menus" % (len(lines), gl.distinct, len(menus)))
    menu = menus[0]
    cb = Combos(menu)
    gs = ctx.mc("MC_Fields", "Gen_Fields_sel.cfg", timeout=900, workers=workers, label="gen-sel")
    sels = gs.json_items("CASE")
    gp = ctx.tlc("MC_Fields", "Gen_Fields_parse4.cfg" if quick else "Gen_Fields_parse6.cfg", timeout=900, workers=workers,
                 label="gen-parse")
    parses = [c for c in gp.json_items("CASE") if c["e"]]
    toks5 = []
    if not quick:
        gt = ctx.tlc("MC_Fields", "Gen_Fields_tok5.cfg", timeout=900, workers=workers, label="gen-tok")
        toks5 = [c for c in gt.json_items("CASE") if len(c["line"]) == 5]
        if len(toks5) != N_BASE_DELIMS * N_BASE_SYMS ** 5 + len(U8_DELIMS) * N_U8_SYMS ** 5:
            raise Infra("token export incomplete: %d" % len(toks5))
    ga = ctx.mc("MC_Fields", "Gen_Fields_awktok3.cfg" if quick else "Gen_Fields_awktok4.cfg", timeout=1500, workers=workers,
                label="gen-awktok")
    awktoks = ga.json_items("CASE")
    if len(sels) != gs.distinct or len(parses) + 1 != gp.distinct or len(awktoks) != ga.distinct:
        raise Infra("export incomplete")
    if not menu.get("chars") or not all(k in menu["chars"] for k in J_ODD):
        raise Infra("character table missing in the menu")

    menu_path = os.path.join(ctx.work, "menu.json")
    with open(menu_path, "w") as fh:
        json.dump(menu, fh)
    env = {"VERIF_MENU": menu_path}
    h = ctx.build_harness("src", FILES, shared=["chars"])
    fzf = ctx.build_fzf()

    # the lines fed to the binary: one universe per alphabet (all delimiters of the base menu share theirs)
    universes, uids, ualpha, e2e_envs = {}, {}, {}, {}
    for u in UNIVERSES:
        universes[u] = sorted({json.dumps(c["line"]) for c in lines if ukey(c["d"]) == u})
        uids[u] = {l: i for i, l in enumerate(universes[u])}
        ualpha[u] = {x for l in universes[u] for x in json.loads(l)}
        upath = os.path.join(ctx.work, "universe-%s.json" % u)
        with open(upath, "w") as fh:
            fh.write("[" + ",".join(universes[u]) + "]")
        e2e_envs[u] = {"VERIF_FZF": fzf, "VERIF_UNIVERSE": upath}
    if ctx.replay:
        return replay_one(ctx, h, env, e2e_envs)

    # ---- in-package: lines
    def exp_line(c):
        return {k: c[k] for k in LINE_KEYS}

    def desc_line(c, exp, r):
        got = r.get("got", {})
        for k in LINE_KEYS:
            if got.get(k) != exp[k]:
                detail = "spec %s real %s" % (json.dumps(exp[k])[:300], json.dumps(got.get(k))[:300])
                if k == "hits":
                    e, g = {x[0]: x for x in exp[k]}, {x[0]: x for x in got.get(k, [])}
                    c0 = sorted(x for x in set(e) | set(g) if e.get(x) != g.get(x))[0]
                    detail = "%s: spec %s real %s" % (cb.combo_str(c0), e.get(c0, "no match"), g.get(c0, "no match"))
                elif k == "whits":
                    c0 = sorted(set(exp[k]) ^ set(got.get(k, [])))[0]
                    detail = "%s: spec %s real %s" % (cb.wcombo_str(c0), c0 in exp[k], c0 in got.get(k, []))
                elif k != "toks":
                    i = [j for j in range(len(exp[k])) if j >= len(got.get(k, [])) or got[k][j] != exp[k][j]][0]
                    what = spec_arg(menu["specs"][i]) if k in ("raw", "shown", "acc") else "{" + nth_arg(menu["ph"][i]) + "}"
                    detail = "%s: spec %r real %r" % (what, txt(exp[k][i]), txt(got[k][i]) if j_ok(got, k, i) else None)
                return "line %r delimiter %s, %s: %s %s" % (txt(c["line"]), dkey(c["d"]), k, detail, r.get("panic", ""))
        return "line %r delimiter %s: %s" % (txt(c["line"]), dkey(c["d"]), json.dumps(r)[:300])

    def kf_line(c, exp, r):
        got = r.get("got", {})
        for k in LINE_KEYS:
            if got.get(k) != exp[k]:
                return {"site": k, "delimiter": dkey(c["d"])}
        return None

    res_line = replay_cases(ctx, h, "TestVerifFieldsLine", lines, exp_line, "line", env=env, describe=desc_line,
                            kf=kf_line, timeout=1500)
    if toks5:
        e5 = dict(env)
        e5["VERIF_TOKONLY"] = "1"
        replay_cases(ctx, h, "TestVerifFieldsLine", toks5, lambda c: {"toks": c["toks"]}, "tok5", env=e5, timeout=1500,
                     describe=lambda c, exp, r: "Tokenize(%r, %s): spec %s real %s" % (
                         txt(c["line"]), dkey(c["d"]), json.dumps(exp["toks"]), json.dumps(r.get("got", {}).get("toks"))),
                     kf=lambda c, exp, r: {"site": "toks", "delimiter": dkey(c["d"])})

    e5 = dict(env)
    e5["VERIF_TOKONLY"] = "1"
    replay_cases(ctx, h, "TestVerifFieldsLine", awktoks, lambda c: {"toks": c["toks"]}, "awktok", env=e5, timeout=1500,
                 describe=lambda c, exp, r: "Tokenize(%r, %s): spec %s real %s" % (
                     txt(c["line"]), dkey(c["d"]), json.dumps(exp["toks"]), json.dumps(r.get("got", {}).get("toks"))),
                 kf=lambda c, exp, r: {"site": "toks", "delimiter": dkey(c["d"])})

    # ---- in-package: selection, every expression x shaped lines
    def desc_sel(c, exp, r):
        got = r.get("got", {})
        gs_ = got.get("sel", [])
        for i, e in enumerate(exp["sel"]):
            if i >= len(gs_) or gs_[i] != e:
                return "line %r delimiter %s (%d fields) expression %s: spec %s real %s" % (
                    txt(c["line"]), dkey(c["d"]), c["n"], expr(menu["exprs"][i]), json.dumps(e),
                    json.dumps(gs_[i] if i < len(gs_) else None))
        return "line %r delimiter %s: field count spec %d real %s" % (txt(c["line"]), dkey(c["d"]), c["n"], got.get("n"))

    def kf_sel(c, exp, r):
        gs_ = r.get("got", {}).get("sel", [])
        for i, e in enumerate(exp["sel"]):
            if i >= len(gs_) or gs_[i] != e:
                return {"site": "Transform", "expression": expr(menu["exprs"][i]), "delimiter": dkey(c["d"])}
        return {"site": "Tokenize", "delimiter": dkey(c["d"])}

    replay_cases(ctx, h, "TestVerifFieldsSel", sels, lambda c: {"n": c["n"], "sel": c["sel"]}, "sel", env=env,
                 describe=desc_sel, kf=kf_sel, timeout=1500)

    # ---- in-package: expression grammar
    replay_cases(ctx, h, "TestVerifFieldsParse", parses,
                 lambda c: {"ok": c["ok"], "oklist": c["oklist"], "okph": c["okph"], "sel": c["sel"]}, "parse", env=env,
                 describe=lambda c, exp, r: "expression %r: spec %s real %s" % (expr(c["e"]), json.dumps(exp), json.dumps(r.get("got"))),
                 kf=lambda c, exp, r: {"site": "ParseRange", "expression": expr(c["e"])})

    # ---- end to end: the real binary in filter mode; expected match sets = TLC's per-line results transposed
    exp_sets, wexp_sets = {}, {}
    for c in lines:
        k, i = dkey(c["d"]), uids[ukey(c["d"])][json.dumps(c["line"])]
        for hit in c["hits"]:
            exp_sets.setdefault((k, hit[0]), []).append(i)
        for wc in c["whits"]:
            wexp_sets.setdefault((k, wc), []).append(i)
    e2e = []
    ncomb = len(menu["nth"]) * cb.nK * cb.nT
    nwcomb = len(menu["specs"]) * cb.nWN * cb.nWK * cb.nWT
    for (kind, did) in CLI_DELIMS:
        d = {"kind": kind, "id": did}
        alpha = ualpha[ukey(d)]
        for c0 in range(1, ncomb + 1):
            n, k, t = cb.combo(c0)
            if not set(menu["terms"][t]) <= alpha:          # a term no line of this universe can contain
                continue
            for stream in (False, True):
                if stream and (c0 + ctx.seed) % 3:          # the streaming path on a third of the configurations
                    continue
                # postProcessOptions drops an all-fields --nth: the specification names the entry really searched
                ceff = ((menu["effnth"][n][k] - 1) * cb.nK + k) * cb.nT + t + 1
                e2e.append({"d": d, "nth": menu["nth"][n], "kind": menu["kinds"][k], "term": menu["terms"][t],
                            "spec": None, "stream": stream, "exp": sorted(exp_sets.get((dkey(d), ceff), []))})
        for c0 in range(1, nwcomb + 1):
            s, n, k, t = cb.wcombo(c0)
            if any(p["k"] == "n" for p in menu["specs"][s]["parts"]):
                continue        # {n} depends on the ordinal of the line: in-package only
            if not set(menu["wterms"][t]) <= alpha | {x for p in menu["specs"][s]["parts"] if p["k"] == "lit" for x in p["v"]}:
                continue
            e2e.append({"d": d, "nth": menu["wnth"][n], "kind": menu["wkinds"][k], "term": menu["wterms"][t],
                        "spec": menu["specs"][s], "stream": False, "exp": sorted(wexp_sets.get((dkey(d), c0), []))})

    def desc_e2e(c, exp, r):
        got = r.get("got", [])
        universe = universes[ukey(c["d"])]
        miss = [txt(json.loads(universe[i])) for i in exp if i not in got][:3]
        extra = [txt(json.loads(universe[i])) for i in got if i not in exp][:3]
        return "fzf %s over %d lines: spec matches %d, real %d; missing e.g. %s, extra e.g. %s %s" % (
            " ".join(r.get("args", [])), len(universe), len(exp), len(got), miss, extra, r.get("panic", ""))

    def kf_e2e(c, exp, r):
        return {"site": "e2e", "delimiter": dkey(c["d"]), "with_nth": c["spec"] is not None, "stream": c["stream"]}

    for u in UNIVERSES:
        replay_cases(ctx, h, "TestVerifFieldsE2E", [c for c in e2e if ukey(c["d"]) == u], lambda c: c["exp"], "e2e-" + u,
                     env=e2e_envs[u], describe=desc_e2e, kf=kf_e2e, timeout=1500)

    # ---- undetermined offsets (exact / fuzzy terms): every observed match is judged by the specification
    und = []
    for c, r in zip(lines, res_line):
        for u in r.get("und", []):
            n, k, t = cb.combo(u[0])
            und.append({"op": "match", "line": c["line"], "d": c["d"], "nth": menu["nth"][n], "kind": menu["kinds"][k],
                        "term": menu["terms"][t], "matched": True, "s": u[1], "e": u[2], "pos": u[3:]})
    ctx.rng.shuffle(und)
    und = und[:ctx.pick(6000, 40000)]
    bad, _ = judge(ctx, "Judge_Fields", "Judge_Fields.cfg", und, "und", workers=workers, timeout=1500)
    recheck = [{k: v for k, v in und[i].items() if k not in ("matched", "s", "e", "pos")} for i in bad[:10]]

    # ---------------------------------------------------------------- (3) J: longer random inputs
    inputs = recheck + random_inputs(ctx, ctx.pick(6000, 40000))

    def desc_rec(r):
        return "%s line %r delimiter %s: %s" % (r["op"], txt(r["line"]), dkey(r["d"]),
                                                json.dumps({k: v for k, v in r.items() if k not in ("line", "d", "op")})[:600])

    recs = record_and_judge(ctx, h, "TestVerifFieldsRecord", inputs, "Judge_Fields", "Judge_Fields.cfg", "rec", env=env,
                            describe=desc_rec, kf=lambda r: {"site": r["op"], "delimiter": dkey(r["d"])},
                            workers=workers, timeout=1500)

    # ---------------------------------------------------------------- evidence
    nontrivial = 0
    by_key = {}
    for c in lines:
        hits = {x[0]: (x[1], x[2]) for x in c["hits"]}
        # --nth mattered: outcome differs from the unrestricted search with the same kind/term
        for c0 in range(cb.nK * cb.nT + 1, ncomb + 1):
            n, k, t = cb.combo(c0)
            base = (k * cb.nT) + t + 1
            if base in hits and hits.get(c0) != hits[base]:
                nontrivial += 1
        by_key[dkey(c["d"])] = by_key.get(dkey(c["d"]), 0) + 1
    sel_nontrivial = 0
    for c in sels:
        full = c["sel"][0][1]
        sel_nontrivial += sum(1 for s in c["sel"] if s[0] == 1 and s[1] and s[1] != full)
    jm = [r for r in recs if r["op"] == "match"]
    ctx.cov["distinct_nontrivial"] = nontrivial + sel_nontrivial
    ctx.cov["rule"] = ("exhaustive part: (line, delimiter, nth, kind, term) combinations where the term matches the whole "
                       "line and the --nth restriction changes the outcome (no match, or other offsets): %d; plus "
                       "(line, delimiter, expression) triples selecting a non-empty proper part of the line: %d. All "
                       "generated by TLC from the bounded space (lines <= %d over 7 symbols x 9 delimiters and over 13 "
                       "symbols [TAB SPACE CR VT FF NBSP NEL a-grave a-ogonek U+4F60 U+5800 a b] x AWK style, and over 8 "
                       "symbols [a b SPACE e-acute e-grave box-vertical box-horizontal U+4F60] x 4 non-ASCII delimiters, x menu; "
                       "shaped lines with 0..8 fields x 155 expressions A,B in -5..5)" % (nontrivial, sel_nontrivial, 3 if quick else 4))
    ctx.cov["exhaustive"] = True
    ctx.cov["cases"] = {"line": len(lines), "tok5": len(toks5), "sel": len(sels), "sel_expressions": len(menu["exprs"]),
                        "parse": len(parses), "e2e_runs": len(e2e), "e2e_universe": {u: len(universes[u]) for u in universes},
                        "awk_tokens_22_symbols": len(awktoks),
                        "judged_undetermined_offsets": len(und), "j_records": len(recs),
                        "j_matches_found": sum(1 for r in jm if r["matched"]), "j_matches": len(jm),
                        "lines_per_delimiter": by_key}
    ctx.cov["traces_validated_against_impl"] += len(lines) + len(sels) + len(parses) + len(e2e) + len(toks5) + len(awktoks)
    for c in lines:
        if ukey(c["d"]) == "uni" and len(c["toks"]) == 2 and {"hori", "NBSP"} <= set(c["line"]):
            ctx.sample({"line": txt(c["line"]), "delimiter": dkey(c["d"]), "tokens": [[txt(t["t"]), t["p"]] for t in c["toks"]]})
            break
    for c in lines:
        if dkey(c["d"]) == "str:bxv" and len(c["toks"]) == 2 and {"bxh", "bxv", "ni"} <= set(c["line"]):
            ctx.sample({"line": txt(c["line"]), "delimiter": dkey(c["d"]), "tokens": [[txt(t["t"]), t["p"]] for t in c["toks"]]})
            break
    for c in lines:
        if len(c["toks"]) == 3 and len(c["hits"]) > 20 and "e~" in c["line"]:
            ctx.sample({"line": txt(c["line"]), "delimiter": dkey(c["d"]), "tokens": [[txt(t["t"]), t["p"]] for t in c["toks"]],
                        "hits": [[cb.combo_str(x[0]), x[1], x[2]] for x in c["hits"] if x[1] >= 0 and cb.combo(x[0])[0] > 0][:4],
                        "with_nth": {spec_arg(menu["specs"][i]): txt(c["shown"][i]) for i in (0, 6)}})
            if len(ctx.cov["samples"]) >= 3:
                break
    for r in jm:
        if r["matched"] and len(r["nth"]) > 1:
            ctx.sample({"j": "match", "line": txt(r["line"]), "delimiter": dkey(r["d"]), "nth": nth_arg(r["nth"]),
                        "kind": r["kind"], "term": txt(r["term"]), "offsets": [r["s"], r["e"]], "pos": r["pos"]})
            break
    ctx.assumptions += [
        "delimiters are the fixed menu awk / ',' / ', ' / TAB / e-acute / box-vertical / e-acute+box-vertical (literal) and "
        "',' ', ' TAB '[,:]' ',+' ',|, ' 'b*' '[e-acute box-vertical]' (regex; ',|, ' stands for leftmost-first alternation: the "
        "first alternative that matches wins, not the longest; 'b*' for expressions that match the empty string: cut after every FindAll match, an empty first field - "
        "code-derived); other regular expressions are not modelled; non-ASCII literal delimiters are bound on these three only (2-byte and 3-byte "
        "characters of the Basic Multilingual Plane, no combining sequences)",
        "AWK-style blanks are exactly TAB and SPACE; every other character (control characters, Unicode white space, any "
        "multi-byte character) is field content - bound on the characters of spec/FzfChars.tla only",
        "terms are case-sensitive, not normalised, contain no white space; what a term kind means on a text is C01/C02's "
        "subject, C10 binds where it is searched and how offsets are shifted",
        "--accept-nth is bound at Item.acceptNth + the parsed transformer (not through a tty)",
        "trailing-delimiter corner is CODE-DERIVED: a literal delimiter at the end of a line yields a final empty "
        "field, a regex delimiter does not (so -1 differs between --delimiter=, and --delimiter='[,]')"]
    # ---------------------------------------------------------------- presentation of whole items under --with-nth
    # (FzfItems.SearchText: field expressions and templates x delimiters x --ansi through the real binary)
    from props import c10_items
    ctx.cov["presentation_cases"] = c10_items.presentation_part(ctx)
    return "model_checking"


def j_ok(got, k, i):
    return isinstance(got.get(k), list) and i < len(got[k])


# ------------------------------------------------------------------------------------------------ J generator
def rnd_int(rng, bound=9):
    v = rng.randint(1, bound)
    return v if rng.random() < 0.5 else -v


def rnd_expr(rng):
    """A valid field index expression as a character list."""
    def chars(n):
        return list(str(n))
    while True:
        form = rng.choice(["n", "n", "a..", "..b", "a..b", "a..b", ".."])
        if form == "n":
            return chars(rnd_int(rng))
        if form == "a..":
            return chars(rnd_int(rng)) + [".", "."]
        if form == "..b":
            return [".", "."] + chars(rnd_int(rng))
        if form == "..":
            return [".", "."]
        a, b = rnd_int(rng), rnd_int(rng)
        if a < 0 and b > 0:
            continue
        return chars(a) + [".", "."] + chars(b)


def rnd_line(rng, d):
    n = rng.randint(5, 24)
    bias = {"awk": [" ", " ", "TAB"], ",": [",", ","], ", ": [",", " ", ","], "TAB": ["TAB", "TAB"],
            "[,:]": [",", ":"], ",+": [",", ",", ","], ",|, ": [",", " ", ","], "b*": ["b", "b", "e~", "han"], "e~": ["e~", "e~"], "bxv": ["bxv", "bxv"],
            "e~bxv": ["e~bxv", "e~bxv"], "[e~bxv]": ["e~", "bxv"]}[d[1] if d[0] != "awk" else "awk"]
    if d[0] != "awk" and d[1] in U8_IDS:
        pool = J_U8 + bias
        if rng.random() < 0.3:
            pool = pool + J_ALPHABET
        out = []
        while len(out) < n:
            x = rng.choice(pool)
            out += ["e~", "bxv"] if x == "e~bxv" else [x]        # the two-character delimiter as a whole
        return out
    pool = J_ALPHABET + bias * 2
    r = rng.random()
    if r < 0.5:                  # half of the lines: odd characters mixed in (a third of the symbols)
        pool = pool + [rng.choice(J_ODD) for _ in range(len(pool) // 2)]
    elif r < 0.6:                # words glued by odd characters, separated by the delimiter's own symbols
        pool = ["a", "b"] + J_ODD + bias * 3
    return [rng.choice(pool) for _ in range(n)]


def rnd_term(rng, line):
    if rng.random() < 0.75:
        for _ in range(8):
            n = rng.randint(1, 3)
            i = rng.randrange(0, max(1, len(line) - n + 1))
            sub = line[i:i + n]
            if rng.random() < 0.3 and len(sub) > 1:        # scattered characters for fuzzy terms
                sub = [line[j] for j in sorted(rng.sample(range(len(line)), min(len(line), n)))]
            if sub and all(s not in J_SPACES for s in sub):
                return sub
    return [rng.choice(J_TERMSYMS) for _ in range(rng.randint(1, 2))]


def rnd_spec(rng):
    if rng.random() < 0.5:
        return {"plain": True, "nth": [rnd_expr(rng) for _ in range(rng.randint(1, 3))], "parts": []}
    parts = []
    for _ in range(rng.randint(1, 4)):
        r = rng.random()
        if r < 0.55:
            parts.append({"k": "nth", "v": [rnd_expr(rng) for _ in range(rng.randint(1, 2))]})
        elif r < 0.9:
            parts.append({"k": "lit", "v": [rng.choice(["a", ",", ":", " ", "-", "e~", "/"]) for _ in range(rng.randint(1, 2))]})
        else:
            parts.append({"k": "n", "v": []})
    if not any(p["k"] != "lit" for p in parts):
        parts.append({"k": "nth", "v": [rnd_expr(rng)]})
    # adjacent literals would merge with nothing; a literal must not create a placeholder by accident
    return {"plain": False, "nth": [], "parts": parts}


def random_inputs(ctx, total):
    rng = ctx.rng
    out = []
    for i in range(total):
        d = rng.choice(ALL_DELIMS)
        dd = {"kind": d[0], "id": d[1]}
        line = rnd_line(rng, d)
        op = rng.choice(["tok", "sel", "sel", "match", "match", "match", "match", "wn", "wn", "ph"])
        rec = {"op": op, "line": line, "d": dd}
        if op == "sel":
            rec["e"] = rnd_expr(rng)
        elif op == "match":
            rec["nth"] = [rnd_expr(rng) for _ in range(rng.randint(1, 3))]
            rec["kind"] = rng.choice(["exact", "prefix", "suffix", "fuzzy", "fuzzy", "xexact"])
            rec["term"] = rnd_term(rng, line)
        elif op == "wn":
            rec["spec"] = rnd_spec(rng)
            rec["index"] = rng.choice([1, 2, 12, 21, 122])
        elif op == "ph":
            rec["nth"] = [rnd_expr(rng) for _ in range(rng.randint(1, 2))]
            rec["keep"] = rng.random() < 0.5
        out.append(rec)
    return out


# ------------------------------------------------------------------------------------------------ --replay
def replay_one(ctx, h, env, e2e_envs):
    """bin/check C10 <tier> --replay <file>: re-run exactly the recorded case (same tier as recorded, so that the
    e2e universe is the same)."""
    rp = json.load(open(ctx.replay))["case"]
    if "record" in rp:
        r = rp["record"]
        inp = {k: v for k, v in r.items() if k not in ("toks", "ok", "t", "p", "matched", "s", "e", "pos", "raw", "shown",
                                                        "acc", "out")}
        record_and_judge(ctx, h, "TestVerifFieldsRecord", [inp], "Judge_Fields", "Judge_Fields.cfg", "rec", env=env, workers=1)
        return "model_checking"
    e = dict(rp.get("env", {}))
    e.update(env)
    if rp["harness"] == "TestVerifFieldsE2E":
        e.update(e2e_envs[ukey(rp["case"]["d"])])
    exp = rp["expected"]
    replay_cases(ctx, h, rp["harness"], [rp["case"]], lambda c: exp, rp.get("label", "replay"), env=e)
    return "model_checking"
