"""C16 at process level: the terminal-side consumer of POSTed actions (local vs non-local listener, --listen-unsafe, API key)
on the real binary under tmux; judged by spec/Judge_ServerProc.tla with FzfServer.Executed."""
import json, os, http.client
from concurrent.futures import ThreadPoolExecutor
import tmuxdrv
from vlib import Infra, judge

EXEC = ["execute-silent", "execute"]
PLAIN = ["up", "down", "toggle-sort", "first", "last", "clear-query", "toggle-all"]


def make_case(rng, n):
    local = rng.random() < 0.4
    unsafe = (not local) and rng.random() < 0.3
    key_ok = rng.random() < 0.8
    acts = []
    k = 0
    for _ in range(rng.randint(1, 6)):
        r = rng.random()
        if r < 0.55:
            k += 1
            acts.append([rng.choice(EXEC), "touch M%d" % k])      # the argument doubles as the marker name
        else:
            acts.append([rng.choice(PLAIN), ""])
    return {"id": n, "local": local, "unsafe": unsafe, "keyOk": key_ok, "acts": acts}


def run_case(ctx, fzf, c):
    args = ["--no-color", "--multi"]
    s = tmuxdrv.Session(ctx, fzf, args, input_data="a\nb\nc\n", width=50, height=10, listen=False,
                        env={"FZF_API_KEY": "s3cr3t"})
    # tmuxdrv adds --listen itself only for local listeners; build the option here to control the address
    s.close()
    port = tmuxdrv.free_port()
    addr = ("127.0.0.1:%d" if c["local"] else "0.0.0.0:%d") % port
    largs = args + [("--listen-unsafe=" if c["unsafe"] else "--listen=") + addr]
    s = tmuxdrv.Session(ctx, fzf, largs, input_data="a\nb\nc\n", width=50, height=10, listen=False, env={"FZF_API_KEY": "s3cr3t"})
    s.port = port
    try:
        s.wait_listening()
        s.wait_for(lambda tr: any(e["ev"] == "term.list" and not e["reading"] for e in tr), what="first list")
        body = "+".join(("%s(cd %s && %s)" % (a, s.dir, arg)) if arg else a for a, arg in c["acts"])
        hdr = {"X-API-Key": "s3cr3t" if c["keyOk"] else "s3cr3"}
        conn = http.client.HTTPConnection("127.0.0.1", port, timeout=30)
        conn.request("POST", "/", body=body.encode(), headers=hdr)
        resp = conn.getresponse()
        status = resp.status
        resp.read()
        conn.close()
        # barrier: a keyed GET answers under the terminal mutex; then wait for the loop iteration (if any) and quiet trace
        s.wait_trace_quiet(quiet=0.3, timeout=60)
        tr = list(s.trace())
        marks = sorted(f for f in os.listdir(s.dir) if f.startswith("M"))
        conn = http.client.HTTPConnection("127.0.0.1", port, timeout=30)
        conn.request("POST", "/", body=b"abort", headers={"X-API-Key": "s3cr3t"})
        try:
            conn.getresponse().read()
        except Exception:
            pass
        conn.close()
        s.wait_exit()
    finally:
        s.close()
    ran = []
    for e in tr:
        if e["ev"] == "term.act" and e["act"] != "invalid":      # "invalid": the loop's own no-op for an event without actions
            arg = e["arg"]
            if arg.startswith("cd "):
                arg = arg.split("&& ", 1)[1]
            ran.append([e["act"], arg])
    return {"acts": c["acts"], "local": c["local"], "unsafe": c["unsafe"], "keyOk": c["keyOk"], "status": status, "ran": ran,
            "marks": ["touch " + m for m in marks]}


def run_part(ctx):
    fzf = ctx.build_fzf()
    cases = [make_case(ctx.rng, i) for i in range(ctx.pick(16, 150))]
    with ThreadPoolExecutor(max_workers=6) as ex:
        recs = list(ex.map(lambda c: run_case(ctx, fzf, c), cases))
    bad, _ = judge(ctx, "Judge_ServerProc", "Judge_ServerProc.cfg", recs, "server-proc", timeout=900)
    for i in bad[:5]:
        r2 = run_case(ctx, fzf, cases[i])
        bad2, _ = judge(ctx, "Judge_ServerProc", "Judge_ServerProc.cfg", [r2], "server-proc-re", workers=1)
        if not bad2:
            raise Infra("server-proc case %d not reproduced" % i)
        ctx.violation("process level: POST %s to a %s listener%s with %s key: status %d, the terminal ran %s, commands that ran: %s" % (
            json.dumps(r2["acts"]), "local" if r2["local"] else "non-local", " (--listen-unsafe)" if r2["unsafe"] else "",
            "the right" if r2["keyOk"] else "a wrong", r2["status"], json.dumps(r2["ran"]), r2["marks"]), {"case": cases[i], "record": r2})
    ctx.cov["process_level_posts"] = len(cases)
    ctx.cov["process_level_nonlocal"] = sum(1 for c in cases if not c["local"])
