"""C16 at process level: the terminal-side consumer of POSTed actions (local vs non-local listener, --listen-unsafe, API key)
on the real binary under tmux; judged by spec/Judge_ServerProc.tla with FzfServer.Executed."""
import json, os, http.client
from concurrent.futures import ThreadPoolExecutor
import tmuxdrv
from vlib import Infra, judge

EXEC = ["execute-silent", "execute"]
PLAIN = ["up", "down", "toggle-sort", "first", "last", "clear-query", "toggle-all"]


def make_case(rng, n):
    local = rng.random() < 0.4
    unsafe = (not local) and rng.random() < 0.3
    key_ok = rng.random() < 0.8
    acts = []
    k = 0
    for _ in range(rng.randint(1, 6)):
        r = rng.random()
        if r < 0.55:
            k += 1
            acts.append([rng.choice(EXEC), "touch M%d" % k])      # the argument doubles as the marker name
        else:
            acts.append([rng.choice(PLAIN), ""])
    return {"id": n, "local": local, "unsafe": unsafe, "keyOk": key_ok, "acts": acts}


def run_case(ctx, fzf, c):
    args = ["--no-color", "--multi"]
    s = tmuxdrv.Session(ctx, fzf, args, input_data="a\nb\nc\n", width=50, height=10, listen=False,
                        env={"FZF_API_KEY": "s3cr3t"})
    # tmuxdrv adds --listen itself only for local listeners; build the option here to control the address
    s.close()
    port = tmuxdrv.free_port()
    addr = ("127.0.0.1:%d" if c["local"] else "0.0.0.0:%d") % port
    largs = args + [("--listen-unsafe=" if c["unsafe"] else "--listen=") + addr]
    s = tmuxdrv.Session(ctx, fzf, largs, input_data="a\nb\nc\n", width=50, height=10, listen=False, env={"FZF_API_KEY": "s3cr3t"})
    s.port = port
    try:
        s.wait_listening()
        s.wait_for(lambda tr: any(e["ev"] == "term.list" and not e["reading"] for e in tr), what="first list")
        body = "+".join(("%s(cd %s && %s)" % (a, s.dir, arg)) if arg else a for a, arg in c["acts"])
        hdr = {"X-API-Key": "s3cr3t" if c["keyOk"] else "s3cr3"}
        conn = http.client.HTTPConnection("127.0.0.1", port, timeout=30)
        conn.request("POST", "/", body=body.encode(), headers=hdr)
        resp = conn.getresponse()
        status = resp.status
        resp.read()
        conn.close()
        # barrier: a keyed GET answers under the terminal mutex; then wait for the loop iteration (if any) and quiet trace
        s.wait_trace_quiet(quiet=0.3, timeout=60)
        tr = list(s.trace())
        marks = sorted(f for f in os.listdir(s.dir) if f.startswith("M"))
        conn = http.client.HTTPConnection("127.0.0.1", port, timeout=30)
        conn.request("POST", "/", body=b"abort", headers={"X-API-Key": "s3cr3t"})
        try:
            conn.getresponse().read()
        except Exception:
            pass
        conn.close()
        s.wait_exit()
    finally:
        s.close()
    ran = []
    for e in tr:
        if e["ev"] == "term.act" and e["act"] != "invalid":      # "invalid": the loop's own no-op for an event without actions
            arg = e["arg"]
            if arg.startswith("cd "):
                arg = arg.split("&& ", 1)[1]
            ran.append([e["act"], arg])
    return {"acts": c["acts"], "local": c["local"], "unsafe": c["unsafe"], "keyOk": c["keyOk"], "status": status, "ran": ran,
            "marks": ["touch " + m for m in marks]}


# ------------------------------------------------------------------ GET: slices, counts, no state change, no crash
HUGE = 10 ** 6          # numbers above any list length are all alike for DumpSlice (and TLC integers are 32 bit)
NUMS = [0, 1, 2, 5, 11, 12, 13, 99, 100, 101, 1000, 65536, 2 ** 31 - 1, 2 ** 31, 2 ** 32 + 1, 10 ** 18, 2 ** 63 - 1]
JUNK = ["x=1", "limit=", "offset=", "limit=abc", "limits=3", "limit=99999999999999999999", "offset=99999999999999999999", "", "limit", "&"]


def make_get_session(rng, n):
    nitems = rng.choice([0, 1, 12, 12, 150])
    items = ["%03d %s" % (i, rng.choice(["ab", "xy", "abx", "yz"])) for i in range(nitems)]
    query = rng.choice(["", "", "ab", "x", "zzz"])
    nsel = rng.choice([0, 0, 2, 5])
    gets = []
    for _ in range(rng.randint(6, 12)):
        parts, lim, off = [], 100, 0
        for _ in range(rng.choice([0, 1, 1, 2, 2, 3])):
            r = rng.random()
            if r < 0.4:
                v = rng.choice(NUMS)
                parts.append("limit=%d" % v)
                lim = v
            elif r < 0.8:
                v = rng.choice(NUMS)
                parts.append("offset=%d" % v)
                off = v
            else:
                parts.append(rng.choice(JUNK))      # ignored (no '=', unknown name, or a value strconv.Atoi rejects)
        gets.append({"q": "&".join(parts), "limit": lim, "offset": off})
    return {"id": n, "items": items, "query": query, "nsel": nsel, "gets": gets}


def state_digest(st):
    return [st["query"], st["position"], st["sort"], st["totalCount"], st["matchCount"], st["reading"],
            st["current"]["index"] if st.get("current") else -1]


def run_get_session(ctx, fzf, c):
    s = tmuxdrv.Session(ctx, fzf, ["--no-color", "--multi", "--query", c["query"]], input_data="".join(i + "\n" for i in c["items"]),
                        width=50, height=10)
    recs = []
    try:
        s.wait_listening()
        s.wait_for(lambda tr: any(e["ev"] == "term.list" and not e["reading"] for e in tr) or not c["items"], what="first list")
        s.wait_trace_quiet(quiet=0.2, timeout=60)
        for _ in range(c["nsel"]):
            s.post("toggle+down")
        s.wait_trace_quiet(quiet=0.2, timeout=60)

        def raw_get(q):
            conn = http.client.HTTPConnection("127.0.0.1", s.port, timeout=30)
            try:
                conn.request("GET", "/" + ("?" + q if q else ""))
                resp = conn.getresponse()
                body = resp.read()
                return resp.status, body
            finally:
                conn.close()
        for g in c["gets"]:
            st0, b0 = raw_get("limit=100000&offset=0")
            if st0 != 200:
                raise Infra("reference GET -> %d" % st0)
            full = json.loads(b0)
            alive, status, got, sel_got, mc = True, -1, [], [], -1
            try:
                status, body = raw_get(g["q"])
                if status == 200:
                    d = json.loads(body)
                    got, sel_got, mc = [m["index"] for m in d["matches"]], [m["index"] for m in d["selected"]], d["matchCount"]
            except (OSError, http.client.HTTPException, ValueError) as ex:
                status = -2
            after = None
            try:
                st1, b1 = raw_get("limit=100000&offset=0")
                after = json.loads(b1) if st1 == 200 else None
            except (OSError, http.client.HTTPException, ValueError):
                pass
            if after is None:
                alive = not s.exited()
                after = {"query": "?", "position": -1, "sort": False, "totalCount": -1, "matchCount": -1, "reading": False}
                alive = False
            recs.append({"k": "get", "sid": c["id"], "q": g["q"], "limit": min(g["limit"], HUGE), "offset": min(g["offset"], HUGE), "status": status,
                         "all": [m["index"] for m in full["matches"]], "selAll": [m["index"] for m in full["selected"]],
                         "got": got, "selGot": sel_got, "matchCount": mc, "before": state_digest(full), "after": state_digest(after),
                         "alive": alive})
            if not alive:
                break
        if not s.exited():
            try:
                s.post("abort", final=True)
            except Exception:
                pass
            try:
                s.wait_exit(timeout=20 if (recs and not recs[-1]["alive"]) else 60)
            except Infra:
                if not (recs and not recs[-1]["alive"]):
                    raise           # a server that stopped answering is already on record; the pane is torn down below
    finally:
        s.close()
    return recs


def run_get_part(ctx, fzf):
    cases = [make_get_session(ctx.rng, i) for i in range(ctx.pick(8, 80))]
    with ThreadPoolExecutor(max_workers=6) as ex:
        per = list(ex.map(lambda c: run_get_session(ctx, fzf, c), cases))
    recs, owner = [], []
    for c, rs in zip(cases, per):
        for r in rs:
            recs.append(r)
            owner.append(c)
    bad, _ = judge(ctx, "Judge_ServerProc", "Judge_ServerProc.cfg", recs, "server-get", timeout=900)
    seen = set()
    for i in bad:
        c = owner[i]
        if c["id"] in seen or len(seen) >= 4:
            continue
        seen.add(c["id"])
        rs2 = run_get_session(ctx, fzf, c)
        bad2, _ = judge(ctx, "Judge_ServerProc", "Judge_ServerProc.cfg", rs2, "server-get-re", workers=1)
        if not bad2:
            raise Infra("server-get session %d not reproduced" % c["id"])
        r2 = rs2[bad2[0]]
        ctx.violation("process level: GET /?%s (limit %d offset %d) on a session with %d matches / %d selected: status %d, %d matches and %d "
                      "selected items returned (%s), fzf %s afterwards, state before %s after %s" % (
                          r2["q"], r2["limit"], r2["offset"], len(r2["all"]), len(r2["selAll"]), r2["status"], len(r2["got"]), len(r2["selGot"]),
                          json.dumps(r2["got"][:8]), "answers" if r2["alive"] else "does NOT answer", json.dumps(r2["before"]),
                          json.dumps(r2["after"])), {"case": c, "record": r2})
    ctx.cov["process_level_gets"] = len(recs)
    ctx.cov["traces_validated_against_impl"] += len(cases)


def run_part(ctx):
    fzf = ctx.build_fzf()
    run_get_part(ctx, fzf)
    cases = [make_case(ctx.rng, i) for i in range(ctx.pick(16, 150))]
    with ThreadPoolExecutor(max_workers=6) as ex:
        recs = list(ex.map(lambda c: run_case(ctx, fzf, c), cases))
    bad, _ = judge(ctx, "Judge_ServerProc", "Judge_ServerProc.cfg", recs, "server-proc", timeout=900)
    for i in bad[:5]:
        r2 = run_case(ctx, fzf, cases[i])
        bad2, _ = judge(ctx, "Judge_ServerProc", "Judge_ServerProc.cfg", [r2], "server-proc-re", workers=1)
        if not bad2:
            raise Infra("server-proc case %d not reproduced" % i)
        ctx.violation("process level: POST %s to a %s listener%s with %s key: status %d, the terminal ran %s, commands that ran: %s" % (
            json.dumps(r2["acts"]), "local" if r2["local"] else "non-local", " (--listen-unsafe)" if r2["unsafe"] else "",
            "the right" if r2["keyOk"] else "a wrong", r2["status"], json.dumps(r2["ran"]), r2["marks"]), {"case": cases[i], "record": r2})
    ctx.cov["process_level_posts"] = len(cases)
    ctx.cov["process_level_nonlocal"] = sum(1 for c in cases if not c["local"])
