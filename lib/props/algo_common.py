"""Shared machinery of C02 / C03 / C05 (API level): spec/FzfAlgo*.tla bound to /repo/src/algo.

E: MC_Algo.tla enumerates (text, pattern, cs, norm, scheme) over class-covering alphabets and prints, per input, the
   result TLC computed for all seven matchers in both directions; harness TestVerifAlgoCases replays them on the real
   code in every representation / slab / withPos variant and reports each variant whose projection differs.
J: harness TestVerifAlgoRecord runs the real matchers on long random / giant inputs; Judge_Algo.tla evaluates the
   spec's operators on every record.
"""
import json, os, re
import vlib
from vlib import Infra, log

HARNESS_FILES = ["zz_verif_common_test.go", "zz_verif_algo_test.go", "zz_verif_algo_cases_test.go",
                 "zz_verif_algo_record_test.go", "zz_verif_algo_hist_test.go", "zz_verif_algo_scan_test.go"]
KINDS = ["v2", "v1", "exact", "boundary", "prefix", "suffix", "equal"]
_TAG = re.compile(r'^<<"(CASE|TABLE|THMFAIL)", (.*)>>$')


def harness(ctx):
    return ctx.build_harness("src/algo", HARNESS_FILES, shared=["chars"], gopkg="algo")


def par(ctx):
    return int(os.environ.get("VERIF_PAR", "8"))


def model_check(ctx, cfgs, workers=None):
    """Design theorems of MC_Algo on the exhaustive enumeration; a THMFAIL is a defect of the model (exit 2)."""
    for cfg in cfgs:
        res = ctx.mc("MC_Algo", cfg, timeout=3000, workers=workers)
        log("model-checked %s: %d states in %.0fs" % (cfg, res.distinct, res.wall))
        fails = res.json_items("THMFAIL")
        if fails:
            raise Infra("design theorem fails on the model (%s): %s" % (cfg, json.dumps(fails[:3])))
        res.tagged.clear()


def export_cases(ctx, cfg, label, workers=None, stats=None):
    """Run a Gen_Algo config; write the cases (one JSON object per line) and the symbol table to files without keeping
    them in memory.  Returns (cases_path, table_path, n_cases).  stats: dict updated with coverage counters."""
    res = ctx.tlc("MC_Algo", cfg, timeout=3000, label="gen-" + label, workers=workers)
    log("exported %s: %d states in %.0fs" % (cfg, res.distinct, res.wall))
    res.tagged.clear()
    cpath = os.path.join(ctx.work, "cases-%s.ndjson" % label)
    tpath = os.path.join(ctx.work, "table-%s.json" % label)
    n = 0
    have_table = False
    with open(res.outp, errors="replace") as fh, open(cpath, "w") as out:
        for line in fh:
            m = _TAG.match(line.rstrip("\n"))
            if not m:
                continue
            inner = json.loads(m.group(2))
            if m.group(1) == "TABLE":
                with open(tpath, "w") as th:
                    th.write(inner)
                have_table = True
            elif m.group(1) == "CASE":
                out.write(inner + "\n")
                n += 1
                if stats is not None:
                    count_case(stats, json.loads(inner))
    os.remove(res.outp)
    if not have_table or n == 0:
        raise Infra("TLC exported no cases / no table for " + cfg)
    if n != sum(1 for _ in open(cpath)):
        raise Infra("case file corrupt")
    return cpath, tpath, n


def count_case(stats, c):
    """Coverage counters over exported cases (no verdict): per matcher kind the number of inputs it matches, and the
    number of non-trivial inputs (some matcher matches, some does not)."""
    hits = [c["r"][2 * k][0] >= 0 for k in range(len(KINDS))]
    stats["cases"] = stats.get("cases", 0) + 1
    for k, h in zip(KINDS, hits):
        if h:
            stats["match_" + k] = stats.get("match_" + k, 0) + 1
    if any(hits) and not all(hits):
        stats["nontrivial"] = stats.get("nontrivial", 0) + 1
    if c["r"][0][3] != c["r"][2][3] or c["r"][0][2] != c["r"][2][2]:
        stats["v2_differs_from_v1"] = stats.get("v2_differs_from_v1", 0) + 1
    if any(c["fb"]) and hits[0]:
        stats["fallback_matches"] = stats.get("fallback_matches", 0) + 1
    if len(stats.setdefault("samples", [])) < 3 and hits[0] and len(c["p"]) > 1 and c["r"][0] != c["r"][2]:
        stats["samples"].append({"text": c["t"], "pattern": c["p"], "cs": c["cs"], "norm": c["norm"], "scheme": c["sch"],
                                 "v2": c["r"][0], "v1": c["r"][2], "exact": c["r"][4]})


def run_cases(ctx, binary, cpath, tpath, fields, fills, label, timeout=3000):
    """Replay a case file; returns (summary, [{"line": n, "bad": [...], "judge": [...]}, ...])."""
    opath = os.path.join(ctx.work, "out-%s.ndjson" % label)
    ctx.run_harness(binary, "TestVerifAlgoCases", timeout=timeout,
                    env={"VERIF_CASES": cpath, "VERIF_OUT": opath, "VERIF_TABLE": tpath, "VERIF_FIELDS": fields,
                         "VERIF_FILLS": ",".join(fills), "VERIF_PAR": par(ctx)})
    recs = vlib.read_ndjson(opath)
    log("replayed %s (%s): %s" % (label, fields, json.dumps(recs[-1])[:300] if recs else "nothing"))
    if not recs or not recs[-1].get("summary"):
        raise Infra("harness wrote no summary (%s)" % label)
    return recs[-1], recs[:-1]


# ---------------------------------------------------------------- findings: precise signatures of known defect classes
def classify(case_p_len, b):
    """kf signature of a mismatch `b` (one variant of one call) if it belongs to a class already analysed, else None.
    The signature names the call site and the compared field, so anything else stays a plain violation."""
    fn, field = b.get("fn"), b.get("field")
    if fn == "ExactMatchBoundary" and b.get("fwd") is False and field == "matched" and b.get("exp") is True \
            and case_p_len > 1:
        return {"finding": "F1", "fn": "ExactMatchBoundary", "forward": False, "field": "matched", "multichar": True}
    if fn == "FuzzyMatchV2" and field == "start" and b.get("withPos") is False and case_p_len > 1:
        return {"finding": "F7", "fn": "FuzzyMatchV2", "field": "start", "cmp": "withPos"}
    if fn == "FuzzyMatchV2" and field in ("pos", "start") and b.get("withPos") is True \
            and b.get("fill") in ("max", "neg", "rnd", "stale") and b.get("ref") is not None and b.get("ref") == b.get("exp"):
        return {"finding": "F9", "fn": "FuzzyMatchV2", "field": "pos", "cmp": "slab"}
    if fn == "FuzzyMatchV2" and b.get("fwd") is True and case_p_len == 1 and field == "score" \
            and isinstance(b.get("got"), int) and isinstance(b.get("exp"), int) and b["got"] < b["exp"]:
        return {"finding": "F13", "fn": "FuzzyMatchV2", "field": "score", "forward": True, "patlen": 1}
    return None


def fmt_case(c):
    return "text=%s pattern=%s cs=%s norm=%s scheme=%s" % (json.dumps("|".join(c["t"])), json.dumps("|".join(c["p"])),
                                                           c["cs"], c["norm"], c["sch"])


def report_bad(ctx, binary, cpath, tpath, fields, fills, label, bads, keep=lambda b: True, per_sig=3):
    """bads: [(line_no, bad_list)] from run_cases.  Each selected mismatch class is re-run alone (the single case in a
    file of its own); reproduced ones become violations, at most per_sig per signature.  Returns counters."""
    if not bads:
        return {}
    lines = None
    seen = {}
    counts = {}
    for line_no, bl in bads:
        bl = [b for b in bl if keep(b)]
        if not bl:
            continue
        if lines is None:
            with open(cpath) as fh:
                lines = fh.readlines()
        case = json.loads(lines[line_no])
        groups = {}
        for b in bl:
            sig = classify(len(case["p"]), b)
            key = json.dumps(sig, sort_keys=True) if sig else "other:%s:%s:%s" % (b["fn"], b["field"], b.get("fwd"))
            groups.setdefault(key, (sig, []))[1].append(b)
        for key, (sig, bs) in groups.items():
            counts[key] = counts.get(key, 0) + 1
            if seen.get(key, 0) >= per_sig:
                continue
            seen[key] = seen.get(key, 0) + 1
            one = os.path.join(ctx.work, "one-%s.ndjson" % label)
            with open(one, "w") as fh:
                fh.write(lines[line_no])
            _, again = run_cases(ctx, binary, one, tpath, fields, fills, label + "-re")
            bl2 = [b for r2 in again for b in r2["bad"] if keep(b)]
            same = [b for b in bl2 if (classify(len(case["p"]), b) == sig if sig else (b["fn"], b["field"]) == (bs[0]["fn"], bs[0]["field"]))]
            if not same:
                raise Infra("%s: mismatch on case %d not reproduced when run alone: %s" % (label, line_no, json.dumps(bs[0])))
            b = same[0]
            what = "%s: %s(%s forward=%s withPos=%s rep=%s slab=%s fill=%s): %s: spec %s, real %s%s" % (
                label, b["fn"], fmt_case(case), b["fwd"], b["withPos"], b.get("rep"), b.get("slab"), b.get("fill"),
                b["field"], json.dumps(b["exp"]), json.dumps(b["got"]),
                (" (reference call: %s)" % json.dumps(b["ref"])) if b.get("ref") is not None else "")
            rec = {"harness": "TestVerifAlgoCases", "label": label, "case": case, "mismatch": b, "all": same[:6],
                   "fields": fields, "fills": fills}
            if sig:
                rec["kf"] = sig
            ctx.violation(what, rec)
    return counts


def check_table(ctx, summary, label):
    if summary.get("table_bad"):
        ctx.violation("%s: symbol table of the spec disagrees with the real classification/folding functions: %s"
                      % (label, "; ".join(summary["table_bad"][:5])), {"table_bad": summary["table_bad"]})


# ---------------------------------------------------------------- J: inputs TLC cannot enumerate
J_SYMS = (["a", "b", "c", "e"] * 6 + ["A", "B", "C"] * 3 + ["1", "2"] * 2 + ["a~", "A~", "e~", "han"] +
          [" "] * 4 + ["TAB", "_", "_", "-", "-", ".", "/", "/", ",", ":", ";", "|", "$"])
J_ASCII = [s for s in J_SYMS if s not in ("a~", "A~", "e~", "han")]


class Folder:
    """Folding tables taken from the TABLE line TLC printed (spec/FzfChars.tla), used only to GENERATE admissible
    patterns (lower-case when case-insensitive, accent-free when normalising) - never to compute an expectation."""

    def __init__(self, tpath):
        t = json.load(open(tpath))
        self.lower = {e["sym"]: e["lower"] for e in t["syms"]}
        self.norm = {e["sym"]: e["norm"] for e in t["syms"]}
        self.space = {e["sym"] for e in t["syms"] if e["space"]}
        self.table = t

    def fold(self, s, cs, norm):
        s = s if cs else self.lower[s]
        return self.norm[s] if norm else s


def rand_text(rng, n, ascii_only=None):
    if ascii_only is None:
        ascii_only = rng.random() < 0.5
    syms = J_ASCII if ascii_only else J_SYMS
    out = []
    while len(out) < n:           # words separated by blanks / delimiters so that every bonus class occurs
        out += [rng.choice(syms) for _ in range(rng.randint(1, 9))]
        if rng.random() < 0.5:
            out.append(rng.choice([" ", "/", "_", "-", ","]))
    if rng.random() < 0.25:
        out = [" "] * rng.randint(1, 2) + out
    if rng.random() < 0.25:
        out = out + [rng.choice([" ", "TAB"])] * rng.randint(1, 2)
    return out[:n]


def rand_pattern(rng, fo, text, m, cs, norm):
    """A pattern that is admissible for (cs, norm); mostly derived from the text so that matchers have work to do."""
    ft = [fo.fold(s, cs, norm) for s in text]
    shape = rng.choice(["subseq", "subseq", "subseq", "substr", "substr", "prefix", "suffix", "whole", "random", "near"])
    n = len(ft)
    lead = 0
    while lead < n and text[lead] in fo.space:
        lead += 1
    trail = n
    while trail > 0 and text[trail - 1] in fo.space:
        trail -= 1
    m = max(1, min(m, n)) if n else 1
    if n == 0 or shape == "random":
        p = [rng.choice(J_SYMS) for _ in range(m)]
    elif shape in ("subseq", "near"):
        p = [ft[i] for i in sorted(rng.sample(range(n), m))]
        if shape == "near":
            p[rng.randrange(len(p))] = rng.choice(J_SYMS)
    elif shape == "substr":
        i = rng.randint(0, n - m)
        p = ft[i:i + m]
    elif shape == "prefix":
        p = ft[lead:lead + m] or ft[:m]
    elif shape == "suffix":
        p = ft[max(0, trail - m):trail] or ft[-m:]
    else:
        p = ft[lead:trail] or ft[:m]
        p = p[:12]
    return [fo.fold(fo.fold(s, cs, norm), cs, norm) for s in p]      # folding is idempotent on the table


def rand_call_context(rng, big_ok=True):
    slab = rng.choice(["nil", "real", "real", "cap:16:8", "cap:64:4", "cap:300:16", "cap:2000:40"])
    return {"slab": slab, "rep": rng.choice(["natural", "runes"]), "wp": rng.random() < 0.6}


def j_inputs(ctx, fo, n_inputs, max_len, max_pat, chk, fills=("zero",), kinds=KINDS, withref=False, v2_weight=1):
    """n_inputs random (text, pattern, options); each yields one record per matcher kind and direction, in a random
    call context (slab size, representation, positions)."""
    rng = ctx.rng
    out = []
    for _ in range(n_inputs):
        n = rng.choice([rng.randint(0, 12), rng.randint(8, max(8, max_len // 3)), rng.randint(max_len // 2, max_len)])
        text = rand_text(rng, n)
        cs, norm = rng.random() < 0.4, rng.random() < 0.5
        pat = rand_pattern(rng, fo, text, rng.randint(1, max_pat), cs, norm)
        r0 = rng.random()
        if r0 < 0.12 and max_len >= 60:
            # gappy lines: the pattern's characters lie far apart in a filler that holds none of them (long gaps drive the
            # running score of the dynamic programme down to its floor), with an early decoy occurrence now and then
            letters = rng.sample(["a", "b", "c", "e", "1", "2"], rng.randint(2, min(4, max(2, max_pat))))
            filler = rng.choice(["_", "-", ".", "A", "han"] if not cs else ["_", "-", "."])
            text = []
            for ch in letters:
                text += [filler] * rng.choice([0, 1, 5, 20, 34, 35, 36, 40, 45, 60, 80]) + [ch]
            if rng.random() < 0.4:
                text = letters[:rng.randint(1, len(letters))] + text
            text = (text + [filler] * rng.choice([0, 3]))[:max_len]
            pat = [fo.fold(fo.fold(x, cs, norm), cs, norm) for x in letters]
        elif r0 < 0.2:
            # white space of every kind around the line (prefix / suffix / equal terms trim it)
            ws = [w for w in ["VT", "FF", " ", "TAB", "CR"] if w in fo.space] or [" "]
            text = [rng.choice(ws) for _ in range(rng.randint(0, 3))] + [x for x in text if x not in fo.space][:max(1, max_len - 6)] + \
                   [rng.choice(ws) for _ in range(rng.randint(0, 3))]
            pat = rand_pattern(rng, fo, text, rng.randint(1, max_pat), cs, norm)
        sch = rng.choice(["default", "default", "path", "history"])
        for kind in kinds:
            for fwd in (True, False):
                for _rep in range(v2_weight if kind == "v2" else 1):
                    r = {"t": text, "p": pat, "cs": cs, "norm": norm, "sch": sch, "kind": kind, "fwd": fwd, "chk": chk,
                         "fill": rng.choice(list(fills))}
                    r.update(rand_call_context(rng))
                    if withref:
                        r["withref"] = True
                    out.append(r)
    return out


def giant_inputs(ctx, fo, n_inputs):
    """Lines longer than 65535 runes (and than the real slab), run-length encoded: two or three giant runs among
    short ones; the pattern is taken from the run symbols so that witnesses exist across the giant runs."""
    rng = ctx.rng
    out = []
    for _ in range(n_inputs):
        ascii_only = rng.random() < 0.6
        syms = [s for s in (J_ASCII if ascii_only else J_SYMS)]
        runs = [[rng.choice(syms), rng.randint(1, 3)] for _ in range(rng.randint(6, 12))]
        for _g in range(rng.randint(1, 2)):
            runs[rng.randrange(len(runs))][1] = rng.randint(33000, 70000)
        if sum(c for _, c in runs) <= 65535:
            runs[rng.randrange(len(runs))][1] += 66000
        merged = []
        for s, c in runs:
            if merged and merged[-1][0] == s:
                merged[-1][1] += c
            else:
                merged.append([s, c])
        cs, norm = rng.random() < 0.4, rng.random() < 0.5
        small = [s for s, c in merged for _k in range(min(c, 3))]
        pat = rand_pattern(rng, fo, small, rng.randint(1, 3), cs, norm)[:4]
        sch = rng.choice(["default", "path", "history"])
        for kind in KINDS:
            for fwd in (True, False):
                out.append({"rle": merged, "p": pat, "cs": cs, "norm": norm, "sch": sch, "kind": kind, "fwd": fwd,
                            "chk": "rle", "fill": "zero", "slab": rng.choice(["nil", "real"]),
                            "rep": rng.choice(["natural", "runes"]), "wp": rng.random() < 0.7})
    return out


def record(ctx, binary, inputs, tpath, label, timeout=3000):
    ipath = os.path.join(ctx.work, "in-%s.ndjson" % label)
    opath = os.path.join(ctx.work, "rec-%s.ndjson" % label)
    vlib.write_ndjson(ipath, inputs)
    ctx.run_harness(binary, "TestVerifAlgoRecord", timeout=timeout,
                    env={"VERIF_CASES": ipath, "VERIF_OUT": opath, "VERIF_TABLE": tpath})
    recs = vlib.read_ndjson(opath)
    if len(recs) != len(inputs):
        raise Infra("%s: %d inputs but %d records" % (label, len(inputs), len(recs)))
    return recs


def fmt_rec(r):
    text = ("rle=" + json.dumps(r["rle"])) if "rle" in r else "text=" + json.dumps("|".join(r["t"]))
    return "%s(%s pattern=%s cs=%s norm=%s scheme=%s forward=%s withPos=%s rep=%s slab=%s fill=%s) returned start=%s end=%s " \
           "score=%s pos=%s%s" % (r["kind"], text if len(text) < 700 else text[:700] + "...", json.dumps("|".join(r["p"])),
                                  r["cs"], r["norm"], r["sch"], r["fwd"], r["wp"], r["rep"], r["slab"], r["fill"], r["s"],
                                  r["e"], r["sc"], r["pos"], (" PANIC " + r["panic"]) if r.get("panic") else "")


def record_and_judge(ctx, binary, inputs, tpath, label, keep=lambda r: True, kf=lambda r: None, workers=None,
                     per_sig=3, timeout=3000):
    """Real matchers on `inputs` -> records -> Judge_Algo.tla.  Rejected records that pass `keep` are re-run alone
    (same input, new process) and re-judged; reproduced rejections become violations.  Returns (records, counts)."""
    recs = record(ctx, binary, inputs, tpath, label, timeout)
    bad, _ = vlib.judge(ctx, "Judge_Algo", "Judge_Algo.cfg", recs, label, workers=workers, timeout=timeout)
    counts = {"rejected": len(bad), "deferred": 0}
    seen = {}
    for i in bad:
        r = recs[i]
        if not keep(r):
            counts["deferred"] += 1
            continue
        sig = kf(r)
        key = json.dumps(sig, sort_keys=True) if sig else "other:" + r["kind"]
        counts[key] = counts.get(key, 0) + 1
        if seen.get(key, 0) >= per_sig:
            continue
        seen[key] = seen.get(key, 0) + 1
        if inputs[i].get("fill") in ("stale", "rnd"):
            # the slab contents depend on the calls before: replay the whole (seeded, deterministic) history
            recs2 = [record(ctx, binary, inputs, tpath, label + "-re", timeout)[i]]
        else:
            recs2 = record(ctx, binary, [inputs[i]], tpath, label + "-re", timeout)
        bad2, _ = vlib.judge(ctx, "Judge_Algo", "Judge_Algo.cfg", recs2, label + "-re", workers=1, timeout=timeout)
        if not bad2 or not keep(recs2[0]):
            raise Infra("%s: rejected record %d not reproduced when run again" % (label, i))
        what = "%s: spec rejects what the real code did: %s" % (label, fmt_rec(recs2[0]))
        case = {"harness": "TestVerifAlgoRecord", "label": label, "input": inputs[i], "record": recs2[0]}
        if sig:
            case["kf"] = sig
        ctx.violation(what, case)
    return recs, counts


# ---------------------------------------------------------------- bin/check <id> <tier> --replay <file>
def replay(ctx, fields, fills, keep_bad=lambda b: True, keep_rec=lambda r: True, kf_rec=lambda r: None):
    """Re-run exactly the case stored in a replay file (a TLC case with its predicted results, a call history, or a
    recorded call that is judged again by TLC)."""
    rc = json.load(open(ctx.replay))["case"]
    h = harness(ctx)
    cpath, tpath, _ = export_cases(ctx, "Gen_Algo_table.cfg", "table")
    if "history" in rc:
        import props.c05 as c05
        hp = os.path.join(ctx.work, "hist1.ndjson")
        vlib.write_ndjson(hp, [rc["history"]])
        summary, recs = c05.run_hist(ctx, h, hp, tpath, "hist")
        for r in recs:
            for b in r["bad"]:
                if b.get("got") != b.get("ref"):
                    case = {"harness": "TestVerifAlgoHist", "history": rc["history"], "mismatch": b}
                    sig = c05.kf_hist(b)
                    if sig:
                        case["kf"] = sig
                    ctx.violation("hist replay: %s" % json.dumps(b)[:800], case)
                    break
    elif "case" in rc:
        with open(cpath, "w") as fh:
            fh.write(json.dumps(rc["case"]) + "\n")
        f2, l2 = rc.get("fields", fields), rc.get("fills", fills)
        summary, recs = run_cases(ctx, h, cpath, tpath, f2, l2, "replay")
        report_bad(ctx, h, cpath, tpath, f2, l2, "replay", [(r["line"], r["bad"]) for r in recs], keep=keep_bad)
    else:
        inp = rc.get("input")
        if inp is None:
            r = rc["record"]
            inp = {k: r[k] for k in ("p", "cs", "norm", "sch", "kind", "fwd", "wp", "slab", "fill", "rep", "chk") if k in r}
            inp["rle" if r.get("rle") else "t"] = r.get("rle") or r["t"]
            if r.get("ref") is not None:
                inp["withref"] = True
        record_and_judge(ctx, h, [inp], tpath, "replay", keep=keep_rec, kf=kf_rec)
    ctx.cov["rule"] = "replay of one stored case"
    return "model_checking"
