"""Shared machinery of C02 / C03 / C05 (API level): spec/FzfAlgo*.tla bound to /repo/src/algo.

E: MC_Algo.tla enumerates (text, pattern, cs, norm, scheme) over class-covering alphabets and prints, per input, the
   result TLC computed for all seven matchers in both directions; harness TestVerifAlgoCases replays them on the real
   code in every representation / slab / withPos variant and reports each variant whose projection differs.
J: harness TestVerifAlgoRecord runs the real matchers on long random / giant inputs; Judge_Algo.tla evaluates the
   spec's operators on every record.
"""
import json, os, re
import vlib
from vlib import Infra, log

HARNESS_FILES = ["zz_verif_common_test.go", "zz_verif_algo_test.go", "zz_verif_algo_cases_test.go",
                 "zz_verif_algo_record_test.go"]
KINDS = ["v2", "v1", "exact", "boundary", "prefix", "suffix", "equal"]
_TAG = re.compile(r'^<<"(CASE|TABLE|THMFAIL)", (.*)>>$')


def harness(ctx):
    return ctx.build_harness("src/algo", HARNESS_FILES, shared=["chars"], gopkg="algo")


def par(ctx):
    return int(os.environ.get("VERIF_PAR", "8"))


def model_check(ctx, cfgs, workers=None):
    """Design theorems of MC_Algo on the exhaustive enumeration; a THMFAIL is a defect of the model (exit 2)."""
    for cfg in cfgs:
        res = ctx.mc("MC_Algo", cfg, timeout=3000, workers=workers)
        fails = res.json_items("THMFAIL")
        if fails:
            raise Infra("design theorem fails on the model (%s): %s" % (cfg, json.dumps(fails[:3])))
        res.tagged.clear()


def export_cases(ctx, cfg, label, workers=None, stats=None):
    """Run a Gen_Algo config; write the cases (one JSON object per line) and the symbol table to files without keeping
    them in memory.  Returns (cases_path, table_path, n_cases).  stats: dict updated with coverage counters."""
    res = ctx.tlc("MC_Algo", cfg, timeout=3000, label="gen-" + label, workers=workers)
    res.tagged.clear()
    cpath = os.path.join(ctx.work, "cases-%s.ndjson" % label)
    tpath = os.path.join(ctx.work, "table-%s.json" % label)
    n = 0
    have_table = False
    with open(res.outp, errors="replace") as fh, open(cpath, "w") as out:
        for line in fh:
            m = _TAG.match(line.rstrip("\n"))
            if not m:
                continue
            inner = json.loads(m.group(2))
            if m.group(1) == "TABLE":
                with open(tpath, "w") as th:
                    th.write(inner)
                have_table = True
            elif m.group(1) == "CASE":
                out.write(inner + "\n")
                n += 1
                if stats is not None:
                    count_case(stats, json.loads(inner))
    os.remove(res.outp)
    if not have_table or n == 0:
        raise Infra("TLC exported no cases / no table for " + cfg)
    if n != sum(1 for _ in open(cpath)):
        raise Infra("case file corrupt")
    return cpath, tpath, n


def count_case(stats, c):
    """Coverage counters over exported cases (no verdict): per matcher kind the number of inputs it matches, and the
    number of non-trivial inputs (some matcher matches, some does not)."""
    hits = [c["r"][2 * k][0] >= 0 for k in range(len(KINDS))]
    stats["cases"] = stats.get("cases", 0) + 1
    for k, h in zip(KINDS, hits):
        if h:
            stats["match_" + k] = stats.get("match_" + k, 0) + 1
    if any(hits) and not all(hits):
        stats["nontrivial"] = stats.get("nontrivial", 0) + 1
    if c["r"][0][3] != c["r"][2][3] or c["r"][0][2] != c["r"][2][2]:
        stats["v2_differs_from_v1"] = stats.get("v2_differs_from_v1", 0) + 1
    if any(c["fb"]) and hits[0]:
        stats["fallback_matches"] = stats.get("fallback_matches", 0) + 1
    if len(stats.setdefault("samples", [])) < 3 and hits[0] and len(c["p"]) > 1 and c["r"][0] != c["r"][2]:
        stats["samples"].append({"text": c["t"], "pattern": c["p"], "cs": c["cs"], "norm": c["norm"], "scheme": c["sch"],
                                 "v2": c["r"][0], "v1": c["r"][2], "exact": c["r"][4]})


def run_cases(ctx, binary, cpath, tpath, fields, fills, label, timeout=3000):
    """Replay a case file; returns (summary, list of (line_no, bad_list))."""
    opath = os.path.join(ctx.work, "out-%s.ndjson" % label)
    ctx.run_harness(binary, "TestVerifAlgoCases", timeout=timeout,
                    env={"VERIF_CASES": cpath, "VERIF_OUT": opath, "VERIF_TABLE": tpath, "VERIF_FIELDS": fields,
                         "VERIF_FILLS": ",".join(fills), "VERIF_PAR": par(ctx)})
    recs = vlib.read_ndjson(opath)
    if not recs or not recs[-1].get("summary"):
        raise Infra("harness wrote no summary (%s)" % label)
    return recs[-1], [(r["line"], r["bad"]) for r in recs[:-1]]
