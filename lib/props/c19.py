"""C19 - the built-in walker lists exactly the files the walker options describe (spec/FzfWalker.tla).

MC: TLC checks the design invariants of FzfWalker on every tree of a small configuration.
E : TLC enumerates trees (MC_Walker.tla Emit) and, per tree, the runs (options x skip list x roots) with the multiset
    FzfWalker!Expected predicts; the Go harness materialises each tree, runs the real readFiles (and, for flagged runs,
    the real binary with a pty on stdin) and reports the multisets it saw.  Python only compares sorted lists.
J : the Go harness builds larger random trees, walks them with the real code and logs tree + output; Judge_Walker.tla
    evaluates FzfWalker!Expected on every record.

Link cycles (a link to its own directory, an ancestor, the working directory, directories linking to each other, links
into another root) are part of the tree space: FzfWalker states fastwalk's refusal rule (RefuseRootAndLexicalAncestors,
LinkListedThenJudged, RealSubdirsNotJudged) and TLC computes the finite list.  Every real walk runs under a budget
(cap = a multiple of the length TLC predicts; a wall-clock limit): a walk the harness had to stop is an observation
("cut") that no prediction equals, re-run alone with a longer limit before it counts as a violation.

Named deviation LinkDirAsFile (finding F14): TLC exports, next to the documented expectation, the expectation under the
deviation wherever it differs.  A run that matches the deviation (and not the documentation) is a violation with the
signature KF; anything else that differs is an unsigned violation.
"""
import json, os, concurrent.futures as cf
from vlib import Infra, judge, write_ndjson, read_ndjson, log, NCPU

KF = {"site": "readFiles", "kind": "followed-dirlink-filtered-as-file"}
HARNESS_FILES = ["zz_verif_common_test.go", "zz_verif_walker_test.go"]
SHARDS = int(os.environ.get("VERIF_C19_SHARDS", "8"))
HENV = {"GOMAXPROCS": "4"}        # the walker stays parallel (fastwalk uses >= 4 workers)
ALONE_DEADLINE_MS = "30000"       # wall-clock limit of a walk when a mismatch is re-run alone (bulk: 20 s)
RANDOM_CAP = 20000                # item budget of a random-tree walk (Judge_Walker checks it exceeds the prediction)


def cap_for(r):
    """Item budget of one run, from the length of the list(s) TLC predicts."""
    return 4 * max(len(r["exp"]), len(r.get("dev") or [])) + 50


def norm(x):
    """A TLC sequence of strings (JSON list) as a sorted list = the multiset."""
    return sorted(x) if x else []


class Exporter:
    """Streams TLC CASE lines into per-shard case files for the harness (expectations stay in the same line; the
    harness ignores them)."""

    def __init__(self, ctx, label, bin_every):
        self.ctx, self.label, self.bin_every = ctx, label, bin_every
        self.paths = [os.path.join(ctx.work, "cases-%s-%d.ndjson" % (label, i)) for i in range(SHARDS)]
        self.files = [open(p, "w") for p in self.paths]
        self.n = 0
        self.runs = 0
        self.bin_runs = 0
        self.seen = set()
        self.table = None
        self.stats = {"by_size": {}, "nontrivial": 0, "with_dev": 0, "kinds": {}, "cyclic_trees": 0,
                      "follow_runs_on_cyclic_trees": 0, "cyclic_by_shape": {}}

    def add_result(self, res, dedupe=False):
        tabs = res.raw_items("TABLE")
        if not tabs and self.table is None:
            raise Infra("TLC printed no TABLE (%s)" % res.label)
        table = json.loads(json.loads(tabs[0])) if tabs else self.table
        if self.table is not None and table != self.table:
            raise Infra("skip/root tables differ between generation runs")
        self.table = table
        for raw in res.raw_items("CASE"):
            if dedupe:
                h = hash(raw)
                if h in self.seen:
                    continue
                self.seen.add(h)
            self.add(json.loads(json.loads(raw)))

    def add(self, c):
        rng = self.ctx.rng
        nodes = c["nodes"] or []
        runs = c["runs"] or []
        exps = set()
        for r in runs:
            r["skips"] = self.table["skips"][r["s"] - 1] or []
            r["roots"] = self.table["roots"][r["r"] - 1]
            r["exp"] = norm(r.get("exp"))
            if "dev" in r:
                r["dev"] = norm(r["dev"])
                self.stats["with_dev"] += 1
            r["cap"] = cap_for(r)
            exps.add(tuple(r["exp"]))
        cyc = bool(c.get("cyc"))
        if cyc:
            self.stats["cyclic_trees"] += 1
            self.stats["follow_runs_on_cyclic_trees"] += sum(1 for r in runs if r["follow"])
            for sh in cycle_shapes(nodes):
                self.stats["cyclic_by_shape"][sh] = self.stats["cyclic_by_shape"].get(sh, 0) + 1
        if self.bin_every and runs and self.n % self.bin_every == 0:
            cand = [r for r in runs if r["file"] or r["dir"]]
            if cyc and any(r["follow"] for r in cand):
                cand = [r for r in cand if r["follow"]]       # where the refusal rule decides
            if cand:
                rng.choice(cand)["bin"] = True
                self.bin_runs += 1
        if len(exps) > 1:
            self.stats["nontrivial"] += sum(1 for r in runs if r["exp"])
        k = str(len(nodes))
        self.stats["by_size"][k] = self.stats["by_size"].get(k, 0) + 1
        for nd in nodes:
            self.stats["kinds"][nd["kind"]] = self.stats["kinds"].get(nd["kind"], 0) + 1
        if self.n < 400 and len(nodes) >= 3 and len(exps) > 3:
            r = max(runs, key=lambda r: len(r["exp"]))
            self.ctx.sample({"tree": [["/".join(nd["path"]), nd["kind"], "/".join(nd["target"])] for nd in nodes],
                             "walker": [x for x in ("file", "dir", "follow", "hidden") if r[x]],
                             "skip": r["skips"], "roots": r["roots"], "expected": r["exp"]}, cap=3)
        self.files[self.n % SHARDS].write(json.dumps({"nodes": nodes, "cyc": cyc, "runs": runs}, ensure_ascii=True) + "\n")
        self.n += 1
        self.runs += len(runs)

    def close(self):
        for f in self.files:
            f.close()


def cycle_shapes(nodes):
    """Coverage bookkeeping only: which shapes of cyclic link a TLC-made tree contains (TLC says whether it has one)."""
    def below(d, anc):          # directory d is anc or lies below it
        return d[:len(anc)] == anc
    out = set()
    links = [n for n in nodes if n["kind"] == "ldir"]
    selfish = []
    for n in links:
        par, t = n["path"][:-1], n["target"]
        if t == par:
            out.add("own-directory")
        elif below(par, t):
            out.add("working-directory" if not t else "ancestor")
        else:
            continue
        selfish.append(id(n))
    for n in links:
        for m in links:
            if m is not n and id(n) not in selfish and id(m) not in selfish \
                    and below(m["path"][:-1], n["target"]) and below(n["path"][:-1], m["target"]):
                out.add("mutual")
    if len(selfish) >= 2:
        out.add("two-or-more-self/ancestor-links")
    return out


def run_alone(ctx, h, fzf, case, tag):
    c1 = os.path.join(ctx.work, "case1-%s.ndjson" % tag)
    o1 = os.path.join(ctx.work, "out1-%s.ndjson" % tag)
    write_ndjson(c1, [case])
    env = dict(HENV)
    env.update({"VERIF_CASES": c1, "VERIF_OUT": o1, "VERIF_FZF": fzf, "TMPDIR": tmpdir(ctx),
                "VERIF_WALK_DEADLINE_MS": ALONE_DEADLINE_MS})
    ctx.run_harness(h, "TestVerifWalker", env=env, timeout=1200)
    return read_ndjson(o1)[0]


def reduced(case, bad, want_dev):
    """The case with only (up to 3 of) the runs that disagreed; runs the harness did not have to wait for come first."""
    pick = sorted([b for b in bad if b[4] == want_dev], key=lambda b: (b[5] == "deadline", b[0]))
    idx = []
    for b in pick:
        if b[0] not in idx:
            idx.append(b[0])
    return dict(case, runs=[case["runs"][i] for i in idx[:3]])


def tmpdir(ctx):
    d = os.path.join(ctx.work, "tmp")
    os.makedirs(d, exist_ok=True)
    return d


def classify(case, res):
    """-> list of (run index, via, expected, got, is_deviation, cut) for every run the documentation does not explain.
    cut = "cap" / "deadline": the harness had to stop the walk (got is what it had seen until then)."""
    bad = []
    got = res.get("got") or {}
    pkg = got.get("pkg") or []
    binr = got.get("bin") or []
    pkgcut = got.get("pkgcut") or [""] * len(pkg)
    bincut = got.get("bincut") or [""] * len(binr)
    runs = case["runs"]
    if len(pkg) != len(runs):
        raise Infra("harness returned %d results for %d runs" % (len(pkg), len(runs)))
    bi = 0
    for i, r in enumerate(runs):
        obs = [("pkg", pkg[i], pkgcut[i])]
        if r.get("bin"):
            if bi >= len(binr):
                raise Infra("harness returned too few binary results")
            obs.append(("bin", binr[bi], bincut[bi]))
            bi += 1
        for via, g, cut in obs:
            g = g or []
            if cut:
                if cut == "cap" and r.get("cap", 0) <= len(r["exp"]):
                    raise Infra("item budget %s not above the predicted length %d" % (r.get("cap"), len(r["exp"])))
                bad.append((i, via, r["exp"], g, False, cut))
            elif g != r["exp"]:
                bad.append((i, via, r["exp"], g, "dev" in r and g == r["dev"], ""))
    if res.get("err"):
        raise Infra("real binary failed to run: %s" % res["err"][:3])
    return bad


def describe(case, b):
    i, via, exp, got, isdev, cut = b
    r = case["runs"][i]
    real = json.dumps(got)
    if cut:
        real = ("WALK STOPPED BY THE HARNESS (%s), first items in sorted order: %s" % (
            "more than %d items delivered" % r.get("cap", 0) if cut == "cap" else "not finished within the time limit",
            json.dumps(got[:40])))
    return ("tree=%s --walker=%s --walker-skip=%s --walker-root=%s via %s: spec %s, real %s" % (
        json.dumps([["/".join(n["path"]), n["kind"]] + (["/".join(n["target"])] if n["kind"] == "ldir" else [])
                    for n in case["nodes"]]),
        ",".join(x for x in ("file", "dir", "follow", "hidden") if r[x]), json.dumps(r["skips"]), json.dumps(r["roots"]),
        via, json.dumps(exp), real))


def replay(ctx, h, fzf, ex):
    """Run every shard (in parallel processes), compare, reproduce, report."""
    outs = [p.replace("cases-", "out-") for p in ex.paths]

    def one(i):
        env = dict(HENV)
        env.update({"VERIF_CASES": ex.paths[i], "VERIF_OUT": outs[i], "VERIF_FZF": fzf, "TMPDIR": tmpdir(ctx)})
        return ctx.run_harness(h, "TestVerifWalker", env=env, timeout=3000)

    with cf.ThreadPoolExecutor(SHARDS) as pool:
        list(pool.map(one, range(SHARDS)))
    unexplained, deviating, ndev_runs, nbad_runs, total_runs, total_bin, ncut_runs = [], [], 0, 0, 0, 0, 0
    for i in range(SHARDS):
        with open(ex.paths[i]) as fc, open(outs[i]) as fo:
            for lc in fc:
                lo = fo.readline()
                if not lo:
                    raise Infra("%s: fewer results than cases in shard %d" % (ex.label, i))
                case, res = json.loads(lc), json.loads(lo)
                total_runs += len(case["runs"])
                total_bin += sum(1 for r in case["runs"] if r.get("bin"))
                bad = classify(case, res)
                if not bad:
                    continue
                if all(b[4] for b in bad):
                    ndev_runs += len(bad)
                    if len(deviating) < 3:
                        deviating.append((case, bad))
                else:
                    nbad_runs += sum(1 for b in bad if not b[4])
                    ncut_runs += sum(1 for b in bad if b[5])
                    if len(unexplained) < 200:
                        unexplained.append((case, bad))
            if fo.readline().strip():
                raise Infra("%s: more results than cases in shard %d" % (ex.label, i))
    # re-run at most 10 trees alone; those with a disagreement the harness did not have to wait for come first
    unexplained.sort(key=lambda cb: all(b[5] == "deadline" for b in cb[1] if not b[4]))
    for k, (case, bad0) in enumerate(unexplained[:10]):
        case = reduced(case, bad0, False)
        bad = [b for b in classify(case, run_alone(ctx, h, fzf, case, "%s-u%d" % (ex.label, k))) if not b[4]]
        if not bad:
            raise Infra("%s: mismatch not reproduced when the tree is run alone" % ex.label)
        what = "%s: real walker disagrees with FzfWalker!Expected: %s" % (ex.label, describe(case, bad[0]))
        ctx.violation(what, {"harness": "TestVerifWalker", "label": ex.label, "case": case,
                             "run": bad[0][0], "via": bad[0][1], "expected": bad[0][2], "got": bad[0][3],
                             "cut": bad[0][5]})
    for k, (case, bad0) in enumerate(deviating[:1]):
        case = reduced(case, bad0, True)
        bad = [b for b in classify(case, run_alone(ctx, h, fzf, case, "%s-d%d" % (ex.label, k))) if b[4]]
        if not bad:
            raise Infra("%s: deviation not reproduced when the tree is run alone" % ex.label)
        what = ("%s: LinkDirAsFile - a followed link to a directory is listed iff `file` (%d runs): %s"
                % (ex.label, ndev_runs, describe(case, bad[0])))
        ctx.violation(what, {"harness": "TestVerifWalker", "label": ex.label, "case": case, "run": bad[0][0],
                             "via": bad[0][1], "expected": bad[0][2], "got": bad[0][3], "kf": dict(KF)})
    ctx.cov["evaluations"] += total_runs + total_bin
    ctx.cov["traces_validated_against_impl"] += total_runs + total_bin
    log("%s: %d trees (%d with a link cycle), %d runs (+%d with the real binary); unexplained runs %d (%d of them walks "
        "that had to be stopped), LinkDirAsFile runs %d"
        % (ex.label, ex.n, ex.stats["cyclic_trees"], total_runs, total_bin, nbad_runs, ncut_runs, ndev_runs))
    return {"trees": ex.n, "runs": total_runs, "binary_runs": total_bin, "unexplained_runs": nbad_runs,
            "stopped_walks": ncut_runs, "deviation_runs": ndev_runs}


def judge_random(ctx, h, fzf, n, label):
    # every third tree may contain link cycles (smaller: the list TLC has to compute grows with every lap the rule allows)
    inputs = [{"seed": ctx.seed * 1000003 + i, "maxnodes": 24 if i % 3 == 2 else 60, "maxdepth": 5 if i % 3 == 2 else 6,
               "bin": i % 4 == 0, "cyc": i % 3 == 2, "cap": RANDOM_CAP} for i in range(n)]

    def record(ins, tag, alone=False):
        ip = os.path.join(ctx.work, "in-%s.ndjson" % tag)
        op = os.path.join(ctx.work, "rec-%s.ndjson" % tag)
        write_ndjson(ip, ins)
        env = dict(HENV)
        env.update({"VERIF_CASES": ip, "VERIF_OUT": op, "VERIF_FZF": fzf, "TMPDIR": tmpdir(ctx)})
        if alone:
            env["VERIF_WALK_DEADLINE_MS"] = ALONE_DEADLINE_MS
        ctx.run_harness(h, "TestVerifWalkerRandom", env=env, timeout=3000)
        recs = read_ndjson(op)
        if len(recs) != len(ins):
            raise Infra("%s: %d inputs but %d records" % (tag, len(ins), len(recs)))
        errs = [r["err"] for r in recs if r.get("err")]
        if errs:
            raise Infra("real binary failed to run: %s" % errs[:3])
        return recs

    def verdicts(recs, tag, workers=None):
        bad, res = judge(ctx, "Judge_Walker", "Judge_Walker.cfg", recs, tag, workers=workers, timeout=3000)
        if res.raw_items("INVALID"):
            raise Infra("the random tree generator produced records the specification cannot speak about: %s"
                        % res.raw_items("INVALID")[:5])
        kinds = {}
        for x in res.raw_items("MISMATCH"):
            idx, why = x.split(",", 1)
            kinds[int(idx.strip()) - 1] = why.strip().strip('"')
        return kinds

    chunks = [inputs[i::SHARDS] for i in range(SHARDS) if inputs[i::SHARDS]]
    with cf.ThreadPoolExecutor(SHARDS) as pool:
        parts = list(pool.map(lambda a: record(a[1], "%s-%d" % (label, a[0])), enumerate(chunks)))
    recs = [r for p in parts for r in p]
    ins = [x for c in chunks for x in c]
    kinds = verdicts(recs, label)
    unexpl = [i for i, w in sorted(kinds.items()) if w != "LinkDirAsFile"]
    devs = [i for i, w in sorted(kinds.items()) if w == "LinkDirAsFile"]

    def brief(r):
        cut = ""
        if r.get("cut"):
            cut = (" [WALK STOPPED BY THE HARNESS: %s; first items in sorted order shown]" % (
                "more than %d items delivered" % r["cap"] if r["cut"] == "cap" else "not finished within the time limit"))
        links = [["/".join(n["path"]), "/".join(n["target"])] for n in r["nodes"] if n["kind"] == "ldir"]
        return ("seed=%d via %s --walker=%s skips=%s roots=%s nodes=%d dirlinks=%s: real output %s%s is not "
                "FzfWalker!Expected" % (
                    r["seed"], r["via"], ",".join(x for x in ("file", "dir", "follow", "hidden") if r["o"][x]),
                    json.dumps(r["skips"]), json.dumps([x["arg"] for x in r["roots"]]), len(r["nodes"]), json.dumps(links),
                    json.dumps(r["out"])[:600], cut))

    if unexpl:
        unexpl.sort(key=lambda i: (recs[i].get("cut") == "deadline", i))
        sub = unexpl[:10]
        recs2 = record([ins[i] for i in sub], label + "-re", alone=True)
        kinds2 = verdicts(recs2, label + "-re", workers=1)
        still = [j for j, w in kinds2.items() if w != "LinkDirAsFile"]
        if not still:
            raise Infra("%s: %d rejected records, none reproduced" % (label, len(unexpl)))
        for j in still:
            ctx.violation("%s: %s" % (label, brief(recs2[j])), {"harness": "TestVerifWalkerRandom", "label": label,
                                                               "input": ins[sub[j]], "record": recs2[j]})
    if devs:
        recs2 = record([ins[devs[0]]], label + "-dev")
        kinds2 = verdicts(recs2, label + "-dev", workers=1)
        if kinds2.get(0) != "LinkDirAsFile":
            raise Infra("%s: deviation record not reproduced" % label)
        ctx.violation("%s: LinkDirAsFile (%d records): %s" % (label, len(devs), brief(recs2[0])),
                      {"harness": "TestVerifWalkerRandom", "label": label, "input": ins[devs[0]], "record": recs2[0],
                       "kf": dict(KF)})
    sizes = sorted(len(r["nodes"]) for r in recs)
    outs = sorted(len(r["out"]) for r in recs)
    log("%s: %d random trees judged; unexplained %d, LinkDirAsFile %d" % (label, len(recs), len(unexpl), len(devs)))
    return {"records": len(recs), "binary_records": sum(1 for r in recs if r["via"] == "bin"),
            "nodes_median_max": [sizes[len(sizes) // 2], sizes[-1]], "output_median_max": [outs[len(outs) // 2], outs[-1]],
            "nonempty_outputs": sum(1 for r in recs if r["out"]), "unexplained": len(unexpl), "deviation_records": len(devs),
            "stopped_walks": sum(1 for r in recs if r.get("cut")),
            "trees_that_may_have_link_cycles": sum(1 for x in ins if x["cyc"]),
            "with_follow_on_such_trees": sum(1 for x, r in zip(ins, recs) if x["cyc"] and r["o"]["follow"]
                                             and any(n["kind"] == "ldir" for n in r["nodes"])),
            "with_dirlink_and_follow": sum(1 for r in recs if r["o"]["follow"] and any(n["kind"] == "ldir" for n in r["nodes"]))}


def run(ctx):
    W = int(os.environ.get("VERIF_C19_WORKERS", str(min(NCPU, 16))))
    # (1) design-level model checking
    mc = ctx.mc("MC_Walker", ctx.pick("MC_Walker_quick.cfg", "MC_Walker.cfg"), timeout=2400, coverage=True, workers=W)
    if not ctx.quick:
        ctx.mc("MC_Walker", "MC_Walker_deep.cfg", timeout=3000, workers=W)      # fewer names, one more entry
    dead = [a for a, n in mc.action_cov.items() if n == 0 and a.split(".")[-1].startswith("Some")]
    if dead or not any(a.endswith("SomeLinkToDir") for a in mc.action_cov):
        raise Infra("vacuous model: actions never taken: %s (coverage %s)" % (dead, mc.action_cov))

    fzf = ctx.build_fzf()
    h = ctx.build_harness("src", HARNESS_FILES)

    # (2) E: trees enumerated by TLC with the predicted multisets, replayed on the real walker
    ex = Exporter(ctx, "walker", bin_every=ctx.pick(3, 2))
    if ctx.replay:
        rc = json.load(open(ctx.replay))["case"]
        if "case" not in rc:
            raise Infra("this replay file is a random-tree record; re-run the check with the same VERIF_SEED instead")
        ex.table = {}
        ex.files[0].write(json.dumps(rc["case"]) + "\n")
        ex.n = 1
    elif ctx.quick:
        ex.add_result(ctx.tlc("MC_Walker", "Gen_Walker_quick.cfg", workers=W, timeout=900, label="gen-le3"))
        # every 4-entry tree with a link cycle over {a, .h, skip}: mutual links, re-entry through real sub-directories
        ex.add_result(ctx.tlc("MC_Walker", "Gen_Walker_cyc.cfg", workers=W, timeout=900, label="gen-cyc4"))
        sim = ctx.tlc("MC_Walker", "Gen_Walker_sim.cfg", workers=W, timeout=900, label="gen-sim",
                      args=["-simulate", "num=%d" % max(1, 250 // W), "-depth", "6", "-seed", str(ctx.seed)])
        ex.add_result(sim, dedupe=True)
    else:
        ex.add_result(ctx.tlc("MC_Walker", "Gen_Walker.cfg", workers=W, timeout=2400, label="gen-le4"))
        ex.add_result(ctx.tlc("MC_Walker", "Gen_Walker_n3.cfg", workers=W, timeout=2400, label="gen-5of3names"))
        sim = ctx.tlc("MC_Walker", "Gen_Walker_sim.cfg", workers=W, timeout=2400, label="gen-sim",
                      args=["-simulate", "num=%d" % max(1, 2600 // W), "-depth", "6", "-seed", str(ctx.seed)])
        ex.add_result(sim, dedupe=True)
    ex.close()
    if ex.n == 0:
        raise Infra("TLC exported no trees")
    est = replay(ctx, h, fzf, ex)

    # (3) J: random larger trees, TLC as judge
    jst = None
    if not ctx.replay:
        jst = judge_random(ctx, h, fzf, ctx.pick(400, 6000), "random")

    ctx.cov["distinct_nontrivial"] = ex.stats["nontrivial"] + (jst["nonempty_outputs"] if jst else 0)
    ctx.cov["rule"] = ("E: distinct (tree, walker options, skip list, roots) runs with a non-empty expected list on trees "
                       "where the expectation depends on the run; trees enumerated by TLC (all trees up to the tier's "
                       "bound over names {a, .h, skip, 'b c', 'n\\nl'} and kinds file/dir/link-to-file/link-to-dir - the link "
                       "target being ANY directory, so link cycles included -, all 4-entry trees with a link cycle over 3 "
                       "names, plus a seeded sample of 4-5 entry trees); the multiset delivered to the Reader's pusher (and printed by "
                       "the real binary for flagged runs) compared with FzfWalker!Expected.  J: random trees <= 60 "
                       "entries, depth <= 6, with a non-empty output, judged by Judge_Walker")
    ctx.cov["exhaustive"] = not ctx.replay
    ctx.cov["replay"] = est
    ctx.cov["random"] = jst
    ctx.cov["trees_by_size"] = ex.stats["by_size"]
    ctx.cov["entries_by_kind"] = ex.stats["kinds"]
    ctx.cov["runs_where_deviation_is_visible"] = ex.stats["with_dev"]
    ctx.cov["trees_with_a_link_cycle"] = ex.stats["cyclic_trees"]
    ctx.cov["follow_runs_on_trees_with_a_link_cycle"] = ex.stats["follow_runs_on_cyclic_trees"]
    ctx.cov["cyclic_trees_by_shape"] = ex.stats["cyclic_by_shape"]
    if not ctx.replay:
        missing = [k for k in ("own-directory", "ancestor", "working-directory", "mutual", "two-or-more-self/ancestor-links")
                   if not ex.stats["cyclic_by_shape"].get(k)]
        if missing:
            raise Infra("vacuous: no exported tree has a link cycle of shape %s" % missing)
    ctx.assumptions += [
        "Links point to directories inside the tree (the working directory included; cycles allowed), to a regular file "
        "outside it, or nowhere.  Not modelled: links to links, links to directories outside the tree (e.g. above an "
        "absolute root), roots that are reached through a link.",
        "Link cycles: FzfWalker states what fastwalk's Config.Follow does (RULES LinkListedThenJudged, "
        "RefuseRootAndLexicalAncestors, RealSubdirsNotJudged [code-derived]); 'exactly once' is per access path, so "
        "directories that link to each other yield a bounded repetition (a/f and b/l/f), never an unbounded one.",
        "A walk is given an item budget of 4 x (predicted length) + 50 (random trees: %d, checked by the Judge to exceed the "
        "prediction) and 20 s wall clock (30 s when re-run alone); exceeding either is an observation that contradicts the "
        "finite prediction, not an infrastructure error." % RANDOM_CAP,
        "Overlapping roots (`.` with `a`, the same root in two spellings) are independent walks: what lies under both is offered once per root (code-derived; `exactly once` is per root). Unreadable directories, special files, non-UTF-8 names and Windows/MSYS separators are not "
        "modelled; the process runs as root, so permission errors cannot be provoked.",
        "The walker is triggered in the real binary by giving it a pty slave as stdin (util.IsTty) in filter mode "
        "(-f '' --print0); the interactive path shares ReadSource/readFiles.",
        "CODE-DERIVED corners kept as regression oracles: a root other than '.' is itself an entry (listed with `dir`, "
        "pruned when hidden/skipped); a skip pattern with a leading separator is suffix-only; trailing separator / './' "
        "spellings of a root; a root spelled CHILD/.. (the `..` component is printed as it is and is not a hidden entry; "
        "only through a real directory, never through a link).",
        "Exhaustive up to the stated tree size only; 5-entry trees over the full name set are sampled (TLC -simulate)."]
    return "model_checking"
