"""C14 - the UI never crashes or hangs and always leaves terminal and system clean (spec/FzfLifecycle.tla).

  MC   exit-at-any-moment closure on the model (invariants + `asked to exit ~> exited` under fairness)
  E    behaviours simulated by TLC from the spec (Gen_Lifecycle) are brought about on the real binary on a pty; the
       tracked mode changes the terminal received must equal the sequence the spec predicts
  J    seeded random lives (options, commands started at seeded moments, exits racing with them) and robustness lives
       under tmux (hostile items, sizes from 1x1, random actions / key bytes / mouse reports / resizes); every life is
       observed from outside only and validated by Trace_Lifecycle: every mode change must be a step of the spec, the
       world after the exit must be the state ExitVia leaves, fzf must have answered until then and must be gone.
"""
import json, os, random, time
from concurrent.futures import ThreadPoolExecutor
import lifecycle, tmuxdrv
from lifecycle import Life, TmuxLife
from vlib import Infra, write_ndjson, log
from props import c09

PAR = 6
VIA = {"accept": ["key:0d", "post:accept"], "abort": ["key:1b", "key:07", "key:03", "post:abort"], "print-query": ["post:print-query"],
       "SIGINT": ["SIGINT"], "SIGTERM": ["SIGTERM"], "become": ["post:become(exit 7)", "post:become(true)"]}
KF_PREVIEW = {"site": "Terminal.Loop.exit", "kind": "preview-left-running"}
KF_RELOAD = {"site": "Reader.restart", "kind": "reload-temps-left-at-exit"}


# ------------------------------------------------------------------------------------------------ scenarios
def scenario_from_behaviour(b, rng):
    steps = []
    for st in b["steps"]:
        a = st["a"]
        if a == "init":
            continue
        if a == "exit":
            how = st["how"]
            via = {"accept": "key:0d", "abort": "key:1b", "print-query": "post:print-query"}.get(how, how)
            steps.append({"a": "exit", "how": how, "via": via})
        elif a == "start":
            steps.append({"a": "start", "k": st["k"], "n": st["n"], "wait": True})
        elif a == "end":
            steps.append({"a": "end", "k": st["k"], "method": "kill"})
        else:
            steps.append({"a": a})
    return {"kind": "E", "cfg": {"full": b["cfg"]["full"], "mouse": b["cfg"]["mouse"], "clear": b["cfg"]["clear"]}, "extra": [],
            "startup": [], "steps": steps, "size": [80, 24], "expect_ops": b["ops"], "statuses": b["statuses"]}


DECOR = [[], ["--layout=reverse"], ["--border"], ["--info=inline"], ["--header", "H"], ["--no-input"], ["--margin=1"], ["--padding=1"],
         ["--layout=reverse-list", "--border=double"], ["--multi"], ["--preview-window=up,3"], ["--info=hidden", "--no-scrollbar"],
         ["--bind", "ctrl-x:toggle-input"], ["--input-border"], ["--header-lines=1"], ["--list-border", "--header-border", "--header", "H"]]


def random_scenario(rng):
    cfg = {"full": rng.random() < 0.5, "mouse": rng.random() < 0.7, "clear": rng.random() < 0.8}
    if not cfg["full"]:
        cfg["height"] = rng.choice(["10", "5", "~8", "50%", "3", "100%"])
        cfg["full"] = cfg["height"] == "100%"        # CODE-DERIVED: --height=100% is the full screen mode
    extra = list(rng.choice(DECOR)) + list(rng.choice(DECOR + [[]] * 8))
    startup, default_command, input_cmd = [], None, None
    r = rng.random()
    if r < 0.3:
        n = rng.choice([0, 1, 2])
        extra += ["--preview", lifecycle.child_command("preview", n)]
        startup.append("preview")
    r = rng.random()
    if r < 0.15:
        extra += ["--bind", "start:reload(%s)" % lifecycle.child_command("reload", rng.choice([0, 1]))]
        startup.append("reload")
    elif r < 0.3:
        default_command = "echo a; echo b; sleep %d" % lifecycle.KIND_TAG["reload"]
        startup.append("reload")
    elif r < 0.4:
        input_cmd = "echo a; echo b; sleep 1005"
    if startup and cfg.get("height", "").startswith("~") or input_cmd and cfg.get("height", "").startswith("~"):
        cfg["height"] = "8"      # adaptive height waits for the end of the input: never, with these input commands
    steps = []
    alive = set(startup)
    if input_cmd:
        alive.add("reload")      # a reload is deferred until the piped input ends (never here): not driven
    owner = None
    for _ in range(rng.choice([0, 0, 1, 1, 2, 3, 4])):
        c = rng.random()
        if owner:
            if c < 0.35:
                steps.append({"a": "end", "k": owner, "method": "ctrl-c" if owner == "execute" and rng.random() < 0.4 else "kill"})
                alive.discard(owner)
                owner = None
            elif c < 0.5 and owner == "silent":
                steps.append({"a": "bgpause"})
            else:
                break       # exit while the command owns the terminal
            continue
        if c < 0.5:
            k = rng.choice([x for x in ("preview", "reload", "execute", "silent") if x not in alive] or ["preview"])
            if k in alive:
                continue
            steps.append({"a": "start", "k": k, "n": rng.choice([0, 1, 1, 2]), "wait": rng.random() < 0.6})
            alive.add(k)
            if k in ("execute", "silent"):
                owner = k
                if not steps[-1]["wait"]:
                    break   # race the exit with the start of the command
        elif c < 0.6 and alive - {"execute", "silent"}:
            k = rng.choice(sorted(alive - {"execute", "silent"}))
            steps.append({"a": "end", "k": k, "method": "kill"})
            alive.discard(k)
        elif c < 0.72:
            steps += [{"a": "suspend"}, {"a": "continue"}]
        elif c < 0.8:
            steps.append({"a": "cursor"})
        elif c < 0.9:
            steps.append({"a": "resize", "w": rng.choice([1, 2, 5, 20, 80, 200]), "h": rng.choice([1, 2, 3, 10, 24, 50])})
        else:
            steps.append({"a": "observe"})
    if steps and steps[-1]["a"] == "start" and not steps[-1]["wait"] or rng.random() < 0.3:
        steps.append({"a": "sleep", "t": rng.choice([0, 0.001, 0.01, 0.05, 0.2, 0.6, 1.3])})
    if owner:
        how = rng.choice(["SIGTERM", "SIGTERM", "SIGINT", "abort", "accept", "print-query"])
        via = {"abort": rng.choice(["key:1b", "post:abort"]), "accept": rng.choice(["key:0d", "post:accept"]),
               "print-query": "post:print-query"}.get(how, how)
    else:
        # become replaces the process image: only driven when nothing fzf started is alive (outside the statement otherwise)
        how = rng.choice(["accept", "abort", "abort", "print-query", "SIGINT", "SIGTERM", "SIGTERM"] + (["become"] if not alive else []))
        via = rng.choice(VIA[how])
    steps.append({"a": "exit", "how": how, "via": via})
    return {"kind": "J", "cfg": cfg, "extra": extra, "startup": startup, "default_command": default_command, "input_cmd": input_cmd,
            "steps": steps, "size": [rng.choice([40, 80, 120]), rng.choice([12, 24, 40])]}


def run_life(ctx, fzf, sid, sc):
    """Brings a scenario about on the real binary (python pty); returns the events of that life."""
    cmds = list(sc["startup"]) + [st["k"] for st in sc["steps"] if st["a"] == "start"]
    life = Life(ctx, fzf, sid, sc["cfg"], extra_args=sc["extra"], size=tuple(sc["size"]), default_command=sc.get("default_command"),
                input_cmd=sc.get("input_cmd"), cmds=cmds)
    try:
        if not life.init():
            life.marks.insert(0, (0, -1, {"ev": "req", "how": "error"}))     # fzf gave up while starting: the error exit path
            return life.finish(grace=20)
        for k in sc["startup"]:
            life.await_child(k)
        for st in sc["steps"]:
            if life.s.fzf_gone():
                break
            a = st["a"]
            if a == "start":
                life.start(st["k"], st["n"], wait=st["wait"])
            elif a == "end":
                if life.kind_pids(st["k"], only_sleep=False):
                    life.end(st["k"], st["method"])
            elif a == "bgpause":
                if life.kind_pids("silent", only_sleep=False):
                    life.bgpause()
            elif a == "suspend":
                life.suspend()
            elif a == "continue":
                life.cont()
            elif a == "cursor":
                life.cursor()
            elif a == "observe":
                life.probe_alive()
                life.observe()
            elif a == "resize":
                life.s.resize(st["w"], st["h"])
                life.probe_alive()
            elif a == "sleep":
                time.sleep(st["t"])
            elif a == "exit":
                if life.proc_state() != "T":
                    life.probe_alive()
                life.request(st["how"], st["via"])
        return life.finish()
    finally:
        life.close()


# ------------------------------------------------------------------------------------------------ robustness lives
HOSTILE = [b"", b"\xe6\xbc\xa2\xe5\xad\x97 wide \xe6\xbc\xa2", b"e\xcc\x81 combining a\xcc\x8a\xcc\x81", b"ctl \x01\x02 tab\there del\x7f esc\x1b[31mred",
           b"bad \xff\xfe\xc3 utf8 \xe6\xbc", b"x" * 10000, b"\xe6\xbc\xa2" * 3000, b"\t\t\t", b" ", b"a" * 79, b"a" * 80, b"a" * 81,
           b"plain", b"a b c", b"\xe2\x80\x8b zero width", b"\xf0\x9f\x91\xa9\xe2\x80\x8d\xf0\x9f\x91\xa9 zwj", b"\r carriage", b"nul\x00nul"]
ROBUST_OPTS = [[], ["--layout=reverse"], ["--layout=reverse-list"], ["--border"], ["--border=double", "--margin=1", "--padding=1"],
               ["--margin=10%", "--padding=20%"], ["--header", "head\nline2", "--header-first"], ["--header-lines=2"],
               ["--preview", "echo {}; echo {q}"], ["--preview", "printf '%s\\n' {} {} {}", "--preview-window=up,50%,border-double"],
               ["--preview", "echo {}", "--preview-window=left,30,wrap"], ["--preview", "echo {}", "--preview-window=bottom,1"],
               ["--info=inline"], ["--info=inline-right"], ["--info=hidden"], ["--no-input"], ["--input-border", "--list-border"],
               ["--header-border", "--header", "h"], ["--multi", "--marker", ">>", "--pointer", "=>"], ["--wrap"], ["--no-hscroll"],
               ["--ellipsis", ""], ["--tabstop=1"], ["--gap"], ["--highlight-line"], ["--scrollbar", "|"], ["--no-scrollbar", "--no-separator"],
               ["--ansi"], ["--read0"], ["--tac"], ["--cycle", "--scroll-off=10"], ["--border-label", "L", "--preview-label", "P"],
               ["--tmux-ignored-placeholder"]]
RAW = ["1b5b333b", "1b5b333b35", "1b5b313b", "1b5b313b32", "1b5b32", "1b5b323b", "1b5b35", "1b5b36", "1b5b3b", "1b5b313b3541", "1b5b333b357e",
       "1b5b32357e", "1b5b32397e", "1b5b3c3b3b4d", "1b5b3c303b303b304d", "1b4f51", "1b5b313b3248", "1b5b5b41",
       "1b", "1b5b", "1b5b31", "1b5b3c", "1b5b3c303b353b354d", "1b5b3c303b353b356d", "1b5b3c33323b313b314d", "1b5b3c36343b323b324d", "1b5b3c36353b323b324d",
       "1b5b3c303b3939393b3939394d", "1b5b4d202121", "1b5b3230307e", "1b5b3230317e", "1b5b3230307e61620d631b5b3230317e", "1b4f", "1b4f50", "1b5b313b3541",
       "1b5b41", "1b5b42", "1b5b357e", "1b5b367e", "1b5b5a", "1b1b", "1b7f", "c3", "e6bc", "e6bca2", "ff", "fe80", "00", "1d", "1e", "1f", "7f", "09", "0c", "12",
       "1b5b3939393939393939393939393b31523b", "1b5b313b3152", "1b5d", "1b50", "1b5b3f", "9b41", "61", "20", "0b", "0e", "10", "15", "17", "19", "01", "05", "02", "06", "08"]


def sgr(btn, x, y, press=True):
    return ("\x1b[<%d;%d;%d%s" % (btn, x, y, "M" if press else "m")).encode().hex()


def mouse_gesture(rng, w, h):
    """A press, a few button-held motion reports and a release (SGR 1006 reports), with coordinates on and around the
    window: last column (scrollbar), first / last rows, outside the window, zero and huge values."""
    def coord(n):
        return rng.choice([1, 2, n - 1, n, n, n + 1, n + 7, max(1, n // 2), 0, 999, rng.randint(1, max(1, n))])
    btn = rng.choice([0, 0, 0, 1, 2])
    x0, y0 = coord(w), coord(h)
    seq = [sgr(btn, x0, y0)]
    for _ in range(rng.randint(1, 5)):
        seq.append(sgr(32 + btn, rng.choice([x0, x0, coord(w)]), coord(h)))
    seq.append(sgr(btn, coord(w), coord(h), press=False))
    if rng.random() < 0.3:
        seq.append(sgr(rng.choice([64, 65, 68, 69]), coord(w), coord(h)))      # wheel (with shift)
    return seq


def robust_scenario(rng, tier_quick):
    cfg = {"full": rng.random() < 0.6, "mouse": rng.random() < 0.8, "clear": rng.random() < 0.85}
    if not cfg["full"]:
        cfg["height"] = rng.choice(["10", "1", "2", "~5", "50%", "100%", "3"])
        cfg["full"] = cfg["height"] == "100%"        # CODE-DERIVED: --height=100% is the full screen mode
    extra = []
    for _ in range(rng.choice([0, 1, 1, 2, 3])):
        o = rng.choice(ROBUST_OPTS)
        if o == ["--tmux-ignored-placeholder"]:
            continue
        extra += o
    if rng.random() < 0.8:
        # typed garbage mostly is an abort (a lone ESC) or an accept: keep most lives going so that the later stimuli count
        extra += ["--bind", "esc:ignore,ctrl-c:ignore,ctrl-g:ignore,ctrl-q:ignore,enter:ignore,ctrl-d:ignore,double-click:ignore,ctrl-z:ignore"]
    extra += ["--bind", "f9:toggle-sort"]       # the keyboard probe at the end of the life (visible through GET whatever sections are hidden)
    sep = b"\0" if "--read0" in extra else b"\n"
    n = rng.choice([0, 1, 3, 8, 30, 200])
    items = [rng.choice(HOSTILE) for _ in range(n)]
    data = b"".join(i.replace(sep, b"") + sep for i in items)
    sizes = [(1, 1), (2, 1), (1, 2), (2, 2), (3, 3), (5, 2), (10, 4), (20, 5), (40, 10), (80, 24), (120, 40), (200, 50), (200, 1), (1, 50), (7, 7)]
    size = rng.choice(sizes)
    multi = "inf" if "--multi" in extra else None
    steps = []
    base = c09.random_steps(rng, rng.randint(8, 25), multi)
    for st in base:
        steps.append(list(st))
        r = rng.random()
        if r < 0.25:
            steps.append(["resize"] + list(rng.choice(sizes)))
        elif r < 0.45:
            steps.append(["raw", "".join(rng.choice(RAW) for _ in range(rng.randint(1, 4)))])
        elif r < 0.55:
            cur = [st2 for st2 in steps if st2[0] == "resize"]
            w, h = (cur[-1][1], cur[-1][2]) if cur else size
            for rep in mouse_gesture(rng, w, h):
                steps.append(["raw", rep])
        elif r < 0.6:
            steps.append(["post", rng.choice(["toggle-preview", "toggle-preview-wrap", "preview-down", "preview-page-up", "toggle-header", "toggle-input",
                                              "change-preview-window(right,80%|hidden|up,1)", "toggle-wrap", "offset-up", "offset-down", "jump",
                                              "change-header(x)", "change-prompt(%s)" % ("p" * rng.choice([1, 30])), "refresh-preview",
                                              "change-border-label(zz)", "toggle-track", "hide-header", "show-header", "clear-screen",
                                              "change-query(qqzzqq)+execute-silent(cat {f} {+f} > /dev/null)+execute-silent(true {+f})",
                                              "execute-silent(cat {f} > /dev/null)"])])
    return {"kind": "R", "cfg": cfg, "extra": extra, "data": data.decode("latin-1"), "size": list(size), "steps": steps}


# directed robustness lives: option sets that eat columns / rows (gutter, borders, margins, sections), long lines, and the
# window shrunk column by column and row by row down to 1x1 and back, with a redraw forced at every size
SWEEP_OPTS = [["--pointer", ">>", "--marker", ">>"], ["--border", "--margin", "1"], ["--multi", "--marker", ">>", "--pointer", "=>"],
              ["--padding=1", "--border=double"], ["--margin=1,2", "--padding=1,2"], ["--preview", "echo {}", "--preview-window=right,50%"], ["--info=inline"],
              ["--layout=reverse", "--header", "H", "--header-lines=1"], ["--no-input"], ["--scrollbar", "|", "--gap"], ["--wrap"],
              ["--ellipsis", "", "--no-hscroll"], ["--input-border", "--list-border", "--header-border", "--header", "h"],
              ["--pointer", "", "--marker", ""], ["--keep-right"], ["--layout=reverse-list", "--info=inline-right"],
              ["--preview", "echo {}", "--preview-window=up,3,border-double", "--border"],
              ["--ellipsis", "....", "--pointer", "=>"], ["--highlight-line", "--gap", "--multi"], [],
              ["--header-first"], ["--header-first", "--header", "H", "--info=right"], ["--list-border", "--header-first"],
              ["--header-first", "--header-lines=1", "--layout=reverse"]]


def sweep_scenario(rng, k):
    cfg = {"full": True, "mouse": rng.random() < 0.5, "clear": True}
    if rng.random() < 0.3:
        cfg = {"full": False, "mouse": False, "clear": True, "height": rng.choice(["10", "50%", "~5"])}
    extra = list(SWEEP_OPTS[k % len(SWEEP_OPTS)])
    extra += ["--bind", "esc:ignore,ctrl-c:ignore,ctrl-g:ignore,ctrl-q:ignore,enter:ignore,ctrl-d:ignore,double-click:ignore,ctrl-z:ignore"]
    extra += ["--bind", "f9:toggle-sort"]
    items = [b"L" * 300, b"\xe6\xbc\xa2" * 120, b"short", b"a b c " * 40, b"e\xcc\x81" * 90, b"x"] + [rng.choice(HOSTILE) for _ in range(6)]
    data = b"".join(i.replace(b"\n", b"") + b"\n" for i in items)
    widths = [12, 8, 6, 5, 4, 3, 2, 1]
    heights = [8, 5, 4, 3, 2, 1]
    steps = []
    pokes = ["down", "up", "toggle+down", "put(a)", "backward-delete-char", "last", "first", "toggle-preview", "clear-screen",
             "change-query(qqzzqq)+execute-silent(cat {f} {+f} > /dev/null)+clear-query"]
    for _ in range(3):
        for rep in mouse_gesture(rng, 80, 24):
            steps.append(["raw", rep])
    for w in widths:
        steps.append(["resize", w, 24])
        steps.append(["post", rng.choice(pokes)])
    for h in heights:
        steps.append(["resize", rng.choice([1, 2, 3, 80]), h])
        steps.append(["post", rng.choice(pokes)])
    for (w, h) in [(80, 1), (2, 24), (80, 24), (1, 1), (200, 50)]:
        steps.append(["resize", w, h])
        steps.append(["post", rng.choice(pokes)])
    return {"kind": "R", "cfg": cfg, "extra": extra, "data": data.decode("latin-1"), "size": [80, 24], "steps": steps, "sweep": k % len(SWEEP_OPTS)}


# directed robustness lives: items taller than one row (gaps, multi-line records, wrapped long lines) x --scroll-off x
# list heights, walked through with cursor and offset actions (the scroll arithmetic must terminate at every height)
SCROLL_OPTS = [["--gap"], ["--gap=2", "--multi"], ["--read0"], ["--wrap"], ["--gap", "--layout=reverse"], ["--read0", "--gap", "--highlight-line"],
               ["--wrap", "--layout=reverse-list"], ["--gap", "--cycle"]]


def scroll_scenario(rng, k):
    opts = list(SCROLL_OPTS[k % len(SCROLL_OPTS)])
    so = rng.choice([None, 0, 1, 2, 3, 5, 10])
    if so is not None:
        opts.append("--scroll-off=%d" % so)
    height = rng.choice([5, 6, 7, 8, 9, 10, 11, 12, 14])
    cfg = {"full": False, "mouse": False, "clear": True, "height": str(height)}
    if rng.random() < 0.3:
        cfg = {"full": True, "mouse": False, "clear": True}
    extra = opts + ["--bind", "esc:ignore,ctrl-c:ignore,ctrl-g:ignore,ctrl-q:ignore,enter:ignore,ctrl-d:ignore,double-click:ignore,ctrl-z:ignore",
                    "--bind", "f9:toggle-sort"]
    sep = b"\0" if "--read0" in opts else b"\n"
    items = []
    for i in range(20):
        if "--read0" in opts:
            items.append(b"\n".join(b"%d-%d" % (i, j) for j in range(rng.choice([1, 2, 3, 5]))))
        elif "--wrap" in opts:
            items.append((b"%d " % i) + b"w" * rng.choice([5, 90, 170, 400]))
        else:
            items.append(b"%d" % i)
    data = b"".join(i + sep for i in items)
    moves = ["up", "up", "down", "down", "page-up", "page-down", "half-page-up", "half-page-down", "first", "last", "offset-up", "offset-down",
             "offset-middle", "pos(3)", "pos(-3)", "toggle+up", "up+up+up", "down+down"]
    steps = [["post", rng.choice(moves)] for _ in range(rng.randint(14, 24))]
    if cfg["full"]:
        for i in range(0, len(steps), 5):
            steps.insert(i, ["resize", rng.choice([40, 80]), rng.choice([5, 6, 7, 8, 9, 10, 12])])
    return {"kind": "R", "cfg": cfg, "extra": extra, "data": data.decode("latin-1"), "size": [80, 24], "steps": steps, "sweep": 100 + k}


def run_robust(ctx, fzf, sid, sc):
    life = TmuxLife(ctx, fzf, sid, sc["cfg"], extra_args=sc["extra"], input_bytes=sc["data"].encode("latin-1"), size=tuple(sc["size"]))
    t = life.t
    try:
        if not life.init():
            life.mark({"ev": "req", "how": "error"}, off=0)     # fzf gave up while starting: the error exit path
            return life.finish()
        typed = False
        for i, st in enumerate(sc["steps"]):
            if life.gone():
                break
            kind = st[0]
            try:
                if kind == "post":
                    code = 200
                    for attempt in (0, 1):
                        try:
                            code, _ = t.post(st[1])
                            break
                        except Exception as ex:       # the connection dies with fzf
                            if life.gone():
                                break
                            life.probe_alive()
                            if not life.alive or life.gone():
                                break
                            if attempt == 1:
                                raise Infra("POST %r failed twice while fzf answers GET: %s" % (st[1], ex))
                    if code not in (200, 400):
                        raise Infra("POST %r -> %d" % (st[1], code))
                elif kind == "key":
                    typed = True
                    t.keys(st[1])
                elif kind == "type":
                    typed = True
                    t.keys(st[1], literal=True)
                elif kind == "raw":
                    typed = True
                    hx = [st[1][j:j + 2] for j in range(0, len(st[1]), 2)]
                    t.tmux("send-keys", "-t", "s", "-H", *hx)
                elif kind == "resize":
                    t.resize(st[1], st[2])
                    # fzf picks the new size up a moment later; without the pause a sweep skips the intermediate sizes
                    time.sleep(0.2 if "sweep" in sc else 0.03)
            except Infra:
                if life.gone():
                    break
                raise
            if i % 6 == 5:
                life.probe_alive()
        own = False
        if not life.gone():
            life.probe_alive()
            if life.alive and not life.gone() and "f9:toggle-sort" in sc["extra"]:
                # the keyboard must still be served: end a paste that the typed bytes may have opened, then press the probe
                # key (a few times: a pending partial sequence or jump mode may swallow the first one)
                seen = False
                try:
                    t.tmux("send-keys", "-t", "s", "-H", "1b", "5b", "32", "30", "31", "7e")
                    # drain first: typed bursts of truncated escape sequences can leave a backlog in fzf's input buffer in which
                    # every stale fragment costs one more key press (the reader's blocking "second chance" read) before it is
                    # skipped; the probe key would queue up behind it.  Separate harmless presses, each its own read().
                    for _ in range(40):
                        if life.gone():
                            break
                        t.keys("Right")
                        time.sleep(0.02)
                    for attempt in range(7):
                        time.sleep(0.3 if attempt < 4 else 2.0)      # the last attempts wait long: the machine may be busy
                        try:
                            before = t.get(limit=1, timeout=10)
                        except Exception:
                            before = None
                        if not before:
                            break           # the socket has stopped answering: probe_alive below decides
                        t.keys("F9")
                        t1 = time.time()
                        while time.time() - t1 < (1.5 if attempt < 4 else 8.0) and not seen and not life.gone():
                            g = None
                            try:
                                g = t.get(limit=1, timeout=10)
                            except Exception:
                                pass
                            seen = bool(g) and g.get("sort") != before.get("sort")
                            if not seen:
                                time.sleep(0.1)
                        if seen or life.gone():
                            break
                except Infra:
                    if not life.gone():
                        raise
                if not seen and not life.gone():
                    life.alive = False          # answers on the socket but no longer reads the keyboard
                    life.notes.append("keyboard probe (F9 -> toggle-sort) never took effect")
            if life.alive and not life.gone():
                own = True
                life.mark({"ev": "req", "how": "abort"})
                try:
                    t.post("abort", final=True)
                except Exception:
                    pass
            if not life.wait_gone(60) and life.alive:
                # one more way out before calling it a hang
                life.mark({"ev": "req", "how": "SIGTERM"})
                try:
                    os.kill(life.fzf_pid(), 15)
                except OSError:
                    pass
                life.wait_gone(60)
        if life.gone() and (not own or life.status() != 130):
            # typed bytes / posted actions may have been an accept or an abort (e.g. `cancel` with the input hidden); the
            # driver does not interpret them
            life.mark({"ev": "req", "how": "key"}, off=0)
        return life.finish()
    finally:
        life.close()


# ------------------------------------------------------------------------------------------------ validation
def validate(ctx, events, label, diag=False):
    """Trace_Lifecycle over the events of many lives (each validated on its own).  Returns {sid: dev flag} of the
    accepted lives and the TLC result."""
    tpath = os.path.join(ctx.work, "ltrace-%s.ndjson" % label)
    write_ndjson(tpath, events)
    res = ctx.tlc("Trace_Lifecycle", "Trace_Lifecycle_diag.cfg" if diag else "Trace_Lifecycle.cfg", workers=1 if diag else 4, timeout=1500,
                  env={"TRACE": tpath}, label="trace-" + label)
    ends = {}
    for d in res.raw_items("END"):
        sid, flag = [int(x.strip()) for x in d.split(",")[:2]]
        ends.setdefault(sid, set()).add(flag)
    return {sid: min(fl) for sid, fl in ends.items()}, res


def furthest(res):
    at = [tuple(int(x.strip()) for x in d.split(",")[:2]) for d in res.raw_items("AT")]
    return max(at)[0] if at else 0


def describe_rejection(events, l):
    ev = events[l - 1] if 0 < l <= len(events) else None
    prev = [e for e in events[max(0, l - 8):l - 1]]
    return "spec rejects event %d %s after %s" % (l, json.dumps(ev), json.dumps([(e["ev"], e.get("m", e.get("how", e.get("kinds", ""))), e.get("on", "")) for e in prev]))


def runner(sc):
    return run_robust if sc["kind"] == "R" else run_life


def run(ctx):
    # (1) the design: exit at any moment leaves everything as found; an exit asked for completes
    if ctx.quick:
        ctx.mc("MC_Lifecycle", "MC_Lifecycle_quick.cfg", workers=6, timeout=1200, coverage=True)
        ctx.mc("MC_Lifecycle", "MC_Lifecycle_live.cfg", workers=4, timeout=1200)
    else:
        ctx.mc("MC_Lifecycle", "MC_Lifecycle.cfg", workers=8, timeout=1700, coverage=True)
        ctx.mc("MC_Lifecycle", "MC_Lifecycle_live.cfg", workers=4, timeout=1200)
        ctx.mc("MC_Lifecycle", "MC_Lifecycle_dev.cfg", workers=6, timeout=1200)
    for lab, cov in ctx.cov["action_coverage"].items():
        zero = [a for a, n in cov.items() if n == 0 and a.split(".")[1] in ("RInit", "Flush", "ToggleCursor", "StartChild", "BgPause", "ChildExit",
                                                                             "RemoveTemp", "Suspend", "Continue", "RequestExit", "ExitVia")]
        if zero:
            raise Infra("model actions never taken in %s: %s" % (lab, zero))
    rng = ctx.rng
    fzf = ctx.build_fzf()
    scenarios = []
    if ctx.replay:
        scenarios = [json.load(open(ctx.replay))["case"]["scenario"]]
    else:
        # (2) E: behaviours of the spec
        nbeh = ctx.pick(14, 110)
        gen = ctx.tlc("Gen_Lifecycle", "Gen_Lifecycle.cfg", workers=2, timeout=600, label="gen",
                      args=["-simulate", "num=%d" % ctx.pick(150, 1500), "-depth", "40", "-seed", str(ctx.seed)])
        seen, behaviours = set(), []
        for b in gen.json_items("CASE"):
            k = json.dumps(b, sort_keys=True)
            if k not in seen:
                seen.add(k)
                behaviours.append(b)
        if len(behaviours) < nbeh:
            raise Infra("TLC exported only %d behaviours" % len(behaviours))
        # prefer behaviours that do something before the exit; keep the choice seeded
        rng.shuffle(behaviours)
        behaviours.sort(key=lambda b: -min(len(b["steps"]), 6))
        long = behaviours[:nbeh * 3]
        rng.shuffle(long)
        for b in long[:nbeh]:
            scenarios.append(scenario_from_behaviour(b, rng))
        # (3) J: seeded random lives; robustness lives
        for _ in range(ctx.pick(16, 160)):
            scenarios.append(random_scenario(rng))
        for _ in range(ctx.pick(14, 150)):
            scenarios.append(robust_scenario(rng, ctx.quick))
        # every option set once (three times in the thorough tier, with different seeded details)
        ks = list(range(len(SWEEP_OPTS))) if ctx.quick else list(range(3 * len(SWEEP_OPTS)))
        for k in ks:
            scenarios.append(sweep_scenario(rng, k))
        for k in range(ctx.pick(2 * len(SCROLL_OPTS), 12 * len(SCROLL_OPTS))):
            scenarios.append(scroll_scenario(rng, k))

    with open(os.path.join(ctx.work, "scenarios.json"), "w") as fh:
        json.dump(scenarios, fh)

    def do(ix):
        sc = scenarios[ix]
        for attempt in (0, 1):
            try:
                return ix, runner(sc)(ctx, fzf, ix, sc)
            except Infra as ex:
                # the terminal emulator or the pane's shell died (tmux 3.3a does, rarely, at tiny sizes): no observation,
                # no verdict.  (ctrl-\ is not among the raw bytes: typed just after fzf has restored the terminal it is a
                # SIGQUIT for the pane's shell)
                if sc["kind"] == "R" and any(m in str(ex) for m in ("server exited unexpectedly", "no server running", "lost server", "pane's tty is gone")):
                    log("life %d: terminal emulator / pane died (%s)%s" % (ix, str(ex)[:120], ", trying once more" if attempt == 0 else ", skipped"))
                    with open(os.path.join(ctx.work, "..", "C14-skipped-%d.json" % ix), "w") as fh:
                        json.dump({"scenario": sc, "error": str(ex)}, fh)
                    continue
                raise Infra("life %d (%s): %s\nscenario: %s" % (ix, sc["kind"], ex, json.dumps({k: v for k, v in sc.items() if k != "data"})[:1500]))
        return ix, None
    results = {}
    with ThreadPoolExecutor(max_workers=PAR) as ex:
        for ix, evs in ex.map(do, range(len(scenarios))):
            results[ix] = evs
    skipped = sorted(ix for ix in results if results[ix] is None)
    if len(skipped) > max(2, len(scenarios) // 20):
        raise Infra("tmux died in %d of %d lives" % (len(skipped), len(scenarios)))
    for ix in skipped:
        del results[ix]
    events = []
    for ix in sorted(results):
        events += results[ix]
    accepted, res = validate(ctx, events, "all")
    ctx.cov["traces_validated_against_impl"] += len(results)
    ctx.cov["lives_skipped_terminal_emulator_died"] = len(skipped)
    ctx.cov["evaluations"] += len(events)

    # deviations: lives accepted only through ExitLeavingPreview (1) / ExitLeavingReloadTemps (2) / both (3)
    dev_seen = {}
    for ix, flag in sorted(accepted.items()):
        how = [e["how"] for e in results[ix] if e["ev"] == "req"]
        for bit, name in ((1, "preview"), (2, "reload")):
            if flag & bit:
                dev_seen.setdefault((name, how[-1] if how else "?"), ix)
    for (name, how), ix in sorted(dev_seen.items()):
        ex_ev = results[ix][-1]
        if name == "preview":
            ctx.violation("life %d: after exit via %s the preview command is still running (%s) and %d of its temp files are left; terminal "
                          "restored, nothing else left" % (ix, how, ex_ev["kinds"], ex_ev["temps"].count("preview")),
                          {"scenario": scenarios[ix], "events": results[ix], "kf": dict(KF_PREVIEW, exit=how)})
        else:
            ctx.violation("life %d: after exit via %s the reload command was killed but %d temp file(s) of its {f} placeholders are left; "
                          "terminal restored" % (ix, how, ex_ev["temps"].count("reload")),
                          {"scenario": scenarios[ix], "events": results[ix], "kf": dict(KF_RELOAD, exit=how)})
    # rejected lives: re-run once, validate alone with diagnostics; only reproduced rejections count
    rejected = [ix for ix in sorted(results) if ix not in accepted]
    unreproduced = []
    for ix in rejected[:6]:
        sc = scenarios[ix]
        _, r1 = validate(ctx, results[ix], "diag-%d" % ix, diag=True)
        first = describe_rejection(results[ix], furthest(r1))
        evs2 = runner(sc)(ctx, fzf, ix, sc)
        acc2, r2 = validate(ctx, evs2, "re-%d" % ix, diag=True)
        if ix in acc2 and acc2[ix] == 0 and not ctx.replay:
            dump = os.path.join(ctx.work, "..", "C14-unreproduced-%d.json" % ix)
            with open(dump, "w") as fh:
                json.dump({"scenario": sc, "events": results[ix], "what": first}, fh)
            # one observation that a second identical life does not show: no verdict about fzf from it (kept for inspection);
            # several of them in one run mean the observer itself is unreliable
            unreproduced.append(ix)
            log("life %d (%s): %s - not reproduced on a second run (kept: %s)" % (ix, sc["kind"], first, os.path.abspath(dump)))
            if len(unreproduced) > 2:
                raise Infra("%d rejected lives were not reproduced on a second run: %s" % (len(unreproduced), unreproduced))
            continue
        if ix in acc2:
            continue        # second run shows only the known deviation
        what = "life %d (%s, %s %s): %s" % (ix, sc["kind"], lifecycle.cfg_args(sc["cfg"]), sc.get("extra"), describe_rejection(evs2, furthest(r2)))
        ctx.violation(what, {"scenario": sc, "events": evs2, "first_run": first})
    if len(rejected) > 6:
        log("%d more rejected lives not re-run" % (len(rejected) - 6))
    # E comparison: the terminal received exactly the tracked mode changes the spec predicted
    e_bad = 0
    for ix, sc in enumerate(scenarios):
        if sc["kind"] != "E" or ix in rejected or ix not in results:
            continue
        got = lifecycle.tracked_ops(results[ix])
        if got != sc["expect_ops"]:
            e_bad += 1
            if e_bad > 3:
                continue
            evs2 = run_life(ctx, fzf, ix, sc)
            got2 = lifecycle.tracked_ops(evs2)
            if got2 == sc["expect_ops"]:
                raise Infra("behaviour %d: mode changes differed from the prediction once, not on the second run" % ix)
            ctx.violation("behaviour %d %s: terminal received %s, spec predicts %s" % (
                ix, json.dumps(sc["steps"]), json.dumps([(o["m"], o["on"]) for o in got2]), json.dumps([(o["m"], o["on"]) for o in sc["expect_ops"]])),
                {"scenario": sc, "events": evs2, "expected_ops": sc["expect_ops"]})
    # evidence
    kinds = {"E": 0, "J": 0, "R": 0}
    distinct = set()
    hows, sizes = {}, set()
    for ix, sc in enumerate(scenarios):
        if ix not in results:
            continue
        kinds[sc["kind"]] += 1
        evs = results[ix]
        ops = lifecycle.tracked_ops(evs)
        ex_ev = evs[-1]
        for e in evs:
            if e["ev"] == "req":
                hows[e["how"]] = hows.get(e["how"], 0) + 1
        if sc["kind"] == "R":
            sizes.add(tuple(sc["size"]))
            for st in sc["steps"]:
                if st[0] == "resize":
                    sizes.add((st[1], st[2]))
        obs = [json.dumps([e.get("kinds"), e.get("tio")]) for e in evs if e["ev"] in ("child", "tio")]
        if len(ops) > len(lifecycle.tracked_ops([e for e in evs[:1]])) and (len(set(obs)) > 1 or sc["kind"] == "R"):
            distinct.add(json.dumps([sc["cfg"], [(o["m"], o["on"]) for o in ops], sorted(set(obs)), [e["how"] for e in evs if e["ev"] == "req"],
                                     sc["steps"] if sc["kind"] == "R" else None]))
    ctx.cov["distinct_nontrivial"] = len(distinct)
    ctx.cov["rule"] = ("one life of the real fzf binary on a pty per scenario, observed from outside (byte stream, termios, /proc, TMPDIR, port); "
                       "E = behaviours simulated from FzfLifecycle with the predicted mode-change sequence, J = seeded random lives with exits "
                       "racing commands, R = robustness lives under tmux (hostile items, sizes 1x1..200x50, random actions/bytes/mouse/resizes); "
                       "non-trivial = distinct (options, mode-change sequence, observed worlds, exit requests) with a command started, a "
                       "pause/resume or random stimuli before the exit")
    ctx.cov["lives"] = kinds
    ctx.cov["exit_requests_by_kind"] = hows
    ctx.cov["terminal_sizes"] = sorted(sizes)[:40]
    ctx.cov["lives_with_deviation"] = {"preview_left": sum(1 for f in accepted.values() if f & 1), "reload_temps_left": sum(1 for f in accepted.values() if f & 2)}
    ctx.cov["rejected_lives"] = len(rejected)
    ctx.cov["rejected_lives_not_reproduced"] = len(unreproduced)
    for ix, sc in enumerate(scenarios):
        if ix in results and sc["kind"] == "J" and len(sc["steps"]) > 2:
            ctx.sample({"options": lifecycle.cfg_args(sc["cfg"]) + sc["extra"], "steps": sc["steps"],
                        "terminal_received": [(o["m"], o["on"]) for o in lifecycle.tracked_ops(results[ix])], "after_exit": results[ix][-1]})
            if len(ctx.cov["samples"]) >= 3:
                break
    ctx.assumptions += ["exit paths: accept, abort (keys / POST), print-query, become, SIGINT, SIGTERM - the signals fzf handles; SIGHUP/SIGKILL are not "
                        "handled by fzf and are outside the model",
                        "crash-freedom and responsiveness are explored along generated behaviours and seeded random stimuli, not proved for all inputs",
                        "a command that owns the terminal (execute / execute-silent) defers the exit until it ends: the driver ends it",
                        "bracketed-paste mode is not exposed by tmux: in tmux lives it is followed through the byte stream only",
                        "error exits after start-up (tty read failure) are not driven; option / start-up errors happen before any terminal change"]
    return "model_checking"
