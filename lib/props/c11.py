"""C11 - --ansi strips escape sequences only and colours the right characters (spec/FzfAnsi.tla).

MC  MC_Ansi*.cfg          design properties on every line <= 3/4 symbols (fixed points, only-removes, corner locality,
                          span well-formedness, carry-through) and on every grammar line of <= 2/3 chunks (no swallowing).
E   Gen_AnsiBytes.cfg     TLC enumerates every line over the class-covering alphabets (plain, after ESC ], after ESC [,
                          after a state-setting previous line) with the predicted text / per-character attributes /
                          carried state; Gen_AnsiGrammar.cfg simulates multi-line streams of well-formed chunks.
                          Replayed on the real extractColor (state carried as in core.go) and, for a sample, through
                          the real binary (`fzf --ansi -f ''`).
    Gen_AnsiSgr.cfg       every SGR sequence of <= 2/3 parameter groups from a 35-group menu of the ways to write a group
                          (ordinary, empty, legacy 38/48/58;..., colon groups incl. 38:2::r:g:b, renditions fzf cannot show),
                          <= 3/4 groups from a 14-group menu: ':' and ';' mixed in one sequence, SGR 58/59, ignored codes.
J   Judge_Ansi            long random grammar streams and arbitrary byte strings run on the real code, every record
                          evaluated by TLC (text = Strip, spans well-formed, colours = Colour while well-formed).
Items (FzfAnsi Part C)    the real binary under tmux (`capture-pane -e`: text and colour/attributes of every cell) on
                          multi-line streams with colours left open across lines, without --with-nth and with
                          --with-nth 1.. / .. / 2..:  E = TLC-simulated streams from a menu of line shapes with the predicted
                          rows (Gen_AnsiItems.cfg), J = random streams judged by Judge_AnsiItems; MC_AnsiItems checks
                          `1.. shows what no --with-nth shows`, `hiding a field does not recolour the others`.
Named deviations of the specification (StAsCsi, SkipEmptyParam, OpenSpanAtEol, MixedSep, Sgr58; CarryLag for items) are
predicted by TLC as alternatives; a case the real code only matches under a deviation is reported as a violation carrying
that deviation's kf signature.
"""
import json, os, random, re, subprocess, time, threading
from concurrent.futures import ThreadPoolExecutor
import vlib
import tmuxdrv
from vlib import Infra, replay_cases, judge, write_ndjson, read_ndjson, log

TEST = "TestVerifAnsi"
FILES = ["zz_verif_common_test.go", "zz_verif_ansi_test.go"]
KF = {"StAsCsi": {"site": "nextAnsiEscapeSequence", "kind": "esc-backslash-taken-as-csi-introducer"},
      "SkipEmptyParam": {"site": "interpretCode", "kind": "empty-sgr-parameter-skipped"},
      "OpenSpanAtEol": {"site": "extractColor", "kind": "open-span-not-extended-when-line-ends-with-sequence"},
      "MixedSep": {"finding": "C11-D", "site": "parseAnsiCode", "kind": "mixed-separators"},
      "Sgr58": {"finding": "C11-E", "site": "interpretCode", "kind": "sgr58-arguments-as-codes"},
      "CarryLag": {"finding": "C11-F", "site": "core.Run/with-nth builder", "kind": "carried-state-lags-one-line"}}


def kf_of(dv):
    """signature of a deviation set 'A' or 'A+B' (a combination carries the names of all its members)"""
    if dv is None:
        return None
    if dv in KF:
        return KF[dv]
    return {"site": "ansi.go", "kind": "combination", "deviations": dv}
SYMB = {"ESC": b"\x1b", "BS": b"\x08", "SO": b"\x0e", "SI": b"\x0f", "BEL": b"\x07", "LF": b"\n", "BSL": b"\\",
        "e~": "é".encode()}
WORKERS = int(os.environ["VERIF_WORKERS"]) if os.environ.get("VERIF_WORKERS") else None


def to_bytes(syms):
    return b"".join(SYMB[s] if s in SYMB else s.encode("ascii") for s in syms)


def show(line):
    return to_bytes(line).decode("utf-8").encode("unicode_escape").decode()


def expected(case):
    return case["exp"]


def describe(c, exp, r):
    got = r.get("got", [])
    i = vlib.first_diff(exp, got)
    return "lines=%s line %d: spec %s, real %s%s" % (
        json.dumps([show(l) for l in c["lines"]]), i, json.dumps(exp[i] if 0 <= i < len(exp) else None),
        json.dumps(got[i] if 0 <= i < len(got) else None), (" panic=" + r["panic"]) if r.get("panic") else "")


def deviation_of(case, got):
    for a in case.get("alts", []):
        if got == a["exp"]:
            return a["dv"]
    return None


def action_counts(res):
    """per-action distinct-state counts of a -coverage run (also actions whose location carries an (l c l c) suffix)"""
    cov = {}
    with open(res.outp, errors="replace") as fh:
        for line in fh:
            m = re.match(r"^<(\w+) line \d+, col \d+ to line \d+, col \d+ of module \w+(?: \([\d ]+\))?>: (\d+):(\d+)", line)
            if m:
                cov[m.group(1)] = cov.get(m.group(1), 0) + int(m.group(3))
    return cov


class Stats:
    def __init__(self):
        self.nontrivial = set()
        self.classes = {}
        self.dev_hits = {}
        self.dev_reported = {}
        self.carry = {}

    def count(self, k, n=1):
        self.classes[k] = self.classes.get(k, 0) + n


def report_quota(st, d):
    """how many more cases explained exactly by deviation (set) d to turn into violations: two per single deviation;
    a combination only while one of its members has not been reported on its own (TLC's prediction for the
    combination is exact, so nothing else can hide behind it)"""
    if "+" in d and all(st.dev_reported.get(m, 0) > 0 for m in d.split("+")):
        return 0
    return max(0, (1 if "+" in d else 2) - st.dev_reported.get(d, 0))


def run_bulk(ctx, h, cases, label):
    cpath = os.path.join(ctx.work, "bulk-%s.ndjson" % label)
    opath = os.path.join(ctx.work, "bulkout-%s.ndjson" % label)
    write_ndjson(cpath, cases)
    ctx.run_harness(h, TEST, env={"VERIF_CASES": cpath, "VERIF_OUT": opath}, timeout=3000)
    res = read_ndjson(opath)
    os.remove(cpath)
    os.remove(opath)
    if len(res) != len(cases):
        raise Infra("%s: %d cases but %d results" % (label, len(cases), len(res)))
    return res


def replay_split(ctx, h, cases, label, st):
    """Bulk-run the cases; every case whose observation differs from the documented prediction goes through
    vlib.replay_cases (re-run alone, reproduced => violation): with the deviation's kf signature when the real
    code matches the prediction TLC made for a named deviation, without any otherwise."""
    if not cases:
        raise Infra("no cases for " + label)
    res = run_bulk(ctx, h, cases, label)
    ctx.cov["evaluations"] += len(cases)
    ctx.cov["traces_validated_against_impl"] += len(cases)
    plain, dev = [], {}
    for c, r in zip(cases, res):
        if r.get("got") == c["exp"] and not r.get("panic"):
            continue
        d = None if r.get("panic") else deviation_of(c, r.get("got"))
        if d is None:
            plain.append(c)
        else:
            dev.setdefault(d, []).append(c)
    if plain:
        replay_cases(ctx, h, TEST, plain[:10], expected, label + "-mismatch", describe=describe)
    for d in sorted(dev, key=lambda x: x.count("+")):          # singles first
        cs = dev[d]
        st.dev_hits[d] = st.dev_hits.get(d, 0) + len(cs)
        todo = report_quota(st, d)
        if todo:
            replay_cases(ctx, h, TEST, cs[:todo], expected, "%s-%s" % (label, d), describe=describe,
                         kf=lambda c, exp, r1: kf_of(deviation_of(c, r1.get("got"))))
            st.dev_reported[d] = st.dev_reported.get(d, 0) + todo
    return res


def classify(st, cases):
    """distinct non-trivial = distinct lines in which something was stripped or some character is not default."""
    for c in cases:
        ln, e = c["lines"][-1], c["exp"][-1]
        stripped = len(e["text"]) != len(ln)
        coloured = e["wf"] and any(a[1] != {"fg": [], "bg": [], "at": [], "url": []} for a in e["attrs"])
        if stripped or coloured:
            st.nontrivial.add(json.dumps(c["lines"]))
        st.count("stripped" if stripped else "untouched")
        if coloured:
            st.count("coloured")
        if not e["wf"]:
            st.count("outside_wellformed_grammar")
        if c["alts"]:
            st.count("deviation_prone")
        if len(c["lines"]) > 1:
            f = c["exp"][-2]["final"]
            for k in ("fg", "bg", "at", "url", "lbg"):
                if c["exp"][-2]["wf"] and f[k]:
                    st.carry[k] = st.carry.get(k, 0) + 1


# ------------------------------------------------------------------ random inputs for J (input generation only)
DIG = list("0123456789")
LET = list("amKBHJlcM")
PUN = ["[", "]", "(", ")", "BSL", ";", ":", "?", "=", "@", "/", " "]
PRINT = DIG + LET + PUN
TEXTSYM = PRINT + ["e~", "e~", "a", "a", "m"]
ALLSYM = PRINT + ["e~", "ESC", "BS", "SO", "SI", "BEL", "LF"]
SINGLES = [0, 1, 2, 3, 4, 5, 7, 9, 22, 23, 24, 25, 27, 29, 39, 49, 8, 28, 10, 53, 55] + list(range(30, 38)) + \
    list(range(40, 48)) + list(range(90, 98)) + list(range(100, 108))
IGNORED = [8, 28, 26, 50, 59] + list(range(10, 21)) + list(range(51, 56)) + list(range(60, 66)) + [73, 74, 75]   # FzfAnsi.Unrepresented
BYTES = [0, 1, 2, 3, 4, 5, 7, 8, 9, 15, 16, 22, 24, 31, 38, 48, 58, 100, 208, 255]


def num(n):
    return list(str(n))


def join(parts, sep):
    out = []
    for i, p in enumerate(parts):
        if i:
            out.append(sep)
        out += p
    return out


def gen_colour(rng, colon, which=None):
    """one colour as fields: legacy 38;5;n / 38;2;r;g;b (several fields) or a colon group (one field)"""
    w = which or rng.choice([38, 48, 38, 48, 58])
    byte = lambda: num(rng.choice(BYTES + [rng.randrange(256)]))
    if rng.random() < 0.5:
        parts = [num(w), ["5"], byte()]
    else:
        parts = [num(w), ["2"]] + ([[]] if colon and rng.random() < 0.5 else []) + [byte(), byte(), byte()]
    return [join(parts, ":")] if colon else parts


def gen_sgr(rng, exotic):
    groups = []
    for _ in range(rng.choice([0, 1, 1, 1, 2, 2, 3, 4, 5])):
        k = rng.random()
        if k < 0.45:
            g = [num(rng.choice(SINGLES))]
            if rng.random() < 0.1:
                g = [["0"] + g[0]]
        elif k < 0.55:
            g = [num(rng.choice(IGNORED))]
        elif k < 0.82:
            g = gen_colour(rng, False)
        elif k < 0.97 or exotic != "empty":
            g = gen_colour(rng, True)                  # a colon group among ';'-separated parameters
        else:
            g = [[]]
        groups += g
    return ["ESC", "["] + join(groups, ";") + ["m"]


def gen_chunk(rng, exotic):
    k = rng.random()
    if k < 0.30:
        return [rng.choice(TEXTSYM) for _ in range(rng.randint(1, 6))]
    if k < 0.58:
        return gen_sgr(rng, exotic)
    if k < 0.63:
        return ["ESC", "["] + gen_colour(rng, True)[0] + ["m"]
    if k < 0.73:
        st = rng.choice([["BEL"], ["ESC", "BSL"]])
        if rng.random() < 0.4:
            return ["ESC", "]", "8", ";", ";"] + st
        params = rng.choice([[], [], list("a=1"), list("a=1:B=2")])
        uri = [rng.choice(PRINT) for _ in range(rng.randint(1, 10))]
        return ["ESC", "]", "8", ";"] + params + [";"] + uri + st
    if k < 0.77:
        n = rng.choice([0, 1, 2, 4, 7, 9, 52, 133, 18, 80, 88])
        return ["ESC", "]"] + num(n) + [rng.choice([";", ";", ":"])] + [rng.choice(PRINT) for _ in range(rng.randint(1, 8))] + \
            rng.choice([["BEL"], ["ESC", "BSL"]])
    if k < 0.86:
        f = rng.random()
        if f < 0.15:
            return ["ESC", rng.choice(["(", ")"]), "B"]
        body = [rng.choice(DIG + [";", ";", "?"]) for _ in range(rng.randint(0, 4))]
        if f < 0.45:
            body = rng.choice([[], ["0"], ["1"], ["2"], ["1", "0"]])
            return ["ESC", "["] + body + ["K"]
        return ["ESC", "["] + body + [rng.choice(["K", "B", "H", "J", "l", "c", "M", "a", "@"])]
    if k < 0.90:
        return [rng.choice(["SO", "SI"])]
    if k < 0.96:
        return [rng.choice(TEXTSYM), "BS"]
    second = rng.choice(DIG + ["=", "c", "M", "e~", "/", "@", "H"] + (["BSL"] * 6 if exotic == "st" else []))
    return ["ESC", second]


def gen_stream(rng, nlines, nchunks, exotic):
    lines = []
    for _ in range(nlines):
        ln = []
        for _ in range(rng.randint(max(1, nchunks // 2), nchunks)):
            ln += gen_chunk(rng, exotic)
        lines.append(ln)
    return {"lines": lines}


def gen_arbitrary(rng, maxlen):
    w = ALLSYM + ["ESC"] * 8 + ["["] * 5 + ["]"] * 3 + [";"] * 4 + ["m"] * 3 + ["BS"] * 2 + ["8"] * 2 + ["BSL"] * 2 + ["BEL"] * 2
    return {"lines": [[rng.choice(w) for _ in range(rng.randint(1, maxlen))] for _ in range(rng.choice([1, 1, 2, 3]))]}


# ------------------------------------------------------------------ J
def dev_tags(res):
    out = {}
    for x in res.raw_items("DEV"):
        i, d = x.split(",", 1)
        out[int(i.strip()) - 1] = d.strip().strip('"')
    return out


def judge_chunks(ctx, recs, label):
    """TLC judges the records in files of at most ~16 MB (a TraceLog too large to be pre-evaluated at start-up is
    re-read for every state); returns (bad indices, {index: deviation name})"""
    bad, tags, start, size, n = [], {}, 0, 0, 0
    sizes = [len(json.dumps(r)) for r in recs]
    for i in range(len(recs) + 1):
        if i == len(recs) or (size + sizes[i] > 16_000_000 and i > start):
            b, res = judge(ctx, "Judge_Ansi", "Judge_Ansi.cfg", recs[start:i], "%s.%d" % (label, n), workers=WORKERS, timeout=3000)
            bad += [start + j for j in b]
            tags.update({start + j: d for j, d in dev_tags(res).items()})
            start, size, n = i, 0, n + 1
        if i < len(recs):
            size += sizes[i]
    return bad, tags


def judge_records(ctx, h, inputs, label, st, recs=None):
    """harness records of `inputs` judged by TLC; rejected records are re-run and re-judged alone before they count"""
    if recs is None:
        recs = run_bulk(ctx, h, inputs, label)
    bad, tags = judge_chunks(ctx, recs, label)
    if not bad:
        return recs
    plain = [i for i in bad if i not in tags]
    todo = plain[:8]
    for i in bad:
        if i in tags:
            d = tags[i]
            st.dev_hits[d] = st.dev_hits.get(d, 0) + 1
            if report_quota(st, d) > len([j for j in todo if tags.get(j) == d]):
                todo.append(i)
    for i in todo:
        one = run_bulk(ctx, h, [{"lines": inputs[i]["lines"]}], label + "-re")
        bad1, res1 = judge(ctx, "Judge_Ansi", "Judge_Ansi.cfg", one, label + "-re", workers=1)
        if not bad1:
            raise Infra("%s: rejected record %d not reproduced when run alone" % (label, i))
        d = dev_tags(res1).get(0)
        r = one[0]
        what = "%s: spec rejects what the real code did: lines=%s got=%s" % (
            label, json.dumps([show(l) for l in r.get("lines", [])]), json.dumps(r.get("got"))[:1200])
        case = {"harness": TEST, "label": label, "record": r}
        if d:
            if report_quota(st, d) == 0:
                continue
            st.dev_reported[d] = st.dev_reported.get(d, 0) + 1
            case["kf"] = kf_of(d)
            what += " (explained exactly by deviation %s)" % d
        ctx.violation(what, case)
    return recs


# ------------------------------------------------------------------ end to end through the real binary
def end_to_end(ctx, cases, st, extra_args, label):
    fzf = ctx.build_fzf()
    sel = [c for c in cases if len(c["lines"]) == 1 and c["lines"][0] and "LF" not in c["lines"][0]]
    if not sel:
        raise Infra("no single-line cases for the end-to-end run")

    def run(cs):
        data = b"".join(to_bytes(c["lines"][0]) + b"\n" for c in cs)
        r = subprocess.run([fzf, "--ansi", "-f", ""] + extra_args, input=data, capture_output=True,
                           env=vlib.go_env({"TERM": "xterm-256color"}), timeout=600)
        if r.returncode not in (0, 1):
            raise Infra("fzf --ansi -f '' exited %d: %s" % (r.returncode, r.stderr[-500:]))
        out = r.stdout.split(b"\n")
        if out and out[-1] == b"":
            out.pop()
        return out

    out = run(sel)
    if len(out) != len(sel):
        raise Infra("%s: fed %d lines, fzf printed %d" % (label, len(sel), len(out)))
    n = 0
    for c, o in zip(sel, out):
        if o == to_bytes(c["exp"][0]["text"]):
            continue
        o1 = run([c])
        if len(o1) != 1 or o1[0] == to_bytes(c["exp"][0]["text"]):
            raise Infra("%s: printed line differs in the batch but not alone: %r" % (label, show(c["lines"][0])))
        d = next((a["dv"] for a in c["alts"] if o1[0] == to_bytes(a["exp"][0]["text"])), None)
        if d:
            st.dev_hits["binary:" + d] = st.dev_hits.get("binary:" + d, 0) + 1
            if st.dev_reported.get("binary:" + d, 0) >= 1:
                continue
            st.dev_reported["binary:" + d] = 1
        n += 1
        if n > 5:
            continue
        case = {"cmd": "printf %s | fzf --ansi -f '' %s" % (show(c["lines"][0]), " ".join(extra_args)), "label": label,
                "line": c["lines"][0], "expected_text": c["exp"][0]["text"], "printed": o1[0].decode("utf-8", "replace")}
        if d:
            case["kf"] = dict(kf_of(d), via="binary")
        ctx.violation("%s: `fzf --ansi -f ''` printed %r for the line %s; spec: %r" % (
            label, o1[0], show(c["lines"][0]), to_bytes(c["exp"][0]["text"])), case)
    ctx.cov["evaluations"] += len(sel)
    ctx.cov["traces_validated_against_impl"] += len(sel)
    return len(sel)


# ------------------------------------------------------------------ items on the screen (FzfAnsi Part C)
# Neutral theme: what a cell shows is what --ansi attached to the character (the item under the cursor is the sentinel line).
ITEM_ARGS = ["--ansi", "--reverse", "--info=hidden", "--no-separator", "--no-bold", "--no-hscroll", "--no-multi",
             "--color=fg:-1,bg:-1,fg+:-1,bg+:-1,gutter:-1,hl:-1,hl+:-1"]
NTH_MODES = [(0, []), (1, ["--with-nth", "1.."]), (1, ["--with-nth", ".."]), (2, ["--with-nth", "2.."])]
SENTINEL = ["@", " ", "@"]
ATTR_ORDER = ["bold", "dim", "italic", "underline", "blink", "reverse", "strike"]
# observation table: how tmux (capture-pane -e) writes down the rendition of a cell -> vocabulary of FzfAnsi.tla
TMUX_ATTR = {1: "bold", 2: "dim", 3: "italic", 4: "underline", 5: "blink", 7: "reverse", 9: "strike"}
SYM_OF_CHAR = {"é": "e~", "\\": "BSL"}


def tmux_cells(line, st):
    """one captured row -> [(char, fg, bg, attrs)]; the rendition is carried from cell to cell (and row to row: st) by
    tmux's own SGR codes"""
    cells, i = [], 0
    fg, bg, at = st["fg"], st["bg"], st["at"]
    while i < len(line):
        ch = line[i]
        if ch != "\x1b":
            cells.append((ch, list(fg), list(bg), [a for a in ATTR_ORDER if a in at]))
            i += 1
            continue
        m = re.match(r"\x1b\[([0-9;]*)m", line[i:])
        if not m:
            raise Infra("capture-pane -e: unexpected control sequence %r" % line[i:i + 12])
        i += m.end()
        ps = [int(x) if x else 0 for x in m.group(1).split(";")]
        k = 0
        while k < len(ps):
            n = ps[k]
            if n == 0:
                fg, bg, at = [], [], set()
            elif n in TMUX_ATTR:
                at = at | {TMUX_ATTR[n]}
            elif 30 <= n <= 37 or 90 <= n <= 97:
                fg = [n - 30 if n < 90 else n - 90 + 8]
            elif 40 <= n <= 47 or 100 <= n <= 107:
                bg = [n - 40 if n < 100 else n - 100 + 8]
            elif n == 39:
                fg = []
            elif n == 49:
                bg = []
            elif n in (38, 48) and ps[k + 1:k + 2] == [5] and len(ps) >= k + 3:
                fg, bg = ([ps[k + 2]], bg) if n == 38 else (fg, [ps[k + 2]])
                k += 2
            elif n in (38, 48) and ps[k + 1:k + 2] == [2] and len(ps) >= k + 5:
                fg, bg = (ps[k + 2:k + 5], bg) if n == 38 else (fg, ps[k + 2:k + 5])
                k += 4
            else:
                raise Infra("capture-pane -e: rendition code %d of %r is not in the observation table" % (n, m.group(0)))
            k += 1
    st["fg"], st["bg"], st["at"] = fg, bg, at
    return cells


def screen_rows(raw, n):
    """rows 1..n of the pane (row 0 is the prompt) without the two pointer columns and without blanks at the end:
    [{"text": symbols, "attrs": [[count, {"fg","bg","at"}], ...]}]"""
    lines = raw.split("\n")
    state = {"fg": [], "bg": [], "at": set()}
    rows = []
    for r in range(0, n + 1):
        cells = tmux_cells(lines[r], state) if r < len(lines) else []
        if r == 0:
            continue
        cells = cells[2:]
        while cells and cells[-1][0] == " ":
            cells.pop()
        text, attrs = [], []
        for ch, fg, bg, at in cells:
            text.append(SYM_OF_CHAR.get(ch, ch if " " <= ch <= "~" else "U+%04X" % ord(ch)))
            v = {"fg": fg, "bg": bg, "at": at}
            if attrs and attrs[-1][1] == v:
                attrs[-1][0] += 1
            else:
                attrs.append([1, v])
        rows.append({"text": text, "attrs": attrs})
    return rows


def item_rows(ctx, fzf, lines, nth_args, slow=False):
    """the real binary on a pty: feeds the lines, waits for the complete list to be drawn, returns the rows of the list"""
    n = len(lines)
    data = b"".join(to_bytes(l) + b"\n" for l in lines)
    for attempt in (0, 1):
        s = tmuxdrv.Session(ctx, fzf, ITEM_ARGS + nth_args, input_data=data, width=100, height=n + 2, listen=False)
        try:
            def drawn(tr):
                k = next((i for i, e in enumerate(tr) if e["ev"] == "term.list" and not e.get("reading") and e.get("n") == n), None)
                return k is not None and any(e["ev"] == "term.render" and e.get("what") == "flush" for e in tr[k:])
            s.wait_for(drawn, timeout=60 if attempt == 0 else 180, what="complete list drawn")
            same, prev, t0 = 0, None, time.time()
            while True:
                rows = screen_rows(s.tmux("capture-pane", "-e", "-p", "-t", "s"), n)
                same = same + 1 if rows == prev else 0
                if same >= (4 if slow else 2):
                    return rows
                prev = rows
                if time.time() - t0 > 60:
                    raise Infra("the screen of an items session never settled")
                time.sleep(0.1 if slow else 0.03)
        except Infra:
            if attempt == 1:
                raise
        finally:
            s.close()


def show_rows(rows):
    return json.dumps([["".join(SYMB[x].decode() if x in SYMB else x for x in r["text"]),
                        [[k, v["fg"], v["bg"], v["at"]] for k, v in r["attrs"]]] for r in rows])


def items_violation(ctx, st, label, lines, f, args, exp, got, dev):
    """dev: name of the deviation under which TLC predicts exactly what was seen, or None"""
    if dev:
        st.dev_hits["items:" + dev] = st.dev_hits.get("items:" + dev, 0) + 1
        if st.dev_reported.get("items:" + dev, 0) >= 2:
            return
        st.dev_reported["items:" + dev] = st.dev_reported.get("items:" + dev, 0) + 1
    else:
        st.dev_reported["items:-"] = st.dev_reported.get("items:-", 0) + 1
        if st.dev_reported["items:-"] > 5:
            return
    i = vlib.first_diff(exp, got) if exp is not None else -1
    case = {"items": {"lines": lines, "from": f, "args": args}, "label": label,
            "cmd": "printf %s | fzf %s" % (json.dumps("\n".join(show(l) for l in lines)), " ".join(ITEM_ARGS + args))}
    if dev:
        case["kf"] = KF[dev]
    ctx.violation("%s: items shown by `fzf --ansi %s` for the lines %s: %s real rows %s%s" % (
        label, " ".join(args), json.dumps([show(l) for l in lines]),
        ("row %d: spec %s," % (i + 1, show_rows(exp[i:i + 1]) if 0 <= i < len(exp) else "-")) if exp is not None else "spec rejects the",
        show_rows(got[i:i + 1]) if exp is not None and 0 <= i < len(got) else show_rows(got),
        (" (explained exactly by deviation %s)" % dev) if dev else ""), case)


def gen_item_sgr(rng):
    if rng.random() < 0.12:
        return ["ESC", "["] + gen_colour(rng, True, which=rng.choice([38, 48]))[0] + ["m"]        # a colon group on its own
    groups = []
    for _ in range(rng.choice([0, 1, 1, 1, 2, 2, 3])):
        k = rng.random()
        if k < 0.7:
            groups += [num(rng.choice(SINGLES + [0, 0, 39, 49, 22]))]
        elif k < 0.78:
            groups += [num(rng.choice(IGNORED))]
        else:
            groups += gen_colour(rng, False, which=rng.choice([38, 48]))
    return ["ESC", "["] + join(groups, ";") + ["m"]


ITEM_CHARS = list("amKBHJlcM0123456789") + ["e~", "e~", "[", ";", "/", "="]


def gen_item_line(rng):
    """1..4 fields; sequences stand next to a non-blank; no blank at either end of the line"""
    ln = []
    for w in range(rng.choice([1, 2, 2, 2, 3, 3, 4])):
        if w:
            ln += [" "] * rng.choice([1, 1, 1, 2])
        if rng.random() < 0.45:
            ln += gen_item_sgr(rng)
        ln += [rng.choice(ITEM_CHARS) for _ in range(rng.randint(1, 3))]
        if rng.random() < 0.2:
            ln += gen_item_sgr(rng)
            if rng.random() < 0.5:
                ln += [rng.choice(ITEM_CHARS)]
    return ln


def items_part(ctx, st):
    fzf = ctx.build_fzf()
    lock = threading.Lock()

    def observe(jobs, slow=False):
        """jobs: [(lines, from, args)] -> rows, a few sessions at a time"""
        with ThreadPoolExecutor(max_workers=1 if slow else 6) as ex:
            return list(ex.map(lambda j: item_rows(ctx, fzf, j[0], j[2], slow=slow), jobs))

    # ---- E: TLC-simulated streams with the predicted rows
    depth = ctx.pick(18, 30)
    ncases = ctx.pick(5, 40)
    gen = ctx.tlc("MC_Ansi", "Gen_AnsiItems.cfg", workers=1, timeout=1200, label="items-gen", env={"DEPTH": depth},
                  args=["-simulate", "num=%d" % ncases, "-depth", str(depth + 1), "-seed", str(ctx.seed)])
    cases = gen.json_items("CASE")
    if len(cases) < ncases:
        raise Infra("TLC exported only %d item streams" % len(cases))
    cases = cases[:ncases]
    jobs = [(c["lines"], f, args, c) for c in cases for f, args in NTH_MODES]
    res = observe(jobs)
    open_lines = lag_cases = 0
    for (lines, f, args, c), rows in zip(jobs, res):
        exp = c["exp"][f]
        lag_cases += c["lag"][f] != exp
        if rows == exp:
            continue
        rows1 = observe([(lines, f, args)], slow=True)[0]
        if rows1 == exp:
            raise Infra("items: mismatch not reproduced when run alone: %s %s" % (json.dumps([show(l) for l in lines]), args))
        items_violation(ctx, st, "items", lines, f, args, exp, rows1, "CarryLag" if rows1 == c["lag"][f] else None)
    for c in cases:
        open_lines += sum(1 for r in c["exp"][0][1:] if r["attrs"] and r["attrs"][0][1] != {"fg": [], "bg": [], "at": []})
    if not lag_cases or not open_lines:
        raise Infra("item streams without a colour carried into a line of two fields")
    ctx.cov["evaluations"] += len(jobs)
    ctx.cov["traces_validated_against_impl"] += len(jobs)
    ctx.sample({"item_stream": [show(l) for l in cases[0]["lines"][:6]], "with_nth_2..": json.loads(show_rows(cases[0]["exp"][2][:6]))})
    log("items E: %d streams of %d lines x 4 modes, elapsed %.0fs" % (len(cases), depth + 1, time.time() - ctx.t0))

    # ---- J: random streams, the rows judged by TLC
    rng = random.Random(ctx.seed * 7919 + 11)          # its own generator: this part runs beside the others
    streams = [[SENTINEL] + [gen_item_line(rng) for _ in range(rng.choice([8, 16, 28]))] for _ in range(ctx.pick(5, 60))]
    jobs = [(ls, f, args) for ls in streams for f, args in NTH_MODES]
    res = observe(jobs)
    recs = [{"lines": ls, "from": f, "rows": rows} for (ls, f, args), rows in zip(jobs, res)]
    bad, jr = judge(ctx, "Judge_AnsiItems", "Judge_AnsiItems.cfg", recs, "items-random", workers=WORKERS, timeout=1200)
    tags = dev_tags(jr)
    for i in bad:
        ls, f, args = jobs[i]
        d = tags.get(i)
        if (d and st.dev_reported.get("items:" + d, 0) >= 2) or (not d and st.dev_reported.get("items:-", 0) >= 5):
            st.dev_hits["items:" + (d or "-")] = st.dev_hits.get("items:" + (d or "-"), 0) + 1      # enough of these reported
            continue
        one = [{"lines": ls, "from": f, "rows": observe([jobs[i]], slow=True)[0]}]
        bad1, res1 = judge(ctx, "Judge_AnsiItems", "Judge_AnsiItems.cfg", one, "items-re", workers=1)
        if not bad1:
            raise Infra("items-random: rejected record %d not reproduced when run alone" % i)
        items_violation(ctx, st, "items-random", ls, f, args, None, one[0]["rows"], dev_tags(res1).get(0))
    ctx.cov["item_sessions"] = ctx.cov.get("item_sessions", 0) + len(jobs) + len(cases) * len(NTH_MODES)
    log("items J: %d streams x 4 modes, elapsed %.0fs" % (len(streams), time.time() - ctx.t0))
    return len(cases) + len(streams)


def prefetch(ex, jobs, fn, ahead=3):
    """runs fn over jobs on the executor, at most `ahead` at a time, yielding (job, result) in order"""
    it, futs = iter(jobs), []
    for j in it:
        futs.append((j, ex.submit(fn, j)))
        if len(futs) >= ahead:
            break
    while futs:
        j, f = futs.pop(0)
        r = f.result()
        nxt = next(it, None)
        if nxt is not None:
            futs.append((nxt, ex.submit(fn, nxt)))
        yield j, r


def run(ctx):
    st = Stats()
    q = ctx.quick
    # ---------------------------------------------------------------- (1) model checking of the design
    pool = ThreadPoolExecutor(max_workers=4)            # TLC runs that do not depend on each other overlap
    mcs = (["MC_AnsiSgr_quick.cfg", "MC_AnsiItems_quick.cfg", "MC_Ansi_quick.cfg", "MC_AnsiGrammar_quick.cfg"] if q else
           ["MC_AnsiSgr.cfg", "MC_AnsiItems.cfg", "MC_Ansi.cfg", "MC_AnsiGrammar.cfg", "MC_AnsiGrammarDev.cfg"])
    mcw = WORKERS or ctx.pick(4, 8)
    for cfg, mc in prefetch(pool, mcs, lambda cfg: ctx.mc("MC_Ansi", cfg, timeout=2400, coverage=cfg.startswith("MC_AnsiGrammar.") or cfg.startswith("MC_AnsiGrammar_"), workers=mcw,
                                                          label=cfg[:-4]), ahead=ctx.pick(4, 2)):
        if cfg.startswith("MC_AnsiGrammar.") or cfg.startswith("MC_AnsiGrammar_"):
            cov = action_counts(mc)
            ctx.cov["action_coverage"][cfg[:-4]] = cov
            dead = [a for a in ["GText", "GCtl", "GStruck", "GSt", "GSgrOpen", "GGroup", "GEmpty", "GSgrClose", "GNewLine"]
                    if cov.get(a, 0) == 0]
            if dead:
                raise Infra("vacuous model (%s): actions never taken: %s (coverage %s)" % (cfg, dead, cov))
        elif mc.distinct < (200 if "Sgr" in cfg or "Items" in cfg else 1000):   # every state but the root is the result of an action
            raise Infra("vacuous model (%s): %d states" % (cfg, mc.distinct))
        log("MC %s: %d states, %.0fs" % (cfg, mc.distinct, mc.wall))

    h = ctx.build_harness("src", FILES)
    # the abstraction table of the harness goes into the evidence and to the judge
    tpath = os.path.join(ctx.work, "table.ndjson")
    ctx.run_harness(h, "TestVerifAnsiTable", env={"VERIF_OUT": tpath})
    table = read_ndjson(tpath)
    ctx.cov["abstraction_table"] = table[0]

    if ctx.replay:
        rc = json.load(open(ctx.replay))["case"]
        if "case" in rc:
            replay_cases(ctx, h, TEST, [rc["case"]], expected, "replay", describe=describe,
                         kf=lambda c, exp, r1: kf_of(deviation_of(c, r1.get("got"))))
        elif "record" in rc:
            judge_records(ctx, h, [{"lines": rc["record"]["lines"]}], "replay", st)
        elif "items" in rc:
            it = rc["items"]
            fzf = ctx.build_fzf()
            one = [{"lines": it["lines"], "from": it["from"], "rows": item_rows(ctx, fzf, it["lines"], it["args"], slow=True)}]
            bad1, res1 = judge(ctx, "Judge_AnsiItems", "Judge_AnsiItems.cfg", one, "replay-items", workers=1)
            if bad1:
                items_violation(ctx, st, "replay-items", it["lines"], it["from"], it["args"], None, one[0]["rows"], dev_tags(res1).get(0))
        elif "line" in rc:
            end_to_end(ctx, [{"lines": [rc["line"]], "exp": [{"text": rc["expected_text"]}], "alts": []}], st, [], "replay-binary")
        return "model_checking"

    # ---------------------------------------------------------------- (4b, started early) items on the screen
    ctx.build_fzf()
    items_future = pool.submit(items_part, ctx, st)

    # ---------------------------------------------------------------- (2) E: all short lines, all short SGR parameter
    # strings, (3) grammar streams: the exports are prefetched (TLC runs ahead of the replay on the real code)
    # bytes: (alphabet, longest variable part, previous line, sharded by first symbol?)
    plans = ([("full", 4, "0", False), ("full", 3, "1", False), ("osc", 4, "0", False), ("csi", 4, "0", False)] if q else
             [("full", 4, "01", False), ("red", 5, "0", True), ("osc", 5, "01", False), ("csi", 5, "0", True),
              ("csi", 4, "1", False)])
    nshards = {"full": 24, "red": 17, "osc": 11, "csi": 14}
    num = ctx.pick(30, 150)                # grammar: traces per worker; every successor of the last step is exported
    jobs = []
    for alpha, maxlen, pres, sharded in plans:
        for shard in (range(1, nshards[alpha] + 1) if sharded else [0]):
            jobs.append({"kind": "bytes", "label": "bytes-%s%d-p%s-s%d" % (alpha, maxlen, pres, shard), "cfg": "Gen_AnsiBytes.cfg",
                         "env": {"ALPHA": alpha, "MAXLEN": maxlen, "PRES": pres, "SHARD": shard}, "args": [], "workers": WORKERS or 8,
                         "alpha": alpha, "maxlen": maxlen, "pres": pres, "sharded": sharded})
    for menu, maxlen, pres in ([("full", 2, "01"), ("red", 3, "0")] if q else [("full", 3, "01"), ("red", 4, "0")]):
        jobs.append({"kind": "sgr", "label": "sgr-%s%d-p%s" % (menu, maxlen, pres), "cfg": "Gen_AnsiSgr.cfg",
                     "env": {"MENU": menu, "MAXLEN": maxlen, "PRES": pres}, "args": [], "workers": WORKERS or 8,
                     "menu": menu, "maxlen": maxlen, "pres": pres})
    for depth in ((9,) if q else (7, 12)):
        jobs.append({"kind": "grammar", "label": "grammar-d%d" % depth, "cfg": "Gen_AnsiGrammar.cfg", "env": {"DEPTH": depth},
                     "args": ["-simulate", "num=%d" % num, "-depth", str(depth + 1), "-seed", str(ctx.seed)], "workers": 8})
    judged, e2e_pool, exhaustive_counts, gcases = [], [], {}, []
    for j, gen in prefetch(pool, jobs, lambda j: ctx.tlc("MC_Ansi", j["cfg"], workers=j["workers"], timeout=2400, label=j["label"],
                                                         env=j["env"], args=j["args"]), ahead=3):
        label = j["label"]
        cases = gen.json_items("CASE")
        if j["kind"] == "grammar":
            if len(cases) < num:
                raise Infra("TLC exported only %d grammar behaviours" % len(cases))
            gcases += cases
            continue
        if len(cases) != gen.distinct or not cases:
            raise Infra("%s: TLC visited %d states but exported %d cases" % (label, gen.distinct, len(cases)))
        if j["kind"] == "sgr" and not all(e["wf"] for c in cases for e in c["exp"]):
            raise Infra("%s: a parameter string of the menu is outside the well-formed grammar" % label)
        res = replay_split(ctx, h, cases, label, st)
        classify(st, cases)
        log("E %s: %d cases (TLC %.0fs), elapsed %.0fs" % (label, len(cases), gen.wall, time.time() - ctx.t0))
        if j["kind"] == "bytes":
            alpha, pres = j["alpha"], j["pres"]
            key = "%s<=%d prev=%s" % (alpha, j["maxlen"], pres)
            exhaustive_counts[key] = exhaustive_counts.get(key, 0) + len(cases)
            if len(res) <= 45000 and not j["sharded"] and pres != "01":
                judged += res[::ctx.pick(2, 1)]
            if alpha == "full" and pres != "1":
                e2e_pool += [c for c in cases if len(c["lines"]) == 1 and len(c["lines"][0]) >= 2][::ctx.pick(40, 25)]
            if alpha in ("osc", "csi") and pres == "0":
                e2e_pool += [c for c in cases if len(c["lines"]) == 1][::ctx.pick(20, 60)]
            if len(ctx.cov["samples"]) < 2:
                c = next((c for c in cases if len(c["lines"][-1]) >= 3 and len(c["exp"][-1]["text"]) not in (0, len(c["lines"][-1]))), None)
                if c:
                    ctx.sample({"lines": [show(l) for l in c["lines"]], "predicted": c["exp"]})
        else:
            for c in cases:
                body = c["lines"][-1][2:-2]
                st.count("sgr_mixed_separators", ":" in body and ";" in body)
                st.count("sgr_58", "".join(body).find("58") >= 0)
            judged += res[::ctx.pick(1, 8)]
            exhaustive_counts["sgr %s groups<=%d prev=%s" % (j["menu"], j["maxlen"], j["pres"])] = len(cases)
            c = next((c for c in cases if ":" in c["lines"][-1] and ";" in c["lines"][-1] and c["exp"][-1]["final"]["at"]), None)
            if c and j["maxlen"] == 2:
                ctx.sample({"lines": [show(l) for l in c["lines"]], "predicted": c["exp"]})
        del cases, res, gen

    bad_wf = [c for c in gcases if not all(e["wf"] for e in c["exp"])]
    if bad_wf:
        raise Infra("grammar generator left the well-formed domain: %s" % json.dumps(bad_wf[0]["lines"]))
    gres = replay_split(ctx, h, gcases, "grammar", st)
    classify(st, gcases)
    judged += gres[::ctx.pick(2, 6)]
    e2e_pool += [c for c in gcases if len(c["lines"]) == 1]
    c = next((c for c in gcases if len(c["lines"]) >= 2 and any(a[1]["fg"] for a in c["exp"][-1]["attrs"])), gcases[0])
    ctx.sample({"lines": [show(l) for l in c["lines"]], "predicted": c["exp"]})
    log("E grammar: %d cases, elapsed %.0fs" % (len(gcases), time.time() - ctx.t0))
    need = {"fg", "bg", "at", "url", "lbg"} - set(st.carry)
    if need:
        raise Infra("no generated case carried over a state with %s set" % sorted(need))

    # ---------------------------------------------------------------- (4) J: TLC judges what the real code did
    # records of the replays above (span well-formedness of the real offsets is only visible to the judge)
    bad, _ = judge(ctx, "Judge_Ansi", "Judge_Ansi.cfg", table, "table", workers=1)
    if bad:
        raise Infra("harness abstraction table rejected by Judge_Ansi: %s" % json.dumps(table[0]))
    judge_records(ctx, h, judged, "replayed", st, recs=judged)
    del judged
    rng = ctx.rng
    nj = ctx.pick(800, 20000)
    inputs = []
    for i in range(nj):
        exotic = "none" if i % 5 else rng.choice(["st", "empty"])
        inputs.append(gen_stream(rng, rng.choice([1, 2, 3]), rng.choice([6, 12, 25, 40]), exotic))
    recs = judge_records(ctx, h, inputs, "random-grammar", st)
    ctx.sample({"random_grammar_line": show(inputs[0]["lines"][0]), "real": recs[0]["got"][0]})
    inputs = [gen_arbitrary(rng, rng.choice([8, 16, 40])) for _ in range(2 * nj)]
    judge_records(ctx, h, inputs, "random-bytes", st)

    log("J done, elapsed %.0fs" % (time.time() - ctx.t0))
    nitems = items_future.result()
    pool.shutdown()
    # ---------------------------------------------------------------- (5) end to end: what the binary prints
    ne = end_to_end(ctx, e2e_pool, st, [], "binary")
    ne += end_to_end(ctx, e2e_pool[::3], st, ["+s"], "binary-streaming")

    ctx.cov["distinct_nontrivial"] = len(st.nontrivial)
    ctx.cov["rule"] = ("distinct input lines (TLC-enumerated or TLC-simulated, each with TLC's predicted text, per-character "
                       "colour/attributes/hyperlink and carried state) in which at least one character was stripped or at "
                       "least one character is not shown in the default rendition; random J records are not counted here")
    ctx.cov["exhaustive"] = True
    ctx.cov["exhaustive_spaces"] = exhaustive_counts
    ctx.cov["case_classes"] = st.classes
    ctx.cov["carried_state_components_seen"] = st.carry
    ctx.cov["deviation_hits"] = st.dev_hits
    ctx.cov["binary_lines_compared"] = ne
    ctx.cov["judged_random_records"] = 3 * nj
    ctx.cov["item_streams"] = nitems
    ctx.assumptions += [
        "characters are symbols of a 40-symbol vocabulary (one non-ASCII character, e-acute); invalid UTF-8 is not modelled",
        "colours are specified only for well-formed streams: SGR parameters separated by ';' (empty = 0), each either an ordinary "
        "parameter or a colon group carrying one colour (38:5:n, 38:2:r:g:b, 38:2::r:g:b; likewise 48 and 58), colon groups and "
        "ordinary parameters mixed freely in one sequence; legacy 38/48/58;5;n and 38/48/58;2;r;g;b complete; truncated colour "
        "groups, other sub-parameters (4:3), a non-empty colour-space identifier, '?' parameters, SGR 6, 21, 56, 57 and OSC 8 with "
        "parameters but no URI are outside (robustness, stripping and span well-formedness only)",
        "renditions fzf cannot represent are projected away: 8/28 conceal, 10-20 fonts, 26/50 proportional spacing, 51-55 framed / "
        "encircled / overlined, 60-65 ideogram markings, 73-75 super/subscript, and the colour of underlines (58 with its "
        "arguments, 59) - each must leave fg/bg/attributes and the meaning of the following parameters alone",
        "items on the screen (Part C): SGR sequences only (no OSC 8, no 0K: tmux 3.3a does not report hyperlinks), default AWK-style "
        "fields, --with-nth N.. selections (1.., .., 2..), sequences adjacent to a non-blank, blanks at the end of a row not "
        "observed; the rule `a line starts in the state in which the text shown for the previous line ended` is the "
        "integrator's reading of `state carried over from the previous line` for both item builders; neutral theme "
        "(--color fg/bg/fg+/bg+/gutter/hl = -1, --no-bold), cursor on a plain sentinel line",
        "CODE-DERIVED: 'ESC ] 8 ; ; ESC' without backslash is one sequence; a non-SGR sequence ending in 0K copies the "
        "background into the line background (ESC[K alone does not); the line background is carried like the rest of the state",
    ]
    return "model_checking"
