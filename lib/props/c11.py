"""C11 - --ansi strips escape sequences only and colours the right characters (spec/FzfAnsi.tla).

MC  MC_Ansi*.cfg          design properties on every line <= 3/4 symbols (fixed points, only-removes, corner locality,
                          span well-formedness, carry-through) and on every grammar line of <= 2/3 chunks (no swallowing).
E   Gen_AnsiBytes.cfg     TLC enumerates every line over the class-covering alphabets (plain, after ESC ], after ESC [,
                          after a state-setting previous line) with the predicted text / per-character attributes /
                          carried state; Gen_AnsiGrammar.cfg simulates multi-line streams of well-formed chunks.
                          Replayed on the real extractColor (state carried as in core.go) and, for a sample, through
                          the real binary (`fzf --ansi -f ''`).
J   Judge_Ansi            long random grammar streams and arbitrary byte strings run on the real code, every record
                          evaluated by TLC (text = Strip, spans well-formed, colours = Colour while well-formed).
Named deviations of the specification (StAsCsi, SkipEmptyParam) are predicted by TLC as alternatives; a case the real
code only matches under a deviation is reported as a violation carrying that deviation's kf signature.
"""
import json, os, re, subprocess, time
import vlib
from vlib import Infra, replay_cases, judge, write_ndjson, read_ndjson, log

TEST = "TestVerifAnsi"
FILES = ["zz_verif_common_test.go", "zz_verif_ansi_test.go"]
KF = {"StAsCsi": {"site": "nextAnsiEscapeSequence", "kind": "esc-backslash-taken-as-csi-introducer"},
      "SkipEmptyParam": {"site": "interpretCode", "kind": "empty-sgr-parameter-skipped"},
      "OpenSpanAtEol": {"site": "extractColor", "kind": "open-span-not-extended-when-line-ends-with-sequence"}}


def kf_of(dv):
    """signature of a deviation set 'A' or 'A+B' (a combination carries the names of all its members)"""
    if dv is None:
        return None
    if dv in KF:
        return KF[dv]
    return {"site": "ansi.go", "kind": "combination", "deviations": dv}
SYMB = {"ESC": b"\x1b", "BS": b"\x08", "SO": b"\x0e", "SI": b"\x0f", "BEL": b"\x07", "LF": b"\n", "BSL": b"\\",
        "e~": "é".encode()}
WORKERS = int(os.environ["VERIF_WORKERS"]) if os.environ.get("VERIF_WORKERS") else None


def to_bytes(syms):
    return b"".join(SYMB[s] if s in SYMB else s.encode("ascii") for s in syms)


def show(line):
    return to_bytes(line).decode("utf-8").encode("unicode_escape").decode()


def expected(case):
    return case["exp"]


def describe(c, exp, r):
    got = r.get("got", [])
    i = vlib.first_diff(exp, got)
    return "lines=%s line %d: spec %s, real %s%s" % (
        json.dumps([show(l) for l in c["lines"]]), i, json.dumps(exp[i] if 0 <= i < len(exp) else None),
        json.dumps(got[i] if 0 <= i < len(got) else None), (" panic=" + r["panic"]) if r.get("panic") else "")


def deviation_of(case, got):
    for a in case.get("alts", []):
        if got == a["exp"]:
            return a["dv"]
    return None


def action_counts(res):
    """per-action distinct-state counts of a -coverage run (also actions whose location carries an (l c l c) suffix)"""
    cov = {}
    with open(res.outp, errors="replace") as fh:
        for line in fh:
            m = re.match(r"^<(\w+) line \d+, col \d+ to line \d+, col \d+ of module \w+(?: \([\d ]+\))?>: (\d+):(\d+)", line)
            if m:
                cov[m.group(1)] = cov.get(m.group(1), 0) + int(m.group(3))
    return cov


class Stats:
    def __init__(self):
        self.nontrivial = set()
        self.classes = {}
        self.dev_hits = {}
        self.dev_reported = {}
        self.carry = {}

    def count(self, k, n=1):
        self.classes[k] = self.classes.get(k, 0) + n


def report_quota(st, d):
    """how many more cases explained exactly by deviation (set) d to turn into violations: two per single deviation;
    a combination only while one of its members has not been reported on its own (TLC's prediction for the
    combination is exact, so nothing else can hide behind it)"""
    if "+" in d and all(st.dev_reported.get(m, 0) > 0 for m in d.split("+")):
        return 0
    return max(0, (1 if "+" in d else 2) - st.dev_reported.get(d, 0))


def run_bulk(ctx, h, cases, label):
    cpath = os.path.join(ctx.work, "bulk-%s.ndjson" % label)
    opath = os.path.join(ctx.work, "bulkout-%s.ndjson" % label)
    write_ndjson(cpath, cases)
    ctx.run_harness(h, TEST, env={"VERIF_CASES": cpath, "VERIF_OUT": opath}, timeout=3000)
    res = read_ndjson(opath)
    os.remove(cpath)
    os.remove(opath)
    if len(res) != len(cases):
        raise Infra("%s: %d cases but %d results" % (label, len(cases), len(res)))
    return res


def replay_split(ctx, h, cases, label, st):
    """Bulk-run the cases; every case whose observation differs from the documented prediction goes through
    vlib.replay_cases (re-run alone, reproduced => violation): with the deviation's kf signature when the real
    code matches the prediction TLC made for a named deviation, without any otherwise."""
    if not cases:
        raise Infra("no cases for " + label)
    res = run_bulk(ctx, h, cases, label)
    ctx.cov["evaluations"] += len(cases)
    ctx.cov["traces_validated_against_impl"] += len(cases)
    plain, dev = [], {}
    for c, r in zip(cases, res):
        if r.get("got") == c["exp"] and not r.get("panic"):
            continue
        d = None if r.get("panic") else deviation_of(c, r.get("got"))
        if d is None:
            plain.append(c)
        else:
            dev.setdefault(d, []).append(c)
    if plain:
        replay_cases(ctx, h, TEST, plain[:10], expected, label + "-mismatch", describe=describe)
    for d in sorted(dev, key=lambda x: x.count("+")):          # singles first
        cs = dev[d]
        st.dev_hits[d] = st.dev_hits.get(d, 0) + len(cs)
        todo = report_quota(st, d)
        if todo:
            replay_cases(ctx, h, TEST, cs[:todo], expected, "%s-%s" % (label, d), describe=describe,
                         kf=lambda c, exp, r1: kf_of(deviation_of(c, r1.get("got"))))
            st.dev_reported[d] = st.dev_reported.get(d, 0) + todo
    return res


def classify(st, cases):
    """distinct non-trivial = distinct lines in which something was stripped or some character is not default."""
    for c in cases:
        ln, e = c["lines"][-1], c["exp"][-1]
        stripped = len(e["text"]) != len(ln)
        coloured = e["wf"] and any(a[1] != {"fg": [], "bg": [], "at": [], "url": []} for a in e["attrs"])
        if stripped or coloured:
            st.nontrivial.add(json.dumps(c["lines"]))
        st.count("stripped" if stripped else "untouched")
        if coloured:
            st.count("coloured")
        if not e["wf"]:
            st.count("outside_wellformed_grammar")
        if c["alts"]:
            st.count("deviation_prone")
        if len(c["lines"]) > 1:
            f = c["exp"][-2]["final"]
            for k in ("fg", "bg", "at", "url", "lbg"):
                if c["exp"][-2]["wf"] and f[k]:
                    st.carry[k] = st.carry.get(k, 0) + 1


# ------------------------------------------------------------------ random inputs for J (input generation only)
DIG = list("0123456789")
LET = list("amKBHJlcM")
PUN = ["[", "]", "(", ")", "BSL", ";", ":", "?", "=", "@", "/", " "]
PRINT = DIG + LET + PUN
TEXTSYM = PRINT + ["e~", "e~", "a", "a", "m"]
ALLSYM = PRINT + ["e~", "ESC", "BS", "SO", "SI", "BEL", "LF"]
SINGLES = [0, 1, 2, 3, 4, 5, 7, 9, 22, 23, 24, 25, 27, 29, 39, 49, 8, 28, 10, 53, 55] + list(range(30, 38)) + \
    list(range(40, 48)) + list(range(90, 98)) + list(range(100, 108))


def num(n):
    return list(str(n))


def join(parts, sep):
    out = []
    for i, p in enumerate(parts):
        if i:
            out.append(sep)
        out += p
    return out


def gen_sgr(rng, exotic):
    groups = []
    for _ in range(rng.choice([0, 1, 1, 1, 2, 2, 3, 4, 5])):
        k = rng.random()
        if k < 0.55:
            g = [num(rng.choice(SINGLES))]
            if rng.random() < 0.1:
                g = [["0"] + g[0]]
        elif k < 0.78:
            g = [num(rng.choice([38, 48])), ["5"], num(rng.choice([0, 1, 2, 5, 7, 8, 15, 16, 38, 48, 255, rng.randrange(256)]))]
        elif k < 0.97 or exotic != "empty":
            g = [num(rng.choice([38, 48])), ["2"]] + [num(rng.choice([0, 2, 5, 38, 255, rng.randrange(256)])) for _ in range(3)]
        else:
            g = [[]]
        groups += g
    return ["ESC", "["] + join(groups, ";") + ["m"]


def gen_chunk(rng, exotic):
    k = rng.random()
    if k < 0.30:
        return [rng.choice(TEXTSYM) for _ in range(rng.randint(1, 6))]
    if k < 0.58:
        return gen_sgr(rng, exotic)
    if k < 0.63:
        w, f = rng.choice([38, 48]), rng.random()
        if f < 0.4:
            body = join([num(w), ["5"], num(rng.randrange(256))], ":")
        else:
            rgb = [num(rng.randrange(256)) for _ in range(3)]
            body = join([num(w), ["2"]] + ([[]] if f < 0.7 else []) + rgb, ":")
        return ["ESC", "["] + body + ["m"]
    if k < 0.73:
        st = rng.choice([["BEL"], ["ESC", "BSL"]])
        if rng.random() < 0.4:
            return ["ESC", "]", "8", ";", ";"] + st
        params = rng.choice([[], [], list("a=1"), list("a=1:B=2")])
        uri = [rng.choice(PRINT) for _ in range(rng.randint(1, 10))]
        return ["ESC", "]", "8", ";"] + params + [";"] + uri + st
    if k < 0.77:
        n = rng.choice([0, 1, 2, 4, 7, 9, 52, 133, 18, 80, 88])
        return ["ESC", "]"] + num(n) + [rng.choice([";", ";", ":"])] + [rng.choice(PRINT) for _ in range(rng.randint(1, 8))] + \
            rng.choice([["BEL"], ["ESC", "BSL"]])
    if k < 0.86:
        f = rng.random()
        if f < 0.15:
            return ["ESC", rng.choice(["(", ")"]), "B"]
        body = [rng.choice(DIG + [";", ";", "?"]) for _ in range(rng.randint(0, 4))]
        if f < 0.45:
            body = rng.choice([[], ["0"], ["1"], ["2"], ["1", "0"]])
            return ["ESC", "["] + body + ["K"]
        return ["ESC", "["] + body + [rng.choice(["K", "B", "H", "J", "l", "c", "M", "a", "@"])]
    if k < 0.90:
        return [rng.choice(["SO", "SI"])]
    if k < 0.96:
        return [rng.choice(TEXTSYM), "BS"]
    second = rng.choice(DIG + ["=", "c", "M", "e~", "/", "@", "H"] + (["BSL"] * 6 if exotic == "st" else []))
    return ["ESC", second]


def gen_stream(rng, nlines, nchunks, exotic):
    lines = []
    for _ in range(nlines):
        ln = []
        for _ in range(rng.randint(max(1, nchunks // 2), nchunks)):
            ln += gen_chunk(rng, exotic)
        lines.append(ln)
    return {"lines": lines}


def gen_arbitrary(rng, maxlen):
    w = ALLSYM + ["ESC"] * 8 + ["["] * 5 + ["]"] * 3 + [";"] * 4 + ["m"] * 3 + ["BS"] * 2 + ["8"] * 2 + ["BSL"] * 2 + ["BEL"] * 2
    return {"lines": [[rng.choice(w) for _ in range(rng.randint(1, maxlen))] for _ in range(rng.choice([1, 1, 2, 3]))]}


# ------------------------------------------------------------------ J
def dev_tags(res):
    out = {}
    for x in res.raw_items("DEV"):
        i, d = x.split(",", 1)
        out[int(i.strip()) - 1] = d.strip().strip('"')
    return out


def judge_chunks(ctx, recs, label):
    """TLC judges the records in files of at most ~16 MB (a TraceLog too large to be pre-evaluated at start-up is
    re-read for every state); returns (bad indices, {index: deviation name})"""
    bad, tags, start, size, n = [], {}, 0, 0, 0
    sizes = [len(json.dumps(r)) for r in recs]
    for i in range(len(recs) + 1):
        if i == len(recs) or (size + sizes[i] > 16_000_000 and i > start):
            b, res = judge(ctx, "Judge_Ansi", "Judge_Ansi.cfg", recs[start:i], "%s.%d" % (label, n), workers=WORKERS, timeout=3000)
            bad += [start + j for j in b]
            tags.update({start + j: d for j, d in dev_tags(res).items()})
            start, size, n = i, 0, n + 1
        if i < len(recs):
            size += sizes[i]
    return bad, tags


def judge_records(ctx, h, inputs, label, st, recs=None):
    """harness records of `inputs` judged by TLC; rejected records are re-run and re-judged alone before they count"""
    if recs is None:
        recs = run_bulk(ctx, h, inputs, label)
    bad, tags = judge_chunks(ctx, recs, label)
    if not bad:
        return recs
    plain = [i for i in bad if i not in tags]
    todo = plain[:8]
    for i in bad:
        if i in tags:
            d = tags[i]
            st.dev_hits[d] = st.dev_hits.get(d, 0) + 1
            if report_quota(st, d) > len([j for j in todo if tags.get(j) == d]):
                todo.append(i)
    for i in todo:
        one = run_bulk(ctx, h, [{"lines": inputs[i]["lines"]}], label + "-re")
        bad1, res1 = judge(ctx, "Judge_Ansi", "Judge_Ansi.cfg", one, label + "-re", workers=1)
        if not bad1:
            raise Infra("%s: rejected record %d not reproduced when run alone" % (label, i))
        d = dev_tags(res1).get(0)
        r = one[0]
        what = "%s: spec rejects what the real code did: lines=%s got=%s" % (
            label, json.dumps([show(l) for l in r.get("lines", [])]), json.dumps(r.get("got"))[:1200])
        case = {"harness": TEST, "label": label, "record": r}
        if d:
            if report_quota(st, d) == 0:
                continue
            st.dev_reported[d] = st.dev_reported.get(d, 0) + 1
            case["kf"] = kf_of(d)
            what += " (explained exactly by deviation %s)" % d
        ctx.violation(what, case)
    return recs


# ------------------------------------------------------------------ end to end through the real binary
def end_to_end(ctx, cases, st, extra_args, label):
    fzf = ctx.build_fzf()
    sel = [c for c in cases if len(c["lines"]) == 1 and c["lines"][0] and "LF" not in c["lines"][0]]
    if not sel:
        raise Infra("no single-line cases for the end-to-end run")

    def run(cs):
        data = b"".join(to_bytes(c["lines"][0]) + b"\n" for c in cs)
        r = subprocess.run([fzf, "--ansi", "-f", ""] + extra_args, input=data, capture_output=True,
                           env=vlib.go_env({"TERM": "xterm-256color"}), timeout=600)
        if r.returncode not in (0, 1):
            raise Infra("fzf --ansi -f '' exited %d: %s" % (r.returncode, r.stderr[-500:]))
        out = r.stdout.split(b"\n")
        if out and out[-1] == b"":
            out.pop()
        return out

    out = run(sel)
    if len(out) != len(sel):
        raise Infra("%s: fed %d lines, fzf printed %d" % (label, len(sel), len(out)))
    n = 0
    for c, o in zip(sel, out):
        if o == to_bytes(c["exp"][0]["text"]):
            continue
        o1 = run([c])
        if len(o1) != 1 or o1[0] == to_bytes(c["exp"][0]["text"]):
            raise Infra("%s: printed line differs in the batch but not alone: %r" % (label, show(c["lines"][0])))
        d = next((a["dv"] for a in c["alts"] if o1[0] == to_bytes(a["exp"][0]["text"])), None)
        if d:
            st.dev_hits["binary:" + d] = st.dev_hits.get("binary:" + d, 0) + 1
            if st.dev_reported.get("binary:" + d, 0) >= 1:
                continue
            st.dev_reported["binary:" + d] = 1
        n += 1
        if n > 5:
            continue
        case = {"cmd": "printf %s | fzf --ansi -f '' %s" % (show(c["lines"][0]), " ".join(extra_args)), "label": label,
                "line": c["lines"][0], "expected_text": c["exp"][0]["text"], "printed": o1[0].decode("utf-8", "replace")}
        if d:
            case["kf"] = dict(kf_of(d), via="binary")
        ctx.violation("%s: `fzf --ansi -f ''` printed %r for the line %s; spec: %r" % (
            label, o1[0], show(c["lines"][0]), to_bytes(c["exp"][0]["text"])), case)
    ctx.cov["evaluations"] += len(sel)
    ctx.cov["traces_validated_against_impl"] += len(sel)
    return len(sel)


def run(ctx):
    st = Stats()
    q = ctx.quick
    # ---------------------------------------------------------------- (1) model checking of the design
    for cfg in (["MC_Ansi_quick.cfg", "MC_AnsiGrammar_quick.cfg"] if q else ["MC_Ansi.cfg", "MC_AnsiGrammar.cfg"]):
        grammar = "Grammar" in cfg
        mc = ctx.mc("MC_Ansi", cfg, timeout=2400, coverage=grammar, workers=WORKERS, label=cfg[:-4])
        if grammar:
            cov = action_counts(mc)
            ctx.cov["action_coverage"][cfg[:-4]] = cov
            dead = [a for a in ["GText", "GCtl", "GStruck", "GSt", "GSgrOpen", "GGroup", "GEmpty", "GSgrClose", "GNewLine"]
                    if cov.get(a, 0) == 0]
            if dead:
                raise Infra("vacuous model (%s): actions never taken: %s (coverage %s)" % (cfg, dead, cov))
        elif mc.distinct < 1000:          # the only action appends one symbol; every state but the root is its result
            raise Infra("vacuous model (%s): %d states" % (cfg, mc.distinct))
        log("MC %s: %d states, %.0fs" % (cfg, mc.distinct, mc.wall))

    h = ctx.build_harness("src", FILES)
    # the abstraction table of the harness goes into the evidence and to the judge
    tpath = os.path.join(ctx.work, "table.ndjson")
    ctx.run_harness(h, "TestVerifAnsiTable", env={"VERIF_OUT": tpath})
    table = read_ndjson(tpath)
    ctx.cov["abstraction_table"] = table[0]

    if ctx.replay:
        rc = json.load(open(ctx.replay))["case"]
        if "case" in rc:
            replay_cases(ctx, h, TEST, [rc["case"]], expected, "replay", describe=describe,
                         kf=lambda c, exp, r1: kf_of(deviation_of(c, r1.get("got"))))
        elif "record" in rc:
            judge_records(ctx, h, [{"lines": rc["record"]["lines"]}], "replay", st)
        elif "line" in rc:
            end_to_end(ctx, [{"lines": [rc["line"]], "exp": [{"text": rc["expected_text"]}], "alts": []}], st, [], "replay-binary")
        return "model_checking"

    # ---------------------------------------------------------------- (2) E: all short lines
    # (alphabet, longest variable part, previous line, sharded by first symbol?)
    plans = ([("full", 4, "0", False), ("full", 3, "1", False), ("osc", 4, "0", False), ("csi", 4, "0", False)] if q else
             [("full", 4, "01", False), ("red", 5, "0", True), ("osc", 5, "01", False), ("csi", 5, "0", True),
              ("csi", 4, "1", False)])
    nshards = {"full": 24, "red": 17, "osc": 11, "csi": 14}
    judged, e2e_pool, exhaustive_counts = [], [], {}
    for alpha, maxlen, pres, sharded in plans:
        total = 0
        for shard in (range(1, nshards[alpha] + 1) if sharded else [0]):
            label = "bytes-%s%d-p%s-s%d" % (alpha, maxlen, pres, shard)
            gen = ctx.tlc("MC_Ansi", "Gen_AnsiBytes.cfg", workers=WORKERS, timeout=2400, label=label,
                          env={"ALPHA": alpha, "MAXLEN": maxlen, "PRES": pres, "SHARD": shard})
            cases = gen.json_items("CASE")
            if len(cases) != gen.distinct or not cases:
                raise Infra("%s: TLC visited %d states but exported %d cases" % (label, gen.distinct, len(cases)))
            res = replay_split(ctx, h, cases, label, st)
            classify(st, cases)
            total += len(cases)
            log("E %s: %d cases (TLC %.0fs), elapsed %.0fs" % (label, len(cases), gen.wall, time.time() - ctx.t0))
            if len(res) <= 45000 and not sharded and pres != "01":
                judged += res
            if alpha == "full" and pres != "1":
                e2e_pool += [c for c in cases if len(c["lines"]) == 1 and len(c["lines"][0]) >= 2][::ctx.pick(40, 25)]
            if alpha in ("osc", "csi") and pres == "0":
                e2e_pool += [c for c in cases if len(c["lines"]) == 1][::ctx.pick(20, 60)]
            if len(ctx.cov["samples"]) < 2:
                c = next((c for c in cases if len(c["lines"][-1]) >= 3 and len(c["exp"][-1]["text"]) not in (0, len(c["lines"][-1]))), None)
                if c:
                    ctx.sample({"lines": [show(l) for l in c["lines"]], "predicted": c["exp"]})
            del cases, res, gen
        exhaustive_counts["%s<=%d prev=%s" % (alpha, maxlen, pres)] = total

    # ---------------------------------------------------------------- (3) E: grammar streams (TLC -simulate)
    num = ctx.pick(30, 150)                # traces per worker; every successor of the last step is exported
    gw = 8
    gcases = []
    for depth in ((9,) if q else (7, 12)):
        gen = ctx.tlc("MC_Ansi", "Gen_AnsiGrammar.cfg", workers=gw, timeout=2400, label="grammar-d%d" % depth,
                      env={"DEPTH": depth}, args=["-simulate", "num=%d" % num, "-depth", str(depth + 1), "-seed", str(ctx.seed)])
        cs = gen.json_items("CASE")
        if len(cs) < num:
            raise Infra("TLC exported only %d grammar behaviours" % len(cs))
        gcases += cs
    bad_wf = [c for c in gcases if not all(e["wf"] for e in c["exp"])]
    if bad_wf:
        raise Infra("grammar generator left the well-formed domain: %s" % json.dumps(bad_wf[0]["lines"]))
    gres = replay_split(ctx, h, gcases, "grammar", st)
    classify(st, gcases)
    judged += gres[::ctx.pick(2, 6)]
    e2e_pool += [c for c in gcases if len(c["lines"]) == 1]
    c = next((c for c in gcases if len(c["lines"]) >= 2 and any(a[1]["fg"] for a in c["exp"][-1]["attrs"])), gcases[0])
    ctx.sample({"lines": [show(l) for l in c["lines"]], "predicted": c["exp"]})
    log("E grammar: %d cases, elapsed %.0fs" % (len(gcases), time.time() - ctx.t0))
    need = {"fg", "bg", "at", "url", "lbg"} - set(st.carry)
    if need:
        raise Infra("no generated case carried over a state with %s set" % sorted(need))

    # ---------------------------------------------------------------- (4) J: TLC judges what the real code did
    # records of the replays above (span well-formedness of the real offsets is only visible to the judge)
    bad, _ = judge(ctx, "Judge_Ansi", "Judge_Ansi.cfg", table, "table", workers=1)
    if bad:
        raise Infra("harness abstraction table rejected by Judge_Ansi: %s" % json.dumps(table[0]))
    judge_records(ctx, h, judged, "replayed", st, recs=judged)
    del judged
    rng = ctx.rng
    nj = ctx.pick(800, 20000)
    inputs = []
    for i in range(nj):
        exotic = "none" if i % 5 else rng.choice(["st", "empty"])
        inputs.append(gen_stream(rng, rng.choice([1, 2, 3]), rng.choice([6, 12, 25, 40]), exotic))
    recs = judge_records(ctx, h, inputs, "random-grammar", st)
    ctx.sample({"random_grammar_line": show(inputs[0]["lines"][0]), "real": recs[0]["got"][0]})
    inputs = [gen_arbitrary(rng, rng.choice([8, 16, 40])) for _ in range(2 * nj)]
    judge_records(ctx, h, inputs, "random-bytes", st)

    log("J done, elapsed %.0fs" % (time.time() - ctx.t0))
    # ---------------------------------------------------------------- (5) end to end: what the binary prints
    ne = end_to_end(ctx, e2e_pool, st, [], "binary")
    ne += end_to_end(ctx, e2e_pool[::3], st, ["+s"], "binary-streaming")

    ctx.cov["distinct_nontrivial"] = len(st.nontrivial)
    ctx.cov["rule"] = ("distinct input lines (TLC-enumerated or TLC-simulated, each with TLC's predicted text, per-character "
                       "colour/attributes/hyperlink and carried state) in which at least one character was stripped or at "
                       "least one character is not shown in the default rendition; random J records are not counted here")
    ctx.cov["exhaustive"] = True
    ctx.cov["exhaustive_spaces"] = exhaustive_counts
    ctx.cov["case_classes"] = st.classes
    ctx.cov["carried_state_components_seen"] = st.carry
    ctx.cov["deviation_hits"] = st.dev_hits
    ctx.cov["binary_lines_compared"] = ne
    ctx.cov["judged_random_records"] = 3 * nj
    ctx.assumptions += [
        "characters are symbols of a 40-symbol vocabulary (one non-ASCII character, e-acute); invalid UTF-8 is not modelled",
        "colours are specified only for well-formed streams: ';'-separated SGR parameters (empty = 0) with complete "
        "38/48;5;n and 38/48;2;r;g;b groups, or one colon-form colour (38:5:n, 38:2:r:g:b, 38:2::r:g:b); mixed ':'/';' "
        "forms, truncated 38/48 groups, '?' parameters, SGR 6/21/58 and OSC 8 with parameters but no URI are outside "
        "(robustness, stripping and span well-formedness only)",
        "renditions fzf cannot represent (8/28 conceal, 10 font, 53/55 overline) are projected away",
        "CODE-DERIVED: 'ESC ] 8 ; ; ESC' without backslash is one sequence; a non-SGR sequence ending in 0K copies the "
        "background into the line background (ESC[K alone does not); the line background is carried like the rest of the state",
    ]
    return "model_checking"
