"""C02 - every reported match has a genuine witness; non-match means none exists (spec/FzfAlgo.tla)."""
import json, os
import vlib
from vlib import Infra
import props.algo_common as ac


def judge_v2(ctx, cpath, bads, label):
    """FuzzyMatchV2 results that differ from the alignment TLC predicted (which valid alignment is reported is
    code-derived) go to Judge_Algo: ValidResult decides.  Returns number judged."""
    lines = None
    recs = []
    for line_no, bl, jl in bads:
        if not jl:
            continue
        if lines is None:
            lines = open(cpath).readlines()
        c = json.loads(lines[line_no])
        for j in jl:
            recs.append({"t": c["t"], "p": c["p"], "cs": c["cs"], "norm": c["norm"], "sch": c["sch"], "kind": "v2",
                         "fwd": j["fwd"], "wp": j["withPos"], "cap16": -1, "chk": "valid", "s": j["s"], "e": j["e"],
                         "sc": j["sc"], "pos": j["pos"] if j["withPos"] else [], "rep": "any", "slab": "any", "fill": "zero"})
    if not recs:
        return 0
    bad, _ = vlib.judge(ctx, "Judge_Algo", "Judge_Algo.cfg", recs, label)
    for i in bad[:5]:
        ctx.violation("%s: FuzzyMatchV2 reported a range/positions that are no witness: %s" % (label, ac.fmt_rec(recs[i])),
                      {"harness": "TestVerifAlgoCases", "record": recs[i]})
    return len(recs)


def run(ctx):
    if ctx.replay:
        return ac.replay(ctx, 'range', ['zero'])
    # (1) design theorems on the exhaustive enumeration (algorithmic sub-specs = declarative Witness, results valid)
    ac.model_check(ctx, ["MC_AlgoW_quick.cfg"] if ctx.quick else ["MC_AlgoW.cfg", "MC_AlgoW_p3.cfg"], workers=ac.par(ctx) * 2)
    h = ac.harness(ctx)
    # (2) E: exhaustive cases replayed in every representation / slab / withPos variant
    cfgs = ["Gen_Algo_quick.cfg", "Gen_Algo_quick4.cfg"] if ctx.quick else (["Gen_Algo_t5a%d.cfg" % a for a in range(1, 7)] +
                                                     ["Gen_Algo_p3a%d.cfg" % a for a in range(1, 5)])
    stats, counts, total_cases, total_calls, judged = {}, {}, 0, 0, 0
    tpath = None
    for cfg in cfgs:
        label = cfg.replace(".cfg", "").replace("Gen_Algo_", "e-")
        cpath, tpath, n = ac.export_cases(ctx, cfg, label, workers=ac.par(ctx) * 2, stats=stats)
        if ctx.replay:
            rc = json.load(open(ctx.replay))["case"]
            if "case" in rc:
                with open(cpath, "w") as fh:
                    fh.write(json.dumps(rc["case"]) + "\n")
        summary, recs = ac.run_cases(ctx, h, cpath, tpath, "range", ["zero"], label)
        ac.check_table(ctx, summary, label)
        total_cases += summary["cases"]
        total_calls += summary["calls"]
        for k, v in ac.report_bad(ctx, h, cpath, tpath, "range", ["zero"], label, [(r["line"], r["bad"]) for r in recs]).items():
            counts[k] = counts.get(k, 0) + v
        judged += judge_v2(ctx, cpath, [(r["line"], r["bad"], r.get("judge") or []) for r in recs], label + "-v2")
        os.remove(cpath)
        if ctx.replay:
            break
    ctx.cov["evaluations"] += total_calls
    ctx.cov["traces_validated_against_impl"] += total_cases
    # (3) J: long random texts and giant lines, judged by TLC (ValidResult / run-length check)
    fo = ac.Folder(tpath)
    n_in = ctx.pick(250, 2500)
    _, c1 = ac.record_and_judge(ctx, h, ac.j_inputs(ctx, fo, n_in, 300, 12, "valid"), tpath, "j-valid",
                                kf=lambda r: ac.classify(len(r["p"]), {"fn": "ExactMatchBoundary" if r["kind"] == "boundary" else r["kind"],
                                                                       "fwd": r["fwd"], "field": "matched", "exp": r["s"] < 0}))
    _, c2 = ac.record_and_judge(ctx, h, ac.giant_inputs(ctx, fo, ctx.pick(8, 60)), tpath, "j-giant",
                                kf=lambda r: ac.classify(len(r["p"]), {"fn": "ExactMatchBoundary" if r["kind"] == "boundary" else r["kind"],
                                                                       "fwd": r["fwd"], "field": "matched", "exp": r["s"] < 0}))
    ctx.cov["distinct_nontrivial"] = stats.get("nontrivial", 0)
    ctx.cov["exhaustive"] = True
    ctx.cov["rule"] = ("E: all texts <= %s over 6 class-covering alphabets x all patterns <= %s x cs x norm (where accents exist) x 3 "
                       "schemes (admissible patterns only), each run through 7 matchers x 2 directions x 2 representations x "
                       "withPos on/off x {no slab, real slab, 5 scaled-down slabs}; non-trivial = inputs on which some matcher "
                       "matches and some does not.  J: random texts <= 300 runes / patterns <= 12 and run-length encoded lines "
                       "> 65535 runes judged by ValidResult." % (ctx.pick("3-4 (6 over {a,b})", "5 (8 over {a,b})"),
                                                                 ctx.pick("2 (3)", "2 (3 with texts <= 4)")))
    ctx.cov["enumerated_inputs"] = stats.get("cases", 0)
    ctx.cov["matches_by_kind"] = {k: stats.get("match_" + k, 0) for k in ac.KINDS}
    ctx.cov["v2_alignment_differs_from_v1"] = stats.get("v2_differs_from_v1", 0)
    ctx.cov["fallback_matches"] = stats.get("fallback_matches", 0)
    ctx.cov["v2_results_judged_for_validity"] = judged
    ctx.cov["mismatch_classes"] = counts
    ctx.cov["j_counts"] = {"random": c1, "giant": c2}
    for s in stats.get("samples", []):
        ctx.sample(s)
    ctx.assumptions += ["finite symbol alphabet (spec/FzfChars.tla), bound to unicode/charClassOf/normalizeRune at harness start",
                        "patterns obey the matchers' contract (lower-case if case-insensitive, accent-free if normalising)",
                        "giant lines without positions: only range bounds and end characters are checked",
                        "which valid alignment FuzzyMatchV2 reports is code-derived; C02 requires validity, not identity"]
    return "model_checking"
