"""C06 - every input record becomes exactly one item, in order, unaltered
(spec/FzfRecords.tla, FzfReader.tla, FzfChunkList.tla; the content of an item under the builder variants of core.go -
plain, --ansi, --with-nth, --read0 - is spec/FzfItems.tla, bound in lib/props/c06_items.py)."""
import hashlib, json, os, socket, subprocess, threading, time, urllib.request
from concurrent.futures import ThreadPoolExecutor
import vlib
import props.c06_items as items
from vlib import replay_cases, record_and_judge, judge, first_diff, Infra, go_env, log

MAXW = int(os.environ.get("VERIF_MAXWORKERS", "16"))      # development: cap TLC workers on a shared machine
F10 = {"finding": "F10", "path": "streaming", "opt": "tail"}
HFILES = ["zz_verif_common_test.go", "zz_verif_reader_test.go"]


# ------------------------------------------------------------------------------------------------ E: Reader.feed
def feed_expected(c):
    run = {"items": c["exp"], "scopes": c["scopes"], "anom": []}
    return {"nl": run, "nul": run}


def feed_describe(c, exp, r):
    got = r.get("got", {})
    for d in ("nl", "nul"):
        g, e = got.get(d, {}), exp[d]
        if g != e:
            i = first_diff(e["items"], g.get("items", []))
            j = first_diff(e["scopes"], g.get("scopes", []))
            return ("delim=%s lens=%s unterm=%s reads=%s: item %d spec %s real %s; read() call %d len(p) spec %s real %s; "
                    "anomalies %s panic %r" % (
                        d, c["lens"], c["unterm"], c["reads"], i, e["items"][i] if 0 <= i < len(e["items"]) else None,
                        g.get("items", [None] * (i + 1))[i] if 0 <= i < len(g.get("items", [])) else None,
                        j, e["scopes"][j] if 0 <= j < len(e["scopes"]) else None,
                        g.get("scopes", [])[j] if 0 <= j < len(g.get("scopes", [])) else None,
                        g.get("anom"), r.get("panic")))
    return "panic %r" % r.get("panic")


def feed_classes(c):
    """coverage classes a behaviour exercises (counted, not judged)"""
    k = set()
    buf, slab = 65536, 131072
    pos, starts = 0, []
    for i, l in enumerate(c["lens"]):
        starts.append(pos)
        pos += l + (0 if (c["unterm"] and i == len(c["lens"]) - 1) else 1)
    delims = {starts[i] + l for i, l in enumerate(c["lens"]) if not (c["unterm"] and i == len(c["lens"]) - 1)}
    p = 0
    for n in c["reads"]:
        if n == 0:
            break
        if p in delims:
            k.add("delim_first_byte_of_read")
        if (p + n - 1) in delims:
            k.add("delim_last_byte_of_read")
        if not any(p <= d < p + n for d in delims):
            k.add("read_without_delim")
        p += n
    if any(l > buf for l in c["lens"]):
        k.add("record_gt_buffer")
    if any(l > slab for l in c["lens"]):
        k.add("record_gt_slab")
    if 0 in c["lens"]:
        k.add("empty_record")
    if c["unterm"] and c["lens"] and c["lens"][-1] > 0:
        k.add("final_unterminated")
    if c["slabs"] > 1:
        k.add("slab_rotation")
    if any(s < buf for s in c["scopes"]):
        k.add("read_limited_by_slab_end")
    if True in c["alias"] and False in c["alias"]:
        k.add("aliased_and_stitched_items")
    return k


def bind_feed(ctx, h):
    num = ctx.pick(400, 6000)
    gen = ctx.tlc("MC_Reader", "Gen_Reader.cfg", workers=4, timeout=1200, label="gen-reader",
                  args=["-simulate", "num=%d" % (num // 4), "-depth", "200", "-seed", str(ctx.seed)])
    cases, seen = [], set()
    for c in gen.json_items("CASE"):
        key = json.dumps([c["lens"], c["unterm"], c["reads"]])
        if key not in seen:
            seen.add(key)
            cases.append(c)
    if len(cases) < num // 4:
        raise Infra("TLC exported only %d distinct reader behaviours" % len(cases))
    replay_cases(ctx, h, "TestVerifReaderFeed", cases, feed_expected, "feed", describe=feed_describe, timeout=1500)
    classes = {}
    nontrivial = 0
    for c in cases:
        ks = feed_classes(c)
        for k in ks:
            classes[k] = classes.get(k, 0) + 1
        if len(c["exp"]) >= 2 and len(c["reads"]) >= 3:
            nontrivial += 1
    ctx.cov["traces_validated_against_impl"] += 2 * len(cases)
    ctx.cov["feed_behaviour_classes"] = classes
    need = ["delim_first_byte_of_read", "delim_last_byte_of_read", "record_gt_slab", "slab_rotation", "empty_record",
            "final_unterminated", "read_limited_by_slab_end", "aliased_and_stitched_items"]
    missing = [k for k in need if not classes.get(k)]
    if missing:
        raise Infra("exported reader behaviours never exercised: %s" % missing)
    c = next(c for c in cases if len(c["exp"]) >= 3 and c["slabs"] > 1)
    ctx.sample({"feed": {"lens": c["lens"], "unterm": c["unterm"], "reads": c["reads"], "expected_items": c["exp"]}})
    return nontrivial


# ------------------------------------------------------------------------------------------------ E: ChunkList
def cl_expected(c):
    return {"steps": c["steps"], "hdr": c["hdr"]}


def cl_describe(c, exp, r):
    got = r.get("got", {})
    i = first_diff(exp["steps"], got.get("steps", []))
    acts = [[s["act"], s["k"]] for s in c["steps"][:i + 1]]
    return "header-lines=%d tail=%d after %s: spec %s, real %s (header spec %s real %s, panic %r)" % (
        c["header"], c["tail"], json.dumps(acts), json.dumps(exp["steps"][i] if 0 <= i < len(exp["steps"]) else None),
        json.dumps(got.get("steps", [])[i] if 0 <= i < len(got.get("steps", [])) else None), exp["hdr"], got.get("hdr"),
        r.get("panic"))


def bind_chunklist(ctx, h):
    num = ctx.pick(240, 2000)
    gen = ctx.tlc("MC_ChunkList", "Gen_ChunkList.cfg", workers=4, timeout=1500, label="gen-chunklist",
                  args=["-simulate", "num=%d" % (num // 4), "-depth", "18", "-seed", str(ctx.seed)])
    cases = gen.json_items("CASE")
    if len(cases) < num // 2:
        raise Infra("TLC exported only %d chunk list behaviours" % len(cases))
    replay_cases(ctx, h, "TestVerifChunkList", cases, cl_expected, "chunklist", describe=cl_describe, timeout=1500)
    nontrivial = trimmed = disturbed_possible = 0
    for c in cases:
        snaps = [i for i, s in enumerate(c["steps"]) if s["act"] == "Snap"]
        if any(s["changed"] for s in c["steps"]):
            trimmed += 1
        # a push after a snapshot that held a partial last chunk: the situation the duplication exists for
        if snaps and any(s["act"] == "Push" for s in c["steps"][snaps[0] + 1:]):
            disturbed_possible += 1
            nontrivial += 1
    ctx.cov["traces_validated_against_impl"] += len(cases)
    ctx.cov["chunklist_behaviours"] = {"total": len(cases), "with_tail_trim": trimmed,
                                       "push_after_snapshot": disturbed_possible}
    if not trimmed or not disturbed_possible:
        raise Infra("chunk list behaviours without trimming / without push-after-snapshot")
    c = next(c for c in cases if any(s["changed"] for s in c["steps"]))
    ctx.sample({"chunklist": {"header": c["header"], "tail": c["tail"],
                              "steps": [[s["act"], s["k"], s["count"], s["held"]] for s in c["steps"]][:8]}})
    return nontrivial


# ------------------------------------------------------------------------------------------------ J: random feeds
def feed_rec_describe(r):
    return "seed=%s nul=%s lens=%s unterm=%s reads=%s -> items %s scopes %s anomalies %s panic %r" % (
        r["seed"], r["nul"], r["lens"], r["unterm"], str(r["reads"])[:400], str(r["items"])[:400],
        str(r["scopes"])[:200], r["anom"], r["panic"])


def judge_feed(ctx, h):
    n = ctx.pick(500, 8000)
    inputs = [{"seed": ctx.seed * 1000003 + i, "nul": i % 2 == 1, "prof": 0 if i % 5 == 0 else 1} for i in range(n)]
    recs = record_and_judge(ctx, h, "TestVerifReaderRandom", inputs, "Judge_Feed", "Judge_Feed.cfg", "feedrandom",
                            describe=feed_rec_describe, timeout=1500, workers=min(MAXW, ctx.pick(8, 16)))
    big = sum(1 for r in recs if any(l > 131072 for l in r["lens"]))
    ctx.cov["random_feeds"] = {"runs": len(recs), "with_record_gt_slab": big,
                               "read_calls": sum(len(r["reads"]) for r in recs),
                               "bytes": sum(sum(r["reads"]) for r in recs)}
    return sum(1 for r in recs if len(r["items"]) >= 2 and len(r["reads"]) >= 3)


# ------------------------------------------------------------------------------------------------ J: real binary
UNITS = [b"a", b"B", b"7", b" ", b"\t", b"\xc3\xa9", b"\xed\x95\x9c", b"-", b"/", b"_", b"q", b"  ", b"Z", b".", b"\xc3\x81"]


def rec_content(i, n, read0):
    """content of the i-th record (1-based), exactly n bytes, derived from (i, n): valid UTF-8, never contains the
    delimiter.  Every fourth record ends in white space, every seventh starts with it: whatever --with-nth makes of the
    presentation, the record that comes out must be the record that went in (FzfItems.OutputText)"""
    prefix = b"r%d:" % i
    if n <= len(prefix):
        return prefix[:n]
    units = UNITS + ([b"\n", b"L\n\nM"] if read0 else [])
    k = i % len(units)
    block = b"".join(units[k:] + units[:k]) + b"%d;" % (i * 7919 % 1000)
    body = (block * ((n - len(prefix)) // len(block) + 1))[:n - len(prefix)]
    body = body.decode("utf-8", "ignore").encode("utf-8")
    body += b"x" * (n - len(prefix) - len(body))
    if i % 4 == 0:
        tail = [b" ", b"\t", b"  ", b" \t ", b"\r"][(i // 4) % 5][:len(body)]
        head = body[:len(body) - len(tail)].decode("utf-8", "ignore").encode("utf-8")
        body = head + b"x" * (len(body) - len(tail) - len(head)) + tail
    elif body[-1:] in (b" ", b"\t", b"\n"):
        body = body[:-1] + b"x"
    if i % 7 == 0:
        prefix = b" r%d" % i
    return prefix + body


def ident(b):
    return "%d:%s" % (len(b), hashlib.md5(b).hexdigest()[:12])


def gen_lens(rng, prof):
    near = lambda base: max(0, base + rng.randint(-2, 2))
    if prof == "tiny":
        return [rng.choice([0, 0, 1, 2, 3, 10]) for _ in range(rng.randint(0, 5))]
    if prof == "medium":
        n = rng.choice([rng.randint(1, 60), rng.randint(90, 320), rng.choice([99, 100, 101, 199, 200, 201, 300, 1000]),
                        rng.randint(300, 2500)])
        return [rng.choice([0, 1, 2, rng.randint(3, 40), rng.randint(3, 40), rng.randint(40, 400)]) for _ in range(n)]
    if prof == "big":
        lens = []
        for _ in range(rng.randint(1, 12)):
            x = rng.random()
            lens.append(near(rng.choice([65536, 131072, 196608, 65536 + 32768])) if x < 0.45 else
                        rng.randint(131073, 600000) if x < 0.6 else rng.randint(0, 30) if x < 0.9 else rng.randint(30, 70000))
        return lens
    if prof == "huge":      # several MB
        return [rng.choice([rng.randint(100000, 400000), rng.randint(0, 50), near(131072)]) for _ in range(rng.randint(25, 45))]
    n = rng.choice([5000, 10000, 12345])    # "many"
    return [rng.choice([0, 3, 5, 8, 13]) for _ in range(n)]


def make_stream(rng, prof, read0, force_marker=False):
    lens = gen_lens(rng, prof)
    unterm = rng.random() < 0.35
    if force_marker:        # interactive sessions: at least 6 records, the last one a terminated non-empty marker
        while len(lens) < 5:
            lens.insert(0, rng.randint(0, 9))
        lens.append(rng.randint(6, 20))
        unterm = False
    recs = [rec_content(i + 1, n, read0) for i, n in enumerate(lens)]
    if force_marker:        # the marker itself carries no white space at its end (it is what the driver waits for)
        m = recs[-1].rstrip(b" \t\r")
        recs[-1] = m + b"x" * (len(recs[-1]) - len(m))
    d = b"\0" if read0 else b"\n"
    data = d.join(recs) + (b"" if (unterm or not recs) else d)
    return lens, unterm, recs, data


def burst_write(fd, data, rng):
    """write `data` to the pipe in bursts of random sizes (the kernel and the scheduling decide the read() sizes)"""
    try:
        view, off = memoryview(data), 0
        while off < len(data):
            x = rng.random()
            n = (rng.randint(1, 5) if x < 0.15 else rng.randint(6, 5000) if x < 0.5 else
                 rng.choice([65535, 65536, 65537, 131072]) if x < 0.75 else rng.randint(5000, 400000))
            off += os.write(fd, view[off:off + n])
            if rng.random() < 0.04:
                time.sleep(0.0004)
    except BrokenPipeError:
        pass
    finally:
        os.close(fd)


def run_filter(fzf, job):
    rng = __import__("random").Random(job["seed"])
    lens, unterm, recs, data = make_stream(rng, job["prof"], job["read0"])
    args = [fzf, "-f", ""]
    if job["path"] == "streaming":
        args.append("+s")
    if job["read0"]:
        args += ["--read0", "--print0"]
    if job["header"]:
        args += ["--header-lines", str(job["header"])]
    if job["tail"]:
        args += ["--tail", str(job["tail"])]
    if job["nth"]:
        args += ["--with-nth", job["nth"]]
    rfd, wfd = os.pipe()
    p = subprocess.Popen(args, stdin=rfd, stdout=subprocess.PIPE, stderr=subprocess.PIPE, env=go_env())
    os.close(rfd)
    w = threading.Thread(target=burst_write, args=(wfd, data, rng))      # the writer thread owns and closes wfd
    w.start()
    try:
        out, err = p.communicate(timeout=300)
    except subprocess.TimeoutExpired:
        p.kill()
        out, err = p.communicate()
        err += b" [driver: timeout]"
    w.join()
    term = b"\0" if job["read0"] else b"\n"
    toks = out.split(term)
    outs = [ident(t) for t in toks[:-1]]
    if toks[-1] != b"":
        outs.append("UNTERMINATED:" + ident(toks[-1]))
    rec = dict(job)
    rec.update({"lens": lens, "unterm": unterm, "ids": [ident(r) for r in recs], "out": outs, "idx": [], "total": -1,
                "exit": p.returncode, "stderr": err.decode("utf-8", "replace")[-300:], "bytes": len(data),
                "cmd": " ".join(args[1:])})
    return rec


def filter_jobs(ctx, n):
    rng = ctx.rng
    jobs = []
    for i in range(n):
        prof = rng.choice(["tiny", "tiny", "medium", "medium", "medium", "big", "big", "huge" if i % 3 == 0 else "big",
                           "many" if i % 4 == 0 else "medium"])
        path = "streaming" if i % 2 else "sorted"
        header = rng.choice([0, 0, 0, 0, 1, 2, 5, 150])
        tail = rng.choice([0, 0, 0, 1, 2, 3, 99, 100, 101, 250, 1000, 7])
        if path == "streaming" and tail and rng.random() < 0.6:
            tail = 0        # the streaming path ignores --tail (F10): keep most streaming runs informative
        jobs.append({"seed": ctx.seed * 7919 + i, "prof": prof, "path": path, "read0": rng.random() < 0.4,
                     "header": header, "tail": tail, "nth": rng.choice(["", "", "", "..", "{..}", "{n}:{..}", "2.."])})
    # the documented-example shapes, always present
    for k, (path, tail) in enumerate([("sorted", 2), ("streaming", 2), ("sorted", 0), ("streaming", 0)]):
        jobs.append({"seed": ctx.seed * 31 + k, "prof": "tiny", "path": path, "read0": False, "header": 0, "tail": tail,
                     "nth": ""})
    return jobs


def rec_describe(r):
    return ("fzf %s on a stream of %d records (%d bytes, last unterminated=%s): printed %d records, exit %s; first ids in %s "
            "out %s idx %s stderr %r" % (r["cmd"], len(r["lens"]), r["bytes"], r["unterm"], len(r["out"]), r["exit"],
                                         r["ids"][:6], r["out"][:6], r["idx"][:6], r["stderr"]))


def judge_binary(ctx, fzf, jobs, runner, label, par):
    with ThreadPoolExecutor(max_workers=par) as ex:
        recs = list(ex.map(lambda j: runner(fzf, j), jobs))
    bad, res = judge(ctx, "Judge_Reader", "Judge_Reader.cfg", recs, label, timeout=1500, workers=min(MAXW, ctx.pick(8, 16)))
    kinds = {}
    for x in res.raw_items("MISMATCH"):
        parts = [t.strip().strip('"') for t in x.split(",")]
        kinds[int(parts[0]) - 1] = parts[1]
    reported = {}
    for i in sorted(bad, key=lambda i: len(recs[i]["lens"])):       # smallest reproductions first
        r = recs[i]
        kf = dict(F10) if (kinds.get(i) == "tail_ignored" and r["path"] == "streaming") else None
        key = json.dumps(kf) if kf else "other"
        if reported.get(key, 0) >= (2 if kf else 8):
            continue
        # re-run this one alone and let TLC judge it again
        # (how the OS cuts the pipe into reads differs from run to run, so a content corruption that depends on the read
        # boundaries may need several attempts; the recorded run - real stdin, real stdout of the real binary - stays the
        # evidence if it does not recur: nothing in it depends on the harness's timing)
        r1, bad1, res1 = None, [], None
        for attempt in range(6):
            r1 = runner(fzf, jobs[i])
            bad1, res1 = judge(ctx, "Judge_Reader", "Judge_Reader.cfg", [r1], label + "-re", timeout=600, workers=1)
            if bad1:
                break
        if not bad1:
            r1 = r
            bad1, res1 = judge(ctx, "Judge_Reader", "Judge_Reader.cfg", [r1], label + "-rejudge", timeout=600, workers=1)
            if not bad1:
                raise Infra("%s: rejection of a recorded run is not deterministic: %s" % (label, rec_describe(r)))
        kind1 = [t.strip().strip('"') for t in res1.raw_items("MISMATCH")[0].split(",")][1]
        kf = dict(F10) if (kind1 == "tail_ignored" and r1["path"] == "streaming") else None
        reported[key] = reported.get(key, 0) + 1
        case = {"label": label, "job": jobs[i], "record": {k: (v if k not in ("ids", "out", "lens", "idx") else v[:50])
                                                          for k, v in r1.items()}}
        if kf:
            case["kf"] = kf
        ctx.violation("%s: spec rejects what the real binary did (%s): %s" % (
            label, "explained only with --tail ignored" if kf else "unexplained", rec_describe(r1)), case)
    return recs, bad


# ------------------------------------------------------------------------------------------------ J: interactive
def free_port():
    s = socket.socket()
    s.bind(("127.0.0.1", 0))
    port = s.getsockname()[1]
    s.close()
    return port


def http_get(port, path, timeout=20):
    with urllib.request.urlopen("http://127.0.0.1:%d%s" % (port, path), timeout=timeout) as r:
        return json.loads(r.read().decode("utf-8"))


TTY_SEQ = [0]
TTY_LOCK = threading.Lock()


def run_tty(fzf, job):
    """one interactive session under tmux: the stream goes through a FIFO in bursts while the coordinator keeps taking
    Snapshot(tail); the final list (index + text of every item) is fetched through --listen.  The stream always ends
    with a terminated, non-empty marker record; the driver waits for the EVENT 'reading finished and the marker is the
    last item of the list' (never for a fixed time) and hands the list to TLC."""
    rng = __import__("random").Random(job["seed"])
    lens, unterm, recs, data = make_stream(rng, job["prof"], job["read0"], force_marker=True)
    with TTY_LOCK:
        TTY_SEQ[0] += 1
        seq = TTY_SEQ[0]
    work = job["work"]
    fifo = os.path.join(work, "fifo-%d" % seq)
    os.mkfifo(fifo)
    sock = "verif-c06-%d-%d" % (os.getpid(), seq)
    port = free_port()
    args = [fzf, "--listen", "127.0.0.1:%d" % port]
    if job["read0"]:
        args.append("--read0")
    if job["header"]:
        args += ["--header-lines", str(job["header"])]
    if job["tail"]:
        args += ["--tail", str(job["tail"])]
    if job["nth"]:
        args += ["--with-nth", job["nth"]]
    sh = "exec " + " ".join("'%s'" % a for a in args) + " < '%s'" % fifo
    tm = ["tmux", "-L", sock, "-f", "/dev/null"]
    st, note, hdr_seen = None, "", []
    r = subprocess.run(tm + ["new-session", "-d", "-x", "100", "-y", "30", sh], env=go_env({"TERM": "xterm"}),
                       capture_output=True, text=True)
    if r.returncode != 0:
        raise Infra("tmux new-session failed: " + r.stderr)
    try:
        deadline = time.time() + 20
        wfd = None
        while wfd is None:
            try:
                wfd = os.open(fifo, os.O_WRONLY | os.O_NONBLOCK)
            except OSError:
                if time.time() > deadline:
                    raise Infra("fzf never opened its stdin (interactive session)")
                time.sleep(0.02)
        os.set_blocking(wfd, True)
        w = threading.Thread(target=burst_write, args=(wfd, data, rng))
        w.start()
        marker = recs[-1].decode("utf-8")
        deadline = time.time() + 60
        while True:
            try:
                st = http_get(port, "/?limit=1000000")
            except Exception as ex:     # not listening yet
                st, note = None, str(ex)
            if st and not st["reading"] and st["matchCount"] == st["totalCount"] and st["matches"] and \
                    st["matches"][-1]["text"] == marker:
                break
            if st and not st["reading"] and job["header"] >= len(recs) and st["totalCount"] == 0 and w is not None and not w.is_alive():
                break           # every record is a header line: nothing is listed, the whole stream has been written and read
            if time.time() > deadline:
                note = "driver: the final list never showed the marker record (%s)" % note
                break
            time.sleep(0.02)
        w.join(timeout=30)
        if job["header"] and st is not None:
            # header records on display: "r<i>:" at the start of a row, for record numbers within --header-lines
            time.sleep(0.15)
            cap = subprocess.run(tm + ["capture-pane", "-p", "-t", "0"], capture_output=True, text=True, env=go_env({"TERM": "xterm"}))
            import re
            hdr_seen = sorted({int(m.group(1)) for line in cap.stdout.split("\n") for m in [re.match(r"^\s*r(\d+):", line)] if m
                               and int(m.group(1)) <= job["header"]})
    finally:
        subprocess.run(tm + ["kill-server"], capture_output=True)
        try:
            os.unlink(fifo)
        except OSError:
            pass
    if st is None:
        raise Infra("interactive session: --listen never answered (%s)" % note)
    rec = dict(job)
    del rec["work"]
    if job["header"] and not job["nth"]:
        # records the driver can recognise in the header area: complete "r<i>:" prefix, not the blank-led variant, no
        # multi-line content before it, and few enough to fit above the list (30 rows)
        hrecs = recs[:min(job["header"], 20)]
        plain = all(b"\n" not in b and b"\r" not in b and len(b) <= 90 for b in hrecs)     # one screen row per header record
        rec["hdrLegible"] = [i + 1 for i, b in enumerate(hrecs) if plain and (i + 1) % 7 != 0 and b.startswith(b"r%d:" % (i + 1))]
        rec["hdrSeen"] = [i for i in hdr_seen if i in rec["hdrLegible"]]     # only what the driver claims to recognise
    rec.update({"lens": lens, "unterm": unterm, "ids": [ident(r) for r in recs],
                "out": [ident(m["text"].encode("utf-8")) for m in st["matches"]],
                "idx": [m["index"] for m in st["matches"]], "total": st["totalCount"], "exit": -1, "stderr": note,
                "bytes": len(data), "cmd": " ".join(args[1:]) + " (interactive)"})
    return rec


def run_tty_retry(fzf, job):
    """a session that could not be set up (port taken between probing and binding, tmux hiccup) is tried once more"""
    try:
        return run_tty(fzf, job)
    except Infra as ex:
        log("interactive session set-up failed, retrying once:", ex)
        return run_tty(fzf, job)


def bind_tty(ctx):
    fzf = ctx.build_fzf()
    rng = ctx.rng
    jobs = []
    for i in range(ctx.pick(24, 240)):
        # every sixth session: a handful of short records and more --header-lines than records
        jobs.append({"seed": ctx.seed * 104729 + i, "prof": "tiny" if i % 6 == 0 else rng.choice(["medium", "medium", "big", "many" if i % 5 == 0 else "medium"]),
                     "path": "interactive", "read0": rng.random() < 0.3, "header": rng.choice([0, 0, 1, 3, 3, 12]) if i % 6 else 9,
                     "tail": rng.choice([0, 1, 2, 7, 99, 100, 101, 250, 1000]), "nth": rng.choice(["", "", "..", "{n} {1}"]),
                     "work": ctx.work})
    recs, bad = judge_binary(ctx, fzf, jobs, run_tty_retry, "tty", 4)
    ctx.cov["interactive_sessions"] = {"runs": len(recs), "rejected": len(bad),
                                       "with_tail_effective": sum(1 for r in recs if r["tail"] and len(r["lens"]) - r["header"] > r["tail"]),
                                       "with_header": sum(1 for r in recs if r["header"]),
                                       "records": sum(len(r["lens"]) for r in recs)}
    r = next((r for r in recs if r["tail"] and len(r["lens"]) - r["header"] > r["tail"]), recs[0])
    ctx.sample({"interactive": {"cmd": r["cmd"], "records": len(r["lens"]), "listed": len(r["out"]),
                                "first_index": r["idx"][:1], "last_index": r["idx"][-1:]}})
    return sum(1 for r in recs if r["tail"] and len(r["lens"]) - r["header"] > r["tail"])


def bind_binary(ctx):
    fzf = ctx.build_fzf()
    jobs = filter_jobs(ctx, ctx.pick(220, 3000))
    recs, bad = judge_binary(ctx, fzf, jobs, run_filter, "binary", 8)
    stats = {"runs": len(recs), "rejected": len(bad), "bytes": sum(r["bytes"] for r in recs),
             "max_stream_bytes": max(r["bytes"] for r in recs), "max_record_bytes": max([max(r["lens"] or [0]) for r in recs]),
             "records": sum(len(r["lens"]) for r in recs)}
    for k in ("path", "read0", "nth"):
        for r in recs:
            stats["%s=%s" % (k, r[k])] = stats.get("%s=%s" % (k, r[k]), 0) + 1
    stats["with_header"] = sum(1 for r in recs if r["header"])
    stats["with_tail_effective"] = sum(1 for r in recs if r["tail"] and len(r["lens"]) - r["header"] > r["tail"])
    ctx.cov["binary_runs"] = stats
    r = next(r for r in recs if r["path"] == "sorted" and r["tail"] and 3 < len(r["lens"]) < 400)
    ctx.sample({"binary": {"cmd": r["cmd"], "records": len(r["lens"]), "printed": len(r["out"]), "exit": r["exit"]}})
    return sum(1 for r in recs if len(r["lens"]) >= 2)


def run(ctx):
    only = os.environ.get("VERIF_C06_ONLY", "")     # development knob: run single stages (mc|feed|chunklist|random|binary|tty|
    #                                                 items-mc|items|items-random|items-tty)
    want = lambda k: not only or k in only.split(",")
    # (0) content of an item under the builder variants (FzfItems): design check on all small streams, plus the
    # counterexample that shows the model is sensitive to dropping the reference to the record
    if want("items-mc"):
        # (coverage statistics cost ~15 s of start-up here: the vacuity check by action counts runs in the thorough tier; the
        # quick tier checks that the search reached the depth only Extend AND Push steps can reach)
        iruns = [("MC_Items_quick.cfg", False, 7), ("MC_Items_rec.cfg", False, 4)]
        if not ctx.quick:
            iruns += [("MC_Items_cov.cfg", True, 5), ("MC_Items.cfg", False, 10), ("MC_Items_rec_thorough.cfg", False, 6)]
        for cfg, cover, depth in iruns:
            mc = ctx.mc("MC_Items", cfg, timeout=3000, coverage=cover, workers=min(MAXW, ctx.pick(8, 16)), label=cfg.replace(".cfg", ""))
            dead = [a for a, n in mc.action_cov.items() if n == 0]
            if dead or mc.depth != depth:
                raise Infra("vacuous model %s: actions never taken: %s, depth %d (expected %d)" % (cfg, dead, mc.depth, depth))
        r = ctx.tlc("MC_Items", "MC_Items_dev.cfg", workers=2, timeout=600, expect_ok=False, label="dev-KeepOrigIfDiffers")
        if r.code != 12 or not any("InvContent" in e for e in r.errors):
            raise Infra("deviation config MC_Items_dev.cfg no longer yields its counterexample (exit %d)" % r.code)
        ctx.cov["deviation_counterexamples"] = {"KeepOrigIfDiffers": "InvContent violated after %d states" % r.distinct}
    # (1) design: exhaustive model checking on small constants, ALL chunkings of the stream
    if want("mc"):
        # coverage statistics slow TLC down ~10x: the vacuity check runs on the small configurations, the large
        # reader configuration of the thorough tier runs without
        runs = [("MC_Reader", "MC_Reader_cov.cfg", True), ("MC_Reader", "MC_Reader_quick.cfg", False),
                ("MC_ChunkList", "MC_ChunkList_quick.cfg", True), ("MC_ChunkList", "MC_ChunkList3.cfg", False)]
        if not ctx.quick:
            runs += [("MC_Reader", "MC_Reader.cfg", False), ("MC_ChunkList", "MC_ChunkList.cfg", False)]
        for mod, cfg, cover in runs:
            mc = ctx.mc(mod, cfg, timeout=2400, coverage=cover, workers=min(MAXW, ctx.pick(8, 16)),
                        label=cfg.replace(".cfg", ""))
            dead = [a for a, n in mc.action_cov.items() if n == 0]
            if dead:
                raise Infra("vacuous model %s: actions never taken: %s" % (cfg, dead))
    h = ctx.build_harness("src", HFILES)
    if ctx.replay:
        return replay_one(ctx, h)
    nt = 0
    # (2) E: spec behaviours replayed on the real Reader.feed / ChunkList (real constants)
    if want("feed"):
        nt += bind_feed(ctx, h)
    if want("chunklist"):
        nt += bind_chunklist(ctx, h)
    # (3) J: real executions judged by the spec
    if want("random"):
        nt += judge_feed(ctx, h)
    if want("binary"):
        nt += bind_binary(ctx)
    if want("tty"):
        nt += bind_tty(ctx)
    # (4) content of the items: E (TLC-enumerated option variants x all small records) and J (random) through the binary
    if want("items"):
        nt += items.bind_export(ctx, ctx.build_fzf())
    if want("items-random"):
        nt += items.bind_random(ctx, ctx.build_fzf())
    if want("items-tty"):
        nt += items.bind_sessions(ctx, ctx.build_fzf())
    ctx.cov["distinct_nontrivial"] = nt
    ctx.cov["rule"] = (
        "sum over the bindings of the cases that can distinguish a wrong reader/item layer: (E feed) distinct TLC behaviours of "
        "FzfReader with the real 64K/128K constants that emit >= 2 items over >= 3 read() calls, each replayed under both "
        "delimiters; (E chunk list) TLC behaviours of FzfChunkList (chunk size 100) with a Push after a Snapshot; (J feed) "
        "random real feed() executions with >= 2 items and >= 3 reads judged by folding the spec's step function; (J binary) "
        "runs of the real binary on streams with >= 2 records; (J interactive) tmux sessions in which --tail actually trimmed. "
        "(E items) TLC-enumerated cases (--with-nth form x delimiter x --ansi x block of all records up to 3..4 symbols x query), each "
        "run on 2-3 filter paths of the real binary; (J items) random option / record combinations with >= 2 records and interactive "
        "sessions with accept.  Classes exercised are counted in feed_behaviour_classes / chunklist_behaviours / binary_runs / "
        "interactive_sessions / item_cases / item_random_runs / item_sessions.")
    ctx.cov["exhaustive"] = False
    ctx.assumptions += [
        "read() never returns data together with an error and never returns (0, nil) (OS-faithful; the reader's handling of "
        "both is a code-derived corner that is not fed)",
        "CR trimming is Windows-only and not modelled; on this platform a record ending in CR keeps it",
        "readerBufferSize/readerSlabSize/chunkSize are Go constants: the exhaustive all-chunkings exploration (buffer 3, slab 6, "
        "chunk 2..3) exists on the model only; the real code is bound with the real constants on TLC-chosen interesting read "
        "sizes plus random ones",
        "record contents at the process boundary are valid UTF-8 (fzf decodes text; invalid UTF-8 is outside the "
        "property); the in-package harness uses arbitrary bytes 11..255",
        "item numbering is observed through --listen (GET /) in interactive sessions only; filter mode shows order, count, "
        "content, header diversion and tail",
        "FzfItems: escape sequences are two atoms (ESC[35m, ESC[m) - which byte strings are escape sequences is C11's "
        "subject; search is observed with case-sensitive literal exact terms only (-e +i --literal), and with a non-empty "
        "query only on the unranked paths (+s, +s --sync): ranking is C04's subject; the header rendition is specified but "
        "not observed here",
        "the index of the first non-header record is 0 (code-derived; the manual only says zero-based)",
    ]
    return "model_checking"


def replay_one(ctx, h):
    """bin/check C06 <tier> --replay evidence/replays/C06/<file>: re-run exactly that case"""
    case = json.load(open(ctx.replay))["case"]
    label = case.get("label", "")
    if label == "feed":
        replay_cases(ctx, h, "TestVerifReaderFeed", [case["case"]], feed_expected, "feed", describe=feed_describe)
    elif label == "chunklist":
        replay_cases(ctx, h, "TestVerifChunkList", [case["case"]], cl_expected, "chunklist", describe=cl_describe)
    elif label == "feedrandom":
        r = case["record"]
        record_and_judge(ctx, h, "TestVerifReaderRandom", [{"seed": r["seed"], "nul": r["nul"], "prof": r["prof"]}],
                         "Judge_Feed", "Judge_Feed.cfg", "feedrandom", describe=feed_rec_describe, workers=1)
    elif label.startswith("items"):
        items.replay(ctx, ctx.build_fzf(), case)
    elif label in ("binary", "tty"):
        job = dict(case["job"])
        if label == "tty":
            job["work"] = ctx.work
        judge_binary(ctx, ctx.build_fzf(), [job], run_tty_retry if label == "tty" else run_filter, label, 1)
    else:
        raise Infra("unknown replay file")
    return "model_checking"
