"""C09 - query line, cursor and selection evolve exactly as the actions prescribe (spec/FzfEditor.tla)."""
import json, random, threading, time
from concurrent.futures import ThreadPoolExecutor
import chars, sessions, tmuxdrv
from vlib import Infra, judge

ITEM_POOL = ["ab", "a c", "b-á", "c", "aa", "bb", "漢a", "A1/b", "abc", " a", "e1", "a/b/c", "b a", "1-2", "á é", "cab",
             "a_b", "B.a", "ba", "ca", "a  b", "ab/", "/a", "c-c", "e", "ae", "ea", "a1", "1a", "b1"]


def make_cfg(rng, disabled=None):
    inputless = rng.random() < 0.2
    # a hidden input section still holds a query (given on the command line): the editing actions must leave it alone
    extra = ["--query", rng.choice(["abcea", "a b-c", "ab", "áb 漢a"])] if inputless and rng.random() < 0.7 else []
    if rng.random() < 0.25:
        extra = extra + ["--tac"]      # the result list arrives reversed; cursor, tracking and selection rules are the same
    return sessions.Cfg(layout=rng.choice(["default", "reverse", "reverse-list"]), cycle=rng.random() < 0.5,
                        multi=rng.choice([None, 1, 2, 3, "inf", "inf"]), scroll_off=rng.choice([None, 0, 1, 5]),
                        inputless=inputless, disabled=(rng.random() < 0.4) if disabled is None else disabled,
                        track=rng.random() < 0.35, extra=extra)


def random_steps(rng, n, multi):
    """Seeded random stimuli: POST bodies (single actions and chains) and real key presses."""
    acts0 = ["backward-char", "forward-char", "beginning-of-line", "end-of-line", "delete-char", "backward-delete-char",
             "kill-line", "kill-word", "backward-kill-word", "unix-line-discard", "unix-word-rubout", "yank", "backward-word",
             "forward-word", "clear-query", "replace-query", "up", "down", "first", "last", "page-up", "page-down",
             "half-page-up", "half-page-down", "toggle", "toggle-up", "toggle-down", "toggle-in", "toggle-out", "toggle-all",
             "select-all", "deselect-all", "select", "deselect", "clear-selection", "next-selected", "prev-selected",
             "cancel", "delete-char/eof", "backward-delete-char/eof"]
    strs = ["", "a", " ", "ab", "b ", "-á", "漢/", "A1", "a b", "c", "a-b c", "/a/"]
    steps = []
    guard = "c"     # cancel / *-eof on an empty query would quit: keep the query non-empty before them

    def one():
        r = rng.random()
        if r < 0.55:
            a = rng.choice(acts0)
            if a in ("cancel", "delete-char/eof", "backward-delete-char/eof"):
                return "put(%s)+%s" % (guard, a)
            return a
        if r < 0.75:
            return "%s(%s)" % (rng.choice(["put", "change-query"]), rng.choice(strs))
        if r < 0.85:
            return "pos(%d)" % rng.choice([-3, -1, 0, 1, 2, 5, 40])
        if r < 0.92:
            return rng.choice(["change-multi", "change-multi(0)", "change-multi(1)", "change-multi(2)", "change-multi(5)"])
        return rng.choice(["toggle-sort", "up+up+up", "down+down", "toggle+down", "select-all+up", "exclude", "exclude", "exclude-multi",
                           "toggle+up+exclude", "select-all+exclude", "toggle-track", "toggle-track-current", "track-current",
                           "untrack-current", "track-current+up", "toggle-track+down"])
    keys = list(sessions.KEYMAP.keys())
    moves = ["backward-char", "backward-char+backward-char", "beginning-of-line", "backward-word", "forward-char", "end-of-line",
             "beginning-of-line+forward-char", "beginning-of-line+forward-word"]
    kills = ["kill-line", "kill-word", "backward-kill-word", "unix-line-discard", "unix-word-rubout", "put(c)+cancel",
             "backward-delete-char", "delete-char", "replace-query"]
    inserts = ["put(b)", "put(a-)", "yank", "put(/)", "put(á)"]

    def motif():
        # store a slice of the query somewhere (yank buffer / item / previous query), then write in place, then look
        w = rng.choice(["ab c", "a-b/c", "abc", "a b  c-", "áb 漢a", "a/b c/A1"])
        seq = ["change-query(%s)" % w, rng.choice(moves), rng.choice(kills), rng.choice(moves + [""]), rng.choice(inserts + ["", ""]),
               rng.choice(inserts + kills), "yank", rng.choice(moves), rng.choice(kills), rng.choice(inserts)]
        seq = [x for x in seq if x]
        if rng.random() < 0.5:
            return [("post", "+".join(seq))]
        return [("post", x) for x in seq]
    def sel_motif():
        # the --multi limit against what is already selected: mark a few of the top results, then select-all / toggle-all
        seq = ["change-multi(%d)" % rng.choice([2, 3, 5]), "clear-query", "first"]
        seq += [rng.choice(["toggle+down", "down+toggle", "toggle", "down", "toggle-down"]) for _ in range(rng.randint(1, 3))]
        seq += [rng.choice(["select-all", "select-all", "toggle-all"]), rng.choice(["toggle", "toggle-all", "deselect-all", "select-all", "down+toggle"])]
        return [("post", x) for x in seq]

    def page_motif():
        return [("post", x) for x in rng.sample(["page-down", "page-up", "half-page-down", "half-page-up", "down", "up", "last", "first"], 5)]
    multi_on_at = rng.randrange(2, max(3, n)) if (multi is None and rng.random() < 0.6) else -1
    for k in range(n):
        if k == multi_on_at:
            # a session started in single-selection mode switches multi-selection on half-way
            steps.append(("post", rng.choice(["change-multi", "change-multi(2)", "change-multi(5)"])))
            steps.append(("post", rng.choice(["toggle", "toggle+down", "down", "select-all"])))
        r = rng.random()
        if r < 0.12:
            steps.extend(motif())
            continue
        if r < 0.19:
            steps.extend(sel_motif() if (multi is not None and rng.random() < 0.7) else page_motif())
            continue
        if r < 0.5:
            steps.append(("post", one()))
        elif r < 0.7:
            steps.append(("post", "+".join(one() for _ in range(rng.randint(2, 5)))))
        elif r < 0.88:
            steps.append(("key", rng.choice(keys)))
        else:
            steps.append(("type", rng.choice(["a", "b", " ", "-", "c", "/", "A", "1"])))
    return steps


CRASHES = []


def run_session(ctx, fzf, sid, cfg, items, steps, width, height):
    s = tmuxdrv.Session(ctx, fzf, cfg.args(), input_data="".join(i + "\n" for i in items), width=width, height=height)
    try:
        s.wait_listening()
        s.wait_for(lambda tr: any(e["ev"] == "term.list" and not e["reading"] for e in tr), what="first final list")
        loops = 0
        for kind, arg in steps:
            if kind == "post":
                try:
                    st, _ = s.post(arg)
                except OSError:
                    time.sleep(0.2)
                    if s.exited():
                        break       # an earlier action legitimately ended the session (e.g. cancel on an empty query)
                    raise Infra("POST %r failed while fzf is alive" % arg)
                if st != 200:
                    raise Infra("POST %r -> %d" % (arg, st))
            elif kind == "key":
                s.keys(arg)
            else:
                s.keys(arg, literal=True)
            loops += 1
            try:
                s.wait_for(lambda tr: sum(1 for e in tr if e["ev"] == "term.loop") >= loops or
                           any(e["ev"] == "term.exit" for e in tr), timeout=90 if kind == "post" else 8,
                           what="loop %d after %s %r" % (loops, kind, arg))
            except Infra:
                if s.exited():
                    # the program died in the middle of an action (panic): that is an observation about fzf, not about the harness
                    try:
                        status = int(open(s.status_path).read().strip())
                    except Exception:
                        status = -1
                    CRASHES.append({"sid": sid, "step": [kind, arg], "status": status, "screen": "\n".join(s.capture())[-1500:]})
                    break
                if kind == "post":
                    raise
                loops -= 1      # a key (sequence) the terminal layer swallowed without handing an event to the loop: no transition
                continue
            if any(e["ev"] == "term.exit" for e in s.trace()):
                break
        if not s.exited() and not any(e["ev"] == "term.exit" for e in s.trace()):
            # let the last search / render settle so that its transitions are part of the trace
            s.wait_trace_quiet(quiet=0.08)
            status_before = s.get()
            s.post("abort", final=True)
            s.wait_exit()
        tr = s.trace()
        return tr
    finally:
        s.close()


def run(ctx):
    # (1) exhaustive model checking of the design: query-line actions and list/selection actions
    for cfgname in (["MC_Editor.cfg", "MC_EditorList_a.cfg", "MC_EditorTrack.cfg"] if ctx.quick else
                    ["MC_Editor.cfg", "MC_EditorList_a.cfg", "MC_EditorTrack.cfg", "MC_EditorList_b.cfg", "MC_EditorList_c.cfg"]):
        ctx.mc("MC_Editor", cfgname, timeout=1200, workers=8)
    # (2) stimuli: behaviours simulated by TLC from the spec (every modelled action) + seeded random chains / real keys
    nsim = ctx.pick(12, 400)
    gen = ctx.tlc("MC_Editor", "Gen_Editor.cfg", workers=2, timeout=600, label="gen",
                  args=["-simulate", "num=%d" % (nsim // 2), "-depth", "30", "-seed", str(ctx.seed)])
    behaviours = gen.json_items("CASE")
    if len(behaviours) < nsim // 2:
        raise Infra("TLC exported only %d behaviours" % len(behaviours))
    fzf = ctx.build_fzf()
    rng = ctx.rng
    jobs = []
    for b in behaviours[:nsim]:
        cfg = make_cfg(rng, disabled=True if rng.random() < 0.6 else False)
        items = [chars.text(t) for t in b["texts"]]
        steps = []
        for st in b["steps"]:
            if st["act"] == "char":
                steps.append(("type", chars.text(st["arg"])))
            else:
                steps.append(("post", sessions.fmt_action(st["act"], st["arg"])))
        jobs.append((cfg, items, steps, rng.choice([30, 50, 80]), rng.choice([3, 5, 6, 8, 12, 24])))
    nrand = ctx.pick(14, 700)
    for _ in range(nrand):
        cfg = make_cfg(rng)
        k = rng.choice([0, 1, 2, 5, 9, 14, 25, 40])
        items = [rng.choice(ITEM_POOL) for _ in range(k)]
        jobs.append((cfg, items, random_steps(rng, rng.randint(15, 40), cfg.multi), rng.choice([30, 50, 80]),
                     rng.choice([3, 3, 4, 5, 6, 8, 12, 24])))
    if ctx.replay:
        rp = json.load(open(ctx.replay))["case"]
        c = rp["session"]
        jobs = [(sessions.Cfg(**c["cfg"]), c["items"], [tuple(x) for x in c["steps"]], c["width"], c["height"])]

    def do(ix):
        cfg, items, steps, w, h = jobs[ix]
        return ix, run_session(ctx, fzf, ix, cfg, items, steps, w, h)
    traces = {}
    with ThreadPoolExecutor(max_workers=8) as ex:
        for ix, tr in ex.map(do, range(len(jobs))):
            traces[ix] = tr
    for cr in list(CRASHES)[:3]:
        cfg, items, steps, w, h = jobs[cr["sid"]]
        n0 = len(CRASHES)
        run_session(ctx, fzf, cr["sid"], cfg, items, steps, w, h)       # reproduce
        if len(CRASHES) == n0:
            raise Infra("session %d: fzf died during %r but not when re-run" % (cr["sid"], cr["step"]))
        ctx.violation("session %d (%s): fzf terminated (status %s) while performing %r: the action did not take the state to the "
                      "prescribed successor\n%s" % (cr["sid"], cfg.describe(), cr["status"], cr["step"], cr["screen"][-600:]),
                      {"session": {"cfg": {"layout": cfg.layout, "cycle": cfg.cycle, "multi": cfg.multi, "scroll_off": cfg.scroll_off,
                                           "inputless": cfg.inputless, "disabled": cfg.disabled, "extra": cfg.extra, "track": cfg.track},
                                   "items": items, "steps": steps, "width": w, "height": h}, "crash": cr})
    del CRASHES[:]
    records = []
    for ix in sorted(traces):
        records += sessions.transitions(traces[ix], jobs[ix][0], ix, jobs[ix][1])
    if not records:
        raise Infra("no transitions recorded")
    # (3) TLC judges every recorded transition
    bad, res = judge(ctx, "Judge_Editor", "Judge_Editor.cfg", records, "editor", timeout=1800)
    unmodelled = sorted(set(res.raw_items("UNMODELLED")))
    # reproduce: re-run the offending sessions and judge again; only reproduced rejections count
    bad_sessions = sorted({records[i]["sid"] for i in bad})
    for sid in bad_sessions[:5]:
        cfg, items, steps, w, h = jobs[sid]
        tr2 = run_session(ctx, fzf, sid, cfg, items, steps, w, h)
        recs2 = sessions.transitions(tr2, cfg, sid, items)
        bad2, _ = judge(ctx, "Judge_Editor", "Judge_Editor.cfg", recs2, "editor-re%d" % sid, workers=2)
        if not bad2:
            raise Infra("session %d: rejected transition not reproduced" % sid)
        r = recs2[bad2[0]]
        what = "session %d (%s): spec rejects %s transition %s: %s" % (
            sid, cfg.describe(), r["k"], r.get("act", r.get("kind", "")),
            json.dumps({k: r[k] for k in r if k in ("pre", "post", "texts", "orig", "arg")}, ensure_ascii=False))
        case = {"session": {"cfg": {"layout": cfg.layout, "cycle": cfg.cycle, "multi": cfg.multi, "scroll_off": cfg.scroll_off,
                                    "inputless": cfg.inputless, "disabled": cfg.disabled, "extra": cfg.extra, "track": cfg.track},
                            "items": items, "steps": steps, "width": w, "height": h}, "record": r}
        kf = classify(r)
        if kf:
            case["kf"] = kf
        ctx.violation(what, case)
    acts = {}
    distinct = set()
    for r in records:
        if r["k"] == "act":
            acts[r["act"]] = acts.get(r["act"], 0) + 1
            if r["pre"] != r["post"]:
                distinct.add(json.dumps([r["act"], r["arg"], r["pre"], r["env"]["list"], r["env"]["layout"], r["env"]["cycle"]]))
        elif r["k"] != "items" and r["pre"] != r["post"]:
            distinct.add(json.dumps([r["k"], r["pre"], r["post"]]))
    ctx.cov["distinct_nontrivial"] = len(distinct)
    ctx.cov["rule"] = ("one record per transition of the real terminal loop (action / list update / render / steady) taken from "
                       "the hook trace of tmux-driven sessions; stimuli = TLC-simulated behaviours of FzfEditor + seeded random "
                       "action chains and real key presses; non-trivial = distinct transitions that change the state")
    ctx.cov["sessions"] = len(jobs)
    ctx.cov["transitions_by_action"] = acts
    ctx.cov["unmodelled_actions_seen"] = unmodelled
    ctx.cov["traces_validated_against_impl"] = len(jobs)
    for r in records:
        if r["k"] == "act" and r["pre"] != r["post"]:
            ctx.sample({k: r[k] for k in ("act", "arg", "pre", "post")})
            if len(ctx.cov["samples"]) >= 4:
                break
    ctx.assumptions += ["jump mode, mouse, multi-line items and --gap are not modelled; sessions do not use them (--tac only reverses the list the editor is given)",
                        "queries and items are drawn from the FzfChars symbol table (incl. non-ASCII, wide)"]
    return "model_checking"


def classify(r):
    """Known-finding signatures for C09 (see known_findings.json)."""
    if r["k"] == "items":
        return {"finding": "F11", "site": "actReplaceQuery", "kind": "item-text-mutated"}
    if r["k"] == "list" and r.get("kind") == "trim" and len(r["post"]["sel"]) < len(r["pre"]["sel"]):
        return {"finding": "F15", "site": "UpdateList", "kind": "selection-dropped-on-minor-revision"}
    return None
