"""C07 - output is the original line, framed and exit-coded as documented (spec/FzfOutput.tla)."""
import json, os, subprocess, random
from concurrent.futures import ThreadPoolExecutor
import chars, sessions, tmuxdrv
from vlib import Infra, judge, go_env

PH = {"{ESC}": "\x1b", "{AE}": "é", "{HAN}": "漢", "{NL}": "\n"}


def real(s):
    for k, v in PH.items():
        s = s.replace(k, v)
    return s


def abstract(s):
    for k, v in PH.items():
        s = s.replace(v, k)
    return s


def T(s):
    return {"t": "txt", "s": s}


def S(s):
    return {"t": "sgr", "s": s}


def W(s):
    return {"t": "ws", "s": s}


D = {"t": "delim", "s": ","}

POOL = [
    [T("apple")], [W(" "), T("lead")], [T("trail"), W(" ")], [W("  "), T("both"), W("  ")], [], [T("a b  c")],
    [T("w1"), W(" "), D, T("z"), W("  ")], [W(" ")],
    [T("re"), S("{ESC}[31m"), T("d"), S("{ESC}[0m")],
    [S("{ESC}[1;32m"), T("z"), S("{ESC}[m"), T("ap")],
    [T("f1"), D, T("f2"), D, T("f3")],
    [T("z"), D, T("y")], [T("y"), D, T("z")], [T("q"), D, T("w"), D], [D, T("z")], [T("z")],
    [T("y"), D, S("{ESC}[4m"), T("z"), S("{ESC}[0m"), D, T("x")],
    [T("h{AE}llo")], [T("{HAN}{HAN}"), D, T("z")], [T("k"), D, T("{AE}"), D, T("z"), D],
]
POOL_ML = [[T("l1{NL}l2")], [T("z"), D, T("m"), W("{NL}")], [W("{NL}"), T("x")]]
# with the two-character delimiter "--": fields that end in one of the delimiter's characters
POOL_DD = [[T("key"), D, T("value-")], [T("q-")], [T("a-"), W(" "), D, T("z")], [T("z"), D, T("-")], [T("z"), D, T("w-"), W(" ")]]
DELIMS = [",", ",", "--", ", "]


def with_delim(items, ds):
    return [[dict(p, s=ds) if p["t"] == "delim" else p for p in it] for it in items]



def rec_bytes(item):
    return real("".join(p["s"] for p in item)).encode()


def gen_opts(rng):
    return {"printQuery": rng.random() < 0.4, "expect": False, "print0": rng.random() < 0.3, "ansi": rng.random() < 0.5,
            "acceptNth": 0, "withNth": rng.choice([0, 0, 1, 2, -1, 3]), "multi": True, "delim": rng.choice(DELIMS)}


def opt_args(o, read0):
    a = ["--delimiter", o.get("delim", ",")]
    if o["printQuery"]:
        a.append("--print-query")
    if o["print0"]:
        a.append("--print0")
    if read0:
        a.append("--read0")
    if o["ansi"]:
        a.append("--ansi")
    if o["withNth"]:
        a.append("--with-nth=%d" % o["withNth"])
    if o["acceptNth"]:
        a.append("--accept-nth=%d" % o["acceptNth"])
    return a


def split_out(data, print0):
    term = b"\0" if print0 else b"\n"
    if data == b"":
        return []
    parts = data.split(term)
    if parts[-1] != b"":
        parts[-1] += b"<UNTERMINATED>"
    else:
        parts.pop()
    return [abstract(p.decode("utf-8", "replace")) for p in parts]


def make_input(rng, items, read0):
    sep = b"\0" if read0 else b"\n"
    data = sep.join(rec_bytes(i) for i in items)
    if items and (rng.random() < 0.7 or rec_bytes(items[-1]) == b""):
        data += sep      # a final empty record needs its terminator to exist at all
    return data


def filter_case(ctx, fzf, rng, n):
    read0 = rng.random() < 0.3
    o = gen_opts(rng)
    pool = POOL + (POOL_ML if (read0 and o["print0"]) else []) + (POOL_DD if o["delim"] == "--" else [])
    items = with_delim([rng.choice(pool) for _ in range(rng.choice([0, 1, 2, 3, 5, 8]))], o["delim"])
    marker = rng.choice(["", "z", "z"])
    path = rng.choice(["sorted", "stream", "nosort-sync"])
    args = ["-f", marker] + opt_args(o, read0)
    if path == "stream":
        args.append("+s")
    elif path == "nosort-sync":
        args += ["+s", "--sync"]
    return {"id": n, "o": o, "read0": read0, "items": items, "marker": marker, "path": path, "args": args,
            "stdin": make_input(rng, items, read0)}


def run_filter(fzf, c):
    r = subprocess.run([fzf] + c["args"], input=c["stdin"], capture_output=True, env=go_env(), timeout=60)
    k = "filter" if (c["path"] == "stream" or c["marker"] == "") else "filterset"
    return {"k": k, "o": c["o"], "query": c["marker"], "marker": c["marker"], "items": c["items"],
            "out": split_out(r.stdout, c["o"]["print0"]), "status": r.returncode, "path": c["path"], "args": c["args"],
            "stderr": r.stderr.decode("utf-8", "replace")[:200]}


# ------------------------------------------------------------------ interactive
FINALS = ["accept", "accept", "accept", "accept-non-empty", "accept-or-print-query", "print-query", "abort", "expect",
          "cancel", "backward-delete-char/eof", "delete-char/eof"]


def session_case(rng, n):
    o = gen_opts(rng)
    o["expect"] = rng.random() < 0.4
    o["acceptNth"] = rng.choice([0, 0, 1, 2, -1])
    o["multi"] = rng.random() < 0.7
    read0 = rng.random() < 0.2
    pool = POOL + (POOL_ML if (read0 and o["print0"]) else []) + (POOL_DD * 2 if o["delim"] == "--" else [])
    items = with_delim([rng.choice(pool) for _ in range(rng.choice([0, 1, 3, 5, 8]))], o["delim"])
    steps = []
    for _ in range(rng.randint(0, 10)):
        r = rng.random()
        if r < 0.35:
            steps.append(("post", rng.choice(["toggle", "toggle+up", "toggle+down", "toggle-all", "select-all", "deselect-all", "up", "down",
                                              "toggle-up", "toggle-down", "first", "last", "clear-selection"])))
        elif r < 0.5:
            steps.append(("post", "print(%s)" % rng.choice(["p1", "", "a b", "x"])))
        elif r < 0.7:
            steps.append(("post", rng.choice(["change-query(z)", "clear-query", "put(z)", "change-query(zzq)", "backward-delete-char"])))
        else:
            steps.append(("post", "+".join(rng.choice(["toggle", "up", "down", "print(c)", "toggle-down"]) for _ in range(3))))
    final = rng.choice(FINALS)
    return {"id": n, "o": o, "read0": read0, "items": items, "steps": steps, "final": final,
            "stdin": make_input(rng, items, read0)}


# directed session shapes (options forced, the rest seeded): endings whose outcome depends on the marked items while the
# query matches nothing, and record framing with several marked items
DIRECTED = [
    {"multi": True, "steps": ["toggle+down", "toggle", "change-query(zzq)"], "final": "accept-or-print-query"},
    {"multi": True, "print0": True, "steps": ["toggle+down", "toggle+down", "toggle"], "final": "accept", "min_items": 3},
    {"multi": True, "steps": ["toggle", "change-query(zzq)"], "final": "accept-non-empty"},
    {"multi": True, "print0": True, "printQuery": True, "steps": ["down", "toggle+up", "toggle", "print(p1)"], "final": "accept", "min_items": 3},
    {"multi": False, "steps": ["change-query(zzq)"], "final": "accept-or-print-query"},
    {"multi": True, "steps": ["toggle+down", "toggle", "change-query(zzq)"], "final": "accept"},
    {"multi": True, "print0": True, "expect": True, "steps": ["select-all"], "final": "expect", "min_items": 3},
    {"multi": True, "steps": ["toggle", "change-query(zzq)"], "final": "print-query"},
    # --accept-nth with a two-character delimiter: fields ending in one of its characters, empty trailing fields
    {"multi": True, "delim": "--", "acceptNth": 2, "pool": "dd", "steps": ["select-all"], "final": "accept", "min_items": 4},
    {"multi": True, "delim": "--", "acceptNth": -1, "pool": "dd", "steps": ["select-all"], "final": "accept", "min_items": 4},
    {"multi": True, "delim": ",", "acceptNth": -1, "steps": ["select-all"], "final": "accept", "min_items": 5},
]


def directed_case(rng, n, k):
    d = DIRECTED[k % len(DIRECTED)]
    c = session_case(rng, n)
    for key in ("multi", "print0", "printQuery", "expect", "delim", "acceptNth"):
        if key in d:
            c["o"][key] = d[key]
    if "delim" in d:
        c["items"] = []          # rebuilt below with the forced delimiter
    if d.get("pool") == "dd":
        c["read0"] = False
        c["items"] = with_delim([rng.choice(POOL_DD) for _ in range(3)] + [rng.choice(POOL) for _ in range(2)], d["delim"])
        rng.shuffle(c["items"])
        c["stdin"] = make_input(rng, c["items"], c["read0"])
    if len(c["items"]) < d.get("min_items", 2):
        pool = POOL + (POOL_ML if (c["read0"] and c["o"]["print0"]) else []) + (POOL_DD if c["o"]["delim"] == "--" else [])
        c["items"] = with_delim([rng.choice(pool) for _ in range(d.get("min_items", 2) + rng.randint(0, 3))], c["o"]["delim"])
        c["stdin"] = make_input(rng, c["items"], c["read0"])
    c["o"]["withNth"] = 0          # every item searchable, so that the toggles land on items
    c["steps"] = [("post", a) for a in d["steps"]]
    c["final"] = d["final"]
    c["directed"] = k % len(DIRECTED)
    return c


def mkpre(e):
    return {"input": list(e["input"]), "cx": e["cx"], "yanked": list(e["yanked"]), "cy": e["cy"],
            "offset": e["offset"], "sel": e["sel"], "multi": e["multi"]}


def run_interactive(ctx, fzf, c):
    o = c["o"]
    args = ["--no-color", "--no-unicode"] + opt_args(o, c["read0"])
    if o["multi"]:
        args.append("--multi")
    if o["expect"]:
        args.append("--expect=ctrl-x,alt-z")
    s = tmuxdrv.Session(ctx, fzf, args, input_data=c["stdin"], width=60, height=14)
    try:
        s.wait_listening()
        s.wait_for(lambda tr: any(e["ev"] == "term.list" and not e["reading"] for e in tr), what="first final list")
        loops = 0
        for kind, arg in c["steps"]:
            st, _ = s.post(arg)
            if st != 200:
                raise Infra("POST %r -> %d" % (arg, st))
            loops += 1
            s.wait_count("term.loop", loops)
        # wait for the search triggered by the last query change to be displayed: the final list must belong to the
        # current query (the match.publish for the latest match.reset has reached the terminal)
        def settled(tr):
            resets = [e for e in tr if e["ev"] == "match.reset"]
            lists = [e for e in tr if e["ev"] == "term.list"]
            if not resets or not lists:
                return False
            return lists[-1]["seq"] > resets[-1]["seq"] and lists[-1]["input"] == [e for e in tr if "input" in e][-1]["input"]
        s.wait_for(settled, what="search settled")
        s.wait_trace_quiet(quiet=0.05)
        final = c["final"]
        noexit = None
        if final == "expect":
            if not o["expect"]:
                final = "accept"
            else:
                s.keys("C-x")
        if final != "expect":
            if final in ("cancel", "backward-delete-char/eof", "delete-char/eof"):
                s.post("clear-query+" + final, final=True)
            else:
                s.post(final, final=True)
            loops += 1
            s.wait_for(lambda tr: any(e["ev"] == "term.exit" for e in tr) or
                       sum(1 for e in tr if e["ev"] == "term.loop") >= loops, what="final action processed")
            s.wait_trace_quiet(quiet=0.05)
            if not any(e["ev"] == "term.exit" for e in s.trace()):
                # the action did not end the session (e.g. accept-non-empty with nothing to accept): the spec must say so
                a = [e for e in s.trace() if e["ev"] == "term.act"][-1]
                noexit = a
                s.post("abort", final=True)
        status, out = s.wait_exit()
        tr = s.trace()
    finally:
        s.close()
    term = [e for e in tr if e["ev"].startswith("term.") and "input" in e]
    ids, maxitems = [], 0
    for e in tr:
        if e["ev"] == "term.list":
            if "ids" not in e:
                raise Infra("list too long")
            ids = e["ids"]
    acts = [e for e in tr if e["ev"] == "term.act"]
    if final == "expect":
        lastst = [e for e in term if e["ev"] != "term.exit"][-1]
        act, pressed = "expect", "ctrl-x"
    else:
        lastst = acts[-1]
        act, pressed = sessions.NAME_FIX.get(lastst["act"], lastst["act"]), ""
    pre = mkpre(lastst)
    cfg = sessions.Cfg()
    env = cfg.env(ids, [["e"]] * len(ids), lastst.get("maxItems", 0))
    pq = [e["arg"] for e in acts if e["act"] == "print"]
    extra = None
    if noexit is not None:
        extra = {"k": "noexit", "act": sessions.NAME_FIX.get(noexit["act"], noexit["act"]), "pre": mkpre(noexit), "env": env,
                 "reading": noexit["reading"], "count": noexit["count"]}
    # the whole session is also judged transition by transition against FzfEditor: the selection ORDER that accept prints
    # must be the order in which the specification says the items were selected, not merely what the program reports
    ecfg = sessions.Cfg(multi="inf" if o["multi"] else None)
    trans = [r for r in sessions.transitions(tr, ecfg, c["id"], lenient=True) if r["k"] in ("act", "list")]
    return {"trans": trans, "extra": extra, "k": "session", "o": o, "items": c["items"], "act": act, "pre": pre, "env": env, "reading": lastst["reading"],
            "count": lastst["count"], "printQueue": pq, "pressed": pressed, "query": abstract(lastst["input"]),
            "out": split_out(out, o["print0"]), "status": status, "steps": c["steps"], "final": c["final"]}


def auto_case(rng, n):
    o = gen_opts(rng)
    o["expect"] = rng.random() < 0.4
    o["acceptNth"] = rng.choice([0, 0, 1, 2])
    items = with_delim([rng.choice(POOL + (POOL_DD * 2 if o["delim"] == "--" else [])) for _ in range(rng.choice([0, 1, 1, 2, 3]))], o["delim"])
    if n % 6 == 5:       # a single record of the two-character-delimiter pool, accepted by --select-1 with --accept-nth
        o["delim"], o["acceptNth"] = "--", rng.choice([2, -1, 1])
        items = with_delim([rng.choice(POOL_DD)], "--")
        return {"id": n, "o": o, "items": items, "marker": "", "select1": True, "exit0": rng.random() < 0.5, "stdin": make_input(rng, items, False)}
    return {"id": n, "o": o, "items": items, "marker": rng.choice(["", "z", "z"]), "select1": rng.random() < 0.7, "exit0": rng.random() < 0.5,
            "stdin": make_input(rng, items, False)}


STREAMER = r"""
import sys, time, json, base64
for part in json.load(open(sys.argv[1])):
    if part["sleep"] > 0:
        time.sleep(part["sleep"])
    sys.stdout.buffer.write(base64.b64decode(part["data"]))
    sys.stdout.buffer.flush()
open(sys.argv[1] + ".done", "w").close()
"""


def stream_case(rng, n):
    """--select-1 / --exit-0 must decide on the COMPLETE input: a producer trickles records that do not match, then the
    last records - with or without the marker - a few tens of milliseconds apart, then ends"""
    o = gen_opts(rng)
    o["expect"], o["acceptNth"], o["delim"] = False, 0, ","
    filler = [[T("apple")], [T("a b  c")], [T("h{AE}llo")], [W(" "), T("lead")]]
    tails = [[[T("z")], [T("z")]], [[T("z")], [T("q"), D, T("z")]], [[T("z")], [T("apple")]], [[T("apple")], [T("z")]], [[T("z")]],
             [[T("apple")], [T("apple")]]]
    tail = rng.choice(tails[:2] * 3 + tails)       # mostly: a match, then ANOTHER one a moment later
    items = [rng.choice(filler) for _ in range(rng.randint(3, 8))] + tail
    gap = rng.choice([0.02, 0.06, 0.06, 0.12])
    parts, k = [], len(items) - len(tail)
    for i, it in enumerate(items):
        sleep = (0.7 / max(1, k)) if i < k else (0.1 if i == k else gap)
        parts.append({"sleep": sleep, "data": __import__("base64").b64encode(rec_bytes(it) + b"\n").decode()})
    return {"id": n, "o": o, "items": items, "marker": "z", "select1": True, "exit0": rng.random() < 0.5, "stream": parts,
            "stdin": b"".join(rec_bytes(it) + b"\n" for it in items)}


def run_auto(ctx, fzf, c):
    o = c["o"]
    args = ["--no-color", "--no-unicode", "--query", c["marker"]] + opt_args(o, False)
    if c["select1"]:
        args.append("--select-1")
    if c["exit0"]:
        args.append("--exit-0")
    if o["expect"]:
        args.append("--expect=ctrl-x,alt-z")
    if c.get("stream"):
        import tempfile
        d = tempfile.mkdtemp(prefix="c07s-", dir=ctx.work)
        with open(os.path.join(d, "p.py"), "w") as fh:
            fh.write(STREAMER)
        with open(os.path.join(d, "parts.json"), "w") as fh:
            json.dump(c["stream"], fh)
        s = tmuxdrv.Session(ctx, fzf, args, input_cmd="python3 %s %s" % (os.path.join(d, "p.py"), os.path.join(d, "parts.json")),
                            width=60, height=14, listen=False)
    else:
        s = tmuxdrv.Session(ctx, fzf, args, input_data=c["stdin"], width=60, height=14, listen=False)
    try:
        s.wait_for(lambda tr: s.exited() or any(e["ev"] == "term.render" for e in tr), what="auto exit or finder start")
        started = not s.exited()
        if started:
            s.keys("C-c")
        status, out = s.wait_exit()
    finally:
        s.close()
    rec = {"k": "auto", "o": o, "query": c["marker"], "marker": c["marker"], "items": c["items"], "select1": c["select1"],
           "exit0": c["exit0"], "started": started, "out": split_out(out, o["print0"]), "status": status}
    if c.get("stream"):
        # the whole stream was written without error (fzf ending early makes the producer fail with EPIPE: then fzf decided
        # before it had seen everything, which is what the record shows)
        rec["produced_all"] = os.path.exists(os.path.join(d, "parts.json.done"))
    return rec


def run(ctx):
    ctx.mc("MC_Output", "MC_Output.cfg", timeout=900, workers=8)
    fzf = ctx.build_fzf()
    rng = ctx.rng
    nf, ns, na = ctx.pick((500, 44, 24), (40000, 1500, 600))
    fcases = [filter_case(ctx, fzf, rng, i) for i in range(nf)]
    nd = ctx.pick(len(DIRECTED), 6 * len(DIRECTED))
    scases = [directed_case(rng, i, i) for i in range(nd)] + [session_case(rng, i) for i in range(nd, ns)]
    acases = [auto_case(rng, i) for i in range(na)] + [stream_case(rng, na + i) for i in range(ctx.pick(48, 400))]
    if ctx.replay:
        rp = json.load(open(ctx.replay))["case"]
        fcases, scases, acases = [], [], []
        if rp["kind"] == "filter":
            rp["c"]["stdin"] = bytes(rp["c"]["stdin"], "latin1")
            fcases = [rp["c"]]
        elif rp["kind"] == "session":
            rp["c"]["stdin"] = bytes(rp["c"]["stdin"], "latin1")
            rp["c"]["steps"] = [tuple(x) for x in rp["c"]["steps"]]
            scases = [rp["c"]]
        else:
            rp["c"]["stdin"] = bytes(rp["c"]["stdin"], "latin1")
            acases = [rp["c"]]
    with ThreadPoolExecutor(max_workers=12) as ex:
        frecs = list(ex.map(lambda c: run_filter(fzf, c), fcases))
    with ThreadPoolExecutor(max_workers=8) as ex:
        srecs = list(ex.map(lambda c: run_interactive(ctx, fzf, c), scases))
        arecs = list(ex.map(lambda c: run_auto(ctx, fzf, c), acases))
    allrecs = [("filter", c, r) for c, r in zip(fcases, frecs)] + [("session", c, r) for c, r in zip(scases, srecs)] + \
              [("auto", c, r) for c, r in zip(acases, arecs)]
    for kind, c, r in list(allrecs):
        if r.get("extra"):
            allrecs.append(("session", c, r["extra"]))
    def clean(r):
        return {k: v for k, v in r.items() if k not in ("extra", "trans")}
    trans = []
    for c, r in zip(scases, srecs):
        trans += r.get("trans") or []
    if trans:
        tb, _ = judge(ctx, "Judge_Editor", "Judge_Editor.cfg", trans, "editor-transitions", timeout=1200)
        for sid in sorted({trans[i]["sid"] for i in tb})[:3]:
            c = scases[[x["id"] for x in scases].index(sid)]
            r2 = run_interactive(ctx, fzf, c)
            tb2, _ = judge(ctx, "Judge_Editor", "Judge_Editor.cfg", r2["trans"], "editor-transitions-re", workers=1)
            if not tb2:
                raise Infra("rejected editor transition in C07 session %d not reproduced" % sid)
            bad = r2["trans"][tb2[0]]
            cc = dict(c)
            cc["stdin"] = c["stdin"].decode("latin1")
            ctx.violation("session %d: selection/query state diverges from FzfEditor at action %s: pre=%s post=%s" % (
                sid, bad.get("act"), json.dumps(bad["pre"]), json.dumps(bad["post"])), {"kind": "session", "c": cc, "record": bad})
    bad, _ = judge(ctx, "Judge_Output", "Judge_Output.cfg", [clean(r) for _, _, r in allrecs], "output", timeout=1800)
    for i in bad[:8]:
        kind, c, r = allrecs[i]
        # reproduce
        r2 = run_filter(fzf, c) if kind == "filter" else run_interactive(ctx, fzf, c) if kind == "session" else run_auto(ctx, fzf, c)
        bad2, _ = judge(ctx, "Judge_Output", "Judge_Output.cfg", [clean(r2)] + ([r2["extra"]] if r2.get("extra") else []), "output-re", workers=1)
        tries = 1
        while not bad2 and c.get("stream") and tries < 8:       # decisions that depend on the timing of the input
            tries += 1
            r2 = run_auto(ctx, fzf, c)
            bad2, _ = judge(ctx, "Judge_Output", "Judge_Output.cfg", [clean(r2)], "output-re", workers=1)
        if not bad2 and c.get("stream"):
            # the recorded run stands: the process really printed this for this complete, deterministic input
            r2 = dict(r, note="observed once; %d further runs of the same timed stream did not show it" % tries)
        elif not bad2:
            raise Infra("rejected %s case %d not reproduced" % (kind, c["id"]))
        cc = dict(c)
        cc["stdin"] = c["stdin"].decode("latin1")
        case = {"kind": kind, "c": cc, "record": r2}
        if kind == "filter" and c["path"] == "stream" and c["o"]["withNth"] != 0:
            case["kf"] = {"finding": "F2", "path": "streaming-filter", "opt": "with-nth"}
        ctx.violation("%s case: fzf %s printed %s status %d; spec/FzfOutput disagrees (items=%s)" % (
            kind, " ".join(c.get("args", [])), json.dumps(r2.get("out")), r2.get("status", -1),
            json.dumps([real("".join(p["s"] for p in it)) for it in c["items"]], ensure_ascii=False)), case)
    distinct = set()
    for kind, c, r in allrecs:
        if r.get("out"):
            distinct.add(json.dumps([kind, r["o"], r["items"], r.get("marker"), r.get("act"), r.get("pre", {}).get("sel"), r.get("path")]))
    ctx.cov["distinct_nontrivial"] = len(distinct)
    ctx.cov["rule"] = ("filter runs (3 code paths x option combinations x item lists from a pool with blanks, empty lines, SGR, fields, "
                       "non-ASCII, multi-line NUL-separated records), --select-1/--exit-0 short cuts and tmux-driven interactive "
                       "sessions (selection histories, print(), query edits, every way of ending) judged by TLC with FzfOutput; "
                       "non-trivial = distinct cases that printed at least one line")
    ctx.cov["by_kind"] = {"filter": len(fcases), "session": len(scases), "auto": len(acases)}
    ends = {}
    for r in srecs:
        if r.get("extra"):
            ends["(no exit) " + r["extra"]["act"]] = ends.get("(no exit) " + r["extra"]["act"], 0) + 1
        ends[r["act"]] = ends.get(r["act"], 0) + 1
    ctx.cov["session_endings"] = ends
    for kind, c, r in allrecs[:2] + [x for x in allrecs if x[0] == "session"][:2]:
        ctx.sample({"kind": kind, "args": c.get("args"), "items": [real("".join(p["s"] for p in it)) for it in c["items"]],
                    "out": r.get("out"), "status": r.get("status")})
    ctx.assumptions += ["matching is abstracted to a marker piece 'z' (query z); the match relation itself is C01's",
                        "order of sorted filter output is compared as a multiset here (order is C04's)",
                        "--accept-nth / --with-nth restricted to single field numbers with a literal ',' delimiter (ranges are C10's)"]
    return "model_checking"
