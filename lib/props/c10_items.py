"""Presentation of items under --with-nth at the process boundary (C10's subject; spec/FzfItems.tla SearchText):
what `fzf --filter` SEARCHES when --with-nth is given - the selected fields / the expanded template, escape sequences removed
under --ansi, white space at the end dropped - observed with case-sensitive literal exact queries on the unranked filter paths.
Shares its machinery with the content part of C06 (lib/props/c06_items.py) but is NOT part of C06's verdict.

    presentation_part(ctx) -> number of non-trivial cases

  E  Gen_Items with Part = "presentation": --with-nth form x delimiter x --ansi x block of all records up to L symbols x
     non-empty query, predicted stdout + exit status compared byte for byte on `+s` and `+s --sync`;
  J  random records / specifications / delimiters / queries judged by Judge_Items.
The named deviation AnsiTokenPrefix of FzfItems (under --ansi a template expression that ends in the record's empty last field
keeps its trailing delimiter; core.go:114-128) is reported as a violation with
kf = {"site": "core.Run/with-nth builder", "kind": "ansi-token-prefix-blocks-delimiter-strip", "ansi": True, "template": True}."""
import props.c06_items as items


def presentation_part(ctx):
    fzf = ctx.build_fzf()
    n = items.bind_export(ctx, fzf, part="presentation")
    n += items.bind_random(ctx, fzf, part="presentation")
    ctx.assumptions.append(
        "presentation under --with-nth (FzfItems.SearchText): escape sequences are two atoms (ESC[35m, ESC[m); observed through "
        "case-sensitive literal exact queries (-e +i --literal [+x]) on the unranked filter paths only")
    return n
