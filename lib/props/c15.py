"""C15 - the screen shows the actual state (spec/FzfScreen.tla, spec/Judge_Screen.tla).

MC: FzfScreen's placement and row claims on small constants.  J: real fzf (-tags verif) in a tmux pane is driven
through editor behaviours (C09's stimuli: action chains, real keys) plus resizes; at every settle point the screen
is captured (tmux capture-pane) next to the state the hooks logged, and TLC decides rows = Render(state, geometry, cfg).
Python only drives, waits for the trace to settle, and splits strings into cells.
"""
import json, time, unicodedata, threading
from concurrent.futures import ThreadPoolExecutor
import sessions, tmuxdrv
from vlib import Infra, judge
from props import c09

ASCII_POOL = [
    "alpha", "beta", "gamma delta", "a", "", "ab", "a c", "b-a", "cab", "abc", "a/b/c", "A1/b", "x.y", "{curly} [sq] (par)",
    "it's \"quoted\"", "back\\slash", "> looks like a pointer", ">>", "  two leading blanks", "trail  ", "..", "a..", "~tilde",
    "0123456789", "the quick brown fox jumps", "the quick brown fox jumps over the lazy dog",
    "a somewhat longer line that will not fit into a narrow window at all, not even close",
    "abcdefghijklmnopqrstuvwxyzABCDEFGHIJKLMNOPQRSTUVWXYZ0123456789abcdefghijklmnopqrstuvwxyzABCDEFGHIJKLMNOPQRSTUVWXYZ",
    "exactly seventeen", "exactly eighteen..", "sixteen chars ab", "nineteen characters", "b a", "c-c", "1-2", "e", "ae", "ba ab",
    "path/to/some/file.txt", "path/to/another/deeper/directory/structure/file.go", "x" * 27, "y" * 28, "z" * 29, "w" * 47,
    "v" * 77, "u" * 78, "t" * 79, "#!$%&*+,-:;<=>?@^_`|",
]
UNI_POOL = ["\u6f22\u5b57", "a\u6f22b", "\u00e9tude", "\u00e1 \u00e9", "\ud55c\uae00 hangul", "\uff21\uff22 fullwidth",
            "\u6f22" * 45, "ab" + "\u6f22\u5b57" * 20 + "cd", "x" * 16 + "\u6f22" + "yyy", "x" * 17 + "\u6f22" + "yyy",
            "no\u0308e\u0301l " * 12, "e\u0301", "b-\u00e1", "\u6f22a"]      # wide, precomposed, combining marks
HEADERS = [None, None, "HEAD", "first header line\nsecond", "a header line that is much too long for most of the windows used in these sessions",
           "H1\nH2\nH3"]
SIZES_W = [20, 21, 24, 30, 37, 50, 64, 80]
SIZES_H = [4, 5, 6, 7, 8, 10, 12, 16, 24]


def cells(s):
    return list(s)


def width_table(texts):
    wide, zero = set(), set()
    for t in texts:
        for ch in t:
            if unicodedata.east_asian_width(ch) in ("W", "F"):
                wide.add(ch)
            elif unicodedata.category(ch) in ("Mn", "Me", "Cf"):
                zero.add(ch)
    return sorted(wide), sorted(zero)


class SCfg:
    """A session configuration: fzf arguments and the configuration record of FzfScreen."""
    FIELDS = ("layout", "info", "sep", "header", "nhl", "header_first", "inputless", "prompt", "pointer", "marker",
              "ellipsis", "multi", "cycle", "scroll_off", "disabled")

    def __init__(self, **kw):
        for f in self.FIELDS:
            setattr(self, f, kw[f])

    def to_json(self):
        return {f: getattr(self, f) for f in self.FIELDS}

    def base(self):
        extra = []
        if self.info != "default":
            extra.append("--info=" + self.info)
        if not self.sep:
            extra.append("--no-separator")
        if self.header is not None:
            extra.append("--header=" + self.header)
        if self.nhl:
            extra.append("--header-lines=%d" % self.nhl)
        if self.header_first:
            extra.append("--header-first")
        if self.prompt is not None:
            extra.append("--prompt=" + self.prompt)
        if self.pointer is not None:
            extra.append("--pointer=" + self.pointer)
        if self.marker is not None:
            extra.append("--marker=" + self.marker)
        if self.ellipsis is not None:
            extra.append("--ellipsis=" + self.ellipsis)
        return sessions.Cfg(layout=self.layout, cycle=self.cycle, multi=self.multi, scroll_off=self.scroll_off,
                            inputless=self.inputless, disabled=self.disabled, extra=extra)

    def args(self):
        return self.base().args()

    def describe(self):
        return " ".join(self.args())

    def spec(self, items):
        return {"layout": self.layout, "info": self.info, "sep": self.sep,
                "header": [cells(x) for x in self.header.split("\n")] if self.header is not None else [],
                "hlines": [cells(x) for x in (items[:self.nhl] + [""] * self.nhl)[:self.nhl]], "headerFirst": self.header_first, "inputless": self.inputless,
                "prompt": cells("> " if self.prompt is None else self.prompt),
                "pointer": cells(">" if self.pointer is None else self.pointer),
                "marker": cells(">" if self.marker is None else self.marker),
                "ellipsis": cells(".." if self.ellipsis is None else self.ellipsis)}


def make_cfg(rng):
    info = rng.choice(["default", "default", "inline", "hidden", "right", "inline-right"])
    ptr, mrk = rng.choice([(None, None), (None, None), ("=>", "*"), ("*", "++"), ("->", None)])
    return SCfg(layout=rng.choice(["default", "reverse", "reverse-list"]), info=info, sep=rng.random() < 0.7,
                header=rng.choice(HEADERS), nhl=rng.choice([0, 0, 1, 2]), header_first=rng.random() < 0.3,
                inputless=rng.random() < 0.08, prompt=rng.choice([None, None, None, "$ ", "Q: "]), pointer=ptr, marker=mrk,
                ellipsis=rng.choice([None, None, None, "~", "...", ""]), multi=rng.choice([None, 1, 2, 3, "inf", "inf"]),
                cycle=rng.random() < 0.5, scroll_off=rng.choice([None, 0, 1, 5]), disabled=rng.random() < 0.4)


def make_steps(rng, n, multi, w, h):
    """C09's stimuli (action chains, real keys, typed characters) interleaved with resizes and long queries."""
    steps = []
    for st in c09.random_steps(rng, n, multi):
        r = rng.random()
        if r < 0.10:
            w2, h2 = w, h
            while (w2, h2) == (w, h):
                w2, h2 = rng.choice(SIZES_W), rng.choice(SIZES_H)
            w, h = w2, h2
            steps.append(("resize", [w, h]))
        elif r < 0.14:
            steps.append(("post", "put(%s)" % rng.choice(["abcabcabcabc", "a b a b a b ", "cab-cab-cab/"])))
        elif r < 0.17:
            steps.append(("post", rng.choice(["select-all", "toggle-all", "last", "first", "pos(7)", "pos(-2)", "clear-query"])))
        steps.append(st)
    return steps


# ------------------------------------------------------------------------------------------------ driving one session
VIEW = ("input", "cy", "offset", "sel", "multi", "n", "count", "reading", "maxItems", "track", "xoffset")


def view(e):
    return [e.get(k) for k in VIEW]


def settle(s, slow):
    """Waits until the trace is quiet, no redraw is pending and two captures taken `gap` apart are identical with no
    trace growth in between.  Returns (trace prefix, screen rows)."""
    gap = 0.4 if slow else 0.03
    patience = 15.0 if slow else 3.0            # for a redraw that has been requested but not yet flushed
    t0 = time.time()
    tp = None
    while True:
        if time.time() - t0 > 120:
            raise Infra("screen never settled; last events: %s" % json.dumps(s.trace()[-3:])[:800])
        s.wait_trace_quiet(quiet=0.25 if slow else 0.02, timeout=90)
        tr = s.trace()
        n = len(tr)
        term = [e for e in tr if e["ev"].startswith("term.") and "cy" in e]
        if any(e["ev"] == "term.exit" for e in term):
            return None, None
        flushes = [e for e in term if e["ev"] == "term.render" and e["what"] == "flush"]
        if not flushes:
            time.sleep(0.01)
            continue
        if "lines" not in flushes[-1] or "xoffset" not in flushes[-1]:
            raise Infra("the trace hooks of this tree do not log cols/lines/xoffset")
        if (flushes[-1]["cols"], flushes[-1]["lines"]) != pane_size(s):
            time.sleep(0.005)       # fzf has not laid itself out for the current pane size yet (resize in flight)
            continue
        if view(term[-1]) != view(flushes[-1]):
            # the state changed after the last flush: a redraw should be on its way
            tp = tp or time.time()
            if time.time() - tp < patience:
                time.sleep(0.005)
                continue
        c1 = s.capture()
        time.sleep(gap)
        c2 = s.capture()
        if c1 == c2 and len(s.trace()) == n:
            return tr[:n], c1


def pane_size(s):
    out = s.tmux("display-message", "-p", "-t", "s", "#{pane_width} #{pane_height}").split()
    return int(out[0]), int(out[1])


def snapshot(s, scfg, items, step, sid, slow, stats):
    tr, rows = settle(s, slow)
    if tr is None:
        return None
    term = [e for e in tr if e["ev"].startswith("term.") and "cy" in e]
    last = term[-1]
    w, h = pane_size(s)
    lists = [e for e in term if e["ev"] == "term.list"]
    if not lists or "ids" not in lists[-1] or last["reading"] or last["n"] != len(lists[-1]["ids"]):
        stats["skipped"] = stats.get("skipped", 0) + 1
        return None
    ids, texts = lists[-1]["ids"], lists[-1].get("texts") or []
    rows = [r.rstrip(" ") for r in rows]
    wide, zero = width_table(items + rows + [last["input"]] + ([scfg.header] if scfg.header else []))
    return {"sid": sid, "step": step, "seq": last["seq"], "w": w, "h": h, "wide": wide, "zero": zero, "cfg": scfg.spec(items),
            "st": {"input": cells(last["input"]), "cx": last["cx"], "xoffset": last["xoffset"], "list": ids, "texts": [cells(t) for t in texts],
                   "sel": last["sel"], "multi": last["multi"], "cy": last["cy"], "offset": last["offset"], "count": last["count"], "track": last["track"]},
            "maxItems": last["maxItems"], "orig": [cells(items[i + scfg.nhl]) if 0 <= i + scfg.nhl < len(items) else None for i in ids],
            "rows": [cells(r) for r in rows]}


def start_session(ctx, fzf, scfg, items, width, height):
    """Starts fzf in a tmux pane and waits for the first complete list; one retry (the box is shared: a start can stall)."""
    for attempt in (0, 1):
        s = tmuxdrv.Session(ctx, fzf, scfg.args(), input_data="".join(i + "\n" for i in items), width=width, height=height)
        try:
            s.wait_listening(timeout=45 if attempt == 0 else 150)
            s.wait_for(lambda tr: any(e["ev"] == "term.list" and not e["reading"] for e in tr), timeout=45 if attempt == 0 else 150,
                       what="first final list")
            return s
        except Infra:
            s.close()
            if attempt == 1:
                raise


def run_session(ctx, fzf, sid, scfg, items, steps, width, height, slow=False, stats=None):
    stats = stats if stats is not None else {}
    recs = []
    s = start_session(ctx, fzf, scfg, items, width, height)
    try:
        r = snapshot(s, scfg, items, -1, sid, slow, stats)
        if r:
            recs.append(r)
        for ix, (kind, arg) in enumerate(steps):
            if s.exited() or any(e["ev"] == "term.exit" for e in s.trace()):
                break
            n_loop = s.count("term.loop")
            n_flush = s.count("term.render", lambda e: e["what"] == "flush")
            if kind == "resize":
                if (arg[0], arg[1]) == pane_size(s):
                    continue
                s.resize(arg[0], arg[1])
                s.wait_for(lambda tr: sum(1 for e in tr if e["ev"] == "term.render" and e["what"] == "flush") > n_flush,
                           timeout=120, what="redraw after resize")
            else:
                if kind == "post":
                    try:
                        st, _ = s.post(arg, timeout=60)
                    except OSError:
                        time.sleep(0.3)
                        if s.exited():
                            break
                        raise Infra("POST %r failed while fzf is alive" % arg)
                    if st != 200:
                        raise Infra("POST %r -> %d" % (arg, st))
                elif kind == "key":
                    s.keys(arg)
                else:
                    s.keys(arg, literal=True)
                s.wait_for(lambda tr: sum(1 for e in tr if e["ev"] == "term.loop") > n_loop or
                           any(e["ev"] == "term.exit" for e in tr), timeout=120, what="loop after step %d" % ix)
            r = snapshot(s, scfg, items, ix, sid, slow, stats)
            if r:
                recs.append(r)
        if not s.exited() and not any(e["ev"] == "term.exit" for e in s.trace()):
            s.post("abort", final=True)
            s.wait_exit(timeout=120)
        return recs
    finally:
        s.close()



# ------------------------------------------------------------------------------------------------ E: spec -> code
def e_groups(cases):
    """Cases exported by TLC (Gen_Screen.cfg) grouped into sessions: one per (configuration, item list)."""
    groups = {}
    for c in cases:
        groups.setdefault(json.dumps([c["cfg"], c["items"]], sort_keys=True), []).append(c)
    out = []
    for k in sorted(groups):
        out.append(sorted(groups[k], key=lambda c: (c["w"], c["h"], json.dumps(c["st"], sort_keys=True))))
    return out


def e_cfg(c):
    return SCfg(layout=c["layout"], info=c["info"], sep=c["sep"], header="\n".join("".join(x) for x in c["header"]) if c["header"] else None,
                nhl=len(c["hlines"]), header_first=c["headerFirst"], inputless=c["inputless"], prompt=None, pointer=None, marker=None,
                ellipsis=None, multi="inf", cycle=False, scroll_off=0, disabled=True)


def e_actions(st):
    """Action list that puts the finder into the exported state (list = all items, search disabled)."""
    acts = ["deselect-all", "change-multi" if st["multi"] == 2147483647 else "change-multi(%d)" % st["multi"],
            "change-query(%s)" % "".join(st["input"]) if st["input"] else "clear-query"]
    for i in st["sel"]:
        acts += ["pos(%d)" % (st["list"].index(i) + 1), "select"]
    acts += ["pos(1)", "pos(%d)" % (st["cy"] + 1)]
    return "+".join(acts)


def e_expected(case):
    st = case["st"]
    # --no-input: the query cannot be edited and is not displayed
    return {"rows": case["rows"], "input": None if case["cfg"]["inputless"] else st["input"], "cy": st["cy"], "offset": st["offset"], "multi": st["multi"], "count": st["count"],
            "sel": [st["list"].index(i) for i in st["sel"]], "n": len(st["list"])}


def e_session(ctx, fzf, sid, group, slow=False):
    """Runs one group of cases; returns [(case, got)] where got has the shape of e_expected."""
    c0 = group[0]
    scfg = e_cfg(c0["cfg"])
    items = ["".join(x) for x in c0["cfg"]["hlines"]] + ["".join(x) for x in c0["items"]]
    out = []
    s = start_session(ctx, fzf, scfg, items, c0["w"], c0["h"])
    stats = {}
    try:
        for case in group:
            if pane_size(s) != (case["w"], case["h"]):
                n_loop = s.count("term.loop")
                s.post("pos(1)", timeout=60)
                s.wait_count("term.loop", n_loop + 1, timeout=120)
                settle(s, slow)
                n_flush = s.count("term.render", lambda e: e["what"] == "flush")
                s.resize(case["w"], case["h"])
                s.wait_for(lambda tr: sum(1 for e in tr if e["ev"] == "term.render" and e["what"] == "flush") > n_flush,
                           timeout=120, what="redraw after resize")
            n_loop = s.count("term.loop")
            st, _ = s.post(e_actions(case["st"]), timeout=60)
            if st != 200:
                raise Infra("POST -> %d" % st)
            s.wait_count("term.loop", n_loop + 1, timeout=120)
            r = snapshot(s, scfg, items, 0, sid, slow, stats)
            if r is None:
                raise Infra("E session %d: no settled screen" % sid)
            if (r["w"], r["h"]) != (case["w"], case["h"]):
                raise Infra("E session %d: pane is %dx%d, wanted %dx%d" % (sid, r["w"], r["h"], case["w"], case["h"]))
            out.append((case, {"rows": r["rows"], "input": None if case["cfg"]["inputless"] else r["st"]["input"], "cy": r["st"]["cy"], "offset": r["st"]["offset"],
                               "multi": r["st"]["multi"], "count": r["st"]["count"], "sel": sorted(r["st"]["sel"]),
                               "n": len(r["st"]["list"])}, r))
        s.post("abort", final=True)
        s.wait_exit(timeout=120)
        return out
    finally:
        s.close()


def run_e(ctx, fzf):
    gen = ctx.tlc("MC_Screen", ctx.pick("Gen_Screen_q.cfg", "Gen_Screen.cfg"), workers=4, timeout=1200, label="gen")
    cases = gen.json_items("CASE")
    if len(cases) < 1000:
        raise Infra("TLC exported only %d cases" % len(cases))
    groups = e_groups(cases)
    ngroups = len(groups)
    if ctx.quick:
        groups = ctx.rng.sample(groups, 14)
    # a seeded half of each configuration's cases (16 quick)
    groups = [sorted(ctx.rng.sample(g, min(len(g), ctx.pick(16, 24))), key=lambda c: (c["w"], c["h"])) for g in groups]
    results = {}

    def do(ix):
        return ix, e_session(ctx, fzf, 1000 + ix, groups[ix])
    with ThreadPoolExecutor(max_workers=6) as ex:
        for ix, res in ex.map(do, range(len(groups))):
            results[ix] = res
    total = bad_groups = 0
    seen_bad = []
    for ix in sorted(results):
        bad = [(c, got) for c, got, _ in results[ix] if got != e_expected(c)]
        total += len(results[ix])
        if bad:
            seen_bad.append(ix)
    for ix in seen_bad[:4]:
        # reproduce: the same group again, settling slowly
        res2 = e_session(ctx, fzf, 2000 + ix, groups[ix], slow=True)
        bad2 = [(c, got, r) for c, got, r in res2 if got != e_expected(c)]
        if not bad2:
            raise Infra("E group %d: mismatch not reproduced" % ix)
        c, got, rec = bad2[0]
        exp = e_expected(c)
        if {k: got[k] for k in got if k != "rows"} != {k: exp[k] for k in exp if k != "rows"}:
            raise Infra("E group %d: could not put fzf into the exported state: want %s got %s" % (
                ix, json.dumps({k: exp[k] for k in exp if k != "rows"}), json.dumps({k: got[k] for k in got if k != "rows"})))
        scfg = e_cfg(c["cfg"])
        what = "%s, %dx%d, state %s: the specification predicts the screen\n%s\nbut the terminal shows\n%s" % (
            scfg.describe(), c["w"], c["h"], json.dumps({k: exp[k] for k in exp if k != "rows"}),
            "\n".join("".join(x) for x in exp["rows"]), "\n".join("".join(x) for x in got["rows"]))
        # let the specification name the rejection (a named deviation or not)
        _, jres = judge(ctx, "Judge_Screen", "Judge_Screen.cfg", [rec], "screen-e%d" % ix, workers=2)
        v = verdicts(jres).get(0, "replay")
        ctx.violation(what + "\n[%s]" % v, {"e_case": c, "got": got, "record": rec, "verdict": v, "kf": classify(rec, v)})
    ctx.cov["traces_validated_against_impl"] += total
    ctx.cov["evaluations"] += total
    ctx.cov["e_cases_exported"] = len(cases)
    ctx.cov["e_cases_replayed"] = total
    ctx.cov["e_sessions"] = len(groups)
    ctx.cov["e_configurations"] = ngroups
    return total

# ------------------------------------------------------------------------------------------------ the check
def make_jobs(ctx):
    rng = ctx.rng
    jobs = []
    nsess = ctx.pick(30, 300)
    for k in range(nsess):
        scfg = make_cfg(rng)
        n = rng.choice([0, 1, 2, 3, 5, 9, 14, 25, 40, 60])
        pool = ASCII_POOL if k % 4 else ASCII_POOL + UNI_POOL * 3
        items = [rng.choice(pool) for _ in range(n)]
        w, h = rng.choice(SIZES_W), rng.choice(SIZES_H)
        jobs.append((scfg, items, make_steps(rng, rng.randint(ctx.pick(10, 14), ctx.pick(22, 34)), scfg.multi, w, h), w, h))
    return jobs


def classify(rec, verdict):
    """Signature of a rejected screen (for known_findings.json).  A named deviation of the specification (verdict
    "known <kind>", decided by TLC) gets the signature of that finding; anything else describes the rejection."""
    c = rec["cfg"]
    if verdict.startswith("known "):
        return {"site": "printInfoImpl", "kind": verdict.split()[1]}
    return {"site": "terminal.render", "verdict": verdict.split()[0] if verdict else "", "claims": sorted(verdict.split()[1:]),
            "layout": c["layout"], "info": c["info"]}


def verdicts(res):
    out = {}
    for x in res.raw_items("MISMATCH"):
        ix, _, v = x.partition(",")
        out[int(ix.strip()) - 1] = v.strip().strip('"').strip()
    return out


def run(ctx):
    # (1) the design: placement, claims and truncation on small constants
    mcs = (["MC_Screen_place_q.cfg", "MC_Screen_q.cfg", "MC_Screen_cut_q.cfg"] if ctx.quick else
           ["MC_Screen_place.cfg", "MC_Screen.cfg", "MC_Screen_cut.cfg"])
    for cfgname in mcs:
        ctx.mc("MC_Screen", cfgname, timeout=2400, workers=6, coverage=True)
    taken = {}
    for label, cov in ctx.cov["action_coverage"].items():
        acts = {a: n for a, n in cov.items() if a.startswith("MC_Screen.A")}
        if not any(acts.values()):
            raise Infra("%s: no step of the state machine was taken" % label)
        for a, n in acts.items():
            taken[a] = taken.get(a, 0) + n
    never = sorted(a for a, n in taken.items() if n == 0)
    if never or len(taken) < 5:
        raise Infra("MC_Screen: steps never taken in any configuration: %s (seen %s)" % (never, sorted(taken)))
    # (2) real sessions
    fzf = ctx.build_fzf()
    if not ctx.replay:
        run_e(ctx, fzf)
    jobs = make_jobs(ctx)
    if ctx.replay:
        c = json.load(open(ctx.replay))["case"]["session"]
        jobs = [(SCfg(**c["cfg"]), c["items"], [tuple(x) for x in c["steps"]], c["width"], c["height"])]
    stats = {}
    lock = threading.Lock()

    def do(ix):
        scfg, items, steps, w, h = jobs[ix]
        st = {}
        recs = run_session(ctx, fzf, ix, scfg, items, steps, w, h, stats=st)
        with lock:
            stats["skipped"] = stats.get("skipped", 0) + st.get("skipped", 0)
        return recs
    records = []
    with ThreadPoolExecutor(max_workers=6) as ex:
        for recs in ex.map(do, range(len(jobs))):
            records += recs
    if not records:
        raise Infra("no screens recorded")
    # (3) TLC judges every recorded screen
    bad, res = judge(ctx, "Judge_Screen", "Judge_Screen.cfg", records, "screen", timeout=3000, workers=8)
    vd = verdicts(res)
    # sessions whose rejection is not a named deviation first, so that a known finding can never crowd out a new one
    unknown = sorted({records[i]["sid"] for i in bad if not vd.get(i, "").startswith("known ")})
    known_only = sorted({records[i]["sid"] for i in bad} - set(unknown))
    for sid in unknown[:5] + known_only[:2]:
        scfg, items, steps, w, h = jobs[sid]
        first = min(i for i in bad if records[i]["sid"] == sid)
        # reproduce: the same session again, settling slowly (the screen is only eventually consistent)
        recs2 = run_session(ctx, fzf, sid, scfg, items, steps, w, h, slow=True)
        bad2, res2 = judge(ctx, "Judge_Screen", "Judge_Screen.cfg", recs2, "screen-re%d" % sid, workers=2)
        if not bad2:
            raise Infra("session %d (%s): rejected screen at step %d (%s) not reproduced" % (
                sid, scfg.describe(), records[first]["step"], vd.get(first)))
        vd2 = verdicts(res2)
        reported = set()
        for b in bad2:
            r = recs2[b]
            v = vd2.get(b, "")
            if v in reported:
                continue
            reported.add(v)
            what = "session %d (%s, %dx%d) step %d: the screen is not the rendition of the state [%s]; state %s; screen:\n%s" % (
                sid, scfg.describe(), r["w"], r["h"], r["step"], v,
                json.dumps({k: ("".join(r["st"][k]) if k == "input" else r["st"][k])
                            for k in ("input", "cy", "offset", "sel", "multi", "count", "track")}),
                "\n".join("".join(x) for x in r["rows"]))
            case = {"session": {"cfg": scfg.to_json(), "items": items, "steps": steps, "width": w, "height": h}, "record": r,
                    "verdict": v, "kf": classify(r, v)}
            ctx.violation(what, case)
    # evidence
    distinct = set()
    shapes = {}
    for r in records:
        c, st = r["cfg"], r["st"]
        key = (c["layout"], c["info"], c["sep"], len(c["header"]), len(c["hlines"]), c["headerFirst"], c["inputless"], r["w"], r["h"],
               len(st["list"]), st["cy"], st["offset"], tuple(st["sel"]), "".join(st["input"]))
        if st["list"]:
            distinct.add(key)
        k2 = "%s/%s" % (c["layout"], c["info"])
        shapes[k2] = shapes.get(k2, 0) + 1
    ctx.cov["distinct_nontrivial"] = len(distinct)
    ctx.cov["rule"] = ("one record per settle point of a tmux-driven real session: logged state + captured screen; non-trivial = "
                       "distinct (layout, info style, separator, header shape, window size, list length, cursor, scroll offset, "
                       "selection, query) with a non-empty result list")
    ctx.cov["sessions"] = len(jobs)
    ctx.cov["screens_judged"] = len(records)
    ctx.cov["screens_skipped_still_reading"] = stats.get("skipped", 0)
    ctx.cov["screens_by_layout_info"] = shapes
    ctx.cov["resizes"] = sum(1 for j in jobs for s in j[2] if s[0] == "resize")
    ctx.cov["rows_reaching_right_edge"] = sum(1 for r in records for row in r["rows"] if len(row) >= r["w"] - 1)
    ctx.cov["query_longer_than_line"] = sum(1 for r in records if len(r["st"]["input"]) > r["w"] - len(r["cfg"]["prompt"]) - 1)
    ctx.cov["mismatch_verdicts"] = sorted(set(vd.values()))
    for r in records:
        if r["st"]["list"] and r["st"]["sel"] and len(ctx.cov["samples"]) < 3:
            ctx.sample({"w": r["w"], "h": r["h"], "layout": r["cfg"]["layout"], "info": r["cfg"]["info"],
                        "query": "".join(r["st"]["input"]), "cy": r["st"]["cy"], "offset": r["st"]["offset"], "sel": r["st"]["sel"],
                        "rows": ["".join(x) for x in r["rows"]]})
    ctx.assumptions += [
        "comparable configuration: --no-color --no-unicode --no-hscroll --no-scrollbar, full screen, no border/margin/preview, "
        "single-line items without tabs or control characters; colours and attributes are not observed (capture-pane -p)",
        "character widths: East Asian Wide/Fullwidth = 2 columns, combining marks = 0, everything else 1 (width table in each record)",
        "the screen is judged at settle points only (trace quiet, no redraw pending, two identical captures); the cursor position "
        "is not observed; a query longer than the prompt line is only required to show a part around the cursor",
        "windows at least 20 columns wide and 4 rows high"]
    return "model_checking"
