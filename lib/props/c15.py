"""C15 - the screen shows the actual state (spec/FzfScreen.tla, spec/Judge_Screen.tla).

MC: FzfScreen's placement and row claims on small constants (incl. shown / hidden header and input sections, the part
of a too long line that is displayed, scrollbar, border).  E: cases exported by TLC (geometry x configuration x state
incl. section visibility; long lines x pattern position x hscroll options) are brought about on the real fzf in a tmux
pane, one after the other in one session, and the captured screen must equal the predicted rows.  J: real fzf
(-tags verif) in a tmux pane is driven through editor behaviours (C09's stimuli: action chains, real keys) plus
resizes, show / hide / toggle of the header and input sections, and - in sessions over long lines - queries that match
at the start, in the middle and at the very end of the lines; at every settle point the screen is captured (tmux
capture-pane) next to the state the hooks logged, and TLC decides rows = Render(state, geometry, cfg).
Lines with TAB characters (--tabstop 1 / 4 / 8, TABs before / inside / after the matched part, windows the expanded
line fits exactly / by one column less, plain and with --ansi coloured parts) and queries wider than the prompt area
(ASCII and with East Asian wide characters at the start / in the middle / at the end, the cursor walked with
beginning-of-line / backward-char / forward-char / end-of-line, inside --border, --layout=reverse, --info=inline) have
E families (Gen_ScreenT*, Gen_ScreenP*) and J sessions of their own.
Python only drives, waits for the trace to settle, and splits strings into cells.
"""
import json, os, re, time, unicodedata, threading
from concurrent.futures import ThreadPoolExecutor
import sessions, tmuxdrv
from vlib import Infra, judge
from props import c09

ASCII_POOL = [
    "alpha", "beta", "gamma delta", "a", "", "ab", "a c", "b-a", "cab", "abc", "a/b/c", "A1/b", "x.y", "{curly} [sq] (par)",
    "it's \"quoted\"", "back\\slash", "> looks like a pointer", ">>", "  two leading blanks", "trail  ", "..", "a..", "~tilde",
    "0123456789", "the quick brown fox jumps", "the quick brown fox jumps over the lazy dog",
    "a somewhat longer line that will not fit into a narrow window at all, not even close",
    "abcdefghijklmnopqrstuvwxyzABCDEFGHIJKLMNOPQRSTUVWXYZ0123456789abcdefghijklmnopqrstuvwxyzABCDEFGHIJKLMNOPQRSTUVWXYZ",
    "exactly seventeen", "exactly eighteen..", "sixteen chars ab", "nineteen characters", "b a", "c-c", "1-2", "e", "ae", "ba ab",
    "path/to/some/file.txt", "path/to/another/deeper/directory/structure/file.go", "x" * 27, "y" * 28, "z" * 29, "w" * 47,
    "v" * 77, "u" * 78, "t" * 79, "#!$%&*+,-:;<=>?@^_`|",
]
UNI_POOL = ["\u6f22\u5b57", "a\u6f22b", "\u00e9tude", "\u00e1 \u00e9", "\ud55c\uae00 hangul", "\uff21\uff22 fullwidth",
            "\u6f22" * 45, "ab" + "\u6f22\u5b57" * 20 + "cd", "x" * 16 + "\u6f22" + "yyy", "x" * 17 + "\u6f22" + "yyy",
            "no\u0308e\u0301l " * 12, "e\u0301", "b-\u00e1", "\u6f22a"]      # wide, precomposed, combining marks
HEADERS = [None, None, "HEAD", "first header line\nsecond", "a header line that is much too long for most of the windows used in these sessions",
           "H1\nH2\nH3"]
SIZES_W = [20, 21, 24, 30, 37, 50, 64, 80]
SIZES_H = [4, 5, 6, 7, 8, 10, 12, 16, 24]


def cells(s):
    """A string as a sequence of cells (FzfScreen): one character each, the cell "TAB" for a TAB character."""
    return ["TAB" if ch == "\t" else ch for ch in s]


def uncells(cs):
    return "".join("\t" if x == "TAB" else x for x in cs)


SGR = re.compile("\x1b\\[[0-9;]*m")


def plain(scfg, text):
    """--ansi: the line without the colour sequences the generator put in (only SGR sequences are ever generated;
    what --ansi does to arbitrary input is C11's subject)."""
    return SGR.sub("", text) if scfg.ansi else text


def width_table(texts):
    wide, zero = set(), set()
    for t in texts:
        for ch in t:
            if unicodedata.east_asian_width(ch) in ("W", "F"):
                wide.add(ch)
            elif unicodedata.category(ch) in ("Mn", "Me", "Cf"):
                zero.add(ch)
    return sorted(wide), sorted(zero)


class SCfg:
    """A session configuration: fzf arguments and the configuration record of FzfScreen."""
    FIELDS = ("layout", "info", "sep", "header", "nhl", "header_first", "inputless", "prompt", "pointer", "marker",
              "ellipsis", "multi", "cycle", "scroll_off", "disabled", "hscroll", "hscroll_off", "keep_right", "scrollbar",
              "border", "nosort", "tabstop", "ansi")
    DEFAULTS = {"hscroll": False, "hscroll_off": None, "keep_right": False, "scrollbar": False, "border": False, "nosort": False,
                "tabstop": None, "ansi": False}

    def __init__(self, **kw):
        for f in self.FIELDS:
            setattr(self, f, kw[f] if f in kw else self.DEFAULTS[f])

    def to_json(self):
        return {f: getattr(self, f) for f in self.FIELDS}

    def base(self):
        extra = []
        if self.info != "default":
            extra.append("--info=" + self.info)
        if not self.sep:
            extra.append("--no-separator")
        if self.header is not None:
            extra.append("--header=" + self.header)
        if self.nhl:
            extra.append("--header-lines=%d" % self.nhl)
        if self.header_first:
            extra.append("--header-first")
        if self.prompt is not None:
            extra.append("--prompt=" + self.prompt)
        if self.pointer is not None:
            extra.append("--pointer=" + self.pointer)
        if self.marker is not None:
            extra.append("--marker=" + self.marker)
        if self.ellipsis is not None:
            extra.append("--ellipsis=" + self.ellipsis)
        # (the base arguments say --no-hscroll --no-scrollbar; a later option wins)
        if self.hscroll:
            extra.append("--hscroll")
        if self.hscroll_off is not None:
            extra.append("--hscroll-off=%d" % self.hscroll_off)
        if self.keep_right:
            extra.append("--keep-right")
        if self.scrollbar:
            extra.append("--scrollbar=|")
        if self.border:
            extra.append("--border")
        if self.nosort:
            extra.append("--no-sort")
        if self.tabstop is not None:
            extra.append("--tabstop=%d" % self.tabstop)
        if self.ansi:
            # (with --no-color the colours of the input are dropped while reading; what is observed - the text of the
            # screen - is the same with colours on)
            extra += ["--ansi", "--color=dark"]
        return sessions.Cfg(layout=self.layout, cycle=self.cycle, multi=self.multi, scroll_off=self.scroll_off,
                            inputless=self.inputless, disabled=self.disabled, extra=extra)

    def args(self):
        return self.base().args()

    def describe(self):
        return " ".join(self.args())

    def spec(self, items):
        return {"layout": self.layout, "info": self.info, "sep": self.sep,
                "header": [cells(x) for x in self.header.split("\n")] if self.header is not None else [],
                "hlines": [cells(plain(self, x)) for x in (items[:self.nhl] + [""] * self.nhl)[:self.nhl]], "headerFirst": self.header_first, "inputless": self.inputless,
                "prompt": cells("> " if self.prompt is None else self.prompt),
                "pointer": cells(">" if self.pointer is None else self.pointer),
                "marker": cells(">" if self.marker is None else self.marker),
                "ellipsis": cells(".." if self.ellipsis is None else self.ellipsis),
                "hscroll": self.hscroll, "hscrollOff": 10 if self.hscroll_off is None else self.hscroll_off,
                "keepRight": self.keep_right, "scrollbar": ["|"] if self.scrollbar else [], "border": self.border,
                "tabstop": 8 if self.tabstop is None else self.tabstop}

    def area(self, w, h):
        """Size of the finder's area in a w x h terminal as the hooks log it (--border: a box with one blank column on
        either side; the list window itself gets the right one back, see FzfScreen.Inner)."""
        return (w - 4, h - 2) if self.border else (w, h)


def make_cfg(rng):
    info = rng.choice(["default", "default", "inline", "hidden", "right", "inline-right"])
    ptr, mrk = rng.choice([(None, None), (None, None), ("=>", "*"), ("*", "++"), ("->", None)])
    return SCfg(layout=rng.choice(["default", "reverse", "reverse-list"]), info=info, sep=rng.random() < 0.7,
                header=rng.choice(HEADERS), nhl=rng.choice([0, 0, 1, 2]), header_first=rng.random() < 0.3,
                inputless=rng.random() < 0.08, prompt=rng.choice([None, None, None, "$ ", "Q: "]), pointer=ptr, marker=mrk,
                ellipsis=rng.choice([None, None, None, "~", "...", ""]), multi=rng.choice([None, 1, 2, 3, "inf", "inf"]),
                cycle=rng.random() < 0.5, scroll_off=rng.choice([None, 0, 1, 5]), disabled=rng.random() < 0.4)


VIS_ACTS = ("toggle-header", "show-header", "hide-header", "toggle-input", "show-input", "hide-input")


def vis_step(rng):
    """Shows / hides a section: alone, or glued to another action so that one redraw has to cope with both."""
    a = rng.choice(VIS_ACTS + ("toggle-header", "toggle-input"))
    r = rng.random()
    if r < 0.6:
        return ("post", a)
    if r < 0.8:
        return ("post", a + "+" + rng.choice(["down", "up", "last", "first", "toggle", "put(a)", "backward-delete-char", "toggle-header",
                                               "toggle-input"]))
    return ("post", rng.choice(["down", "up", "pos(3)", "toggle+down", "clear-query"]) + "+" + a)


def make_steps(rng, n, multi, w, h, vis=0.09):
    """C09's stimuli (action chains, real keys, typed characters) interleaved with resizes, long queries and
    show / hide / toggle of the header and input sections."""
    steps = []
    for st in c09.random_steps(rng, n, multi):
        if rng.random() < vis:
            steps.append(vis_step(rng))
        r = rng.random()
        if r < 0.10:
            w2, h2 = w, h
            while (w2, h2) == (w, h):
                w2, h2 = rng.choice(SIZES_W), rng.choice(SIZES_H)
            w, h = w2, h2
            steps.append(("resize", [w, h]))
        elif r < 0.14:
            steps.append(("post", "put(%s)" % rng.choice(["abcabcabcabc", "a b a b a b ", "cab-cab-cab/"])))
        elif r < 0.17:
            steps.append(("post", rng.choice(["select-all", "toggle-all", "last", "first", "pos(7)", "pos(-2)", "clear-query"])))
        steps.append(st)
    return steps


# ------------------------------------------------------------------------------------------------ driving one session
# (not the scroll offset of the prompt line: beginning-of-line resets the variable without asking for a redraw)
VIEW = ("input", "cx", "cy", "offset", "sel", "multi", "n", "count", "reading", "maxItems", "track")


def view(e):
    return [e.get(k) for k in VIEW]


def norm_query(q):
    """The pattern text BuildPattern makes of a query (only used to decide whether a search is still on its way)."""
    q = q.lstrip(" ")
    while q.endswith(" ") and not q.endswith("\\ "):
        q = q[:-1]
    return q


def list_pattern(tr):
    """Pattern text of the matcher result the terminal's list was taken from: the last match.publish before the last
    term.list ('' when that result was not filtered at all); None when the trace has neither."""
    li = None
    for i in range(len(tr) - 1, -1, -1):
        if tr[i]["ev"] == "term.list":
            li = i
            break
    if li is None:
        return None
    if "pass" not in tr[li]:
        raise Infra("the trace hooks of this tree do not log the merger's pass flag")
    if tr[li]["pass"]:
        return ""
    for i in range(li - 1, -1, -1):
        if tr[i]["ev"] == "match.publish":
            return tr[i]["q"]
    return None


def search_pending(tr, last):
    """The displayed list does not belong to the current query yet (search enabled)."""
    if last.get("paused"):
        return False
    return list_pattern(tr) != norm_query(last["input"])


def settle(s, slow, scfg=None):
    """Waits until the trace is quiet, no redraw is pending, the list belongs to the current query and two captures
    taken `gap` apart are identical with no trace growth in between.  Returns (trace prefix, screen rows)."""
    gap = 0.4 if slow else 0.03
    patience = 15.0 if slow else 3.0            # for a redraw that has been requested but not yet flushed
    t0 = time.time()
    tp = None
    while True:
        if time.time() - t0 > 120:
            raise Infra("screen never settled; last events: %s" % json.dumps(s.trace()[-3:])[:800])
        s.wait_trace_quiet(quiet=0.25 if slow else 0.02, timeout=90)
        tr = s.trace()
        n = len(tr)
        term = [e for e in tr if e["ev"].startswith("term.") and "cy" in e]
        if any(e["ev"] == "term.exit" for e in term):
            return None, None
        flushes = [e for e in term if e["ev"] == "term.render" and e["what"] == "flush"]
        if not flushes:
            time.sleep(0.01)
            continue
        if "lines" not in flushes[-1] or "xoffset" not in flushes[-1]:
            raise Infra("the trace hooks of this tree do not log cols/lines/xoffset")
        pw, ph = pane_size(s)
        if (flushes[-1]["cols"], flushes[-1]["lines"]) != (scfg.area(pw, ph) if scfg else (pw, ph)):
            time.sleep(0.005)       # fzf has not laid itself out for the current pane size yet (resize in flight)
            continue
        if view(term[-1]) != view(flushes[-1]) or search_pending(tr, term[-1]):
            # the state changed after the last flush: a redraw should be on its way
            tp = tp or time.time()
            if time.time() - tp < patience:
                time.sleep(0.005)
                continue
        c1 = s.capture()
        time.sleep(gap)
        c2 = s.capture()
        if c1 == c2 and len(s.trace()) == n:
            return tr[:n], c1


def pane_size(s):
    out = s.tmux("display-message", "-p", "-t", "s", "#{pane_width} #{pane_height}").split()
    return int(out[0]), int(out[1])


def snapshot(s, scfg, items, step, sid, slow, stats):
    tr, rows = settle(s, slow, scfg)
    if tr is None:
        return None
    term = [e for e in tr if e["ev"].startswith("term.") and "cy" in e]
    last = term[-1]
    w, h = pane_size(s)
    lists = [e for e in term if e["ev"] == "term.list"]
    flushes = [e for e in term if e["ev"] == "term.render" and e["what"] == "flush"]
    pattern = list_pattern(tr)
    if (not lists or "ids" not in lists[-1] or last["reading"] or last["n"] != len(lists[-1]["ids"]) or pattern is None
            or search_pending(tr, last)):
        stats["skipped"] = stats.get("skipped", 0) + 1
        return None
    ids, texts = lists[-1]["ids"], lists[-1].get("texts") or []
    rows = [r.rstrip(" ") for r in rows]
    wide, zero = width_table(items + rows + [last["input"]] + ([scfg.header] if scfg.header else []))
    # the show / hide / toggle actions as the program logged them; the flags are the specification's business (VisAfter)
    vis = [e["act"] for e in tr if e["ev"] == "term.act" and e["act"] in VIS_ACTS]
    return {"sid": sid, "step": step, "seq": last["seq"], "w": w, "h": h, "wide": wide, "zero": zero, "cfg": scfg.spec(items),
            # xoffset: the scroll offset of the prompt line when the screen was last flushed (Judge_Screen.CoreX)
            "st": {"input": cells(last["input"]), "cx": last["cx"], "xoffset": flushes[-1]["xoffset"], "list": ids, "texts": [cells(t) for t in texts],
                   "sel": last["sel"], "multi": last["multi"], "cy": last["cy"], "offset": last["offset"], "count": last["count"], "track": last["track"],
                   "pattern": cells(pattern)},
            "vis": vis, "hmissing": max(0, scfg.nhl - len(items)), "filtered": not lists[-1]["pass"], "maxItems": last["maxItems"],
            "orig": [cells(plain(scfg, items[i + scfg.nhl])) if 0 <= i + scfg.nhl < len(items) else ["<not a line of the input>"] for i in ids],
            "rows": [cells(r) for r in rows]}


def start_session(ctx, fzf, scfg, items, width, height):
    """Starts fzf in a tmux pane and waits for the first complete list; one retry (the box is shared: a start can stall)."""
    for attempt in (0, 1):
        s = tmuxdrv.Session(ctx, fzf, scfg.args(), input_data="".join(i + "\n" for i in items), width=width, height=height)
        try:
            s.wait_listening(timeout=45 if attempt == 0 else 150)
            s.wait_for(lambda tr: any(e["ev"] == "term.list" and not e["reading"] for e in tr), timeout=45 if attempt == 0 else 150,
                       what="first final list")
            return s
        except Infra:
            s.close()
            if attempt == 1:
                raise


def run_session(ctx, fzf, sid, scfg, items, steps, width, height, slow=False, stats=None):
    stats = stats if stats is not None else {}
    recs = []
    s = start_session(ctx, fzf, scfg, items, width, height)
    try:
        r = snapshot(s, scfg, items, -1, sid, slow, stats)
        if r:
            recs.append(r)
        for ix, (kind, arg) in enumerate(steps):
            if s.exited() or any(e["ev"] == "term.exit" for e in s.trace()):
                break
            n_loop = s.count("term.loop")
            n_flush = s.count("term.render", lambda e: e["what"] == "flush")
            if kind == "resize":
                if (arg[0], arg[1]) == pane_size(s):
                    continue
                s.resize(arg[0], arg[1])
                s.wait_for(lambda tr: sum(1 for e in tr if e["ev"] == "term.render" and e["what"] == "flush") > n_flush,
                           timeout=120, what="redraw after resize")
            elif kind == "reload":
                # reload / reload-sync with other input: from the list of the new input generation on, the screen is judged
                # against the new lines (header lines included)
                sync, new_items = arg
                path = os.path.join(ctx.work, "c15-input-%d-%d-%d.txt" % (sid, ix, int(slow)))
                with open(path, "w") as f:
                    f.write("".join(i + "\n" for i in new_items))
                major = max([e["mrev"][0] for e in s.trace() if e["ev"] == "term.list" and "mrev" in e] or [0])
                st, _ = s.post("%s(cat %s)" % ("reload-sync" if sync else "reload", path), timeout=60)
                if st != 200:
                    raise Infra("POST reload -> %d" % st)
                s.wait_for(lambda tr: any(e["ev"] == "term.list" and "mrev" in e and e["mrev"][0] > major and not e["reading"] for e in tr) or
                           any(e["ev"] == "term.exit" for e in tr), timeout=120, what="list of the reloaded input (step %d)" % ix)
                items = new_items
            else:
                if kind == "post":
                    try:
                        st, _ = s.post(arg, timeout=60)
                    except OSError:
                        time.sleep(0.3)
                        if s.exited():
                            break
                        raise Infra("POST %r failed while fzf is alive" % arg)
                    if st != 200:
                        raise Infra("POST %r -> %d" % (arg, st))
                elif kind == "key":
                    s.keys(arg)
                else:
                    s.keys(arg, literal=True)
                s.wait_for(lambda tr: sum(1 for e in tr if e["ev"] == "term.loop") > n_loop or
                           any(e["ev"] == "term.exit" for e in tr), timeout=120, what="loop after step %d" % ix)
            r = snapshot(s, scfg, items, ix, sid, slow, stats)
            if r:
                recs.append(r)
        if not s.exited() and not any(e["ev"] == "term.exit" for e in s.trace()):
            s.post("abort", final=True)
            s.wait_exit(timeout=120)
        return recs
    finally:
        s.close()



# ------------------------------------------------------------------------------------------------ E: spec -> code
def e_groups(cases):
    """Cases exported by TLC (Gen_Screen*.cfg) grouped into sessions: one per (configuration, item list)."""
    groups = {}
    for c in cases:
        groups.setdefault(json.dumps([c["cfg"], c["items"]], sort_keys=True), []).append(c)
    out = []
    for k in sorted(groups):
        out.append(sorted(groups[k], key=lambda c: (c["w"], c["h"], json.dumps(c["st"], sort_keys=True))))
    return out


def e_cfg(c, searching, ansi=False):
    """searching: the search is enabled (--no-sort: the list is the input as long as every line matches)."""
    return SCfg(tabstop=c["tabstop"], ansi=ansi, layout=c["layout"], info=c["info"], sep=c["sep"], header="\n".join("".join(x) for x in c["header"]) if c["header"] else None,
                nhl=len(c["hlines"]), header_first=c["headerFirst"], inputless=c["inputless"], prompt=None, pointer=None, marker=None,
                ellipsis="".join(c["ellipsis"]), multi="inf", cycle=False, scroll_off=0, disabled=not searching, nosort=searching,
                hscroll=c["hscroll"], hscroll_off=c["hscrollOff"], keep_right=c["keepRight"], scrollbar=bool(c["scrollbar"]),
                border=c["border"])


def e_actions(case):
    """The POSTs that put the finder into the exported state (the list is the input): [(action list, settle afterwards)].
    (1) The input section is shown first (a hidden one discards every change of the query); once the query is set both
    sections get the exported visibility: one POST = one redraw takes the screen from the previous case's layout to
    this one's.  (2) Selection and cursor, after the first redraw: `pos` scrolls at once, by the size the list window
    has at that moment, and the windows are only rebuilt when the screen is drawn.
    A case with a walk (prompt family): the query is set with the cursor at its beginning and drawn (that resets the
    scroll offset of the prompt line, whatever the previous case left), then every step of the walk is one POST of
    beginning-of-line / end-of-line / forward-char+... / backward-char+... and one rendition."""
    st = case["st"]
    acts = ["show-input", "deselect-all", "change-multi" if st["multi"] == 2147483647 else "change-multi(%d)" % st["multi"],
            "change-query(%s)" % uncells(st["input"]) if st["input"] else "clear-query", "pos(1)"]
    if "walk" in case:
        out = [("+".join(acts + ["beginning-of-line", "show-header"]), True)]
        cur, n = 0, len(st["input"])
        for tgt in case["walk"]:
            if tgt == cur:
                continue
            if tgt == 0:
                out.append(("beginning-of-line", True))
            elif tgt == n:
                out.append(("end-of-line", True))
            else:
                out.append(("+".join(["forward-char" if tgt > cur else "backward-char"] * abs(tgt - cur)), True))
            cur = tgt
        return out
    acts += ["show-header" if st["showHeader"] else "hide-header"]
    if st["hideInput"]:
        acts += ["hide-input"]
    acts2 = []
    for i in st["sel"]:
        acts2 += ["pos(%d)" % (st["list"].index(i) + 1), "select"]
    acts2 += ["pos(1)", "pos(%d)" % (st["cy"] + 1)]
    return [("+".join(acts), True), ("+".join(acts2), False)]


def e_expected(case):
    st = case["st"]
    return {"rows": case["rows"], "input": st["input"], "cx": st["cx"], "xoffset": st["xoffset"], "cy": st["cy"], "offset": st["offset"],
            "multi": st["multi"], "count": st["count"], "sel": [st["list"].index(i) for i in st["sel"]], "n": len(st["list"]),
            "pattern": st["pattern"], "maxItems": case["maxItems"]}


E_OBSERVED = ("rows", "xoffset")        # what the finder makes of the state it was put into (the rest is the state itself)


def colour_item(text, k):
    """The line with some of its characters coloured (SGR sequences): a head of 1..3 characters - it may end right before
    a TAB or contain one - and, for every other line, a part further on."""
    n = 1 + k % 3
    out = "\x1b[3%dm%s\x1b[m%s" % (1 + k % 6, text[:n], text[n:n + 2])
    rest = text[n + 2:]
    if k % 2 and len(rest) > 3:
        return out + "\x1b[1;4m" + rest[:3] + "\x1b[0m" + rest[3:]
    return out + rest


def e_session(ctx, fzf, sid, group, searching, slow=False, ansi=False):
    """Runs one group of cases; returns [(case, got, record)] where got has the shape of e_expected.
    ansi: the input lines are coloured and read with --ansi (the text of the screen must be the same)."""
    c0 = group[0]
    scfg = e_cfg(c0["cfg"], searching, ansi)
    items = [uncells(x) for x in c0["cfg"]["hlines"]] + [uncells(x) for x in c0["items"]]
    if ansi:
        items = [colour_item(x, k) for k, x in enumerate(items)]
    out = []
    s = start_session(ctx, fzf, scfg, items, c0["w"], c0["h"])
    stats = {}
    try:
        for case in group:
            if pane_size(s) != (case["w"], case["h"]):
                n_loop = s.count("term.loop")
                s.post("pos(1)", timeout=60)
                s.wait_count("term.loop", n_loop + 1, timeout=120)
                settle(s, slow, scfg)
                n_flush = s.count("term.render", lambda e: e["what"] == "flush")
                s.resize(case["w"], case["h"])
                s.wait_for(lambda tr: sum(1 for e in tr if e["ev"] == "term.render" and e["what"] == "flush") > n_flush,
                           timeout=120, what="redraw after resize")
            for acts, wait in e_actions(case):
                n_loop = s.count("term.loop")
                st, _ = s.post(acts, timeout=60)
                if st != 200:
                    raise Infra("POST -> %d" % st)
                s.wait_count("term.loop", n_loop + 1, timeout=120)
                if wait:
                    settle(s, slow, scfg)
            r = snapshot(s, scfg, items, 0, sid, slow, stats)
            if r is None:
                raise Infra("E session %d: no settled screen" % sid)
            if (r["w"], r["h"]) != (case["w"], case["h"]):
                raise Infra("E session %d: pane is %dx%d, wanted %dx%d" % (sid, r["w"], r["h"], case["w"], case["h"]))
            out.append((case, {"rows": r["rows"], "input": r["st"]["input"], "cx": r["st"]["cx"], "xoffset": r["st"]["xoffset"],
                               "cy": r["st"]["cy"], "offset": r["st"]["offset"],
                               "multi": r["st"]["multi"], "count": r["st"]["count"], "sel": sorted(r["st"]["sel"]),
                               "n": len(r["st"]["list"]), "pattern": r["st"]["pattern"], "maxItems": r["maxItems"]}, r))
        s.post("abort", final=True)
        s.wait_exit(timeout=120)
        return out
    finally:
        s.close()


# the families of exported cases: name -> (quick cfg, thorough cfg, search enabled, sessions (quick, thorough; None = one
# per exported configuration), cases per session (quick, thorough), first session id, least number of cases, slices of the
# configuration space in quick)
E_FAMILIES = {
    # geometry x configuration x state x visibility of the header / input sections (search disabled: list = input)
    "layout": ("Gen_Screen_q.cfg", "Gen_Screen.cfg", False, (14, None), (16, 24), 1000, 1000, 4),
    # lines too long for the window x pattern position x hscroll options x scrollbar x border (search enabled)
    "hscroll": ("Gen_ScreenH_q.cfg", "Gen_ScreenH.cfg", True, (10, 180), (14, 20), 3000, 1000, 12),
    # lines with TABs x tabstop x window width in steps of one column x pattern x hscroll x border (search enabled); every
    # other session reads the lines with coloured parts (--ansi)
    "tabs": ("Gen_ScreenT_q.cfg", "Gen_ScreenT.cfg", True, (10, 150), (14, 22), 5000, 1000, 1),
    # queries wider than the prompt area (wide characters at the start / in the middle / at the end) x walks of the cursor x
    # window width x layout x info style x border (search disabled)
    "prompt": ("Gen_ScreenP_q.cfg", "Gen_ScreenP.cfg", False, (8, 60), (14, 22), 7000, 300, 1),
}
E_ANSI = ("tabs",)


def e_ansi(name, ix):
    return name in E_ANSI and ix % 2 == 1


# ---- queries that are wider than the prompt area
P_ASCII = "abcdefghijklmnopqrstuvwxyz0123456789ABCDEFGHIJKLMNOPQRSTUVWXYZ-_./:+"
P_WIDE = ["\ud55c\uae00", "\u6f22\u5b57", "\uff21\uff22\uff23"]      # Hangul, Han, fullwidth Latin: two columns each


def long_query(rng, kind):
    """(query, interesting cursor positions): kind in ascii / wide-start / wide-middle / wide-end / wide-all / mixed / short"""
    def run(n):
        return "".join(rng.choice(P_ASCII) for _ in range(n))

    def block(n):
        b = rng.choice(P_WIDE)
        return (b * n)[:max(2, n)]
    if kind == "ascii":
        parts = [run(rng.randint(30, 60))]
    elif kind == "wide-start":
        parts = [block(rng.randint(4, 12)), run(rng.randint(24, 40))]
    elif kind == "wide-middle":
        parts = [run(rng.randint(8, 20)), block(rng.randint(4, 12)), run(rng.randint(10, 26))]
    elif kind == "wide-end":
        parts = [run(rng.randint(24, 40)), block(rng.randint(4, 12))]
    elif kind == "wide-all":
        parts = [block(rng.randint(14, 30))]
    elif kind == "mixed":
        parts = [rng.choice([run(rng.randint(1, 6)), block(rng.randint(2, 5))]) for _ in range(rng.randint(6, 10))]
    else:
        parts = [run(rng.randint(3, 8)), block(2)]
    q = "".join(parts)
    n = len(q)
    marks, at = {0, 1, n - 1, n, n // 2}, 0
    for part in parts:                                  # the borders between narrow and wide runs, and one step beyond
        at += len(part)
        marks |= {at - 1, at, at + 1}
    return q, sorted(m for m in marks if 0 <= m <= n)


P_KINDS = ("wide-start", "ascii", "wide-middle", "short", "wide-end", "mixed", "wide-all", "wide-start")


def make_pin(ctx):
    """The input of the prompt family's export: queries with the cursor positions the walks go through."""
    rng = ctx.rng
    qs = []
    for k in range(ctx.pick(6, 16)):
        q, marks = long_query(rng, P_KINDS[k % len(P_KINDS)])
        pos = {0, len(q)} | set(rng.sample(marks, min(3, len(marks))))
        qs.append({"q": cells(q), "pos": sorted(pos)})
    path = os.path.join(ctx.work, "prompt-queries.json")
    with open(path, "w") as fh:
        fh.write(json.dumps({"queries": qs, "wide": sorted(set("".join(P_WIDE)))}) + "\n")
    return path


def e_generate(ctx, name, pin=None):
    """TLC exports the cases; quick: one slice of the configurations (chosen by the seed), thorough: all of them."""
    qcfg, tcfg, _, _, _, _, min_cases, qslices = E_FAMILIES[name]
    slices = ctx.pick(qslices, 1)
    env = {"VERIF_SLICES": slices, "VERIF_SLICE": ctx.seed % slices}
    if name == "prompt":
        env["VERIF_PIN"] = pin
    gen = ctx.tlc("MC_Screen", ctx.pick(qcfg, tcfg), workers=ctx.pick(4, 12), timeout=3000, label="gen-" + name, env=env)
    cases = gen.json_items("CASE")
    if len(cases) < min_cases:
        raise Infra("TLC exported only %d cases (%s)" % (len(cases), ctx.pick(qcfg, tcfg)))
    return cases


def e_plan(ctx, name, cases):
    """The sessions to run: a seeded part of each configuration's cases; consecutive cases of a session differ in
    geometry, state and visibility of the sections, so every case is drawn over what the previous one left behind."""
    _, _, _, nsess, ncases, _, _, _ = E_FAMILIES[name]
    groups = e_groups(cases)
    ngroups = len(groups)
    if ctx.pick(*nsess) is not None:
        groups = ctx.rng.sample(groups, min(ctx.pick(*nsess), len(groups)))
    groups = [ctx.rng.sample(g, min(len(g), ctx.pick(*ncases))) for g in groups]
    return [sorted(g, key=lambda c: (c["w"], c["h"])) for g in groups], ngroups


def e_sessions(ctx, fzf, name, groups, workers=5):
    searching, base_sid = E_FAMILIES[name][2], E_FAMILIES[name][5]
    results = {}

    def do(ix):
        return ix, e_session(ctx, fzf, base_sid + ix, groups[ix], searching, ansi=e_ansi(name, ix))
    with ThreadPoolExecutor(max_workers=workers) as ex:
        for ix, res in ex.map(do, range(len(groups))):
            results[ix] = res
    return results


def e_evaluate(ctx, fzf, name, cases, groups, ngroups, results):
    searching, base_sid = E_FAMILIES[name][2], E_FAMILIES[name][5]
    total = 0
    first_bad = []                      # (group, record) of every mismatch of the first pass
    for ix in sorted(results):
        total += len(results[ix])
        first_bad += [(ix, r) for c, got, r in results[ix] if got != e_expected(c)]
    unknown, known_only = [], []
    if first_bad:
        # groups whose rejection is not a named deviation first, so that a known finding can never crowd out a new one
        _, jres = judge(ctx, "Judge_Screen", "Judge_Screen.cfg", [r for _, r in first_bad], "screen-e-%s" % name, workers=4)
        vd = verdicts(jres)
        for ix in sorted({ix for ix, _ in first_bad}):
            vs = [vd.get(i, "") for i, (jx, _) in enumerate(first_bad) if jx == ix]
            (known_only if all(v.startswith("known ") for v in vs) else unknown).append(ix)
    for ix in unknown[:4] + known_only[:1]:
        # reproduce: the same group again, settling slowly
        res2 = e_session(ctx, fzf, base_sid + 500 + ix, groups[ix], searching, slow=True, ansi=e_ansi(name, ix))
        bad2 = [(c, got, r) for c, got, r in res2 if got != e_expected(c)]
        if not bad2:
            raise Infra("E group %s/%d: mismatch not reproduced" % (name, ix))
        # let the specification name the rejections (a named deviation or not)
        _, jres = judge(ctx, "Judge_Screen", "Judge_Screen.cfg", [r for _, _, r in bad2], "screen-e-%s%d" % (name, ix), workers=2)
        vd2 = verdicts(jres)
        reported = set()
        for k, (c, got, rec) in enumerate(bad2):
            v = vd2.get(k, "replay")
            if v in reported:
                continue
            reported.add(v)
            exp = e_expected(c)
            scfg = e_cfg(c["cfg"], searching, e_ansi(name, ix))
            state = lambda d: {k2: ("".join(d[k2]) if k2 in ("input", "pattern") else d[k2]) for k2 in d if k2 not in E_OBSERVED}
            if not v.startswith("known ") and state(got) != state(exp):
                raise Infra("E group %s/%d (%s, %dx%d, header %s, input %s): could not put fzf into the exported state: want %s got %s [%s]; screen:\n%s" % (
                    name, ix, scfg.describe(), c["w"], c["h"], "shown" if c["st"]["showHeader"] else "hidden",
                    "hidden" if c["st"]["hideInput"] else "shown", json.dumps(state(exp)), json.dumps(state(got)), v,
                    "\n".join("".join(x) for x in got["rows"])))
            prev = [x for x, _, _ in res2]
            before = prev[prev.index(c) - 1] if prev.index(c) > 0 else None
            what = "%s, %dx%d, state %s%s: the specification predicts the screen\n%s\nbut the terminal shows\n%s" % (
                scfg.describe(), c["w"], c["h"], json.dumps(state(exp), ensure_ascii=False),
                " [header %s, input %s]" % ("shown" if c["st"]["showHeader"] else "hidden", "hidden" if c["st"]["hideInput"] else "shown"),
                "\n".join("".join(x) for x in exp["rows"]), "\n".join("".join(x) for x in got["rows"]))
            if got["xoffset"] != exp["xoffset"]:
                what += "\n(scroll offset of the prompt line: predicted %d, logged %d)" % (exp["xoffset"], got["xoffset"])
            if "walk" in c:
                what += "\n(actions: %s)" % " ; ".join(a for a, _ in e_actions(c))
            if ansi_lines(c, e_ansi(name, ix)):
                what += "\n(input lines: %s)" % json.dumps(ansi_lines(c, True))
            if before is not None:
                what += "\n(previous case of the session: %dx%d, actions %s)" % (before["w"], before["h"], " ; ".join(a for a, _ in e_actions(before)))
            ctx.violation(what + "\n[%s]" % v, {"e_case": c, "got": got, "record": rec, "verdict": v, "kf": classify(rec, v)})
    ctx.cov["traces_validated_against_impl"] += total
    ctx.cov["evaluations"] += total
    ctx.cov["e_cases_exported"] = ctx.cov.get("e_cases_exported", 0) + len(cases)
    ctx.cov["e_cases_replayed"] = ctx.cov.get("e_cases_replayed", 0) + total
    ctx.cov["e_sessions"] = ctx.cov.get("e_sessions", 0) + len(groups)
    ctx.cov["e_configurations"] = ctx.cov.get("e_configurations", 0) + ngroups
    ctx.cov["e_" + name] = {"exported": len(cases), "configurations": ngroups, "sessions": len(groups), "replayed": total}
    done = [c for ix in results for c, _, _ in results[ix]]
    if name == "tabs":
        ctx.cov["e_tabs"].update({
            "sessions_with_coloured_input": sum(1 for ix in results if e_ansi(name, ix)),
            "replayed_by_tabstop": {str(t): sum(1 for c in done if c["cfg"]["tabstop"] == t) for t in sorted({c["cfg"]["tabstop"] for c in done})},
            "replayed_with_pattern": sum(1 for c in done if c["st"]["pattern"]),
            "lines_fitting_exactly_or_one_column_short": sum(c["fitEdge"] for c in done)})
    if name == "prompt":
        wide = set("".join(P_WIDE))
        ctx.cov["e_prompt"].update({
            "query_wider_than_area": sum(1 for c in done if c["longer"]),
            "wide_left_of_cursor_not_at_end": sum(1 for c in done if c["longer"] and c["st"]["cx"] < len(c["st"]["input"])
                                                  and wide & set(c["st"]["input"][c["st"]["xoffset"]:c["st"]["cx"]])),
            "scrolled": sum(1 for c in done if c["st"]["xoffset"] > 0),
            "with_border": sum(1 for c in done if c["cfg"]["border"])})
    return total


def ansi_lines(case, ansi):
    return [colour_item(uncells(x), k) for k, x in enumerate(case["items"])] if ansi else []


# ------------------------------------------------------------------------------------------------ the check
def make_jobs(ctx):
    rng = ctx.rng
    jobs = []
    nsess = ctx.pick(26, 300)
    for k in range(nsess):
        scfg = make_cfg(rng)
        if k % 3 == 0 and scfg.header is None and not scfg.nhl:
            scfg.header = rng.choice([h for h in HEADERS if h])      # a section to show and hide
        n = rng.choice([0, 1, 2, 3, 5, 9, 14, 25, 40, 60])
        pool = ASCII_POOL if k % 4 else ASCII_POOL + UNI_POOL * 3
        items = [rng.choice(pool) for _ in range(n)]
        w, h = rng.choice(SIZES_W), rng.choice(SIZES_H)
        jobs.append((scfg, items, make_steps(rng, rng.randint(ctx.pick(10, 14), ctx.pick(22, 34)), scfg.multi, w, h,
                                             vis=0.2 if k % 3 == 0 else 0.06), w, h))
    kinds = [(jobs, "base"), (make_hjobs(ctx), "long"), (make_tjobs(ctx), "tabs"), (make_pjobs(ctx), "prompt"), (make_mjobs(ctx), "modes")]
    dev = os.environ.get("VERIF_C15_DEV")          # development aid: run only the named E families / kinds of J sessions
    return [j for js, kind in kinds for j in js if not dev or kind in dev.split(",")]


# ---- sessions over lines that are too long for the window: which part is displayed, and what it leaves behind
FILLER = "abcdefghijklmnopqrstuvwxyz0123456789-_./ "
H_WIDE = "\u6f22\u5b57\ud55c\uae00"


def long_line(rng, n, marks, wide=False):
    """n characters of lower-case filler with the upper-case markers put in once each: marks = (start, middle, END);
    a marker that is None is left out (the line then does not match its query)."""
    body = [rng.choice(FILLER) for _ in range(n)]
    if body[0] == " ":
        body[0] = "x"
    if body[-1] == " ":
        body[-1] = "x"
    if wide:
        for _ in range(max(2, n // 12)):
            body[rng.randrange(n)] = rng.choice(H_WIDE)
    st, mid, end = marks
    if st:
        p = rng.choice([0, 1, 3])
        body[p:p + len(st)] = st
    if mid:
        p = n // 2 + rng.randint(-6, 6)
        body[p:p + len(mid)] = mid
    if end:
        p = n - len(end) - rng.choice([0, 0, 0, 1, 2, 4])
        body[p:p + len(end)] = end
    return "".join(body[:n])


def make_hjobs(ctx):
    rng = ctx.rng
    jobs = []
    for k in range(ctx.pick(16, 160)):
        letters = rng.sample("ABCDEFGHIJKLMNOPQRSTUVWXYZ", 8)
        st, mid, end = "".join(letters[0:2]), "".join(letters[2:5]), "".join(letters[5:8])
        border = rng.random() < 0.4
        hscroll = rng.random() < 0.85
        scfg = SCfg(layout=rng.choice(["default", "reverse", "reverse-list"]), info=rng.choice(["default", "default", "inline", "hidden", "right"]),
                    sep=rng.random() < 0.7, header=rng.choice([None, None, "HEAD", long_line(rng, 75, ("HD", None, "TAIL"))]),
                    nhl=rng.choice([0, 0, 0, 1]), header_first=rng.random() < 0.2, inputless=False,
                    prompt=None, pointer=rng.choice([None, None, "=>"]), marker=None,
                    ellipsis=rng.choice([None, None, "..", "\u2026", "", "~", "..."]), multi=rng.choice([None, 3, "inf"]), cycle=False,
                    scroll_off=rng.choice([None, 0]), disabled=False, hscroll=hscroll, hscroll_off=rng.choice([None, None, 0, 5, 5, 40]),
                    keep_right=rng.random() < 0.3, scrollbar=rng.random() < 0.5, border=border, nosort=rng.random() < 0.3)
        n = rng.choice([3, 5, 8, 12, 20, 30])
        items = []
        for i in range(n):
            r = rng.random()
            length = rng.choice([60, 61, 75, 90, 120, 180, 240, 300]) if r < 0.8 else rng.choice([8, 19, 26, 40])
            marks = (st if rng.random() < 0.9 else None, mid if rng.random() < 0.9 else None, end if rng.random() < 0.9 else None)
            items.append(long_line(rng, max(length, 12), marks, wide=(k % 4 == 3 and rng.random() < 0.4)))
        lw = rng.randint(20, 60)                       # width of the list window
        w, h = lw + (3 if border else 0), rng.choice([6, 7, 8, 10, 12, 16]) + (2 if border else 0)
        queries = [st, mid, end, end, end[1:], end[:2], st + " " + end, mid + " " + end, end + " " + st, st[0], mid.lower(), end.lower(),
                   end + "QQ", ""]
        steps = []
        for _ in range(rng.randint(ctx.pick(9, 12), ctx.pick(14, 22))):
            r = rng.random()
            if r < 0.45:
                steps.append(("post", "change-query(%s)" % rng.choice(queries) if rng.random() < 0.9 else "clear-query"))
            elif r < 0.55:
                steps.append(("post", rng.choice(["backward-delete-char", "put(%s)" % end[-1], "beginning-of-line+delete-char", "unix-line-discard+put(%s)" % end])))
            elif r < 0.75:
                steps.append(("post", rng.choice(["down", "up", "down+down+down", "last", "first", "page-down", "page-up", "toggle+down", "pos(4)",
                                                  "toggle-all", "half-page-down", "exclude"])))
            elif r < 0.85:
                steps.append(vis_step(rng))
            elif r < 0.90:
                steps.append(("key", rng.choice(["Down", "Up", "BSpace"])))
            elif r < 0.95:
                steps.append(("type", rng.choice(list(end))))
            else:
                lw2 = rng.randint(20, 60)
                steps.append(("resize", [lw2 + (3 if border else 0), rng.choice([6, 8, 10, 13]) + (2 if border else 0)]))
        jobs.append((scfg, items, steps, w, h))
    return jobs

# ---- sessions over lines with TAB characters: tab stops, with and without highlighted / coloured parts
def tab_width(text, ts):
    """Columns a line takes with its TABs expanded - used by the DRIVER only, to choose window widths a line fits exactly
    or misses by one column (what the screen must show is TLC's business)."""
    col = 0
    for ch in text:
        if ch == "\t":
            col += ts - col % ts
        else:
            col += 2 if unicodedata.east_asian_width(ch) in ("W", "F") else 1
    return col


def tab_line(rng, marks, wide=False, length=None):
    """Fields of lower-case letters and digits separated by TABs (some empty: TAB TAB, leading / trailing TAB); the
    upper-case markers are put in once each: marks = (first field, a middle field, LAST field), so that a query made of a
    marker matches before, between and after TABs."""
    nf = rng.choice([2, 3, 3, 4, 5, 8]) if length is None else max(2, length // 9)
    fields = []
    for _ in range(nf):
        n = rng.choice([0, 1, 2, 3, 5, 7, 8, 9, 12]) if length is None else rng.choice([6, 7, 8, 9, 15, 16])
        f = [rng.choice("abcdefghijklmnopqrstuvwxyz0123456789-_./") for _ in range(n)]
        if wide and f and rng.random() < 0.4:
            f[rng.randrange(len(f))] = rng.choice(H_WIDE)
        fields.append(f)
    st, mid, end = marks
    if st:
        p = rng.randint(0, len(fields[0]))
        fields[0][p:p] = st
    if mid:
        f = fields[len(fields) // 2]
        p = rng.randint(0, len(f))
        f[p:p] = mid
    if end:
        fields[-1] += list(end)
    if rng.random() < 0.15:
        fields.insert(0, [])
    return "\t".join("".join(f) for f in fields)


def colour_random(rng, text):
    """One or two parts of the line wrapped in SGR sequences; a part may contain TABs or end right before one."""
    n = len(text)
    if n == 0:
        return text
    cuts = sorted({rng.randint(0, n) for _ in range(rng.choice([2, 2, 4]))} | ({text.index("\t")} if "\t" in text and rng.random() < 0.6 else set()))
    out, at, on = [], 0, False
    for c in cuts + [n]:
        seg = text[at:c]
        if on and seg:
            out.append(rng.choice(["\x1b[31m", "\x1b[1;32m", "\x1b[4m", "\x1b[38;5;208m", "\x1b[44m"]) + seg + rng.choice(["\x1b[m", "\x1b[0m"]))
        else:
            out.append(seg)
        on = not on
        at = c
    if "\x1b" not in "".join(out):
        return "\x1b[31m" + text[:1] + "\x1b[m" + text[1:]
    return "".join(out)


def make_tjobs(ctx):
    rng = ctx.rng
    jobs = []
    for k in range(ctx.pick(14, 120)):
        letters = rng.sample("ABCDEFGHIJKLMNOPQRSTUVWXYZ", 8)
        st, mid, end = "".join(letters[0:2]), "".join(letters[2:5]), "".join(letters[5:8])
        border = rng.random() < 0.4
        hscroll = rng.random() < 0.35              # (cut in front: tab stops of the displayed part, see FzfScreen.WindowT)
        ts = rng.choice([1, 2, 3, 4, 4, 8, 8, None])
        ansi = k % 5 in (1, 3)
        scfg = SCfg(layout=rng.choice(["default", "reverse", "reverse-list"]), info=rng.choice(["default", "default", "inline", "hidden"]),
                    sep=rng.random() < 0.7, header=rng.choice([None, None, "HEAD"]), nhl=0 if ansi else rng.choice([0, 0, 1]),
                    header_first=False, inputless=False, prompt=None, pointer=rng.choice([None, None, "=>"]), marker=None,
                    # (cut in front behind an ellipsis that is not two columns wide: FzfScreen.DevTabStops; not inside a border, where
                    # the overflowing text takes the frame with it for the rest of the session)
                    ellipsis=(rng.choice([None, ".."]) if border else rng.choice([None, "..", None, "..", "~", "", "...", "\u2026"])) if hscroll
                    else rng.choice([None, None, "~", "", "..."]),
                    multi=rng.choice([None, 3, "inf"]), cycle=False, scroll_off=rng.choice([None, 0]), disabled=False, hscroll=hscroll,
                    hscroll_off=rng.choice([None, None, 0, 5]), keep_right=hscroll and rng.random() < 0.2, scrollbar=rng.random() < 0.3,
                    border=border, nosort=rng.random() < 0.5, tabstop=ts, ansi=ansi)
        n = rng.choice([3, 5, 8, 12])
        plain_items = []
        for i in range(n):
            marks = (st if rng.random() < 0.9 else None, mid if rng.random() < 0.9 else None, end if rng.random() < 0.9 else None)
            plain_items.append(tab_line(rng, marks, wide=(k % 4 == 3), length=rng.choice([None, None, None, 60])))
        if k % 2 == 0:
            plain_items.append(rng.choice(["ab\tX|", "abc\tY|", "abcdefg\tZ|", "b\tb\tW|", "a\t1234567890123456789012345678\t|"]))
        items = [colour_random(rng, x) for x in plain_items] if ansi else plain_items
        # window widths: some line fits exactly / misses by one column (room = width - pointer - marker - 1 reserved, inside a
        # border 3 columns less)
        ind = (2 if scfg.pointer is None else len(scfg.pointer) + 1) + 1 + (3 if border else 0)
        edge = sorted({tab_width(x, ts or 8) + ind + d for x in plain_items for d in (0, -1, 1) if 20 <= tab_width(x, ts or 8) + ind + d <= 90})
        widths = edge or [rng.randint(20, 60)]
        w, h = rng.choice(widths), rng.choice([6, 7, 8, 10, 12, 16]) + (2 if border else 0)
        queries = [st, mid, end, end, st + " " + end, mid + " " + end, st[0], mid.lower(), end.lower(), st[:1] + mid[:1] + end[:1], end + "QQ", "", "a", "b"]
        steps = []
        for _ in range(rng.randint(ctx.pick(9, 12), ctx.pick(14, 22))):
            r = rng.random()
            if r < 0.45:
                steps.append(("post", "change-query(%s)" % rng.choice(queries) if rng.random() < 0.9 else "clear-query"))
            elif r < 0.55:
                steps.append(("post", rng.choice(["backward-delete-char", "put(%s)" % end[-1], "beginning-of-line+delete-char", "unix-line-discard+put(%s)" % mid])))
            elif r < 0.68:
                steps.append(("post", rng.choice(["down", "up", "down+down+down", "last", "first", "toggle+down", "pos(4)", "toggle-all"])))
            elif r < 0.74:
                steps.append(vis_step(rng))
            elif r < 0.80:
                steps.append(("type", rng.choice(list(st + mid + end + "ab"))))
            else:
                steps.append(("resize", [rng.choice(widths), rng.choice([6, 8, 10, 13]) + (2 if border else 0)]))
        jobs.append((scfg, items, steps, w, h))
    # directed: lines with TABs cut in FRONT behind an ellipsis that is not two columns wide (FzfScreen.DevTabStops): the right
    # end kept by --keep-right, and a match at the end of the line
    for border, ell, keep in ((True, "...", True), (False, "", False))[:ctx.pick(2, 2)]:
        scfg = SCfg(layout="default", info="default", sep=True, header=None, nhl=0, header_first=False, inputless=False, prompt=None,
                    pointer=None, marker=None, ellipsis=ell, multi=None, cycle=False, scroll_off=None, disabled=False, hscroll=True,
                    hscroll_off=None, keep_right=keep, scrollbar=False, border=border, nosort=True, tabstop=None)
        items = ["x" * 50 + "abcde\t" + "y" * 10, "second", "x" * 54 + "Q\tabc\tdefghijk\tZ"]
        # (inside the border only the first screen is observed: the text that runs over the frame takes it along for good)
        steps = [] if border else [("post", "change-query(Q)"), ("post", "change-query(Z)"), ("post", "clear-query"), ("resize", [31, 8]),
                                   ("post", "change-query(Q)"), ("post", "clear-query")]
        jobs.append((scfg, items, steps, 30 + (3 if border else 0), 8))
    return jobs


# ---- sessions over queries that are wider than the prompt area
def make_pjobs(ctx):
    rng = ctx.rng
    jobs = []
    for k in range(ctx.pick(10, 100)):
        border = rng.random() < 0.5
        scfg = SCfg(layout=rng.choice(["default", "reverse", "reverse", "reverse-list"]),
                    info=rng.choice(["default", "inline", "inline", "right", "hidden", "inline-right"]), sep=rng.random() < 0.7,
                    header=rng.choice([None, None, "HEAD"]), nhl=0, header_first=rng.random() < 0.2, inputless=False,
                    prompt=rng.choice([None, None, "Q: ", "$"]), pointer=None, marker=None, ellipsis=None, multi=rng.choice([None, "inf"]),
                    cycle=False, scroll_off=None, disabled=rng.random() < 0.6, border=border)
        items = [rng.choice(ASCII_POOL) for _ in range(rng.choice([0, 2, 5, 9]))]
        w, h = rng.randint(20, 40), rng.choice([4, 5, 6, 8, 10]) + (2 if border else 0)
        qs = [long_query(rng, rng.choice(P_KINDS + ("wide-start", "mixed", "wide-all")))[0] for _ in range(3)]
        steps = [("post", "change-query(%s)" % qs[0])]
        for _ in range(rng.randint(ctx.pick(12, 16), ctx.pick(20, 32))):
            r = rng.random()
            if r < 0.12:
                steps.append(("post", "change-query(%s)" % rng.choice(qs)))
            elif r < 0.56:
                steps.append(("post", rng.choice(["beginning-of-line", "end-of-line", "backward-char", "forward-char", "backward-word", "forward-word",
                                                  "+".join(["forward-char"] * rng.randint(2, 14)), "+".join(["backward-char"] * rng.randint(2, 14)),
                                                  "beginning-of-line+" + "+".join(["forward-char"] * rng.randint(1, 12)),
                                                  "end-of-line+" + "+".join(["backward-char"] * rng.randint(1, 12))])))
            elif r < 0.68:
                steps.append(("key", rng.choice(["Left", "Right", "Home", "End", "C-a", "C-e", "C-b", "C-f", "S-Left", "S-Right"])))
            elif r < 0.76:
                steps.append(("post", rng.choice(["backward-delete-char", "delete-char", "backward-kill-word", "kill-word", "put(x)", "put(%s)" % P_WIDE[0],
                                                  "put(%s)" % P_WIDE[1][0], "unix-word-rubout", "kill-line", "yank"])))
            elif r < 0.84:
                steps.append(("type", rng.choice(["q", "Z", "7", P_WIDE[0][0], P_WIDE[1][1]])))
            elif r < 0.88:
                steps.append(vis_step(rng))
            else:
                steps.append(("resize", [rng.randint(20, 40), rng.choice([4, 6, 8]) + (2 if border else 0)]))
        jobs.append((scfg, items, steps, w, h))
    return jobs


def make_mjobs(ctx):
    """Sessions about what the info line and the header depend on besides the list: the selection MODE (a finder started
    without --multi gets multi-selection switched on, off and on again with other limits: ` (0)` / ` (0/N)` appear and go)
    and the INPUT (reload / reload-sync with --header-lines: the header rows are the first lines of the input on display,
    never rows of the list).  A screen is judged after every single step."""
    rng = ctx.rng
    jobs = []
    infos = ["default", "inline", "right", "inline-right", "default", "inline"]
    for k in range(ctx.pick(8, 60)):
        reloads = k % 2 == 1
        scfg = SCfg(layout=rng.choice(["default", "reverse", "reverse-list"]), info=infos[k % len(infos)], sep=rng.random() < 0.7,
                    header=rng.choice([None, None, "HEAD"]), nhl=rng.choice([1, 2, 3]) if reloads else rng.choice([0, 0, 1]),
                    header_first=rng.random() < 0.3, inputless=False, prompt=None, pointer=None, marker=None, ellipsis=None,
                    multi=None if (not reloads or rng.random() < 0.5) else rng.choice([2, "inf"]),
                    cycle=False, scroll_off=None, disabled=rng.random() < 0.5)

        def gen(g):
            n = scfg.nhl + rng.choice([1, 2, 4, 7, 12])
            return ["%s %d.%d" % (rng.choice(ASCII_POOL), g, i) for i in range(n)]
        items = gen(0)
        on = lambda: rng.choice(["change-multi", "change-multi(2)", "change-multi(5)", "change-multi(3)"])
        move = lambda: rng.choice(["down", "up", "down+down", "last", "first"])
        steps = [("post", move())]
        for g in range(1, rng.randint(3, 5)):
            if scfg.multi is None or rng.random() < 0.5:
                steps += [("post", on()), ("post", move()), ("post", rng.choice(["toggle", "toggle+down", "select-all", "down"])),
                          ("post", rng.choice(["change-multi(0)", "change-multi(1)", on()])), ("post", move())]
            if reloads:
                steps += [("reload", [g % 3 != 0, gen(g)]), ("post", move())]
                if rng.random() < 0.4:
                    steps.append(("post", rng.choice(["toggle", "toggle-header", "put(a)", "toggle-header+down"])))
        w, h = rng.choice([30, 37, 50]), rng.choice([8, 10, 12, 16])
        jobs.append((scfg, items, steps, w, h))
    return jobs


def classify(rec, verdict):
    """Signature of a rejected screen (for known_findings.json).  A named deviation of the specification (verdict
    "known <kind>", decided by TLC) gets the signature of that finding; anything else describes the rejection."""
    c = rec["cfg"]
    if verdict.startswith("known "):
        kind = verdict.split()[1]
        return {"site": {"info-tail-not-cleared": "printInfoImpl", "missing-header-lines-not-cleared": "printHeaderImpl",
                         "rows-not-cleared-after-header-toggle-reverse-list": "printList",
                         "keep-right-lost-after-exclude": "printHighlighted",
                         "tab-stops-assume-two-column-ellipsis": "trimLeft"}.get(kind, "resizeIfNeeded"), "kind": kind}
    return {"site": "terminal.render", "verdict": verdict.split()[0] if verdict else "", "claims": sorted(verdict.split()[1:]),
            "layout": c["layout"], "info": c["info"], "hscroll": c["hscroll"], "keepRight": c["keepRight"], "border": c["border"],
            "scrollbar": bool(c["scrollbar"]), "sections_toggled": bool(rec.get("vis")), "pattern": bool(rec["st"]["pattern"]),
            "tabs": any("TAB" in t for t in rec["st"]["texts"]),
            "query_wider_than_window": len(rec["st"]["input"]) + len(c["prompt"]) + (4 if c["border"] else 1) > rec["w"]}


def verdicts(res):
    out = {}
    for x in res.raw_items("MISMATCH"):
        ix, _, v = x.partition(",")
        out[int(ix.strip()) - 1] = v.strip().strip('"').strip()
    return out


def run(ctx):
    # (1) the design: placement, claims, truncation, horizontal scrolling on small constants - and, side by side with
    # it, the export of the E cases (six TLC processes, four workers each)
    mcs = (["MC_Screen_place_q.cfg", "MC_Screen_q.cfg", "MC_Screen_cut_q.cfg", "MC_Screen_h_q.cfg", "MC_Screen_tab_q.cfg"] if ctx.quick else
           ["MC_Screen_place.cfg", "MC_Screen.cfg", "MC_Screen_cut.cfg", "MC_Screen_h.cfg", "MC_Screen_tab.cfg"])
    families = [] if ctx.replay else sorted(E_FAMILIES)
    if os.environ.get("VERIF_C15_DEV"):
        families = [f for f in families if "e-" + f in os.environ["VERIF_C15_DEV"].split(",")]
    pin = None if ctx.replay else make_pin(ctx)         # (seeded choices: in this thread)
    with ThreadPoolExecutor(max_workers=9) as ex:
        fgen = {name: ex.submit(e_generate, ctx, name, pin) for name in families}
        results = list(ex.map(lambda cfgname: ctx.tlc("MC_Screen", cfgname, timeout=3000, workers=ctx.pick(3, 4), coverage=True), mcs))
        ecases = {name: fgen[name].result() for name in families}
    # the named deviation "tab-stops-assume-two-column-ellipsis" at design level: TLC must exhibit a row wider than its room
    dev = ctx.tlc("MC_Screen", "MC_Screen_dev_tabpre.cfg", workers=1, timeout=900, expect_ok=False)
    if dev.code != 12 or not any("InvTabPre2Room" in e for e in dev.errors):
        raise Infra("MC_Screen_dev_tabpre.cfg: expected a counterexample to InvTabPre2Room (exit 12), got exit %d\n%s" % (dev.code, dev.tail(20)))
    ctx.cov.setdefault("deviation_counterexamples", []).append("InvTabPre2Room")
    for res in results:                                 # (the bookkeeping of ctx.mc, done in one thread)
        ctx.cov["states"] += res.distinct
        ctx.cov["transitions"] += res.generated
        if res.action_cov:
            ctx.cov["action_coverage"][res.label] = res.action_cov
    taken = {}
    for label, cov in ctx.cov["action_coverage"].items():
        acts = {a: n for a, n in cov.items() if a.startswith("MC_Screen.A")}
        if not any(acts.values()):
            raise Infra("%s: no step of the state machine was taken" % label)
        for a, n in acts.items():
            taken[a] = taken.get(a, 0) + n
    never = sorted(a for a, n in taken.items() if n == 0)
    if never or len(taken) < 7:
        raise Infra("MC_Screen: steps never taken in any configuration: %s (seen %s)" % (never, sorted(taken)))
    # (2) real sessions: the E families and the J sessions side by side
    fzf = ctx.build_fzf()
    eplans = {name: e_plan(ctx, name, ecases[name]) for name in families}       # (seeded choices: in this thread, in order)
    jobs = make_jobs(ctx)
    if ctx.replay:
        c = json.load(open(ctx.replay))["case"]["session"]
        jobs = [(SCfg(**c["cfg"]), c["items"], [tuple(x) for x in c["steps"]], c["width"], c["height"])]
    stats = {}
    lock = threading.Lock()

    def do(ix):
        scfg, items, steps, w, h = jobs[ix]
        st = {}
        recs = run_session(ctx, fzf, ix, scfg, items, steps, w, h, stats=st)
        with lock:
            stats["skipped"] = stats.get("skipped", 0) + st.get("skipped", 0)
        return recs
    records = []
    with ThreadPoolExecutor(max_workers=len(families) + 1) as outer:
        fe = {name: outer.submit(e_sessions, ctx, fzf, name, eplans[name][0], 3) for name in families}
        with ThreadPoolExecutor(max_workers=6) as ex:
            for recs in ex.map(do, range(len(jobs))):
                records += recs
        eresults = {name: fe[name].result() for name in families}
    for name in families:
        e_evaluate(ctx, fzf, name, ecases[name], eplans[name][0], eplans[name][1], eresults[name])
    if not records:
        raise Infra("no screens recorded")
    # (3) TLC judges every recorded screen
    bad, res = judge(ctx, "Judge_Screen", "Judge_Screen.cfg", records, "screen", timeout=3000, workers=8)
    vd = verdicts(res)
    # sessions whose rejection is not a named deviation first, so that a known finding can never crowd out a new one
    unknown = sorted({records[i]["sid"] for i in bad if not vd.get(i, "").startswith("known ")})
    known_only = sorted({records[i]["sid"] for i in bad} - set(unknown))
    for sid in unknown[:5] + known_only[:2]:
        scfg, items, steps, w, h = jobs[sid]
        first = min(i for i in bad if records[i]["sid"] == sid)
        # reproduce: the same session again, settling slowly (the screen is only eventually consistent)
        recs2 = run_session(ctx, fzf, sid, scfg, items, steps, w, h, slow=True)
        bad2, res2 = judge(ctx, "Judge_Screen", "Judge_Screen.cfg", recs2, "screen-re%d" % sid, workers=2)
        if not bad2:
            raise Infra("session %d (%s): rejected screen at step %d (%s) not reproduced" % (
                sid, scfg.describe(), records[first]["step"], vd.get(first)))
        vd2 = verdicts(res2)
        reported = set()
        for b in bad2:
            r = recs2[b]
            v = vd2.get(b, "")
            if v in reported:
                continue
            reported.add(v)
            what = "session %d (%s, %dx%d) step %d: the screen is not the rendition of the state [%s]; state %s; screen:\n%s" % (
                sid, scfg.describe(), r["w"], r["h"], r["step"], v,
                json.dumps({k: ("".join(r["st"][k]) if k == "input" else r["st"][k])
                            for k in ("input", "cy", "offset", "sel", "multi", "count", "track")}),
                "\n".join("".join(x) for x in r["rows"]))
            case = {"session": {"cfg": scfg.to_json(), "items": items, "steps": steps, "width": w, "height": h}, "record": r,
                    "verdict": v, "kf": classify(r, v)}
            ctx.violation(what, case)
    # evidence
    distinct = set()
    shapes = {}
    for r in records:
        c, st = r["cfg"], r["st"]
        key = (c["layout"], c["info"], c["sep"], len(c["header"]), len(c["hlines"]), c["headerFirst"], c["inputless"], r["w"], r["h"],
               len(st["list"]), st["cy"], st["offset"], tuple(st["sel"]), "".join(st["input"]))
        if st["list"]:
            distinct.add(key)
        k2 = "%s/%s" % (c["layout"], c["info"])
        shapes[k2] = shapes.get(k2, 0) + 1
    ctx.cov["distinct_nontrivial"] = len(distinct)
    ctx.cov["rule"] = ("one record per settle point of a tmux-driven real session: logged state + captured screen; non-trivial = "
                       "distinct (layout, info style, separator, header shape, window size, list length, cursor, scroll offset, "
                       "selection, query) with a non-empty result list")
    ctx.cov["sessions"] = len(jobs)
    ctx.cov["screens_judged"] = len(records)
    ctx.cov["screens_skipped_still_reading"] = stats.get("skipped", 0)
    ctx.cov["screens_by_layout_info"] = shapes
    ctx.cov["resizes"] = sum(1 for j in jobs for s in j[2] if s[0] == "resize")
    ctx.cov["screens_after_show_hide"] = sum(1 for r in records if r["vis"])
    ctx.cov["screens_with_hidden_section"] = sum(1 for r in records if r["maxItems"] > r["h"] - (2 if r["cfg"]["border"] else 0)
                                                 - (0 if r["cfg"]["inputless"] else 1) - len(r["cfg"]["header"]) - len(r["cfg"]["hlines"]) - 1)
    ctx.cov["screens_hscroll_with_pattern"] = sum(1 for r in records if r["cfg"]["hscroll"] and r["st"]["pattern"])
    ctx.cov["rows_cut_on_the_left"] = sum(1 for r in records if r["cfg"]["hscroll"] and r["cfg"]["ellipsis"] for row in r["rows"]
                                          if "".join(row).lstrip("| >=*+").startswith("".join(r["cfg"]["ellipsis"])))
    ctx.cov["screens_with_border"] = sum(1 for r in records if r["cfg"]["border"])
    ctx.cov["screens_with_scrollbar_option"] = sum(1 for r in records if r["cfg"]["scrollbar"])
    ctx.cov["rows_reaching_right_edge"] = sum(1 for r in records for row in r["rows"] if len(row) >= r["w"] - 1)
    ctx.cov["query_longer_than_line"] = sum(1 for r in records if len(r["st"]["input"]) > r["w"] - len(r["cfg"]["prompt"]) - 1)
    wide = set("".join(P_WIDE) + H_WIDE)
    tabrecs = [r for r in records if any("TAB" in t for t in r["st"]["texts"])]
    ctx.cov["screens_with_tab_lines"] = len(tabrecs)
    ctx.cov["screens_with_tab_lines_and_pattern"] = sum(1 for r in tabrecs if r["st"]["pattern"])
    ctx.cov["screens_with_tab_lines_by_tabstop"] = {str(t): sum(1 for r in tabrecs if r["cfg"]["tabstop"] == t)
                                                    for t in sorted({r["cfg"]["tabstop"] for r in tabrecs})}
    ctx.cov["sessions_with_coloured_tab_lines"] = sum(1 for j in jobs if j[0].ansi)
    longq = [r for r in records if not r["cfg"]["inputless"] and
             sum(2 if ch in r["wide"] else 1 for ch in r["st"]["input"]) > r["w"] - (3 if r["cfg"]["border"] else 0) - len(r["cfg"]["prompt"]) - 1]
    ctx.cov["query_wider_than_prompt_area"] = len(longq)
    ctx.cov["query_wider_cursor_not_at_end"] = sum(1 for r in longq if r["st"]["cx"] < len(r["st"]["input"]))
    ctx.cov["query_wider_wide_chars_left_of_cursor_not_at_end"] = sum(
        1 for r in longq if r["st"]["cx"] < len(r["st"]["input"]) and wide & set(r["st"]["input"][r["st"]["xoffset"]:r["st"]["cx"]]))
    ctx.cov["query_scrolled"] = sum(1 for r in records if r["st"]["xoffset"] > 0)
    ctx.cov["mismatch_verdicts"] = sorted(set(vd.values()))
    for r in records:
        if r["st"]["list"] and r["st"]["sel"] and len(ctx.cov["samples"]) < 3:
            ctx.sample({"w": r["w"], "h": r["h"], "layout": r["cfg"]["layout"], "info": r["cfg"]["info"],
                        "query": "".join(r["st"]["input"]), "cy": r["st"]["cy"], "offset": r["st"]["offset"], "sel": r["st"]["sel"],
                        "rows": ["".join(x) for x in r["rows"]]})
    ctx.assumptions += [
        "comparable configuration: --no-color --no-unicode (coloured --ansi input: --color=dark; only the text of the screen is "
        "observed), full screen, no margin/padding/preview, --border only as the default box, single-line items without control "
        "characters other than TAB; colours and attributes are not observed (capture-pane -p); horizontal scrolling, scrollbar and "
        "border only in the sessions over long lines, TAB lines and long queries and in the hscroll / tabs / prompt E cases",
        "TAB: tab stops every --tabstop columns counted from the first character of the line's text (man fzf only says 'number of "
        "spaces for a tab character'); exact rows for lines that are complete or cut behind; a line with TABs that horizontal "
        "scrolling cuts in front is expanded anew from the start of what is displayed (code-derived); no TABs in queries, "
        "--header texts or prompts",
        "the exact part shown of a too long line is demanded where the match position does not depend on the matching algorithm "
        "(plain terms whose characters occur once in the line, ASCII / wide cells); otherwise the row is held to the claims "
        "(a contiguous part, ellipsis exactly where something was cut, never wider than the room for the text)",
        "character widths: East Asian Wide/Fullwidth = 2 columns, combining marks = 0, everything else 1 (width table in each record)",
        "the screen is judged at settle points only (trace quiet, no redraw pending, two identical captures); the cursor position "
        "is not observed (its column is computed from the state and required to lie inside the prompt area); a query wider than "
        "the prompt area: exact row given the logged scroll offset, and the logged offset must be one updatePromptOffset can leave "
        "behind for the logged query / cursor / width (code-derived rule; no ellipsis is drawn on the prompt line); with an inline "
        "info text that has no room left the row is held to the claims (contiguous part containing the cursor, never wider than "
        "the area, border intact)",
        "windows at least 20 columns wide and 4 rows high"]
    return "model_checking"
