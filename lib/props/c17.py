"""C17 - any command line is accepted as documented or rejected cleanly (spec/FzfOptions.tla, spec/FzfBind.tla)."""
import json, os, subprocess, tempfile, shutil, concurrent.futures
import vlib
from vlib import Infra, write_ndjson, read_ndjson

HARNESS_FILES = ["zz_verif_common_test.go", "zz_verif_options_test.go"]


# ------------------------------------------------------------------------------------------------ E helper
def replay_grouped(ctx, binary, run, cases, expected, label, sig, describe, per_sig=3, timeout=3600):
    """Like vlib.replay_cases, but mismatches are grouped by a signature (so that one recurring finding cannot hide a
    different one): up to `per_sig` mismatches per signature are re-run alone and reported."""
    if not cases:
        raise Infra("no cases to replay for " + label)
    cpath = os.path.join(ctx.work, "cases-%s.ndjson" % label)
    opath = os.path.join(ctx.work, "out-%s.ndjson" % label)
    write_ndjson(cpath, cases)
    ctx.run_harness(binary, run, env={"VERIF_CASES": cpath, "VERIF_OUT": opath}, timeout=timeout)
    results = read_ndjson(opath)
    if len(results) != len(cases):
        raise Infra("%s: %d cases but %d results" % (label, len(cases), len(results)))
    seen = {}
    nbad = 0
    for i, (c, r) in enumerate(zip(cases, results)):
        exp = expected(c)
        if r.get("got") == exp and not r.get("panic"):
            continue
        nbad += 1
        s = sig(c, exp, r)
        key = json.dumps(s, sort_keys=True)
        seen[key] = seen.get(key, 0) + 1
        if seen[key] > per_sig or len(seen) > 12:
            continue
        c1 = os.path.join(ctx.work, "case1-%s.ndjson" % label)
        o1 = os.path.join(ctx.work, "out1-%s.ndjson" % label)
        write_ndjson(c1, [c])
        ctx.run_harness(binary, run, env={"VERIF_CASES": c1, "VERIF_OUT": o1}, timeout=timeout)
        r1 = read_ndjson(o1)[0]
        if r1.get("got") == exp and not r1.get("panic"):
            raise Infra("%s: mismatch on case %d not reproduced when run alone" % (label, i))
        what = "%s: real code disagrees with spec: %s" % (label, describe(c, exp, r1))
        case = {"harness": run, "label": label, "case": c, "expected": exp, "got": r1}
        s1 = sig(c, exp, r1)
        if s1:
            case["kf"] = s1
        ctx.violation(what, case)
    ctx.cov["evaluations"] += len(cases)
    ctx.cov["traces_validated_against_impl"] += len(cases)
    if nbad:
        ctx.cov.setdefault("mismatch_signatures", {})[label] = seen
    return results


# ------------------------------------------------------------------------------------------------ bind
def bind_sig(c, exp, r):
    got = r.get("got") or {}
    return {"what": "bind", "form": c.get("form"), "panic": bool(r.get("panic")),
            "spec_err": exp.get("err"), "real_err": got.get("err")}


def bind_describe(c, exp, r):
    return "--bind %s (form %r, legal=%s): spec %s, real %s%s" % (
        json.dumps(c["binds"]), c.get("form"), c.get("legal"), json.dumps(exp), json.dumps(r.get("got")),
        (" PANIC " + r["panic"]) if r.get("panic") else "")


def check_dead(res):
    dead = [a for a, n in res.action_cov.items() if n == 0]
    if dead:
        raise Infra("vacuous model: actions never taken: %s" % dead)


def run_bind(ctx, h):
    # per-action coverage on a small instance; the full instance both checks the theorem and exports the cases
    cov = ctx.tlc("MC_Bind", "MC_Bind_cov.cfg", timeout=600, coverage=True, workers=WORKERS, label="cov-bind")
    check_dead(cov)
    ctx.cov["action_coverage"]["MC_Bind"] = cov.action_cov
    gen = ctx.mc("MC_Bind", ctx.pick("MC_Bind_quick.cfg", "MC_Bind_thorough.cfg"), timeout=1500, workers=WORKERS)
    cases = gen.json_items("CASE")
    gen2 = ctx.tlc("MC_Bind", ctx.pick("Gen_Bind_seq.cfg", "Gen_Bind_seq_thorough.cfg"), timeout=1500,
                   label="gen-bind-seq", workers=WORKERS)
    seqs = gen2.json_items("CASE")
    if len(cases) < 1000 or len(seqs) < 1000:
        raise Infra("TLC exported only %d + %d bind cases" % (len(cases), len(seqs)))
    replay_grouped(ctx, h, "TestVerifBind", cases + seqs, lambda c: c["exp"], "bind", bind_sig, bind_describe)
    legal = [c for c in cases if c["legal"]]
    ctx.cov["bind_roundtrip_cases"] = len(legal)
    ctx.cov["bind_code_derived_legal"] = len([c for c in legal if not c["doc"]])
    ctx.cov["bind_sequences"] = len(seqs)
    ctx.cov["bind_sequences_accepted"] = len([c for c in seqs if not c["exp"]["err"]])
    for c in (legal[len(legal) // 3], seqs[len(seqs) // 2]):
        ctx.sample({"bind": c["binds"], "expected": c["exp"]})
    return legal, seqs


# ------------------------------------------------------------------------------------------------ options
SOURCES = ("file", "env", "argv")


def sources_with(c, needle, exclude=None):
    """Which sources of a case mention an option (by its rendered text); classification only."""
    out = []
    for name in SOURCES:
        text = c[name] if name != "argv" else "\n".join(c["argv"])
        if text in ("\\NONE", "\\MISSING"):
            continue
        words = text.replace("'", " ").split()
        if name == "argv":
            words = c["argv"]
        hit = [w for w in words if w.startswith(needle) and not (exclude and w.startswith(exclude))]
        if hit:
            out.append(name)
    return out


def opt_sig(c, exp, r):
    got = r.get("got") or {}
    if r.get("panic"):
        return {"what": "panic"}
    if exp.get("err") != got.get("err"):
        return {"what": "validity", "spec_err": exp.get("err"), "real_err": got.get("err")}
    if exp.get("err"):
        return {"what": "error-source", "spec": exp.get("src"), "real": got.get("src")}
    fields = sorted(k for k in exp["cfg"] if exp["cfg"][k] != got.get("cfg", {}).get(k))
    sig = {"what": "config", "fields": fields}
    if fields == ["history"]:
        eh, gh = exp["cfg"]["history"], got["cfg"]["history"]
        if eh["on"] and gh.get("on") and eh["path"] == gh.get("path") and gh.get("max") == 1000:
            size_in = sources_with(c, "--history-size")
            hist_in = sources_with(c, "--history", exclude="--history-size")
            if size_in and hist_in and SOURCES.index(size_in[-1]) < SOURCES.index(hist_in[-1]):
                # --history-size given in an earlier source than the --history that is in force: DESIGN section 9, F4
                sig = {"finding": "F4", "opt": "history-size", "earlier_source": size_in[-1]}
    return sig


def opt_describe(c, exp, r):
    got = r.get("got") or {}
    d = ""
    if not exp.get("err") and not got.get("err") and "cfg" in got:
        d = " differing fields: " + json.dumps({k: [exp["cfg"][k], got["cfg"].get(k)] for k in exp["cfg"]
                                                if exp["cfg"][k] != got["cfg"].get(k)})
    else:
        d = " spec %s real %s" % (json.dumps({k: exp[k] for k in exp if k != "cfg"}),
                                  json.dumps({k: got[k] for k in got if k != "cfg"}))
    return "FZF_DEFAULT_OPTS_FILE=%s FZF_DEFAULT_OPTS=%s argv=%s:%s%s" % (
        json.dumps(c["file"]), json.dumps(c["env"]), json.dumps(c["argv"]), d,
        (" PANIC " + r["panic"]) if r.get("panic") else "")


def run_options(ctx, h):
    t = ctx.pick("quick", "thorough")
    # per-action coverage from a run without the (expensive) fold invariants: -coverage with them exhausts the heap
    cov = ctx.tlc("MC_Options", "MC_Options_cov.cfg", timeout=600, coverage=True, workers=WORKERS, label="cov-options",
                  env={"VERIF_SEED": ctx.seed})
    check_dead(cov)
    ctx.cov["action_coverage"]["MC_Options"] = cov.action_cov
    gen = ctx.mc("MC_Options", "MC_Options_%s.cfg" % t, timeout=2400, workers=WORKERS, env={"VERIF_SEED": ctx.seed})
    cases = gen.json_items("CASE")
    num = ctx.pick(300, 6000)
    sim = ctx.tlc("MC_Options", "Gen_Options_sim.cfg", timeout=1800, label="sim-options", workers=4,
                  args=["-simulate", "num=%d" % num, "-depth", "8", "-seed", str(ctx.seed)])
    sims = sim.json_items("CASE")
    if len(cases) < 5000 or len(sims) < num:
        raise Infra("TLC exported only %d + %d option cases" % (len(cases), len(sims)))
    replay_grouped(ctx, h, "TestVerifOptions", cases + sims, lambda c: c["exp"], "options", opt_sig, opt_describe)
    return cases, sims


# ------------------------------------------------------------------------------------------------ J: generators
# Inputs only: words are [k, o, v] with v a list of atoms of the specification's vocabulary (spec/FzfOptions.tla,
# spec/FzfBind.tla); RND stands for an arbitrary text that python makes up and the specification treats as opaque.
RND = "\\RND"
NUM = {"0", "1", "2", "3", "5", "7", "8", "10", "30", "40", "49", "50", "60", "80", "99", "100", "255", "256", "1000", "-1",
       "1.5"}
FLAGS = ["--no-multi", "+m", "--no-sort", "+s", "--cycle", "--no-cycle", "--tac", "--no-tac", "-e", "--exact", "+e",
         "--no-exact", "-i", "--ignore-case", "+i", "--no-ignore-case", "--smart-case", "--no-expect", "--no-history",
         "--no-height", "--no-border", "--no-tmux", "--no-margin", "--no-padding", "--help", "-h", "--version", "--"]
FREE = ["--query", "--filter", "--prompt", "--delimiter"]          # any text is a valid value
SHORT = {"--query": "-q", "--filter": "-f", "--delimiter": "-d", "--nth": "-n", "--multi": "-m", "--sort": "-s"}
CURATED = {
    "--query": [["a"], ["a", " ", "x"], []], "--filter": [["x"], ["a"]], "--prompt": [["x", ">"], []],
    "--delimiter": [[":"], ["a", "x"], ["[", ":", ",", "]"]],
    "--tiebreak": [["index"], ["length", ",", "index"], ["begin"], ["end", ",", "length"], ["index", ",", "length"],
                   ["length", ",", "length"], ["bogus"], ["chunk", ",", "length", ",", "begin", ",", "end"], [],
                   ["pathname", ",", "begin", ",", "end", ",", "index"]],
    "--scheme": [["default"], ["path"], ["history"], ["bogus"], []],
    "--nth": [["1"], ["2", ".."], [".."], ["1", ",", "-1"], ["1", "..", "3"], ["0"], ["a"], ["-1", "..", "2"], ["..", "2"],
              ["-1"]],
    "--height": [["50", "%"], ["10"], ["~", "10"], ["-1"], ["256", "%"], ["~", "-1"], ["a"], ["~", "100", "%"], ["-1", "%"]],
    "--history": [["@T/h1"], ["@T/h2"], []],
    "--history-size": [["2"], ["5"], ["0"], ["a"], ["-1"], ["1000"]],
    "--walker": [["file"], ["dir", ",", "hidden"], ["hidden"], ["bogus"], ["file", ",", ",", "follow"],
                 ["file", ",", "dir", ",", "follow", ",", "hidden"]],
    "--tabstop": [["2"], ["0"], ["a"], ["8"]],
    "--pointer": [[">"], ["a", "x", "a"], [], ["a", "x"]],
    "--preview-window": [["up"], ["hidden"], ["up", ",", "hidden"], ["10", "%"], ["default"], ["nohidden"],
                         ["left", ":", "5"], ["bogus"], ["100", "%"], ["down", ",", "99", "%", ",", "-1"]],
    "--expect": [["a"], ["ctrl-a", ",", "enter"], [","], ["a", "x"], [], ["f2", ",", ",", "tab"]],
    "--bind": [["a", ":", "up"], ["a", ":", "down"], ["a", ":", "+", "accept"],
               ["ctrl-a", ",", "x", ":", "execute", "(", "a", "+", "x", ")", "+", "abort"],
               ["a", ":", "execute", ":", "x", ",", "+", "a"], [",", ":", "abort"], ["a", ":", "bogus"], ["a"],
               ["enter", ":", "put"], []],
    "--multi": [["3"], ["0"], ["a"], ["-1"]], "--sort": [["5"]],
    "--border": [["sharp"], ["none"], ["bogus"], [], ["double"], ["rounded"], ["bold"], ["block"], ["thinblock"],
                 ["horizontal"], ["vertical"], ["top"], ["bottom"], ["left"], ["right"]],
    "--tmux": [["center"], ["bottom", ",", "40", "%"], ["left", ",", "30"], ["80", "%", ",", "60", "%"], ["border-native"],
               ["center", ",", "border-native"], ["top", ",", "80", "%", ",", "40", "%"], ["bogus"],
               ["right", ",", "256", "%"], [], ["right", ",", "40", "%"], ["80", "%"],
               ["center", ",", "80", "%", ",", "border-native"], ["up", ",", "10"], ["down"]],
    "--color": [["fg", ":", "1"], ["bg", ":", "2"], ["fg", ":", "3", ",", "bg", ":", "5"], ["fg", ":", "256"], ["bogus"], [],
                ["fg", ":", "-1"]],
    # 1..4 parts, 5 and 6 parts (valid and with a bad one), empty parts, percent forms at the bound, fractions
    "--margin": [["1"], ["1", ",", "2"], ["1", ",", "2", ",", "3"], ["1", ",", "2", ",", "3", ",", "5"],
                 ["1", ",", "2", ",", "3", ",", "5", ",", "8"], ["0", ",", "0", ",", "0", ",", "0", ",", "0", ",", "0"],
                 ["1", ",", "2", ",", "3", ",", "5", ",", "a"], ["1", ",", "2", ",", "3", ",", "5", ","],
                 ["1", ",", "2", ",", "3", ",", "5", ",", "8", "%"], ["10", "%"], ["1", ",", "5", "%"], ["49", "%"], ["50", "%"],
                 ["1.5", "%"], ["1.5"], ["5", "%", ",", "2", ",", "10", "%", ",", "3"], ["2", ",", "10", "%", ",", "3"], ["-1"],
                 ["a"], [], ["1", ",", ",", "2"], ["1", ","], [",", "1"], ["2", ",", "100", "%"], ["-1", "%"], ["%"], [","],
                 [",", ",", ",", ","]],
    "--padding": [["1"], ["1", ",", "2"], ["2", ",", "3", ",", "5"], ["0", ",", "1", ",", "2", ",", "3"],
                  ["0", ",", "0", ",", "0", ",", "0", ",", "0"], ["1", ",", "2", ",", "3", ",", "5", ",", "8", ",", "10"],
                  ["5", "%"], ["50", "%"], ["a"], [], ["1", ",", ",", "2"], ["2", ",", "10", "%", ",", "3", ",", "5", "%"],
                  ["3", ",", "10", "%"], ["49", "%", ",", "49", "%", ",", "49", "%", ",", "49", "%", ",", "49", "%"]],
}
LABEL_POS = ["--border-label-pos", "--list-label-pos", "--input-label-pos", "--header-label-pos", "--preview-label-pos"]
for _o in LABEL_POS:
    CURATED[_o] = [["3"], ["5"], ["0"], ["3", ":", "bottom"], ["7"], ["8", ":", "top"], ["bottom"], ["top"], ["center"],
                   ["-1", ":", "bottom"], ["center", ":", "bottom"], ["bogus"], [], ["bottom", ":", "5"], ["bogus", ":", "3"],
                   ["3", ":", "bogus"], ["3", ":"], [":", "3"], ["2", ",", "BOTTOM"], ["1.5"], ["5", ":", "top"], ["0", ":", "bottom"]]
# values made of PARTS joined by separators (the specification decides any such sequence): option -> (separators,
# menu of parts, weights for the number of parts 0..n)
MARGIN_PARTS = [["0"], ["1"], ["2"], ["3"], ["5"], ["5", "%"], ["10", "%"], ["49", "%"], ["50", "%"], ["100", "%"], ["1.5", "%"],
                ["1.5"], ["-1"], ["a"], [], ["0", "%"]]
LABEL_PARTS = [["0"], ["3"], ["5"], ["7"], ["-1"], ["top"], ["bottom"], ["center"], ["BOTTOM"], ["bogus"], [], ["1.5"]]
PARTS = {"--margin": ([","], MARGIN_PARTS, [0, 3, 3, 3, 3, 3, 2, 1]), "--padding": ([","], MARGIN_PARTS, [0, 3, 3, 3, 3, 3, 2, 1])}
for _o in LABEL_POS:
    PARTS[_o] = ([":", ":", ","], LABEL_PARTS, [0, 3, 4, 2, 1])
NO_RND = set(LABEL_POS)      # an arbitrary text may or may not be a label position (`r_a:5` is column 5): never generated
POOLS = {   # options whose value grammar the specification decides for ANY sequence of these atoms
    "--tiebreak": ["length", "index", "begin", "end", "chunk", "pathname", ",", "bogus"],
    "--nth": ["1", "2", "3", "-1", "0", "..", ",", "a"],
    "--height": ["~", "-1", "10", "50", "100", "256", "%", "a"],
    "--walker": ["file", "dir", "hidden", "follow", ",", "bogus"],
    "--expect": ["a", "x", "ctrl-a", "enter", "f2", "space", ",", "alt-x", "up", "tab", " ", ":", "+", "alt-", "alt-"],
}
OPTNUM, OPTSTR = ["--multi", "--sort"], ["--border", "--color", "--tmux"]
BIND_KEYS = ["a", "x", "ctrl-a", "enter", "return", "f2", "alt-x", "space", "load", "change", "tab", "up", "down", ",", ":", "+",
             " ", "(", "alt-", "alt-"]
BIND_PLAIN = ["up", "down", "accept", "abort", "select-all", "toggle-down", "preview-up", "print-query",
              "toggle-preview", "change-multi", "put", "bogus"]
BIND_EXEC = ["execute", "execute-silent", "reload", "change-prompt", "transform-query", "put", "unbind", "change-multi"]
BIND_OPEN = ["(", "[", "{", "<", "~", "!", "@", "#", "$", "%", "^", "&", "*", ";", "/", "|"]
BIND_CLOSE = {"(": ")", "[": "]", "{": "}", "<": ">"}
BIND_CHARS = ["a", "x", " ", "+", ",", ":", "(", ")", "[", "]", "{", "}", "<", ">", "é", "漢"] + BIND_OPEN[4:]
BIND_ATOMS = sorted(set(BIND_KEYS + BIND_PLAIN + BIND_EXEC + BIND_CHARS))


def gen_bind_atoms(rng):
    """A bind string as atoms: grammar-shaped with arbitrary arguments, then possibly mutated."""
    atoms = []
    for pi in range(rng.choice([1, 1, 1, 2, 2, 3])):
        if pi:
            atoms.append(",")
        keys = [rng.choice(BIND_KEYS) for _ in range(rng.choice([1, 1, 1, 2, 3]))]
        for ki, k in enumerate(keys):
            if ki:
                atoms.append(",")
            atoms.append(k)
        atoms.append(":")
        if rng.random() < 0.15:
            atoms.append("+")
        for ai in range(rng.choice([1, 1, 2, 2, 3])):
            if ai:
                atoms.append("+")
            if rng.random() < 0.45:
                atoms.append(rng.choice(BIND_PLAIN))
            else:
                atoms.append(rng.choice(BIND_EXEC))
                arg = [rng.choice(BIND_CHARS + ["a", "x", ",", "+", ":", ")"]) for _ in range(rng.choice([0, 1, 2, 3, 4, 6]))]
                form = rng.choice(BIND_OPEN + [":", ":"])
                if form == ":":
                    atoms += [":"] + arg
                else:
                    atoms += [form] + arg + [BIND_CLOSE.get(form, form)]
    r = rng.random()
    if r < 0.35 and atoms:                                  # mutate: drop / insert / replace one atom
        i = rng.randrange(len(atoms))
        m = rng.choice(["drop", "insert", "replace"])
        if m == "drop":
            del atoms[i]
        elif m == "insert":
            atoms.insert(i, rng.choice(BIND_ATOMS))
        else:
            atoms[i] = rng.choice(BIND_ATOMS)
    elif r < 0.45:                                          # arbitrary atom soup
        atoms = [rng.choice(BIND_ATOMS) for _ in range(rng.randrange(0, 9))]
    return atoms


def no_adjacent_numbers(v):
    return all(not (a in NUM and b in NUM) for a, b in zip(v, v[1:]))


def gen_value(rng, opt):
    r = rng.random()
    if opt == "--bind" and r < 0.7:
        return gen_bind_atoms(rng)
    if opt in PARTS and r < 0.55:
        seps, menu, weights = PARTS[opt]
        n = rng.choices(range(len(weights)), weights)[0]
        v = []
        for k in range(n):
            if k:
                v.append(rng.choice(seps))
            v += rng.choice(menu)
        if rng.random() < 0.05:
            v.append(rng.choice(seps))
        return v
    if opt in POOLS and r < 0.5:
        for _ in range(20):
            v = [rng.choice(POOLS[opt]) for _ in range(rng.randrange(0, 6))]
            if no_adjacent_numbers(v):
                return v
    if (r > 0.9 and opt not in NO_RND) or (opt in FREE and r > 0.4):
        return [RND]
    return list(rng.choice(CURATED[opt]))


def gen_occurrence(rng):
    r = rng.random()
    if r < 0.25:
        return [{"k": "opt", "o": rng.choice(FLAGS), "v": []}]
    if r < 0.29:
        return [rng.choice([{"k": "opt", "o": "--bogus", "v": []}, {"k": "eq", "o": "--cycle", "v": ["1"]},
                            {"k": "eq", "o": "--bogus", "v": ["1"]}, {"k": "val", "o": "", "v": ["a"]},
                            {"k": "val", "o": "", "v": ["-1"]}, {"k": "val", "o": "", "v": [RND]}])]
    opt = rng.choice(list(CURATED))
    v = gen_value(rng, opt)
    forms = ["eq", "space", "bare"] if opt in OPTNUM + OPTSTR else ["eq", "eq", "space", "space", "bare"]
    if opt in SHORT:
        forms += ["att", "sspace"]
    f = rng.choice(forms)
    if f == "bare":
        return [{"k": "opt", "o": rng.choice([opt, SHORT.get(opt, opt)]), "v": []}]
    if f == "eq":
        return [{"k": "eq", "o": opt, "v": v}]
    if f == "att" and v:
        return [{"k": "att", "o": SHORT[opt], "v": v}]
    return [{"k": "opt", "o": SHORT[opt] if f == "sspace" else opt, "v": []}, {"k": "val", "o": "", "v": v}]


# every character is at least one column wide (the pointer width check counts columns): no tab / control characters
RND_CHARS = "abcxyzABC0189 _-+=,:;.()[]{}<>~!@#$%^&*|?'\"`\\" + "\u00e9\u00df\u65e5\u672c\u03bb"


def render(rng, w):
    """The text of a word; an RND atom becomes an arbitrary text (starts with r_, no slash / NUL / newline)."""
    def atom(a):
        if a == RND:
            t = "r_" + "".join(rng.choice(RND_CHARS) for _ in range(rng.randrange(1, 14)))
            if rng.random() < 0.35:
                # characters that matter to the layers around the value: `=` (the --opt=value split), `$NAME` and backslashes
                # (the word splitter of $FZF_DEFAULT_OPTS and the options file must not expand anything)
                i = rng.randrange(2, len(t) + 1)
                t = t[:i] + rng.choice(["=", "=b=c", "$a", "$HOME", "${a}", "\\t", "\\", "$"]) + t[i:]
            return t
        return a
    v = "".join(atom(a) for a in w["v"])
    return {"opt": w["o"], "eq": w["o"] + "=" + v, "att": w["o"] + v, "val": v}[w["k"]]


def shquote(s):
    return "'" + s.replace("'", "'\\''") + "'"


def gen_j_input(rng):
    srcs = {}
    for name, mx in (("file", 4), ("env", 4), ("argv", 6)):
        ws = []
        if not (name == "file" and rng.random() < 0.4):
            for _ in range(rng.randrange(0, mx + 1)):
                ws += gen_occurrence(rng)
        srcs[name] = ws
    srcs["argv"] += [{"k": "opt", "o": "--filter", "v": []}, {"k": "val", "o": "", "v": ["x"]}]
    strs = {k: [render(rng, w) for w in ws] for k, ws in srcs.items()}
    return {"file": srcs["file"], "env": srcs["env"], "argv": srcs["argv"], "strs": strs}


INVALID_CLASSES = [   # (c) one representative per class of invalid input, through the real binary
    [{"k": "opt", "o": "--bogus", "v": []}], [{"k": "val", "o": "", "v": ["a"]}], [{"k": "eq", "o": "--cycle", "v": ["1"]}],
    [{"k": "opt", "o": "--prompt", "v": []}], [{"k": "eq", "o": "--multi", "v": ["a"]}], [{"k": "att", "o": "-m", "v": ["a"]}],
    [{"k": "eq", "o": "--tiebreak", "v": ["index", ",", "length"]}], [{"k": "eq", "o": "--nth", "v": ["0"]}],
    [{"k": "eq", "o": "--height", "v": ["256", "%"]}], [{"k": "eq", "o": "--history-size", "v": ["0"]}],
    [{"k": "eq", "o": "--walker", "v": ["hidden"]}], [{"k": "eq", "o": "--tabstop", "v": ["0"]}],
    [{"k": "eq", "o": "--pointer", "v": ["a", "x", "a"]}], [{"k": "eq", "o": "--preview-window", "v": ["bogus"]}],
    [{"k": "eq", "o": "--expect", "v": ["a", "x"]}], [{"k": "eq", "o": "--border", "v": ["bogus"]}],
    [{"k": "eq", "o": "--color", "v": ["fg", ":", "256"]}], [{"k": "eq", "o": "--scheme", "v": ["bogus"]}],
    [{"k": "eq", "o": "--history", "v": []}],
    [{"k": "opt", "o": "--margin", "v": []}, {"k": "val", "o": "", "v": ["1", ",", "2", ",", "3", ",", "5", ",", "8"]}],
    [{"k": "eq", "o": "--padding", "v": ["0", ",", "0", ",", "0", ",", "0", ",", "0"]}],
    [{"k": "eq", "o": "--margin", "v": ["50", "%"]}], [{"k": "eq", "o": "--padding", "v": ["1", ",", ",", "2"]}],
    [{"k": "eq", "o": "--margin", "v": []}], [{"k": "eq", "o": "--padding", "v": ["1.5"]}],
    [{"k": "eq", "o": "--height", "v": ["~", "10"]}, {"k": "eq", "o": "--margin", "v": ["10", "%"]}],
    [{"k": "eq", "o": "--padding", "v": ["5", "%", ",", "2"]}, {"k": "eq", "o": "--height", "v": ["~", "50", "%"]}],
    [{"k": "eq", "o": "--border-label-pos", "v": ["bogus"]}], [{"k": "eq", "o": "--list-label-pos", "v": []}],
    [{"k": "opt", "o": "--input-label-pos", "v": []}, {"k": "val", "o": "", "v": ["3", ":", "bogus"]}],
    [{"k": "eq", "o": "--header-label-pos", "v": ["3", ":"]}], [{"k": "opt", "o": "--preview-label-pos", "v": []}],
] + [[{"k": "opt", "o": "--bind", "v": []}, {"k": "val", "o": "", "v": v}] for v in (
    ["a", ":", "bogus"], ["a"], [":", "up"], ["a", "a", ":", "up"], ["a", ":", "execute", "(", "x"],
    ["a", ":", "execute", "(", "x", ")", "+", "a", ")"], ["a", ":", "execute"], ["ctrl-a", ":", "put"],
    ["a", ":", "unbind", "(", "a", "a", ")"], ["a", ":", "up", "+", "+", "down"], ["a", ":", "up", "+"], [],
    ["a", ":", "up", ","], ["a", ":", "execute", "~", "x"])]


# ------------------------------------------------------------------------------------------------ J: real binary
def run_binary(fzf, inp, tmp):
    """One real `fzf <argv> </dev/null` with FZF_DEFAULT_OPTS / FZF_DEFAULT_OPTS_FILE set from the input."""
    for f in os.listdir(tmp):
        os.remove(os.path.join(tmp, f))
    sub = lambda s: s.replace("@T", tmp)
    env = vlib.go_env()
    for k in ("NO_COLOR", "TMUX", "TMUX_PANE"):
        env.pop(k, None)
    strs = inp["strs"]
    env["FZF_DEFAULT_OPTS"] = " ".join(shquote(sub(w)) for w in strs["env"])
    if inp["file"]:
        path = os.path.join(tmp, "fzfrc")
        with open(path, "w") as fh:
            fh.write("# options\n" + "".join(shquote(sub(w)) + "\n" for w in strs["file"]))
        env["FZF_DEFAULT_OPTS_FILE"] = path
    rec = dict(inp)
    try:
        r = subprocess.run([fzf] + [sub(w) for w in strs["argv"]], stdin=subprocess.DEVNULL, capture_output=True,
                           timeout=60, cwd=tmp, env=env)
        err = r.stderr.decode("utf-8", "replace")
        rec.update({"exit": r.returncode, "stderr": len(err.strip()) > 0, "timeout": False,
                    "crash": ("panic:" in err) or ("goroutine " in err) or r.returncode < 0,
                    "errtext": err[:300]})
    except subprocess.TimeoutExpired:
        rec.update({"exit": -1, "stderr": False, "timeout": True, "crash": False, "errtext": ""})
    return rec


def run_binaries(ctx, fzf, inputs):
    nthreads = 8
    base = tempfile.mkdtemp(prefix="j-", dir=ctx.work)
    chunks = [inputs[i::nthreads] for i in range(nthreads)]

    def work(k):
        tmp = os.path.join(base, "t%d" % k)
        os.makedirs(tmp, exist_ok=True)
        return [run_binary(fzf, inp, tmp) for inp in chunks[k]]
    with concurrent.futures.ThreadPoolExecutor(nthreads) as ex:
        parts = list(ex.map(work, range(nthreads)))
    out = [None] * len(inputs)
    for k, part in enumerate(parts):
        out[k::nthreads] = part
    shutil.rmtree(base, ignore_errors=True)
    return out


def j_sig(r):
    if r.get("crash") or r.get("timeout"):
        return {"what": "crash" if r.get("crash") else "timeout"}
    return {"what": "exit-status", "exit": r.get("exit")}


def run_j_options(ctx):
    fzf = ctx.build_fzf()
    n = ctx.pick(1500, 40000)
    inputs = [{"file": [], "env": [], "argv": occ + [{"k": "opt", "o": "--filter", "v": []}, {"k": "val", "o": "", "v": ["x"]}]}
              for occ in INVALID_CLASSES]
    elsewhere = INVALID_CLASSES[:6] + [o for o in INVALID_CLASSES if o[0]["o"] in ("--margin", "--padding")]
    inputs += [{"file": occ, "env": [], "argv": [{"k": "eq", "o": "--filter", "v": ["x"]}]} for occ in elsewhere]
    inputs += [{"file": [], "env": occ, "argv": [{"k": "eq", "o": "--filter", "v": ["x"]}]} for occ in elsewhere]
    for i in inputs:
        i["strs"] = {k: [render(ctx.rng, w) for w in i[k]] for k in SOURCES}
    ninvalid = len(inputs)
    # every value class of every valued option of the vocabulary, in every form, once through the real binary
    tail = [{"k": "opt", "o": "--filter", "v": []}, {"k": "val", "o": "", "v": ["x"]}]
    sweep = []
    for opt, values in CURATED.items():
        sweep.append([{"k": "opt", "o": opt, "v": []}])
        for v in values:
            sweep.append([{"k": "eq", "o": opt, "v": v}])
            sweep.append([{"k": "opt", "o": opt, "v": []}, {"k": "val", "o": "", "v": v}])
            if opt in SHORT and v:
                sweep.append([{"k": "att", "o": SHORT[opt], "v": v}])
    sweep += [[{"k": "opt", "o": f, "v": []}] for f in FLAGS]
    nsweep = 0
    for k, occ in enumerate(sweep):
        src = SOURCES[k % 3] if occ[0]["o"] in ("--tmux", "--height", "--margin", "--padding") or k % 7 == 0 else "argv"
        i = {"file": [], "env": [], "argv": []}
        i[src] = occ
        i["argv"] = i["argv"] + tail
        i["strs"] = {s_: [render(ctx.rng, w) for w in i[s_]] for s_ in SOURCES}
        inputs.append(i)
        nsweep += 1
    inputs += [gen_j_input(ctx.rng) for _ in range(n)]
    recs = run_binaries(ctx, fzf, inputs)
    bad, _ = vlib.judge(ctx, "Judge_Options", "Judge_Options.cfg", recs, "options", workers=WORKERS, timeout=2400)
    if bad:
        again = run_binaries(ctx, fzf, [inputs[i] for i in bad[:12]])
        bad2, _ = vlib.judge(ctx, "Judge_Options", "Judge_Options.cfg", again, "options-re", workers=1)
        if not bad2:
            raise Infra("J options: %d rejected records, none reproduced" % len(bad))
        for k in bad2:
            r = again[k]
            what = ("J options: the spec rejects what the real binary did: FZF_DEFAULT_OPTS_FILE words=%s "
                    "FZF_DEFAULT_OPTS words=%s argv=%s -> exit %s stderr=%r" % (
                        json.dumps(r["strs"]["file"]), json.dumps(r["strs"]["env"]), json.dumps(r["strs"]["argv"]),
                        r["exit"], r["errtext"]))
            ctx.violation(what, {"label": "j-options", "record": r, "kf": j_sig(r)})
    for r in recs[:ninvalid]:
        if r["exit"] != 2 and not bad:
            raise Infra("an invalid-class input was accepted but the judge did not object: %s" % r["strs"])
    ctx.cov["j_binary_runs"] = len(recs)
    ctx.cov["j_binary_exit_codes"] = {str(c): len([r for r in recs if r["exit"] == c]) for c in sorted({r["exit"] for r in recs})}
    ctx.cov["j_invalid_class_runs"] = ninvalid
    ctx.cov["j_value_class_sweep_runs"] = nsweep
    ok = [r for r in recs[ninvalid + nsweep:] if r["exit"] != 2]
    if ok:
        ctx.sample({"argv": ok[0]["strs"]["argv"], "env": ok[0]["strs"]["env"], "file": ok[0]["strs"]["file"],
                    "exit": ok[0]["exit"]})
    return recs


def run_j_bind(ctx, h):
    n = ctx.pick(3000, 60000)
    inputs = [{"atoms": gen_bind_atoms(ctx.rng)} for _ in range(n)]
    recs = vlib.record_and_judge(ctx, h, "TestVerifBindRecord", inputs, "Judge_Bind", "Judge_Bind.cfg", "bindj",
                                 describe=lambda r: "--bind %r: real err=%s keys=%s acts=%s %s" % (
                                     r["s"], r["err"], r["keys"], json.dumps(r["acts"]), r.get("panicmsg", "")),
                                 kf=lambda r: {"what": "bind-j", "panic": r["panic"], "real_err": r["err"]},
                                 workers=WORKERS)
    ctx.cov["j_bind_records"] = len(recs)
    ctx.cov["j_bind_accepted"] = len([r for r in recs if not r["err"]])
    return recs


WORKERS = int(os.environ.get("VERIF_WORKERS", "0") or 0) or None


BIND_HARD = set("+,:() ")


def do_replay(ctx, h):
    """bin/check C17 <tier> --replay file: re-run exactly one recorded case."""
    case = json.load(open(ctx.replay))["case"]
    label = case.get("label")
    if label in ("options", "bind"):
        run, sig, desc = (("TestVerifOptions", opt_sig, opt_describe) if label == "options" else
                          ("TestVerifBind", bind_sig, bind_describe))
        replay_grouped(ctx, h, run, [case["case"]], lambda c: c["exp"], label, sig, desc)
    elif label == "bindj":
        vlib.record_and_judge(ctx, h, "TestVerifBindRecord", [{"atoms": case["record"]["atoms"]}], "Judge_Bind",
                              "Judge_Bind.cfg", "bindj", kf=lambda r: {"what": "bind-j", "panic": r["panic"],
                                                                       "real_err": r["err"]}, workers=1)
    elif label == "j-options":
        r = case["record"]
        rec = run_binaries(ctx, ctx.build_fzf(), [{k: r[k] for k in ("file", "env", "argv", "strs")}])
        bad, _ = vlib.judge(ctx, "Judge_Options", "Judge_Options.cfg", rec, "options-replay", workers=1)
        for k in bad:
            ctx.violation("J options (replay): exit %s for argv=%s" % (rec[k]["exit"], json.dumps(rec[k]["strs"]["argv"])),
                          {"label": "j-options", "record": rec[k], "kf": j_sig(rec[k])})
    else:
        raise Infra("unknown replay label %r" % label)
    return "model_checking"


def run(ctx):
    h = ctx.build_harness("src", HARNESS_FILES)
    if ctx.replay:
        return do_replay(ctx, h)
    only = os.environ.get("C17_ONLY", "")          # development aid: run one part only
    legal = seqs = cases = sims = jb = jo = []
    if only in ("", "bind"):
        legal, seqs = run_bind(ctx, h)
    if only in ("", "options"):
        cases, sims = run_options(ctx, h)
    if only in ("", "j"):
        jb = run_j_bind(ctx, h)
        jo = run_j_options(ctx)
    # ---- evidence
    default_cfg = None
    for c in cases:
        if c["file"] == "\\NONE" and c["env"] == "" and c["argv"] == [] and not c["exp"]["err"]:
            default_cfg = c["exp"]["cfg"]
    accepted = {json.dumps([c["file"], c["env"], c["argv"]]) for c in cases + sims
                if not c["exp"]["err"] and c["exp"]["cfg"] != default_cfg}
    rejected = [c for c in cases + sims if c["exp"]["err"]]
    hard_bind = {json.dumps(c["binds"]) for c in legal
                 if any(ch in BIND_HARD for b in c["binds"] for ch in b.split(":", 1)[-1].replace("execute", "", 1)[1:-1])}
    ctx.cov["option_cases"] = len(cases)
    ctx.cov["option_cases_simulated"] = len(sims)
    ctx.cov["option_cases_accepted_nondefault"] = len(accepted)
    ctx.cov["option_cases_rejected"] = len(rejected)
    ctx.cov["option_error_sources"] = {s: len([c for c in rejected if c["exp"].get("src") == s]) for s in SOURCES}
    ctx.cov["distinct_nontrivial"] = len(accepted) + len(hard_bind)
    ctx.cov["rule"] = (
        "distinct (options file, $FZF_DEFAULT_OPTS, argv) triples generated by TLC from the option vocabulary whose "
        "predicted outcome is an accepted configuration different from the default one (every field of the projected "
        "configuration compared with the real ParseOptions) + distinct legal --bind strings (all 17 delimiter forms x "
        "16 embedding contexts x arguments over {a + , : ( ) blank}) whose argument contains at least one of + , : ( ) "
        "blank, compared key by key with the real parseKeymap; rejected cases, arbitrary atom sequences, random bind "
        "strings judged by TLC and real-binary runs are counted separately in coverage")
    # thorough enumerates its finite spaces completely (all singles, all ordered pairs of the occurrences in all
    # placements; all bind forms x contexts x arguments <= 3; all atom sequences <= 4); quick samples the cross-family pairs
    ctx.cov["exhaustive"] = (not ctx.quick) and only == ""
    if cases:
        ok = [c for c in cases if not c["exp"]["err"] and c["exp"]["cfg"] != default_cfg]
        c = ok[(ctx.seed * 7919) % len(ok)]
        ctx.sample({"file": c["file"], "env": c["env"], "argv": c["argv"],
                    "expected_nondefault": {k: v for k, v in c["exp"]["cfg"].items() if v != default_cfg[k]}})
        bad = rejected[(ctx.seed * 104729) % len(rejected)]
        ctx.sample({"file": bad["file"], "env": bad["env"], "argv": bad["argv"], "expected": bad["exp"]})
    ctx.assumptions += [
        "option vocabulary: %d flag spellings and %d valued options (%s occurrences = option x form x value), among them "
        "--margin / --padding (1-4 sizes, 5+ parts, empty parts, percent bounds) and the five --*-label-pos options "
        "(column and side, a later occurrence replaces both); other options are parsed by the same loop but their value "
        "grammars are not modelled" % (len(FLAGS), len(CURATED),
                                       ctx.cov.get("action_coverage", {}).get("MC_Options", {}).get("MC_Options.Init", "?")),
        "values are sequences of atoms of a fixed vocabulary chosen so that no concatenation of two atoms is itself a "
        "key/action/number; arbitrary texts (J) are opaque to the spec and only generated where every text has the same "
        "validity (they start with r_, contain no '/', NUL or newline)",
        "complete: singles x 4 placements, same-family pairs x 6 placements, all bind forms/contexts/arguments <= %d, all "
        "atom sequences <= %d over 14 atoms; cross-family pairs: %s" % (
            ctx.pick(2, 3), ctx.pick(3, 4), ctx.pick("a seeded 1/40 sample", "all")),
        "stdin is not a terminal in every run (the default --scheme depends on it); NO_COLOR unset",
        "error messages are compared only by the source they name (file / $FZF_DEFAULT_OPTS / argv), not by text",
        "'never a crash' for arbitrary bytes is not decidable by a bounded model: every replay and every real-binary "
        "run additionally checks for Go panics",
    ]
    return "model_checking"
