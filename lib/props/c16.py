"""C16 - the --listen endpoint is robust and enforces its access rules (spec/FzfServer.tla).

MC   MC_Server.tla: the connection state machine (Arrive / CloseEarly / SeeEOF / Scan / Finish) over request shapes,
     every way of cutting the stream into reads and of closing it early; invariants KeyEnforced, GetIsReadOnly,
     OnlyGetReveals, BadMethodRefused, DeliveredOnlyAsDeserved, MalformedRejected, FramingIndependent, CutsOnlyRefuse,
     WellFormedAnswer, StartRule.  Gen_ServerMisc.cfg: the action-list grammar round trip.
E    Gen_Server.tla exports request shapes x keys x framings with the set of observations FzfServer allows
     (status, delivered actions, state revealed, handler calls, whether the server waits for more input,
     well-formed answer); replayed into the real httpServer.handleHttpRequest on a scripted connection, again over
     net.Pipe, and a sample over loopback TCP against the real startHttpServer.  Listener start rule, action lists
     (POST parser vs --bind parsers vs the spec's parse) and the remote-listener action filter likewise.
J    random byte streams / random action lists on the real code, judged by Judge_Server.tla.
"""
import json, os, socket
from vlib import replay_cases, record_and_judge, write_ndjson, read_ndjson, Infra, log

FILES = ["zz_verif_common_test.go", "zz_verif_server_test.go"]
F3 = {"finding": "F3", "method": "GET", "key": "missing-or-wrong"}
COMMATAIL = {"finding": "post-comma-tail", "site": "parseActionList", "form": "closer-then-comma"}


def _workers():
    w = int(os.environ.get("VERIF_WORKERS", "0") or "0")
    return w if w > 0 else None


# ------------------------------------------------------------------ helper for process-level drivers (integrator)
def send_raw(port, segments, host="127.0.0.1", timeout=8.0):
    """Send byte segments to a --listen port the way the harness does (one send per segment, then the write side
    is closed so the server never has to wait for its 10 s read deadline) and return the raw answer."""
    s = socket.create_connection((host, port), timeout=timeout)
    try:
        s.setsockopt(socket.IPPROTO_TCP, socket.TCP_NODELAY, 1)
        for seg in segments:
            if seg:
                try:
                    s.sendall(seg)
                except OSError:
                    break
        try:
            s.shutdown(socket.SHUT_WR)
        except OSError:
            pass
        buf = b""
        while True:
            try:
                d = s.recv(65536)
            except OSError:
                break
            if not d:
                break
            buf += d
        return buf
    finally:
        s.close()


def post_request(body, key=None, extra_headers=()):
    """Bytes of a well-formed POST for `body` (str), optionally with the API key."""
    b = body.encode()
    hs = ["POST / HTTP/1.1", "Host: localhost", "Content-Length: %d" % len(b)]
    if key is not None:
        hs.append("X-API-Key: " + key)
    hs += list(extra_headers)
    return ("\r\n".join(hs) + "\r\n\r\n").encode() + b


# ------------------------------------------------------------------ signatures
def _kf_server(case, allow, got):
    t = case.get("tags", {})
    unauth_ok = any(a["gets"] for a in allow)          # does the spec let the handler be consulted at all?
    if t.get("m") == "GET" and case["key"] != "" and got.get("gets") and not unauth_ok and not got.get("dl"):
        return F3
    if t.get("body") == "argcomma" and got.get("st") == 200:
        return COMMATAIL
    return None


def _desc_server(case, fr, allow, got, msg):
    return "key=%r env=%s request=%r segments=%s (of %d atoms): spec allows %s, real server: %s %r" % (
        case["key"], case["env"], "".join(case["wire"])[:300], fr, len(case["wire"]),
        json.dumps(allow)[:500], json.dumps(got), msg)


def replay_server(ctx, binary, cases, label, mode="script", drop_waits=False, timeout=1800):
    """cases: TLC's per-shape records (wire, key, env, fr, allow, idx).  Every framing's observation must be a
    member of the set TLC computed for it.  Mismatches are grouped by signature; the first of each group are
    re-run alone before they count."""
    if not cases:
        raise Infra("no cases for " + label)
    cpath = os.path.join(ctx.work, "cases-%s.ndjson" % label)
    opath = os.path.join(ctx.work, "out-%s.ndjson" % label)
    write_ndjson(cpath, [{k: c[k] for k in ("id", "key", "env", "wire", "fr")} for c in cases])
    env = {"VERIF_CASES": cpath, "VERIF_OUT": opath, "VERIF_CONN": mode}
    ctx.run_harness(binary, "TestVerifServerReplay", env=env, timeout=timeout)
    outs = read_ndjson(opath)
    if len(outs) != len(cases):
        raise Infra("%s: %d cases but %d results" % (label, len(cases), len(outs)))

    def allowed(c, i):
        al = c["allow"][c["idx"][i]]
        return [dict(a, waits=False) for a in al] if drop_waits else al

    def proj(o):
        return dict(o, waits=False) if drop_waits else o

    groups = {}
    n = 0
    for c, o in zip(cases, outs):
        if o["id"] != c["id"] or len(o["idx"]) != len(c["fr"]):
            raise Infra("%s: result does not belong to case %s" % (label, c["id"]))
        hard = o.get("panic") or o.get("nodeadline") or o.get("baddeadline")
        for i, fr in enumerate(c["fr"]):
            n += 1
            got = proj(o["obs"][o["idx"][i]])
            al = allowed(c, i)
            if got in al and not hard:
                continue
            sig = _kf_server(c, al, got)
            if hard:
                sig = None
            key = json.dumps(sig, sort_keys=True) if sig else "%s%s:%s:%s" % (
                "0-DELIVERED:" if got.get("dl") else "", "0-REVEALED:" if got.get("rv") else "1:", c["tags"].get("m"), got.get("st"))
            groups.setdefault(key, []).append((c, i, sig))
    ctx.cov["evaluations"] += n
    ctx.cov["traces_validated_against_impl"] += n
    for key, items in sorted(groups.items()):
        log("%s: %d framings not explained by the spec [%s]" % (label, len(items), key))
        for c, i, sig in items[:3]:
            one = {k: c[k] for k in ("id", "key", "env", "wire")}
            one["fr"] = [c["fr"][i]]
            c1 = os.path.join(ctx.work, "case1-%s.ndjson" % label)
            o1 = os.path.join(ctx.work, "out1-%s.ndjson" % label)
            write_ndjson(c1, [one])
            ctx.run_harness(binary, "TestVerifServerReplay", env={"VERIF_CASES": c1, "VERIF_OUT": o1, "VERIF_CONN": mode},
                            timeout=600)
            r1 = read_ndjson(o1)[0]
            got = proj(r1["obs"][0])
            al = allowed(c, i)
            hard = r1.get("panic") or r1.get("nodeadline") or r1.get("baddeadline")
            if got in al and not hard:
                raise Infra("%s: mismatch on case %s framing %s not reproduced when run alone" % (label, c["id"], c["fr"][i]))
            what = "%s: %s%s" % (label, _desc_server(c, c["fr"][i], al, got, (r1.get("msgs") or [""])[0]),
                                 (" PANIC " + str(r1.get("panic"))) if r1.get("panic") else
                                 (" READ WITHOUT DEADLINE" if (r1.get("nodeadline") or r1.get("baddeadline")) else ""))
            rec = {"harness": "TestVerifServerReplay", "label": label, "mode": mode, "case": one, "tags": c.get("tags"),
                   "allowed": al, "got": got, "raw": r1}
            if sig:
                rec["kf"] = sig
            ctx.violation(what, rec)
    return outs


def replay_tcp(ctx, binary, cases, num, label="tcp"):
    """A sample over real loopback TCP against the real startHttpServer.  Only framings whose answer does not
    depend on how TCP coalesces the writes are taken: a single segment (complete or cut short by an early close),
    or one cut whose allowed observations equal those of the uncut request.  `waits` is not observable."""
    pool = []
    for c in cases:
        if c["env"] != "ok":
            continue
        n = len(c["wire"])
        full = c["allow"][c["idx"][0]]            # framing 0 is the whole request in one segment
        for i, fr in enumerate(c["fr"]):
            if len(fr) <= 1 or (len(fr) == 2 and sum(fr) == n and c["allow"][c["idx"][i]] == full):
                pool.append((c, i))
    ctx.rng.shuffle(pool)
    pool = pool[:num]
    if not pool:
        raise Infra("no framings for the TCP sample")
    items = [{"id": j, "key": c["key"], "wire": c["wire"], "fr": c["fr"][i]} for j, (c, i) in enumerate(pool)]

    def exp(j):
        c, i = pool[j]
        return [dict(a, waits=False) for a in c["allow"][c["idx"][i]]]

    cpath = os.path.join(ctx.work, "cases-%s.ndjson" % label)
    opath = os.path.join(ctx.work, "out-%s.ndjson" % label)
    write_ndjson(cpath, items)
    ctx.run_harness(binary, "TestVerifServerTCP", env={"VERIF_CASES": cpath, "VERIF_OUT": opath}, timeout=1200)
    outs = read_ndjson(opath)
    if len(outs) != len(items):
        raise Infra("tcp: %d cases, %d results" % (len(items), len(outs)))
    resets = 0
    groups = {}
    for j, o in enumerate(outs):
        got = o["got"]
        if got["st"] == 0 and o.get("raw", "") == "":
            resets += 1          # connection reset before any byte of the answer was read: not an observation
            continue
        if got in exp(j):
            continue
        c, i = pool[j]
        sig = _kf_server(c, exp(j), got)
        key = json.dumps(sig, sort_keys=True) if sig else "none"
        groups.setdefault(key, []).append((j, sig))
    if resets > len(items) // 5:
        raise Infra("tcp: %d of %d connections were reset before an answer could be read" % (resets, len(items)))
    ctx.cov["tcp_sample"] = {"framings": len(items), "resets": resets}
    ctx.cov["evaluations"] += len(items)
    ctx.cov["traces_validated_against_impl"] += len(items)
    for key, lst in groups.items():
        log("tcp: %d answers not explained by the spec [%s]" % (len(lst), key))
        for j, sig in lst[:3]:
            c1 = os.path.join(ctx.work, "case1-tcp.ndjson")
            o1 = os.path.join(ctx.work, "out1-tcp.ndjson")
            write_ndjson(c1, [items[j]])
            ctx.run_harness(binary, "TestVerifServerTCP", env={"VERIF_CASES": c1, "VERIF_OUT": o1}, timeout=300)
            r1 = read_ndjson(o1)[0]
            if r1["got"] in exp(j):
                raise Infra("tcp: mismatch on %s not reproduced" % json.dumps(items[j])[:300])
            c, i = pool[j]
            rec = {"harness": "TestVerifServerTCP", "label": "tcp", "case": items[j], "tags": c.get("tags"),
                   "allowed": exp(j), "got": r1["got"], "raw": r1}
            if sig:
                rec["kf"] = sig
            ctx.violation("tcp (real startHttpServer on loopback): " + _desc_server(c, c["fr"][i], exp(j), r1["got"], r1.get("raw")), rec)


def _kf_list(c, exp, r):
    g = r.get("got") or {}
    if c.get("commatail") and not exp["post"]["ok"] and g.get("post", {}).get("ok") and not g.get("bind", {}).get("ok"):
        return COMMATAIL
    return None


def _kf_judge(r):
    if r.get("kind") == "req" and r.get("key") and not r.get("haskey") and r.get("ngets") and bytes(r["head"][:5]) == b"GET /" \
            and not r.get("dl") and not r.get("panic"):
        return F3
    return None


def run(ctx):
    W = _workers()
    h = ctx.build_harness("src", FILES)

    if ctx.replay:
        rec = json.load(open(ctx.replay))["case"]
        if rec.get("harness") == "TestVerifServerReplay":
            c = dict(rec["case"], tags=rec.get("tags") or {}, allow=[rec["allowed"]], idx=[0])
            replay_server(ctx, h, [c], "replay", mode=rec.get("mode", "script"), drop_waits=rec.get("mode") == "pipe")
        elif rec.get("harness") == "TestVerifServerActions":
            replay_cases(ctx, h, "TestVerifServerActions", [rec["case"]], lambda c: c["exp"], "replay", kf=_kf_list)
        elif rec.get("harness") == "TestVerifServerTCP":
            c1, o1 = os.path.join(ctx.work, "case1-tcp.ndjson"), os.path.join(ctx.work, "out1-tcp.ndjson")
            write_ndjson(c1, [rec["case"]])
            ctx.run_harness(h, "TestVerifServerTCP", env={"VERIF_CASES": c1, "VERIF_OUT": o1}, timeout=300)
            r1 = read_ndjson(o1)[0]
            if r1["got"] not in rec["allowed"]:
                ctx.violation("replay (tcp): spec allows %s, real server %s" % (json.dumps(rec["allowed"])[:500], json.dumps(r1["got"])),
                              dict(rec, got=r1["got"], raw=r1))
        elif rec.get("harness") == "TestVerifServerRandom":
            r = rec["record"]
            record_and_judge(ctx, h, "TestVerifServerRandom", [{"kind": r["kind"], "seed": r["seed"], "key": r.get("key", "")}],
                             "Judge_Server", "Judge_Server.cfg", "replay", kf=_kf_judge, workers=1)
        else:
            raise Infra("cannot replay " + str(rec.get("harness")))
        return "model_checking"

    # ---- (1) exhaustive model checking of the connection state machine
    mc = ctx.mc("MC_Server", ctx.pick("MC_Server_quick.cfg", "MC_Server.cfg"), timeout=2400, coverage=True, workers=W)
    dead = [a for a, n in mc.action_cov.items() if n == 0]
    if dead:
        raise Infra("vacuous model: actions never taken: %s" % dead)

    # ---- (2) action lists: grammar round trip (MC) + export; POST parser vs --bind parsers vs the spec's parse;
    #          the same TLC run prints the small tables (listener start, action filter, long bodies, busy channel)
    genv = {"GEN_SEED": ctx.seed % 1000, "GEN_NSAMPLE": ctx.pick(20, 120), "GEN_STRIDE": ctx.pick(12, 1)}
    gm = ctx.mc("Gen_Server", "Gen_ServerMisc.cfg", timeout=1200, workers=W, env=genv, label="gen-misc")
    lists = gm.json_items("LIST")
    big = gm.json_items("BIG")
    slow = sorted(gm.json_items("SLOW"), key=lambda c: c["id"])[:ctx.pick(1, 2)]
    starts = gm.json_items("START")
    execs = gm.json_items("EXEC")
    if len(lists) < 1000 or len(big) < 5 or not slow or len(starts) < 20 or len(execs) < 20:
        raise Infra("export too small: %d lists, %d big, %d slow, %d start, %d exec" % (
            len(lists), len(big), len(slow), len(starts), len(execs)))
    plain = [c for c in lists if not c["commatail"]]
    tails = [c for c in lists if c["commatail"]]
    replay_cases(ctx, h, "TestVerifServerActions", plain, lambda c: c["exp"], "lists", kf=_kf_list,
                 describe=lambda c, e, r: "list %r: spec %s, real %s %s" % ("".join(c["list"]), json.dumps(e)[:400],
                                                                          json.dumps(r.get("got"))[:600], r.get("errs")))
    if tails:
        replay_cases(ctx, h, "TestVerifServerActions", tails, lambda c: c["exp"], "lists-commatail", kf=_kf_list, max_report=3,
                     describe=lambda c, e, r: "list %r is not an action list (--bind rejects it) but the POST parser accepts it: "
                                              "spec %s, real %s" % ("".join(c["list"]), json.dumps(e["post"]), json.dumps(r.get("got"))[:500]))

    # ---- (3) listener start rule, remote-listener action filter
    replay_cases(ctx, h, "TestVerifServerStart", starts, lambda c: c["exp"], "start")
    replay_cases(ctx, h, "TestVerifServerExecFilter", execs, lambda c: c["exp"], "execfilter")

    # ---- (4) request shapes x keys x framings
    g = ctx.tlc("Gen_Server", "Gen_ServerShapes.cfg", workers=W, timeout=3000, env=genv, label="gen-shapes", heap="8g")
    cases = g.json_items("CASE")
    if len(cases) < ctx.pick(200, 3000):
        raise Infra("export too small: %d shapes" % len(cases))
    replay_server(ctx, h, cases + big + slow, "server")
    replay_server(ctx, h, cases + big, "server-pipe", mode="pipe", drop_waits=True)
    replay_tcp(ctx, h, cases, ctx.pick(400, 4000))

    # ---- (5) J: random byte streams and random action lists, judged by Judge_Server
    nreq, nact = ctx.pick(4000, 120000), ctx.pick(2000, 40000)
    base = ctx.seed * 1000003
    inputs = [{"kind": "req", "seed": base + i, "key": "s3cR7k" if i % 3 else ""} for i in range(nreq)]
    inputs += [{"kind": "acts", "seed": base + i, "key": ""} for i in range(nact)]
    recs = record_and_judge(ctx, h, "TestVerifServerRandom", inputs, "Judge_Server", "Judge_Server.cfg", "random",
                            kf=_kf_judge, workers=W, max_report=5,
                            describe=lambda r: json.dumps({k: r.get(k) for k in ("kind", "key", "data", "segs", "st", "dl", "rv",
                                                                                  "ngets", "wf", "panic", "list", "post", "bind",
                                                                                  "bound")})[:1200])

    # ---- evidence
    nontrivial = set()
    by_status = {}
    nfr = 0
    for c in cases + big + slow:
        for i, fr in enumerate(c["fr"]):
            nfr += 1
            al = c["allow"][c["idx"][i]]
            for a in al:
                by_status[a["st"]] = by_status.get(a["st"], 0) + 1
            if any(a["st"] in (200, 401, 503) for a in al):
                nontrivial.add((c["id"], i))
    delivered = sum(1 for r in recs if r.get("kind") == "req" and r.get("dl"))
    ctx.cov["distinct_nontrivial"] = len(nontrivial)
    ctx.cov["rule"] = ("E: (request shape, server key, environment, framing) tuples exported by TLC from Gen_Server "
                       "(%d shapes x keys, %d framings: uncut, every single cut, every early close, sampled double cuts); "
                       "non-trivial = the spec's answer involves the key check or a delivery (200/401/503), i.e. the request "
                       "got past the request line and the length checks; plus %d action lists (parse paths) and the random "
                       "streams of J (%d, of which %d delivered actions)" % (len(cases), nfr, len(lists), nreq, delivered))
    ctx.cov["allowed_status_histogram"] = by_status
    ctx.cov["action_lists"] = len(lists)
    ctx.cov["exhaustive"] = False
    for c in cases[:3]:
        ctx.sample({"key": c["key"], "request": "".join(c["wire"]), "segments": c["fr"][1], "allowed": c["allow"][c["idx"][1]]})
    ctx.sample({"list": "".join(lists[0]["list"]), "parse": lists[0]["exp"]["post"]})
    ctx.assumptions += [
        "byte streams are built from the atom vocabulary of FzfServer (cuts at atom boundaries; CR and LF separate); "
        "J adds random bytes but asserts only the invariants",
        "GET with an irregular framing / a length / a body may be answered 200, 401 or 400 (set-valued expectation); "
        "a complete plainly framed GET is exact",
        "segments arrive one per Read (scripted connection, net.Pipe); over real TCP only framings insensitive to "
        "coalescing are sampled; the 10 s read deadline is never waited for (the client closes its write side)",
        "the terminal side (serverInputChan consumer, remote-listener filter applied in Terminal.Loop) is bound only "
        "through processExecution(); the full process path is driven elsewhere",
    ]
    if not ctx.replay:
        from props import c16_proc
        c16_proc.run_part(ctx)
    return "model_checking"
